------------------------------- MODULE Crc64 -------------------------------
(***************************************************************************)
(* CRC-64-AVRO, the 64-bit Rabin fingerprint of the Avro specification     *)
(* ("Schema Fingerprints"), transcribed from the specification's           *)
(* pseudo-code:                                                            *)
(*                                                                         *)
(*   static long EMPTY = 0xc15d213aa4d7a795L;                              *)
(*   void initFPTable() {                                                  *)
(*     for (int i = 0; i < 256; i++) {                                     *)
(*       long fp = i;                                                      *)
(*       for (int j = 0; j < 8; j++)                                       *)
(*         fp = (fp >>> 1) ^ (EMPTY & -(fp & 1L));                         *)
(*       FP_TABLE[i] = fp; } }                                             *)
(*   long fingerprint64(byte[] buf) {                                      *)
(*     long fp = EMPTY;                                                    *)
(*     for (int i = 0; i < buf.length; i++)                                *)
(*       fp = (fp >>> 8) ^ FP_TABLE[(int)(fp ^ buf[i]) & 0xff];            *)
(*     return fp; }                                                        *)
(*                                                                         *)
(* TLC integers are 32-bit, so a 64-bit word is an explicit 4-tuple of     *)
(* 16-bit limbs <<l0, l1, l2, l3>> (l0 = least significant).  Explicit     *)
(* tuples, never [i \in .. |-> ..]: lazy function values carried through   *)
(* the fold would be re-evaluated on every access (measured: minutes per   *)
(* string instead of milliseconds).                                        *)
(***************************************************************************)
EXTENDS Naturals, Sequences, Bitwise, TLC

W64(l0, l1, l2, l3) == <<l0, l1, l2, l3>>

(* 0xC15D 213A A4D7 A795 *)
EMPTY64 == W64(42901, 42199, 8506, 49501)
ZERO64  == W64(0, 0, 0, 0)

Xor64(x, y) == <<x[1] ^^ y[1], x[2] ^^ y[2], x[3] ^^ y[3], x[4] ^^ y[4]>>

(* fp >>> 1 *)
Shr1(x) == << (x[1] \div 2) + (x[2] % 2) * 32768,
              (x[2] \div 2) + (x[3] % 2) * 32768,
              (x[3] \div 2) + (x[4] % 2) * 32768,
              (x[4] \div 2) >>

(* fp >>> 8 *)
Shr8(x) == << (x[1] \div 256) + (x[2] % 256) * 256,
              (x[2] \div 256) + (x[3] % 256) * 256,
              (x[3] \div 256) + (x[4] % 256) * 256,
              (x[4] \div 256) >>

(* EMPTY & -(fp & 1): all ones or all zeroes as mask *)
MaskedEmpty(x) == IF x[1] % 2 = 1 THEN EMPTY64 ELSE ZERO64

TableStep(x) == Xor64(Shr1(x), MaskedEmpty(x))

TableEntry(i) ==
  TableStep(TableStep(TableStep(TableStep(TableStep(TableStep(TableStep(TableStep(W64(i, 0, 0, 0)))))))))

FPTable == TLCEval([i \in 0..255 |-> TLCEval(TableEntry(i))])

(* (int)(fp ^ b) & 0xff *)
Index(fp, b) == (fp[1] % 256) ^^ b

Update(fp, b) == Xor64(Shr8(fp), FPTable[Index(fp, b)])

(* the for-loop over buf[lo..hi].  The running value is forced with TLCEval at every step
   (operator arguments are lazy in TLC); long inputs are split in halves so that the evaluation
   depth stays logarithmic (ASSUMEs and Init are evaluated on a thread with a small stack). *)
RECURSIVE FoldLinear(_, _, _, _)
FoldLinear(fp, buf, i, hi) ==
  IF i > hi THEN fp ELSE FoldLinear(TLCEval(Update(fp, buf[i])), buf, i + 1, hi)

RECURSIVE FoldRange(_, _, _, _)
FoldRange(fp, buf, lo, hi) ==
  IF hi - lo < 16 THEN FoldLinear(fp, buf, lo, hi)
  ELSE LET mid == (lo + hi) \div 2 IN FoldRange(TLCEval(FoldRange(fp, buf, lo, mid)), buf, mid + 1, hi)

(* fingerprint64(buf) as limbs *)
Crc64Avro(buf) == FoldRange(EMPTY64, buf, 1, Len(buf))

(* the 8 bytes of a word, least significant first (single-object encoding, the crate's Rabin digest) *)
LE64(x) == << x[1] % 256, x[1] \div 256, x[2] % 256, x[2] \div 256,
              x[3] % 256, x[3] \div 256, x[4] % 256, x[4] \div 256 >>
BE64(x) == << x[4] \div 256, x[4] % 256, x[3] \div 256, x[3] % 256,
              x[2] \div 256, x[2] % 256, x[1] \div 256, x[1] % 256 >>

RabinBytes(buf) == LE64(Crc64Avro(buf))

(***************************************************************************)
(* Vectors.  EMPTY64 is the specification's constant; the table entries    *)
(* and the fingerprints of "int" / "null" (8247732601305521295 and         *)
(* 7195948357588979594 in the Avro project's schema-tests data) were       *)
(* cross-checked with an independent Python transcription of the           *)
(* pseudo-code.  "hello world" is the crate's doc vector (regression).     *)
(***************************************************************************)
ASSUME Crc64Avro(<<>>) = EMPTY64
ASSUME LE64(EMPTY64) = <<149, 167, 215, 164, 58, 33, 93, 193>>
ASSUME FPTable[0] = ZERO64
ASSUME FPTable[1] = W64(20986, 46931, 52134, 11505)        \* 0x2cf1cba6b75351fa
ASSUME FPTable[128] = EMPTY64
ASSUME FPTable[255] = W64(62896, 21931, 30897, 39481)      \* 0x9a3978b155abf5b0
ASSUME RabinBytes(<<0>>) = <<253, 168, 169, 91, 211, 229, 120, 22>>
ASSUME RabinBytes(<<255>>) = <<77, 93, 2, 14, 98, 157, 65, 140>>
ASSUME RabinBytes(<<34, 105, 110, 116, 34>>) = <<143, 92, 57, 63, 26, 213, 117, 114>>          \* "int"  0x7275d51a3f395c8f
ASSUME RabinBytes(<<34, 110, 117, 108, 108, 34>>) = <<138, 143, 37, 204, 231, 36, 221, 99>>    \* "null" 0x63dd24e7cc258f8a
ASSUME RabinBytes(<<104, 101, 108, 108, 111, 32, 119, 111, 114, 108, 100>>) = <<96, 51, 91, 166, 208, 65, 85, 40>>
=============================================================================
