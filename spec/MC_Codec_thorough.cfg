SPECIFICATION Spec
CONSTANT Tier = "thorough"
INVARIANT Emit
INVARIANT RoundTrip
INVARIANT StreamDenotes
INVARIANT SnappyTrailer
INVARIANT Checksum
INVARIANT DamagedTrailerRejected
INVARIANT Cap
INVARIANT FormatAgreement
INVARIANT FramedDenotes
INVARIANT OverLimitIsError
INVARIANT TruncatedDeflateRejected
INVARIANT Total
CHECK_DEADLOCK FALSE
