SPECIFICATION Spec
CONSTANT Model = "mq"
CONSTANT Threads <- MCThreads
CONSTANT Cells <- MCCells
CONSTANT MaxOps = 2
CONSTANT KeepHistory = TRUE
CONSTANT OpsOf <- MCOpsOf
INVARIANT TypeOK
INVARIANT OneRunner
INVARIANT FirstWins
INVARIANT FirstUseInstallsDefault
INVARIANT Agreement
INVARIANT ExactlyOneSetSucceeds
INVARIANT Emit
PROPERTY WriteOnce
PROPERTY Linearizable
PROPERTY RunnerOwnsCell
CHECK_DEADLOCK TRUE
