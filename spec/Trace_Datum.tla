---------------------------- MODULE Trace_Datum ----------------------------
(***************************************************************************)
(* Judges recorded executions of the real datum writer/reader (harness     *)
(* command `datum-run`).  One ndjson line = one event = one step.          *)
(*                                                                         *)
(* Verdict layer (properties C01, C02) and coverage layer ("drift") are    *)
(* separate: a failed verdict clause is reported as                        *)
(*    VERDICT {"id":..,"fail":[..],"drift":[..]}                           *)
(* and the glue turns `fail` into VIOLATION / KNOWN-FINDING lines.         *)
(***************************************************************************)
EXTENDS AvroBinary, Json, IOUtils

Rec == ndJsonDeserialize(IOEnv.TRACE)

VARIABLE l

If(c, name) == IF c THEN {} ELSE {name}

LayoutFails(e, env) ==
  UNION { LET r == e.lay[i]
              P == ParseAll(r.bytes, e.s, env)
          IN  \* only layouts the independent parser itself accepts as encodings of v are binding
              IF ~(P.ok /\ VEq(P.v, e.v)) THEN {"TOOL:layout-not-an-encoding"}
              ELSE If(r.ok, "C02:layout-rejected")
                   \cup If(~r.ok \/ VEq(r.v, e.v), "C02:layout-decoded-differently")
                   \cup If(~r.ok \/ r.consumed = Len(r.bytes), "C02:layout-consumed")
                   \cup If(~r.panic, "C05:panic")
        : i \in 1..Len(e.lay) }

Judge(e) ==
  IF ~e.parse_ok THEN [fail |-> {}, drift |-> {"schema-not-accepted"}]
  ELSE
  LET env  == Defs(e.s)
      wire == e.enc_v.wire
      P    == ParseAll(wire, e.s, env)
      fail ==
        If(Conforms(e.v, e.s, env), "TOOL:generated-value-not-conforming")
        \cup If(e.enc_v.ok, "C01:encode-failed")
        \cup If(e.enc_u.ok, "C01:encode-unvalidated-failed")
        \cup If(~(e.enc_v.ok /\ e.enc_u.ok) \/ e.enc_v.wire = e.enc_u.wire, "C01:validate-changes-bytes")
        \cup If(~e.enc_v.ok \/ e.dec.ok, "C01:decode-failed")
        \cup If(~e.dec.ok \/ VEq(e.dec.v, e.v), "C01:roundtrip-differs")
        \cup If(~e.dec.ok \/ e.dec.consumed = Len(wire), "C01:consumed-differs")
        \cup If(~e.enc_v.ok \/ (e.dec2.ok /\ VEq(e.dec2.v, e.v) /\ e.dec2.consumed = 2 * Len(wire)),
                "C01:concatenated-second-datum")
        \cup If(~e.enc_v.ok \/ P.ok, "C02:independent-parse-failed")
        \cup If(~(e.enc_v.ok /\ P.ok) \/ VEq(P.v, e.v), "C02:independent-parse-differs")
        \cup If(~(e.enc_v.panic \/ e.enc_u.panic \/ e.dec.panic \/ e.dec2.panic \/ e.enc_s.panic), "C01:panic")
        \* a Decimal written through the serde path: either refused, or the same number in the prescribed layout
        \cup (IF ~e.enc_s.ok THEN {}
              ELSE LET PS == ParseAll(e.enc_s.wire, e.s, env) IN
                   If(PS.ok /\ VEq(PS.v, e.v), "C02:serde-written-decimal-is-another-number"))
        \cup LayoutFails(e, env)
      drift ==
        If(~(e.enc_v.ok /\ P.ok) \/ Enc(P.v, e.s, env) = wire, "writer-layout-not-single-block")
  IN [fail |-> fail, drift |-> drift]

Init == l = 1
Next == /\ l <= Len(Rec)
        /\ LET e == Rec[l]  r == Judge(e) IN
             IF r.fail = {} /\ r.drift = {} THEN TRUE
             ELSE PrintT("VERDICT " \o ToJson([id |-> e.id, fail |-> r.fail, drift |-> r.drift]))
        /\ l' = l + 1

Consumed == IF TLCGet("stats").diameter = Len(Rec) + 1 THEN PrintT("CONSUMED " \o ToString(Len(Rec)))
            ELSE PrintT("UNCONSUMED " \o ToString(TLCGet("stats").diameter)) /\ FALSE
=============================================================================
