SPECIFICATION Spec
CONSTANT MaxLen = 3
INVARIANT DecodedConforms
INVARIANT ReencodeStable
INVARIANT PositionSane
CHECK_DEADLOCK FALSE
