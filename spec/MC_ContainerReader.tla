-------------------------- MODULE MC_ContainerReader --------------------------
EXTENDS ContainerReader
(* block shapes: count varint of 1 or 2 bytes; zero / some items *)
MCBlocks == << [count |-> 3, cbytes |-> 1, rest |-> 20], [count |-> 4, cbytes |-> 2, rest |-> 18],
               [count |-> 0, cbytes |-> 1, rest |-> 17], [count |-> 1, cbytes |-> 2, rest |-> 25] >>
=============================================================================
