SPECIFICATION Spec
CONSTANT Mode = "faithful"
CONSTANT K = 2
CONSTANT KW = 0
CONSTANT KB = 0
CONSTANT EmitScn = FALSE
INVARIANT MatchesDeclarative
CHECK_DEADLOCK FALSE
