-------------------------- MODULE ResolveUniverse --------------------------
(***************************************************************************)
(* Seed writer schemas and bounded value sets for the resolution and       *)
(* compatibility models (C08, C09).                                        *)
(*   Seeds            the ~40 writer schemas evolution sequences start at  *)
(*   RVals(s, env, fuel, full)  conforming boundary values of s: full      *)
(*        boundary sets at a leaf root, promotion-critical pairs below     *)
(*        (2^24+1 for float, 2^53+1 for double, a long outside i32, a      *)
(*        double outside float range, non-UTF-8 bytes, every enum symbol,  *)
(*        every union branch); records combine their fields' values        *)
(*        diagonally; fuel bounds the unfolding of recursive references.   *)
(***************************************************************************)
EXTENDS Resolve, Universe

F(n, ty) == FldD(n, ty, <<>>, FALSE, JNull)
FDf(n, ty, dj) == FldD(n, ty, <<>>, TRUE, dj)
Rc(n, fs) == [k |-> "record", name |-> n, fields |-> fs]
En(n, syms) == [k |-> "enum", name |-> n, symbols |-> syms, hasdef |-> FALSE, def |-> ""]
Fx(n, z) == [k |-> "fixed", name |-> n, size |-> z]
Arr(x) == [k |-> "array", items |-> x]
Mp(x) == [k |-> "map", values |-> x]
Un(bs) == UnionOf(bs)
RefS(n) == [k |-> "ref", name |-> n]

E3 == En("ns.E", <<"A", "B", "C">>)
F2 == Fx("ns.F2", 2)
RecA == Rc("ns.A", <<F("x", PrimS("int"))>>)
RecB == Rc("ns.B", <<F("x", PrimS("int"))>>)

SeedLeaves ==
  {PrimS(k) : k \in {"int", "long", "float", "double", "string", "bytes", "date", "timestamp-millis", "boolean"}}
  \cup {F2, E3}

SeedContainers ==
  { Arr(PrimS("int")), Mp(PrimS("long")), Arr(PrimS("string")), Arr(E3),
    Un(<<PrimS("null"), PrimS("int")>>), Un(<<PrimS("int"), PrimS("string")>>),
    Un(<<PrimS("null"), PrimS("long"), PrimS("string")>>), Un(<<PrimS("null"), E3>>),
    Un(<<PrimS("long"), PrimS("double")>>), Un(<<RecA, RecB>>), Un(<<PrimS("bytes"), PrimS("null")>>) }

SeedRecords ==
  { Rc("ns.R0", <<>>),
    Rc("ns.R1", <<F("a", PrimS("int"))>>),
    Rc("ns.R2", <<F("a", PrimS("int")), F("b", PrimS("string"))>>),
    Rc("ns.R3", <<F("a", PrimS("long")), F("b", PrimS("bytes")), F("c", E3)>>),
    Rc("ns.R4", <<F("a", PrimS("double")), F("b", PrimS("float"))>>),
    Rc("ns.R5", <<F("a", PrimS("date")), F("b", PrimS("timestamp-millis"))>>),
    Rc("ns.R6", <<F("u", Un(<<PrimS("null"), PrimS("int")>>))>>),
    Rc("ns.R7", <<F("xs", Arr(PrimS("long")))>>),
    Rc("ns.R8", <<F("m", Mp(PrimS("string")))>>),
    Rc("ns.R9", <<F("e", E3), F("f", F2)>>),
    Rc("ns.RD", <<FDf("a", PrimS("int"), JInt(1)), F("b", PrimS("string"))>>),
    Rc("ns.RA", <<F("a", Arr(Rc("ns.S", <<F("p", PrimS("int")), F("q", PrimS("long"))>>)))>>),
    Rc("ns.RU", <<F("u", Un(<<RecA, RecB>>)), F("k", PrimS("long"))>>),
    \* an enum-typed field that has a FIELD default while the enum has no default of its own: a written symbol the
    \* reader's enum lacks is an error (the field default is for a missing field, not for an unknown symbol);
    \* inline and through a reference
    Rc("ns.RE", <<FDf("e", E3, JStr("A", <<65>>)), F("k", PrimS("int"))>>),
    Rc("ns.RG", <<F("d", E3), FDf("e", RefS("ns.E"), JStr("B", <<66>>))>>),
    \* sibling positions with different logical types (a verdict or a result must not leak from one to the next)
    Rc("ns.RS", <<F("a", PrimS("date")), F("b", PrimS("timestamp-micros")), F("c", PrimS("time-millis"))>>),
    Rc("ns.RM", <<F("a", Mp(PrimS("date"))), F("b", Arr(PrimS("timestamp-micros")))>>) }

(* a named type defined in one field and referenced in another; recursive shapes *)
SeedNamed ==
  { Rc("ns.RO", <<F("i", Rc("ns.I", <<F("x", PrimS("long"))>>)), F("j", RefS("ns.I"))>>),
    Rc("ns.RN", <<F("a", Fx("ns.N", 2)), F("b", RefS("ns.N"))>>),
    Rc("ns.RQ", <<F("a", E3), F("b", Arr(RefS("ns.E")))>>),
    Rc("ns.RL", <<F("v", PrimS("int")), F("next", Un(<<PrimS("null"), RefS("ns.RL")>>))>>),
    Rc("ns.RT", <<F("w", PrimS("long")), F("kids", Arr(RefS("ns.RT")))>>) }

Seeds == SeedLeaves \cup SeedContainers \cup SeedRecords \cup SeedNamed
(* seeds explored to MaxSteps (the others to one step): a few in the quick tier, a third of them in the thorough tier *)
QuickDeepSeeds ==
  { PrimS("long"), E3, Un(<<PrimS("null"), PrimS("int")>>),
    Rc("ns.R2", <<F("a", PrimS("int")), F("b", PrimS("string"))>>) }
ThoroughDeepSeeds ==
  QuickDeepSeeds \cup
  { PrimS("int"), PrimS("bytes"), F2, Arr(PrimS("int")), Mp(PrimS("long")), Un(<<RecA, RecB>>),
    Rc("ns.R5", <<F("a", PrimS("date")), F("b", PrimS("timestamp-millis"))>>),
    Rc("ns.R6", <<F("u", Un(<<PrimS("null"), PrimS("int")>>))>>),
    Rc("ns.R9", <<F("e", E3), F("f", F2)>>),
    Rc("ns.RO", <<F("i", Rc("ns.I", <<F("x", PrimS("long"))>>)), F("j", RefS("ns.I"))>>),
    Rc("ns.RN", <<F("a", Fx("ns.N", 2)), F("b", RefS("ns.N"))>>),
    Rc("ns.RL", <<F("v", PrimS("int")), F("next", Un(<<PrimS("null"), RefS("ns.RL")>>))>>) }
(* ... and these small ones to three steps in the thorough tier *)
ThreeStepSeeds == { PrimS("int"), E3 }

RThin(s) ==
  CASE s.k \in IntKinds -> {[t |-> s.k, n |-> x] : x \in {NegNatToLE8(1), NatToLE8(16777217)}}
    [] s.k \in LongKinds -> {[t |-> s.k, n |-> x] : x \in {NatToLE8(64), <<1,0,0,0,0,0,32,0>>}}
    [] s.k = "float" -> {[t |-> "float", bits |-> x] : x \in {<<0,0,128,63>>, <<1,0,0,0>>}}
    [] s.k = "double" -> {[t |-> "double", bits |-> x] : x \in {<<0,0,0,0,0,0,240,63>>, <<0,0,0,240,255,255,239,71>>}}
    [] s.k = "bytes" -> {[t |-> "bytes", b |-> x] : x \in {<<65, 66, 67, 68>>, <<128, 0, 255, 127>>}}
    [] s.k = "string" -> {[t |-> "string", b |-> x] : x \in {<<>>, <<226, 130, 172>>}}
    [] s.k = "enum" -> LeafVals(s, TRUE)
    [] OTHER -> LeafVals(s, FALSE)

MaxLen(q) == LET S == {Len(q[i]) : i \in 1..Len(q)} IN CHOOSE m \in S : \A x \in S : x <= m

RECURSIVE RVals(_, _, _, _)
RVals(s0, env, fuel, full) ==
  IF s0.k = "ref" /\ fuel = 0 THEN {}
  ELSE
  LET s == Deref(s0, env)
      fu == IF s0.k = "ref" THEN fuel - 1 ELSE fuel IN
  CASE s.k = "union" ->
         UNION {{[t |-> "union", i |-> i - 1, v |-> x] : x \in RVals(s.branches[i], env, fu, FALSE)}
                : i \in 1..Len(s.branches)}
    [] s.k = "array" ->
         LET iv == RVals(s.items, env, fu, FALSE)  q == SetToSeq(iv) IN
         {[t |-> "array", items |-> <<>>]} \cup {[t |-> "array", items |-> <<x>>] : x \in iv}
         \cup (IF Len(q) >= 2 THEN {[t |-> "array", items |-> <<q[1], q[2]>>]} ELSE {})
    [] s.k = "map" ->
         LET iv == RVals(s.values, env, fu, FALSE)  q == SetToSeq(iv) IN
         {[t |-> "map", entries |-> <<>>]} \cup {[t |-> "map", entries |-> << <<K1, x>> >>] : x \in iv}
         \cup (IF Len(q) >= 2 THEN {[t |-> "map", entries |-> << <<K2, q[1]>>, <<K1, q[2]>> >>]} ELSE {})
    [] s.k = "record" ->
         IF Len(s.fields) = 0 THEN {[t |-> "record", fields |-> <<>>]}
         ELSE LET fv == TLCEval([i \in 1..Len(s.fields) |-> SetToSeq(RVals(s.fields[i].type, env, fu, FALSE))]) IN
              IF \E i \in 1..Len(fv) : Len(fv[i]) = 0 THEN {}
              ELSE {[t |-> "record", fields |->
                       [i \in 1..Len(s.fields) |-> <<s.fields[i].name, fv[i][((j - 1) % Len(fv[i])) + 1]>>]]
                    : j \in 1..MaxLen(fv)}
    [] OTHER -> IF full THEN LeafVals(s, TRUE) ELSE RThin(s)

ValsOf(W) == RVals(W, Defs(W), 2, TRUE)
=============================================================================
