SPECIFICATION Spec
CONSTANTS
  MaxMut = 1
  Deep = {1, 13, 16, 27}
  Wide = FALSE
INVARIANT Sane
VIEW View
CHECK_DEADLOCK FALSE
