------------------------------ MODULE Universe ------------------------------
(***************************************************************************)
(* The bounded, structured universe of schemas and boundary values that    *)
(* TLC enumerates exhaustively (properties C01, C02, C06, C07, C16).       *)
(* Schemas are built by grammar; values per leaf are boundary sets: every  *)
(* first/last value of each varint length, 32/64-bit extremes, IEEE        *)
(* specials, empty / one / multi-byte strings, negative / maximal-width    *)
(* decimals, ...                                                           *)
(***************************************************************************)
EXTENDS AvroBinary

(***************************************************************************)
(* 64-bit constants as LE8.                                                *)
(***************************************************************************)
Pow2LE8(k)   == [j \in 1..8 |-> IF j - 1 = k \div 8 THEN P2(k % 8) ELSE 0]
Pow2M1LE8(k) == [j \in 1..8 |-> IF j - 1 < k \div 8 THEN 255
                                ELSE IF j - 1 = k \div 8 THEN P2(k % 8) - 1 ELSE 0]
NegPow2LE8(k) == [j \in 1..8 |-> IF j - 1 < k \div 8 THEN 0
                                 ELSE IF j - 1 = k \div 8 THEN 256 - P2(k % 8) ELSE 255]
NegPow2M1LE8(k) == [j \in 1..8 |-> 255 - Pow2LE8(k)[j]]          \* -(2^k) - 1 = ~(2^k)
Edge(k) == {Pow2M1LE8(k), Pow2LE8(k), NegPow2LE8(k), NegPow2M1LE8(k)}

I32Max == <<255, 255, 255, 127, 0, 0, 0, 0>>
I32Min == <<0, 0, 0, 128, 255, 255, 255, 255>>
I64Max == <<255, 255, 255, 255, 255, 255, 255, 127>>
I64Min == <<0, 0, 0, 0, 0, 0, 0, 128>>

IntFull  == {NatToLE8(0), NatToLE8(1), NegNatToLE8(1), I32Max, I32Min}
            \cup UNION {Edge(k) : k \in {6, 13, 20, 27}}
LongFull == IntFull \cup UNION {Edge(k) : k \in {31, 34, 41, 48, 55, 62}} \cup {I64Max, I64Min}
IntThin  == {NegNatToLE8(1), NatToLE8(64), I32Min}
LongThin == {NatToLE8(0), NegPow2M1LE8(34), I64Max}

FloatFull == { <<0,0,0,0>>, <<0,0,0,128>>, <<0,0,128,127>>, <<0,0,128,255>>, <<0,0,192,127>>,
               <<1,0,160,127>>, <<52,18,192,255>>, <<1,0,0,0>>, <<0,0,128,63>>, <<255,255,127,127>> }
DoubleFull == { <<0,0,0,0,0,0,0,0>>, <<0,0,0,0,0,0,0,128>>, <<0,0,0,0,0,0,240,127>>, <<0,0,0,0,0,0,240,255>>,
                <<0,0,0,0,0,0,248,127>>, <<1,0,0,0,0,0,244,127>>, <<239,190,173,222,0,0,248,255>>,
                <<1,0,0,0,0,0,0,0>>, <<0,0,0,0,0,0,240,63>> }
BytesFull == { <<>>, <<0>>, <<255>>, <<1, 2, 3>>, <<128, 0, 255, 127>> }
StrFull == { <<>>, <<97>>, <<102,111,111>>, <<195,169>>, <<226,130,172>>, <<240,159,152,128>>, <<0>>, <<34,92>> }
DecFull == { <<0>>, <<255>>, <<128>>, <<127>>, <<1, 44>>, <<255, 133>>, <<128, 0>>, <<127, 255>> }

Thin(S) == IF Cardinality(S) <= 2 THEN S
           ELSE LET a == CHOOSE x \in S : TRUE
                    b == CHOOSE x \in S \ {a} : TRUE IN {a, b}

(***************************************************************************)
(* Leaves.                                                                 *)
(***************************************************************************)
Prim(k) == [k |-> k]
FixedS(n, z) == [k |-> "fixed", name |-> n, size |-> z]
EnumS(n) == [k |-> "enum", name |-> n, symbols |-> <<"A", "B", "C">>]
DecB == [k |-> "decimal", base |-> "bytes", precision |-> 10, scale |-> 2]
DecF(n, z) == [k |-> "decimal", base |-> "fixed", name |-> n, size |-> z, precision |-> 4, scale |-> 1]
UuidS == [k |-> "uuid", base |-> "string"]
UuidB == [k |-> "uuid", base |-> "bytes"]
UuidF(n) == [k |-> "uuid", base |-> "fixed", name |-> n, size |-> 16]
DurS(n) == [k |-> "duration", name |-> n, size |-> 12]

LogicalNumLeaves == {Prim(k) : k \in (IntKinds \cup LongKinds) \ {"int", "long"}}
Leaves == {Prim(k) : k \in PrimKinds} \cup LogicalNumLeaves
          \cup { FixedS("ns.F0", 0), FixedS("F2", 2), EnumS("ns.E"), DecB, DecF("ns.D2", 2), DecF("D1", 1),
                 UuidS, UuidB, UuidF("ns.U"), DurS("ns.Du"), Prim("big-decimal") }
(* a small representative subset used below the root *)
CoreLeaves == {Prim("null"), Prim("boolean"), Prim("int"), Prim("long"), Prim("double"), Prim("string"),
               Prim("bytes"), FixedS("F2", 2), EnumS("ns.E"), DecF("ns.D2", 2)}

U1 == <<16,17,18,19,20,21,22,23,24,25,26,27,28,29,30,31>>
U2 == <<85,14,132,0,226,155,65,212,167,22,68,102,85,68,0,0>>

RECURSIVE Vals(_, _, _)
(* conforming values of s; full = boundary sets, otherwise two or three representatives *)
LeafVals(s, full) ==
  CASE s.k = "null" -> {[t |-> "null"]}
    [] s.k = "boolean" -> {[t |-> "boolean", bool |-> TRUE], [t |-> "boolean", bool |-> FALSE]}
    [] s.k \in IntKinds -> {[t |-> s.k, n |-> x] : x \in IF full THEN IntFull ELSE IntThin}
    [] s.k \in LongKinds -> {[t |-> s.k, n |-> x] : x \in IF full THEN LongFull ELSE LongThin}
    [] s.k = "float" -> {[t |-> "float", bits |-> x] : x \in IF full THEN FloatFull ELSE Thin(FloatFull)}
    [] s.k = "double" -> {[t |-> "double", bits |-> x] : x \in IF full THEN DoubleFull ELSE Thin(DoubleFull)}
    [] s.k = "bytes" -> {[t |-> "bytes", b |-> x] : x \in IF full THEN BytesFull ELSE {<<>>, <<128, 0, 255, 127>>}}
    [] s.k = "string" -> {[t |-> "string", b |-> x] : x \in IF full THEN StrFull ELSE {<<>>, <<226,130,172>>}}
    [] s.k = "fixed" -> {[t |-> "fixed", b |-> [i \in 1..s.size |-> 255]],
                         [t |-> "fixed", b |-> [i \in 1..s.size |-> i]]}
    [] s.k = "enum" -> {[t |-> "enum", i |-> i - 1, sym |-> s.symbols[i]] :
                           i \in IF full THEN 1..Len(s.symbols) ELSE {Len(s.symbols)}}
    [] s.k = "decimal" ->
         {[t |-> "decimal", b |-> x] : x \in {y \in (IF full THEN DecFull ELSE {<<255>>, <<1, 44>>}) :
                                               s.base = "bytes" \/ BEFits(y, s.size)}}
    [] s.k = "uuid" -> {[t |-> "uuid", b |-> U1], [t |-> "uuid", b |-> U2]}
    [] s.k = "duration" -> {[t |-> "duration", b |-> <<1,0,0,0, 2,0,0,0, 3,0,0,0>>],
                            [t |-> "duration", b |-> <<255,255,255,255, 0,0,0,128, 255,255,255,127>>]}
    [] s.k = "big-decimal" ->
         {[t |-> "big-decimal", unscaled |-> <<1, 44>>, scale |-> NatToLE8(2)],
          [t |-> "big-decimal", unscaled |-> <<255>>, scale |-> NegNatToLE8(3)],
          [t |-> "big-decimal", unscaled |-> <<0>>, scale |-> NatToLE8(0)]}

K1 == <<107>>            \* "k"
K2 == <<195, 169>>       \* "é"

(* all sequences over S of length 0..n as tuples *)
SeqsUpTo(S, n) == UNION {[1..m -> S] : m \in 0..n}

Vals(s0, env, full) ==
  LET s == Deref(s0, env) IN
  CASE s.k = "array" ->
         LET iv == Vals(s.items, env, FALSE) IN
         {[t |-> "array", items |-> q] : q \in SeqsUpTo(Thin(iv), 2)}
         \cup (IF full THEN {[t |-> "array", items |-> [i \in 1..3 |-> CHOOSE x \in iv : TRUE]]} ELSE {})
    [] s.k = "map" ->
         LET iv == Thin(Vals(s.values, env, FALSE)) IN
         {[t |-> "map", entries |-> <<>>]}
         \cup {[t |-> "map", entries |-> << <<K1, x>> >>] : x \in iv}
         \cup {[t |-> "map", entries |-> << <<K2, x>>, <<K1, y>> >>] : x \in iv, y \in iv}
    [] s.k = "union" ->
         UNION {{[t |-> "union", i |-> i - 1, v |-> x] : x \in Thin(Vals(s.branches[i], env, FALSE))}
                : i \in 1..Len(s.branches)}
    [] s.k = "record" ->
         IF Len(s.fields) = 0 THEN {[t |-> "record", fields |-> <<>>]}
         ELSE IF Len(s.fields) = 1
         THEN {[t |-> "record", fields |-> << <<s.fields[1].name, x>> >>] :
                  x \in Vals(s.fields[1].type, env, FALSE)}
         ELSE {[t |-> "record", fields |-> << <<s.fields[1].name, x>>, <<s.fields[2].name, y>> >>] :
                  x \in Thin(Vals(s.fields[1].type, env, FALSE)),
                  y \in Thin(Vals(s.fields[2].type, env, FALSE))}
    [] OTHER -> LeafVals(s, full)

(***************************************************************************)
(* Composite schemas by grammar.                                           *)
(***************************************************************************)
Fld(n, ty) == [name |-> n, type |-> ty]
RecS(n, fs) == [k |-> "record", name |-> n, fields |-> fs]
Ref(n) == [k |-> "ref", name |-> n]

UnionClass(s) == CASE s.k \in IntKinds -> "int" [] s.k \in LongKinds -> "long"
                   [] s.k \in {"bytes", "big-decimal"} -> "bytes"
                   [] s.k \in {"decimal", "uuid"} -> IF s.base = "fixed" THEN s.name ELSE s.base
                   [] s.k \in {"record", "enum", "fixed", "duration", "ref"} -> s.name
                   [] OTHER -> s.k

Unions2(S) == {[k |-> "union", branches |-> <<a, b>>] : a \in S, b \in S}
Unions(S) == {u \in Unions2(S) : UnionClass(u.branches[1]) # UnionClass(u.branches[2])}
UnionsNull3(S) == { [k |-> "union", branches |-> <<a, Prim("null"), b>>] :
                      a \in S \ {Prim("null")}, b \in S \ {Prim("null")} }

Over(S) ==
     {[k |-> "array", items |-> x] : x \in S}
  \cup {[k |-> "map", values |-> x] : x \in S}

Depth1 ==
  Over(Leaves)
  \cup Unions(CoreLeaves)
  \cup {[k |-> "union", branches |-> <<x>>] : x \in Leaves}
  \cup {u \in UnionsNull3(CoreLeaves) : UnionClass(u.branches[1]) # UnionClass(u.branches[3])}
  \cup {RecS("ns.R", <<>>)}
  \cup {RecS("ns.R", <<Fld("a", x)>>) : x \in Leaves}
  \cup {RecS("R", <<Fld("a", x), Fld("b", y)>>) : x \in CoreLeaves, y \in {Prim("long"), Prim("string"), EnumS("ns.E")}}

(* named type defined once, then referenced; recursive shapes *)
Special ==
  { RecS("ns.R", <<Fld("a", FixedS("ns.F", 2)), Fld("b", Ref("ns.F"))>>),
    RecS("R", <<Fld("a", EnumS("E")), Fld("b", [k |-> "array", items |-> Ref("E")])>>),
    RecS("ns.L", <<Fld("v", Prim("int")),
                   Fld("next", [k |-> "union", branches |-> <<Prim("null"), Ref("ns.L")>>])>>),
    RecS("ns.T", <<Fld("kids", [k |-> "array", items |-> Ref("ns.T")])>>),
    RecS("a.b.M", <<Fld("m", [k |-> "map", values |-> [k |-> "union", branches |-> <<Prim("null"), Ref("a.b.M")>>]])>>),
    RecS("ns.O", <<Fld("i", RecS("ns.sub.I", <<Fld("x", Prim("long"))>>)), Fld("j", Ref("ns.sub.I"))>>),
    RecS("O", <<Fld("i", RecS("ns.I", <<Fld("f", FixedS("ns.G", 1))>>)), Fld("g", Ref("ns.G"))>>) }

Depth2Sample ==
  Over({[k |-> "array", items |-> Prim("long")], [k |-> "map", values |-> Prim("string")],
        [k |-> "union", branches |-> <<Prim("null"), Prim("long")>>],
        [k |-> "union", branches |-> <<Prim("string"), Prim("null"), FixedS("F2", 2)>>],
        RecS("ns.R", <<Fld("a", Prim("int")), Fld("b", Prim("string"))>>),
        RecS("ns.R", <<Fld("a", [k |-> "union", branches |-> <<Prim("null"), DecF("ns.D2", 2)>>])>>)})
  \cup {RecS("ns.R", <<Fld("a", x)>>) : x \in Over(CoreLeaves) \cup Unions({Prim("null"), Prim("long"), Prim("string"), EnumS("ns.E")})}
  \cup {[k |-> "union", branches |-> <<Prim("null"), x>>] : x \in Over(CoreLeaves)}

(* vals of the recursive shapes are hand-bounded: Vals recurses through refs, so give a fuel-limited form *)
RECURSIVE ValsFuel(_, _, _, _)
ValsFuel(s0, env, full, fuel) ==
  LET s == Deref(s0, env) IN
  IF s.k = "union"
  THEN UNION {{[t |-> "union", i |-> i - 1, v |-> x] :
                  x \in IF fuel = 0 /\ s.branches[i].k = "ref" THEN {}
                        ELSE Thin(ValsFuel(s.branches[i], env, FALSE, IF s.branches[i].k = "ref" THEN fuel - 1 ELSE fuel))}
              : i \in 1..Len(s.branches)}
  ELSE IF s.k = "array"
  THEN LET iv == IF fuel = 0 /\ s.items.k = "ref" THEN {}
                 ELSE Thin(ValsFuel(s.items, env, FALSE, IF s.items.k = "ref" THEN fuel - 1 ELSE fuel)) IN
       {[t |-> "array", items |-> q] : q \in SeqsUpTo(iv, 2)}
  ELSE IF s.k = "map"
  THEN LET iv == IF fuel = 0 THEN {} ELSE Thin(ValsFuel(s.values, env, FALSE, fuel - 1)) IN
       {[t |-> "map", entries |-> <<>>]} \cup {[t |-> "map", entries |-> << <<K1, x>> >>] : x \in iv}
  ELSE IF s.k = "record"
  THEN IF Len(s.fields) = 1
       THEN {[t |-> "record", fields |-> << <<s.fields[1].name, x>> >>] : x \in ValsFuel(s.fields[1].type, env, FALSE, fuel)}
       ELSE {[t |-> "record", fields |-> << <<s.fields[1].name, x>>, <<s.fields[2].name, y>> >>] :
                x \in Thin(ValsFuel(s.fields[1].type, env, FALSE, fuel)),
                y \in Thin(ValsFuel(s.fields[2].type, env, FALSE, fuel))}
  ELSE LeafVals(s, full)

(***************************************************************************)
(* Layout modes explored for the reader direction of C02.                  *)
(***************************************************************************)
B(n, neg) == [n |-> n, neg |-> neg]
Modes == << [blocks |-> <<B(0, TRUE)>>, rev |-> FALSE],
            [blocks |-> <<B(1, FALSE)>>, rev |-> FALSE],
            [blocks |-> <<B(1, TRUE)>>, rev |-> TRUE],
            [blocks |-> <<B(1, TRUE), B(2, FALSE)>>, rev |-> FALSE],
            [blocks |-> <<B(2, FALSE), B(1, TRUE)>>, rev |-> TRUE],
            [blocks |-> <<B(2, TRUE)>>, rev |-> FALSE] >>
=============================================================================
