SPECIFICATION Spec
CONSTANT Mode = "intended"
CONSTANT K = 3
CONSTANT KW = 2
CONSTANT KB = 1
CONSTANT EmitScn = FALSE
INVARIANT Confluent
INVARIANT MatchesDeclarative
INVARIANT InputOrderPreserved
INVARIANT ResultIsMeaning
CHECK_DEADLOCK FALSE
