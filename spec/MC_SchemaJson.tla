--------------------------- MODULE MC_SchemaJson ---------------------------
(***************************************************************************)
(* Bounded model of schema JSON documents under irrelevant edits.          *)
(*                                                                         *)
(* State: a seed tree `base`, the current tree `t` obtained from it by at  *)
(* most MaxEdits irrelevant-edit actions.  TLC checks on every reachable   *)
(* tree that the specification's canonical form is unchanged by the edits, *)
(* that canonicalising a canonical form is the identity, that the          *)
(* canonical form has no duplicate keys / only the seven kept keys, and    *)
(* (C10) that the reference renderer and reader are inverse to each other. *)
(* Every reachable (base, t) is emitted as a scenario for the harness.     *)
(***************************************************************************)
EXTENDS SchemaJson, Json

CONSTANTS MaxEdits,        \* 0..2
          SeedSet          \* "all" | "small"

(***************************************************************************)
(* building trees from TLA+ strings: printable ASCII -> code               *)
(***************************************************************************)
Ascii == " !\"#$%&'()*+,-./0123456789:;<=>?@ABCDEFGHIJKLMNOPQRSTUVWXYZ[\\]^_`abcdefghijklmnopqrstuvwxyz{|}~"
Code(c) == 31 + (CHOOSE i \in 1..Len(Ascii) : SubSeq(Ascii, i, i) = c)
U(s) == [i \in 1..Len(s) |-> Code(SubSeq(s, i, i))]
S(s) == JStr(s, U(s))

ASSUME U("a.Z\"\\~ ") = <<97, 46, 90, 34, 92, 126, 32>>
ASSUME \A p \in PrimNames \cup {"record", "enum", "fixed", "array", "map"} : TypeStr(p) = S(p)
ASSUME LogicalStr("time-micros") = S("time-micros") /\ LogicalStr("big-decimal") = S("big-decimal")
ASSUME DocStr = S("a doc") /\ Str_desc = S("descending") /\ AliasArr.items[2] = S("x.y.Old2")

T(k) == <<"type", S(k)>>
Nm(n) == <<"name", S(n)>>
Ns(n) == <<"namespace", S(n)>>
Field(n, ty) == JObj(<<Nm(n), <<"type", ty>>>>)
Rec(name, fields) == JObj(<<T("record"), Nm(name), <<"fields", JArr(fields)>>>>)
RecNs(name, ns, fields) == JObj(<<T("record"), Nm(name), Ns(ns), <<"fields", JArr(fields)>>>>)
Enum(name, syms) == JObj(<<T("enum"), Nm(name), <<"symbols", JArr([i \in 1..Len(syms) |-> S(syms[i])])>>>>)
Fixed(name, size) == JObj(<<T("fixed"), Nm(name), <<"size", JInt(size)>>>>)
FixedNs(name, ns, size) == JObj(<<T("fixed"), Ns(ns), Nm(name), <<"size", JInt(size)>>>>)
Arr(items) == JObj(<<T("array"), <<"items", items>>>>)
Map(values) == JObj(<<T("map"), <<"values", values>>>>)
Logical(base, lt) == JObj(<<T(base), <<"logicalType", S(lt)>>>>)
Dec(p, sc) == JObj(<<T("bytes"), <<"logicalType", S("decimal")>>, <<"precision", JInt(p)>>, <<"scale", JInt(sc)>>>>)
FixedLogical(name, size, lt) == JObj(<<T("fixed"), Nm(name), <<"size", JInt(size)>>, <<"logicalType", S(lt)>>>>)
FixedDec(name, size, p, sc) ==
  JObj(<<T("fixed"), Nm(name), <<"size", JInt(size)>>, <<"logicalType", S("decimal")>>, <<"precision", JInt(p)>>, <<"scale", JInt(sc)>>>>)


(***************************************************************************)
(* The specification's own example (section "Names"): "The fullname is     *)
(* 'Simple'", "'explicit.Simple'", "'a.full.Name', and the namespace is    *)
(* 'a.full'", "'a.full.Understanding'".                                    *)
(***************************************************************************)
SpecNamesExample ==
  Rec("Example", <<
    Field("inheritNull", Enum("Simple", <<"a", "b">>)),
    Field("explicitNamespace", FixedNs("Simple", "explicit", 12)),
    Field("fullName", RecNs("a.full.Name", "ignored", <<
        Field("inheritNamespace", Enum("Understanding", <<"d", "e">>))>>))>>)

ASSUME DefinedNames(SpecNamesExample) = {U("Example"), U("Simple"), U("explicit.Simple"), U("a.full.Name"), U("a.full.Understanding")}
ASSUME Meaning(SpecNamesExample).fields[3].type.fields[1].type.name = U("a.full.Understanding")

(* worked examples of the canonical-form rules (in the style of the Avro project's schema-tests data) *)
ASSUME PCF(JObj(<<T("null")>>)) = S("null")
ASSUME PCF(JObj(<<T("fixed"), Nm("Test"), <<"size", JInt(1)>>>>)) = JObj(<<Nm("Test"), T("fixed"), <<"size", JInt(1)>>>>)
ASSUME PCF(Arr(JObj(<<T("long")>>))) = JObj(<<T("array"), <<"items", S("long")>>>>)
ASSUME PCF(JObj(<<Ns("x.y"), T("enum"), Nm("E"), <<"doc", S("d")>>, <<"symbols", JArr(<<S("A")>>)>>>>))
         = JObj(<<Nm("x.y.E"), T("enum"), <<"symbols", JArr(<<S("A")>>)>>>>)
ASSUME PCF(Rec("ns.int", <<Field("value", S("int")), Field("next", JArr(<<S("null"), S("ns.int")>>))>>))
         = JObj(<<Nm("ns.int"), T("record"), <<"fields", JArr(<<Field("value", S("int")), Field("next", JArr(<<S("null"), S("ns.int")>>))>>)>>>>)
ASSUME PCF(Logical("int", "date")) = S("int")
ASSUME PCF(Dec(4, 2)) = S("bytes")
ASSUME TextBytes(PCF(JObj(<<T("fixed"), Nm("a.Test"), <<"size", JInt(160)>>>>))) = U("{\"name\":\"a.Test\",\"type\":\"fixed\",\"size\":160}")
ASSUME TextBytes(PCF(JArr(<<S("null"), Arr(S("int"))>>))) = U("[\"null\",{\"type\":\"array\",\"items\":\"int\"}]")
ASSUME TextBytes(PCF(Rec("R", <<>>))) = U("{\"name\":\"R\",\"type\":\"record\",\"fields\":[]}")
(* ... and what the named deviations (known findings) make of them *)
ASSUME PCFd(Logical("int", "date"), NoNs, {"C12-logical-primitive-object"}) = JObj(<<T("int")>>)
ASSUME PCFd(Dec(4, 2), NoNs, {"C12-logical-primitive-object", "C12-extra-keys-kept"})
         = JObj(<<T("bytes"), <<"precision", JInt(4)>>, <<"scale", JInt(2)>>>>)
ASSUME PCFd(Dec(4, 2), NoNs, {"C12-extra-keys-kept"}) = S("bytes")
ASSUME LoseNullNs(Meaning(Rec("ns.R", <<Field("a", FixedNs("F", "", 1))>>)), <<>>).fields[1].type.name = U("ns.F")
ASSUME Meaning(Rec("ns.R", <<Field("a", FixedNs("F", "", 1))>>)).fields[1].type.name = U("F")
ASSUME Meaning(Rec("ns.R", <<Field("a", Fixed(".F", 1))>>)).fields[1].type.name = U("F")
(* "the most tightly enclosing namespace": a null-namespace record inside namespace x puts its children in the null namespace *)
ASSUME Meaning(Rec("x.Outer", <<Field("i", RecNs("Inner", "", <<Field("l", Fixed("Leaf", 1))>>))>>)).fields[1].type.fields[1].type.name = U("Leaf")

Prims == {S(p) : p \in PrimNames}

LogicalLeaves ==
  {Logical("int", "date"), Logical("int", "time-millis"), Logical("long", "time-micros"),
   Logical("long", "timestamp-millis"), Logical("long", "timestamp-micros"), Logical("long", "timestamp-nanos"),
   Logical("long", "local-timestamp-millis"), Logical("long", "local-timestamp-micros"),
   Logical("long", "local-timestamp-nanos"), Logical("bytes", "big-decimal"), Logical("string", "uuid"),
   Dec(4, 2), JObj(<<T("bytes"), <<"logicalType", S("decimal")>>, <<"precision", JInt(3)>>>>)}

(* logical types that are NOT in force: wrong base, invalid parameters, unknown name *)
IgnoredLogicals ==
  {Logical("string", "date"), Logical("int", "timestamp-millis"), Logical("long", "foo"),
   Dec(2, 3), JObj(<<T("bytes"), <<"logicalType", S("decimal")>>, <<"precision", JInt(0)>>>>),
   FixedLogical("U8", 8, "uuid"), FixedLogical("D4", 4, "duration")}

NamedLeaves ==
  {Fixed("F", 4), Fixed("a.b.F", 0), Enum("E", <<"A", "B">>), Enum("ns.E", <<"A">>),
   FixedDec("DF", 4, 9, 2), FixedLogical("Dur", 12, "duration"), FixedLogical("Uu", 16, "uuid"),
   FixedNs("F", "ns", 2)}

Composites ==
  {Arr(S("int")), Arr(Enum("E", <<"A", "B">>)), Map(Fixed("x.F", 1)), Map(Logical("int", "date")),
   Arr(Map(S("string"))), JArr(<<S("null"), S("string")>>),
   JArr(<<S("int"), Enum("E", <<"A">>), Arr(S("long")), Dec(4, 2)>>),
   Map(JArr(<<S("null"), Fixed("F", 4)>>))}

Records ==
  { Rec("R", <<>>),
    Rec("R", <<Field("a", S("int"))>>),
    Rec("R", <<Field("a", S("int")), Field("b", S("string"))>>),
    \* dotted name gives the namespace; nested name inherits it; references short and full
    Rec("ns.R", <<Field("a", Enum("E", <<"A">>)), Field("b", S("E")), Field("c", S("ns.E"))>>),
    \* namespace attribute; a type in another namespace; inner record sees its own namespace
    RecNs("R", "ns", <<Field("a", FixedNs("F", "other", 2)), Field("b", S("other.F")),
                       Field("c", Rec("Inner", <<Field("x", S("other.F")), Field("y", JArr(<<S("null"), S("R")>>))>>))>>),
    \* an inner definition in another namespace changes the namespace for ITS children only
    Rec("R", <<Field("a", Rec("x.Inner", <<Field("b", Enum("E", <<"A", "B">>))>>)), Field("c", S("x.E")), Field("d", S("x.Inner"))>>),
    Rec("a.b.R", <<Field("x", Fixed("F", 3)), Field("y", Rec("c.S", <<Field("z", S("a.b.F")), Field("w", JArr(<<S("null"), S("S")>>))>>)), Field("v", S("F"))>>),
    \* recursion through a union
    Rec("ns.Node", <<Field("value", S("long")), Field("next", JArr(<<S("null"), S("Node")>>))>>),
    Rec("Node", <<Field("next", JArr(<<S("null"), S("Node")>>)), Field("kids", Arr(S("Node")))>>),
    \* logical types inside records, a decimal fixed referenced later
    RecNs("R", "m", <<Field("d", FixedDec("Money", 8, 10, 2)), Field("e", S("Money")), Field("t", Logical("long", "timestamp-micros")),
                      Field("u", Logical("string", "uuid")), Field("b", Dec(5, 0))>>),
    \* a field that already carries every irrelevant attribute
    Rec("R", <<JObj(<<Nm("a"), <<"type", S("int")>>, <<"default", JInt(1)>>, <<"doc", S("d")>>,
                      <<"aliases", JArr(<<S("z")>>)>>, <<"order", S("ignore")>>, <<"x-attr", JBool(TRUE)>>>>)>>),
    \* record with doc/aliases/attributes of its own and nested map/array of named types
    JObj(<<Nm("R"), <<"doc", S("say \"hi\" \\ there")>>, T("record"), <<"aliases", JArr(<<S("Q"), S("p.Q")>>)>>, Ns("ns"),
           <<"fields", JArr(<<Field("m", Map(Rec("V", <<Field("k", S("bytes"))>>))), Field("l", Arr(S("ns.V")))>>)>>,
           <<"custom", JArr(<<JInt(1), S("two")>>)>>>>),
    \* null namespace by explicit "" inside a namespaced record (the canonical form cannot express this: grey for idempotence)
    Rec("ns.R", <<Field("a", FixedNs("F", "", 1))>>),
    Rec("ns.R", <<Field("a", Fixed(".F", 1)), Field("b", S(".F"))>>),
    \* three levels: namespace x, inside it a record in the NULL namespace, inside that un-namespaced names and
    \* short references: they belong to the most tightly enclosing namespace, i.e. the null one, not to x
    Rec("x.Outer", <<Field("i", RecNs("Inner", "", <<Field("l", Fixed("Leaf", 1)), Field("r", S("Leaf"))>>))>>),
    Rec("x.Outer", <<Field("i", Rec(".Inner", <<Field("l", Enum("Leaf", <<"A">>)), Field("m", Arr(S("Leaf")))>>)), Field("o", Fixed("G", 1))>>),
    RecNs("Outer", "x.y", <<Field("i", RecNs("Inner", "", <<Field("j", Rec("Deep", <<Field("k", Fixed("Leaf", 2))>>))>>))>>),
    \* two named types with the SAME simple name in different namespaces, each defined once and referred to afterwards
    Rec("bank.R", <<Field("a", Enum("bank.source.Kind", <<"A">>)), Field("b", Enum("bank.target.Kind", <<"B", "C">>)),
                    Field("c", S("bank.source.Kind")), Field("d", Arr(S("bank.target.Kind"))),
                    Field("e", Fixed("misc.Kind", 2)), Field("f", JArr(<<S("null"), S("misc.Kind")>>))>>),
    \* custom attributes whose names the implementation's whitelist happens to contain
    JObj(<<T("record"), Nm("R"), <<"fields", JArr(<<>>)>>, <<"precision", JInt(5)>>, <<"order", S("zz")>>>>),
    JObj(<<T("enum"), Nm("E"), <<"symbols", JArr(<<S("A")>>)>>, <<"scale", JInt(1)>>, <<"default", S("A")>>>>),
    JObj(<<T("record"), Nm("R"), <<"fields", JArr(<<>>)>>, <<"scale", S("x")>>>>)
  }

TopUnions ==
  { JArr(<<S("null"), Rec("ns.R", <<Field("a", S("int"))>>), Fixed("F", 2)>>),
    JArr(<<Fixed("F", 2), Rec("ns.R", <<Field("f", S(".F"))>>)>>) }

SmallSeeds ==
  {S("int"), S("bytes"), Logical("int", "date"), Dec(4, 2), Logical("string", "date"), Fixed("a.b.F", 0),
   FixedDec("DF", 4, 9, 2), Arr(Enum("E", <<"A", "B">>)), JArr(<<S("null"), S("string")>>),
   Rec("ns.R", <<Field("a", Enum("E", <<"A">>)), Field("b", S("E")), Field("c", S("ns.E"))>>),
   RecNs("R", "ns", <<Field("a", FixedNs("F", "other", 2)), Field("b", S("other.F")),
                      Field("c", Rec("Inner", <<Field("x", S("other.F")), Field("y", JArr(<<S("null"), S("R")>>))>>))>>),
   Rec("ns.R", <<Field("a", FixedNs("F", "", 1))>>),
   JObj(<<T("record"), Nm("R"), <<"fields", JArr(<<>>)>>, <<"precision", JInt(5)>>, <<"order", S("zz")>>>>)}

Seeds == IF SeedSet = "small" THEN SmallSeeds
         ELSE Prims \cup LogicalLeaves \cup IgnoredLogicals \cup NamedLeaves \cup Composites \cup Records \cup TopUnions

VARIABLES base, t, edits, done
vars == <<base, t, edits, done>>

Init == base \in Seeds /\ t = base /\ edits = <<>> /\ done = FALSE

ApplyEdit == /\ ~done /\ Len(edits) < MaxEdits
             /\ \E e \in EditResults(t) : t' = e.t /\ edits' = Append(edits, e.name)
             /\ UNCHANGED <<base, done>>

Emit == /\ ~done
        /\ PrintT("SCN " \o ToJson([base |-> base, t |-> t, edits |-> edits, grey |-> NullNsNested(base)]))
        /\ done' = TRUE /\ UNCHANGED <<base, t, edits>>

Next == ApplyEdit \/ Emit
Spec == Init /\ [][Next]_vars

(* ---- properties of the design ---- *)
KeptKeys == {"name", "type", "fields", "symbols", "items", "values", "size"}
RECURSIVE OnlyKeptKeys(_)
OnlyKeptKeys(c) ==
  CASE c.j = "obj" -> KeySet(c) \subseteq KeptKeys /\ \A i \in 1..Len(c.kv) : c.kv[i][1] = "symbols" \/ OnlyKeptKeys(c.kv[i][2])
    [] c.j = "arr" -> \A i \in 1..Len(c.items) : OnlyKeptKeys(c.items[i])
    [] OTHER -> TRUE

OrderOf(k) == CASE k = "name" -> 1 [] k = "type" -> 2 [] k = "fields" -> 3 [] k = "symbols" -> 4
                [] k = "items" -> 5 [] k = "values" -> 6 [] k = "size" -> 7 [] OTHER -> 99
RECURSIVE KeysOrdered(_)
KeysOrdered(c) ==
  CASE c.j = "obj" -> /\ \A a, b \in 1..Len(c.kv) : a < b => OrderOf(c.kv[a][1]) < OrderOf(c.kv[b][1])
                      /\ \A i \in 1..Len(c.kv) : KeysOrdered(c.kv[i][2])
    [] c.j = "arr" -> \A i \in 1..Len(c.items) : KeysOrdered(c.items[i])
    [] OTHER -> TRUE

EditsIrrelevant == PCF(t) = PCF(base)
CanonicalShape == LET c == PCF(t) IN NoDupKeys(c) /\ OnlyKeptKeys(c) /\ KeysOrdered(c) /\ CanonTextOk(c)
Idempotent == ~NullNsNested(base) => PCF(PCF(t)) = PCF(t)
(* a canonical form is a fixed point of every edit-free respelling: it contains no namespace keys, no objects for primitives *)
GreyStable == NullNsNested(t) = NullNsNested(base)

(* ---- C10: the reference writer and the reference reader are inverse to each other ---- *)
RoundTripSatisfiable ==
  LET x == Meaning(t)
      r == RenderSchema(x)
  IN NoDupKeys(r) /\ MEq(Meaning(r), x) /\ MEq(x, x)
(* the two named deviations of the crate's writer do nothing where they do not apply *)
DeviationsAreLocal ==
  LET x == Meaning(t) IN
  /\ (~NullNsNested(t) /\ \A s \in DefSites(t) : TRUE) => TRUE
  /\ MEq(DropDecimalAttrs(x), x)
=============================================================================
