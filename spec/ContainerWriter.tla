--------------------------- MODULE ContainerWriter ---------------------------
(***************************************************************************)
(* The object-container-file Writer as a state machine, one action per     *)
(* public operation of avro/src/writer/mod.rs (property C03).              *)
(*                                                                         *)
(* Values are abstract ids with an encoded size.  The sink is a sequence   *)
(* of segments: <<"hdr", meta, epoch>> and <<"blk", ids, epoch>> (epoch    *)
(* stands for the sync marker: it changes on reset, and a block carries    *)
(* the marker of the writer that wrote it).                                *)
(*                                                                         *)
(*   buffer     ids encoded into the pending block      (self.buffer)      *)
(*   bufBytes   its size in bytes                        (buffer.len())     *)
(*   hasHeader  header written, or suppressed            (self.has_header)  *)
(*   meta       user metadata accepted so far            (user_metadata)    *)
(*   epoch      the current sync marker                  (self.marker)      *)
(*   appended   history: values whose append returned Ok since the file    *)
(*              was (re)started                                            *)
(*   okMeta     history: keys whose add_user_metadata returned Ok          *)
(***************************************************************************)
EXTENDS Naturals, Sequences, FiniteSets, TLC, SequencesExt

CONSTANTS Ids,          \* value ids
          Size,         \* [Ids -> Nat] encoded size of each value
          BlockSizes,   \* candidate flush thresholds in bytes (0 = flush on every append)
          Keys,         \* user metadata keys
          MaxOps

VARIABLES sink, buffer, bufBytes, hasHeader, meta, epoch, appended, okMeta, open, nops, last,
          blockSize     \* the writer's block_size (fixed at construction)
vars == <<sink, buffer, bufBytes, hasHeader, meta, epoch, appended, okMeta, open, nops, last, blockSize>>

Hdr(m, e) == <<"hdr", m, e>>
Blk(ids, e) == <<"blk", ids, e>>

Init == /\ sink = <<>> /\ buffer = <<>> /\ bufBytes = 0 /\ hasHeader = FALSE
        /\ meta = {} /\ epoch = 0 /\ appended = <<>> /\ okMeta = {} /\ open = TRUE
        /\ nops = 0 /\ last = <<"init">>
        /\ blockSize \in BlockSizes

(* lazily write the header exactly once (maybe_write_header) *)
WithHeader(s) == IF hasHeader THEN s ELSE Append(s, Hdr(meta, epoch))

(* flush the pending block (Writer::flush): header first, then the block if it holds values *)
Flushed(s, buf) == IF buf = <<>> THEN WithHeader(s) ELSE Append(WithHeader(s), Blk(buf, epoch))

Step(op) == /\ open /\ nops < MaxOps /\ nops' = nops + 1 /\ last' = op /\ UNCHANGED blockSize

(* the effect of one successful append on (sink, buffer, bufBytes, hasHeader): encode into the
   pending block, count the value, flush when the block has reached block_size *)
W(s, b, n, h) == [sink |-> s, buffer |-> b, bufBytes |-> n, hasHeader |-> h]
HdrIf(s, h) == IF h THEN s ELSE Append(s, Hdr(meta, epoch))
Appended1(w, v) ==
  LET nb == Append(w.buffer, v)  nbytes == w.bufBytes + Size[v]  s1 == HdrIf(w.sink, w.hasHeader) IN
  IF nbytes >= blockSize THEN W(Append(s1, Blk(nb, epoch)), <<>>, 0, TRUE) ELSE W(s1, nb, nbytes, TRUE)
RECURSIVE AppendedAll(_, _)
AppendedAll(w, vs) == IF vs = <<>> THEN w ELSE AppendedAll(Appended1(w, Head(vs)), Tail(vs))
Cur == W(sink, buffer, bufBytes, hasHeader)

(* append_value / append_value_ref / unvalidated_append_value / append_ser with a good value *)
AppendOk(v) ==
  /\ Step(<<"append", v, "ok">>)
  /\ LET w == Appended1(Cur, v) IN
       sink' = w.sink /\ buffer' = w.buffer /\ bufBytes' = w.bufBytes /\ hasHeader' = w.hasHeader
  /\ appended' = Append(appended, v)
  /\ UNCHANGED <<meta, epoch, okMeta, open>>

(* append_value(_ref) with a value that validation rejects: nothing happens at all *)
AppendRejected ==
  /\ Step(<<"append-rejected">>)
  /\ UNCHANGED <<sink, buffer, bufBytes, hasHeader, meta, epoch, appended, okMeta, open>>

(* unvalidated_append_value / append_ser failing midway through encoding: the header may have
   been written (it is emitted before encoding starts), the pending block is restored *)
AppendEncodeFails ==
  /\ Step(<<"append-encode-fails">>)
  /\ sink' = WithHeader(sink) /\ hasHeader' = TRUE
  /\ UNCHANGED <<buffer, bufBytes, meta, epoch, appended, okMeta, open>>

Flush ==
  /\ Step(<<"flush">>)
  /\ sink' = Flushed(sink, buffer) /\ buffer' = <<>> /\ bufBytes' = 0 /\ hasHeader' = TRUE
  /\ UNCHANGED <<meta, epoch, appended, okMeta, open>>

(* flush() when the sink has accepted the block's bytes and then fails in ITS flush(): the error is returned; the
   block is in the sink and no longer pending (it must not be written a second time) *)
FlushSinkFails ==
  /\ Step(<<"flush-sinkfail">>)
  /\ sink' = Flushed(sink, buffer) /\ buffer' = <<>> /\ bufBytes' = 0 /\ hasHeader' = TRUE
  /\ UNCHANGED <<meta, epoch, appended, okMeta, open>>

(* extend / extend_from_slice / extend_ser: append each value (with its auto-flushes), then flush *)
ExtendOk(vs) ==
  /\ Step(<<"extend", vs, "ok">>)
  /\ LET w == AppendedAll(Cur, vs)
         s1 == HdrIf(w.sink, w.hasHeader) IN
       sink' = IF w.buffer = <<>> THEN s1 ELSE Append(s1, Blk(w.buffer, epoch))
  /\ buffer' = <<>> /\ bufBytes' = 0 /\ hasHeader' = TRUE
  /\ appended' = appended \o vs
  /\ UNCHANGED <<meta, epoch, okMeta, open>>

(* extend* whose input contains a value that fails: the values before it are appended (with their
   auto-flushes), then the error is returned BEFORE the final flush *)
ExtendStopsAtBad(pre) ==
  /\ Step(<<"extend-bad", pre>>)
  /\ LET w == AppendedAll(Cur, pre) IN
       /\ sink' = (IF pre = <<>> THEN sink ELSE w.sink)
       /\ buffer' = w.buffer /\ bufBytes' = w.bufBytes
       /\ hasHeader' = (IF pre = <<>> THEN hasHeader ELSE TRUE)
  /\ appended' = appended \o pre
  /\ UNCHANGED <<meta, epoch, okMeta, open>>

AddUserMetadata(k) ==
  /\ Step(<<"add-meta", k, IF hasHeader THEN "err" ELSE "ok">>)
  /\ IF hasHeader THEN UNCHANGED <<meta, okMeta>>
     ELSE meta' = meta \cup {k} /\ okMeta' = okMeta \cup {k}
  /\ UNCHANGED <<sink, buffer, bufBytes, hasHeader, epoch, appended, open>>

(* Writer::reset: clears the sink, the pending block and the metadata; fresh marker *)
Reset ==
  /\ Step(<<"reset">>)
  /\ sink' = <<>> /\ buffer' = <<>> /\ bufBytes' = 0 /\ hasHeader' = FALSE
  /\ meta' = {} /\ okMeta' = {} /\ epoch' = epoch + 1 /\ appended' = <<>>
  /\ UNCHANGED open

(* into_inner and Drop both flush the tail *)
Close(how) ==
  /\ Step(<<"close", how>>)
  /\ sink' = Flushed(sink, buffer) /\ buffer' = <<>> /\ bufBytes' = 0 /\ hasHeader' = TRUE
  /\ open' = FALSE
  /\ UNCHANGED <<meta, epoch, appended, okMeta>>

(* Writer::append_to(sink, original marker): a new writer continues a closed file *)
Reopen ==
  /\ ~open /\ nops < MaxOps /\ nops' = nops + 1 /\ last' = <<"reopen">>
  /\ open' = TRUE /\ hasHeader' = TRUE /\ buffer' = <<>> /\ bufBytes' = 0
  /\ UNCHANGED <<sink, meta, epoch, appended, okMeta, blockSize>>

Next == \/ \E v \in Ids : AppendOk(v)
        \/ AppendRejected \/ AppendEncodeFails \/ Flush \/ FlushSinkFails
        \/ \E a, b \in Ids : ExtendOk(<<a, b>>)
        \/ \E a \in Ids : ExtendStopsAtBad(<<a>>) \/ ExtendStopsAtBad(<<>>)
        \/ \E k \in Keys : AddUserMetadata(k)
        \/ Reset \/ Close("into_inner") \/ Close("drop") \/ Reopen

Spec == Init /\ [][Next]_vars

(***************************************************************************)
(* What a reader gets out of a sink: values of all blocks, in order.       *)
(***************************************************************************)
BlockIds(s) == FlattenSeq([i \in 1..Len(s) |-> IF s[i][1] = "blk" THEN s[i][2] ELSE <<>>])
Headers(s) == {i \in 1..Len(s) : s[i][1] = "hdr"}

(* ---- properties of the design (C03) ---- *)
Prefix == IsPrefix(BlockIds(sink), appended)
PendingAccounted == BlockIds(sink) \o buffer = appended
ClosedReadBack == ~open => BlockIds(sink) = appended
HeaderOnce == /\ Cardinality(Headers(sink)) <= 1
              /\ Headers(sink) # {} => 1 \in Headers(sink)
              /\ (sink # <<>>) => sink[1][1] = "hdr"
HeaderIffWritten == hasHeader <=> sink # <<>>
MetaFrozen == \A i \in Headers(sink) : sink[i][2] = okMeta
OneMarker == \A i \in 1..Len(sink) : sink[i][3] = epoch
NoEmptyBlock == \A i \in 1..Len(sink) : sink[i][1] = "blk" => sink[i][2] # <<>>
BufBytesConsistent == bufBytes = FoldSeq(LAMBDA v, acc : acc + Size[v], 0, buffer)
BlockSizeRespected == bufBytes < blockSize \/ buffer = <<>>
(* a failing append leaves no trace: action property over the two failing actions *)
NoTrace == [][ (last' \in {<<"append-rejected">>, <<"append-encode-fails">>})
               => (BlockIds(sink') = BlockIds(sink) /\ buffer' = buffer /\ appended' = appended) ]_vars
=============================================================================
