SPECIFICATION Spec
CONSTANT Tier = "thorough"
INVARIANT CanonicalDenotesItself
CHECK_DEADLOCK FALSE
