---------------------------- MODULE MC_Settings ----------------------------
(***************************************************************************)
(* Bounded model of Settings: 3 threads, at most MaxOps calls each, 2-3    *)
(* cells, every interleaving of Call/Begin/Finish/Observe/Return.          *)
(* Every explored program (who called what, in which order per thread) is  *)
(* printed as a scenario line for the harness:  SCN {"threads":[[op..]..]} *)
(***************************************************************************)
EXTENDS Settings, Json

CONSTANT Model      \* which cells are in play, see MCCells

MCThreads == {1, 2, 3}
MCCells == CASE Model \in {"mv", "mq"} -> {"maxAlloc", "nameValidator"}
             [] Model = "nn" -> {"nameValidator", "namespaceValidator"}
             [] Model = "hc" -> {"humanReadable", "comparator"}
             [] Model \in {"hn", "hq"} -> {"humanReadable", "nameValidator", "namespaceValidator"}
             [] Model = "ce" -> {"comparator", "enumSymbolValidator", "nameValidator"}

\* thread t's own candidate for cell c
Cand(c, t) == CASE c = "maxAlloc"      -> 10 * t
                [] c = "humanReadable" -> t % 2
                [] OTHER               -> t
\* arguments of uses: a declared length between the candidates / markers of threads 1 and 2
UseArgs(c) == CASE c = "maxAlloc"      -> {15}
                [] c = "humanReadable" -> {0}
                [] OTHER               -> {1}

\* "mq" (quick tier) and "hq": thread 3 only uses, threads 1 and 2 set and use
MCOpsOf(t) == (IF Model \in {"mq", "hq"} /\ t = 3 THEN {} ELSE {[op |-> "set", c |-> c, arg |-> Cand(c, t)] : c \in MCCells})
              \cup UNION {{[op |-> "use", c |-> c, arg |-> a] : a \in UseArgs(c)} : c \in MCCells}

\* Settings refines the atomic contract (AtomicSettings): an initialiser in flight has abstractly not happened yet,
\* Finish is the abstract GetOrInit, Begin stutters.
AbsCell == [c \in Cells |-> IF cell[c].st = "running" THEN Unset ELSE cell[c]]
AbsTh   == [t \in Threads |-> [th[t] EXCEPT !.run = "none"]]
Atomic == INSTANCE AtomicSettings WITH acell <- AbsCell, ath <- AbsTh, InitValueOf <- InitValue, TouchesOf <- Touches,
                                       IsCall <- IsOp, NoCall <- NoOp
Linearizable == Atomic!ASpec

\* the program executed so far, per thread, in call order (from the history of completed calls)
ProgOf(t) == LET H == {h \in hist : h.t = t} IN [i \in 1..Cardinality(H) |-> (CHOOSE h \in H : h.n = i - 1).op]
Emit == Quiescent /\ hist # {} => PrintT("SCN " \o ToJson([threads |-> [t \in 1..3 |-> ProgOf(t)]]))
=============================================================================
