SPECIFICATION Spec
CONSTANT Tier = "d1"
INVARIANT ValuesConform
INVARIANT RoundTrip
INVARIANT ExactConsumption
INVARIANT EveryLayoutDecodes
INVARIANT TruncationIsError
CHECK_DEADLOCK FALSE
