CONSTANT NF = 4
INIT Init
NEXT Next
INVARIANT TypeOK
INVARIANT CountIsBytes
INVARIANT WrittenPrefix
INVARIANT CacheAhead
INVARIANT Complete
INVARIANT FailsOnlyFor
INVARIANT LegalCallsSucceed
INVARIANT MatchesMapping
INVARIANT EmitDone
CHECK_DEADLOCK FALSE
