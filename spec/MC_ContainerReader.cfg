SPECIFICATION Spec
CONSTANTS
  H = 9
  Blocks <- MCBlocks
  EofMidCountIsCleanEnd = FALSE
INVARIANT TruePrefix
INVARIANT ErrorUnlessBoundary
PROPERTY Terminates
CHECK_DEADLOCK FALSE
