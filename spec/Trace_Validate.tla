---------------------------- MODULE Trace_Validate ----------------------------
(***************************************************************************)
(* Judges recorded executions of Value::validate and the three validating  *)
(* write paths (harness `validate-run`) - property C07.                    *)
(*   accepted => each writer succeeds and its bytes, parsed by the         *)
(*               independent parser, are a canonical value that the        *)
(*               written (possibly lenient) value Denotes;                 *)
(*   rejected => each writer fails, nothing of the value reaches the sink, *)
(*               and a following valid append is unaffected.               *)
(***************************************************************************)
EXTENDS Validate, Json, IOUtils, Known

Rec == ndJsonDeserialize(IOEnv.TRACE)
VARIABLE l

If(c, name) == IF c THEN {} ELSE {name}

Reads(e, d, env) == Conforms(d, e.s, env) /\ Denotes(e.v, d, e.s, env)

Clauses(e) ==
  LET env == Defs(e.s)
      PD  == ParseAll(e.datum.bytes, e.s, env)
      sb  == e.single.bytes
      PS  == IF Len(sb) >= 10 THEN ParseAll(SubSeq(sb, 11, Len(sb)), e.s, env) ELSE Fail("short", 0)
      c   == e.container
  IN
  If(~(e.validate_panic \/ e.datum.panic \/ c.panic \/ e.single.panic), "C07:panic")
  \cup
  (IF e.accepted THEN
        If(e.datum.ok, "C07:accepted-but-datum-write-failed")
   \cup If(~e.datum.ok \/ PD.ok, "C07:accepted-datum-bytes-unreadable")
   \cup If(~(e.datum.ok /\ PD.ok) \/ Reads(e, PD.v, env), "C07:accepted-datum-bytes-mean-another-value")
   \cup If(c.ok, "C07:accepted-but-container-append-failed")
   \cup If(~c.ok \/ (~c.read_err /\ Len(c.items) = 2), "C07:accepted-container-unreadable")
   \cup If(~(c.ok /\ ~c.read_err /\ Len(c.items) = 2) \/ (Reads(e, c.items[1], env) /\ VEq(c.items[2], e.good)),
           "C07:accepted-container-reads-another-value")
   \cup If(e.single.ok, "C07:accepted-but-single-object-write-failed")
   \cup If(~e.single.ok \/ PS.ok, "C07:accepted-single-object-bytes-unreadable")
   \cup If(~(e.single.ok /\ PS.ok) \/ Reads(e, PS.v, env), "C07:accepted-single-object-bytes-mean-another-value")
   ELSE
        If(~e.datum.ok, "C07:rejected-but-datum-write-succeeded")
   \cup If(e.datum.sunk = 0, "C07:rejected-but-datum-bytes-reached-sink")
   \cup If(~c.ok, "C07:rejected-but-container-append-succeeded")
   \cup If(c.next_ok /\ ~c.read_err /\ Len(c.items) = 1 /\ VEq(c.items[1], e.good),
           "C07:rejected-value-left-trace-in-file")
   \cup If(~e.single.ok, "C07:rejected-but-single-object-write-succeeded")
   \cup If(e.single.sunk = 0, "C07:rejected-but-single-object-bytes-reached-sink"))

(***************************************************************************)
(* Known deviations: patterns (value variant under schema kind) at which   *)
(* validation and the encoder are known to disagree on the pinned tree.    *)
(* Sites(v, s) = ids of the listed patterns that occur in the (v, s) tree. *)
(***************************************************************************)
RECURSIVE Sites(_, _, _)
Sites(v, s0, env) ==
  LET s == Deref(s0, env) IN
  CASE s.k = "union" ->
         IF v.t = "union" THEN (IF v.i < Len(s.branches) THEN Sites(v.v, s.branches[v.i + 1], env) ELSE {})
         ELSE UNION {Sites(v, s.branches[i], env) : i \in 1..Len(s.branches)}
    [] s.k = "decimal" /\ s.base = "fixed" /\ v.t \in {"decimal", "bytes", "fixed"} /\ ~BEFits(v.b, s.size) ->
         {"C07-decimal-too-wide-for-fixed"}
    [] s.k = "enum" /\ v.t = "enum" /\ v.i >= Len(s.symbols) /\ "hasdef" \in DOMAIN s -> {"C07-enum-index-out-of-range-with-default"}
    [] s.k = "uuid" /\ v.t = "string" /\ ~IsCanonUuidText(v.b) -> {"C07-noncanonical-uuid-string"}
    [] s.k = "record" /\ v.t = "map" -> {"C07-map-for-record"}
    [] s.k = "record" /\ v.t = "record" ->
         (IF Len(v.fields) < Len(s.fields) THEN {"C07-missing-nullable-field"} ELSE {})
         \cup UNION {UNION {Sites(v.fields[i][2], s.fields[j].type, env) : j \in {x \in 1..Len(s.fields) : s.fields[x].name = v.fields[i][1]}}
                     : i \in 1..Len(v.fields)}
    [] s.k = "array" /\ v.t = "array" -> UNION {Sites(v.items[i], s.items, env) : i \in 1..Len(v.items)}
    [] s.k = "map" /\ v.t = "map" -> UNION {Sites(v.entries[i][2], s.values, env) : i \in 1..Len(v.entries)}
    [] OTHER -> {}

Judge(e) ==
  IF ~e.parse_ok THEN [fail |-> {}, known |-> {}, drift |-> {"schema-not-accepted"}]
  ELSE
  LET cl == Clauses(e)
      st == Sites(e.v, e.s, Defs(e.s))
      explained == cl # {} /\ st # {} /\ st \subseteq KnownIds /\ "C07:panic" \notin cl
      drift == If(e.accepted \/ e.container.sunk_after_append = 0, "rejected-append-wrote-header-first")
  IN IF explained
     THEN [fail |-> {}, known |-> {x \o "|" \o y : x \in st, y \in cl}, drift |-> drift]
     ELSE [fail |-> cl, known |-> {}, drift |-> drift]

Init == l = 1
Next == /\ l <= Len(Rec)
        /\ LET e == Rec[l]  r == Judge(e) IN
             IF r.fail = {} /\ r.drift = {} /\ r.known = {} THEN TRUE
             ELSE PrintT("VERDICT " \o ToJson([id |-> e.id, fail |-> r.fail, known |-> r.known, drift |-> r.drift]))
        /\ l' = l + 1

Consumed == IF TLCGet("stats").diameter = Len(Rec) + 1 THEN PrintT("CONSUMED " \o ToString(Len(Rec)))
            ELSE PrintT("UNCONSUMED " \o ToString(TLCGet("stats").diameter)) /\ FALSE
=============================================================================
