----------------------------- MODULE SerdeModel -----------------------------
(***************************************************************************)
(* The Serde data model and its documented mapping to the Avro data model  *)
(* (apache_avro::documentation::serde_data_model_to_avro and               *)
(* avro_data_model_to_serde are the contract; property C16, re-used by     *)
(* C17).                                                                   *)
(*                                                                         *)
(* Serde terms (tag c = the Serializer method that is called; fixed key    *)
(* set per tag; 64-bit carriers as in AvroValue):                          *)
(*  [c|->"bool", bool|->B]                                                 *)
(*  [c|->"i8"|"i16"|"i32"|"i64"|"u8"|"u16"|"u32", n|->LE8]                 *)
(*  [c|->"u64", b|->8 LE bytes] [c|->"i128"|"u128", b|->16 LE bytes]       *)
(*  [c|->"f32", bits|->4 LE] [c|->"f64", bits|->8 LE]                      *)
(*  [c|->"char"|"str", b|->UTF-8]  [c|->"bytes", b|->bytes]                *)
(*  [c|->"none"] [c|->"some", v|->sv] [c|->"unit"]                         *)
(*  [c|->"unit_struct", name|->N]                                          *)
(*  [c|->"unit_variant", name|->E, idx|->i, variant|->V]                   *)
(*  [c|->"newtype_struct", name|->N, v|->sv]                               *)
(*  [c|->"newtype_variant", name|->E, idx|->i, variant|->V, v|->sv]        *)
(*  [c|->"seq", hint|->B, items|-><<sv..>>]   hint: length given up front  *)
(*  [c|->"tuple", items] [c|->"tuple_struct", name, items]                 *)
(*  [c|->"tuple_variant", name, idx, variant, items]                       *)
(*  [c|->"map", hint|->B, entries|-><< <<keybytes, sv>>..>>]               *)
(*  [c|->"struct", name, len, fields|-><< <<fieldname, sv>>..>>]           *)
(*       fields is the CALL SEQUENCE: any order; an entry whose value is   *)
(*       [c|->"skip"] is a skip_field call; a field never mentioned is     *)
(*       simply not serialized                                             *)
(*  [c|->"structmap", hint, fields]  the same through serialize_map /      *)
(*       serialize_entry (what serde generates for #[serde(flatten)])      *)
(*  [c|->"struct_variant", name, idx, variant, len, fields]                *)
(*                                                                         *)
(* Schema terms are AvroSchema terms plus the optional keys this mapping   *)
(* reads: named schemas may carry short|->unqualified name; records may    *)
(* carry tuple|->TRUE / uor|->TRUE (attributes org.apache.avro.rust.tuple  *)
(* / .union_of_records); record fields may carry aliases|-><<..>>,         *)
(* hasdef|->TRUE with def|->the Avro value the JSON default denotes and    *)
(* defjson|->the JSON default itself (only rendered, never interpreted).   *)
(***************************************************************************)
EXTENDS AvroBinary

Undef == NoValue
IsDef(v) == v.t # "none"

Short(s) == IF "short" \in DOMAIN s THEN s.short ELSE s.name
HasAttr(s, a) == a \in DOMAIN s /\ s[a] = TRUE
HasDef(f) == "hasdef" \in DOMAIN f /\ f.hasdef = TRUE
AliasesOf(f) == IF "aliases" \in DOMAIN f THEN SeqRange(f.aliases) ELSE {}

BaseKind(s) == CASE s.k \in IntKinds -> "int" [] s.k \in LongKinds -> "long" [] OTHER -> s.k

MinOf(S) == CHOOSE i \in S : \A j \in S : i <= j
(* 1-based index of the first element of q satisfying P, 0 if none *)
FirstIdx(q, P(_)) == LET S == {i \in 1..Len(q) : P(q[i])} IN IF S = {} THEN 0 ELSE MinOf(S)

IntCalls  == {"i8", "i16", "i32", "u8", "u16"}      \* => Schema::Int
LongCalls == {"i64", "u32"}                           \* => Schema::Long
BigCalls  == {"u64", "i128", "u128"}                  \* => named fixed org.apache.avro.rust.<ty>
BigName(c) == "org.apache.avro.rust." \o c
BigSize(c) == IF c = "u64" THEN 8 ELSE 16
ScalarCalls == {"bool", "f32", "f64", "char", "str", "bytes"} \cup IntCalls \cup LongCalls \cup BigCalls

(***************************************************************************)
(* Does the Rust integer type hold n?  (LE8 carriers; used for the way     *)
(* back: an Avro int read into an i8 must fit.)                            *)
(***************************************************************************)
SignExt(le, nb) == \A j \in (nb + 1)..8 : le[j] = (IF le[nb] >= 128 THEN 255 ELSE 0)
ZeroExt(le, nb) == \A j \in (nb + 1)..8 : le[j] = 0
Fits(c, le) == CASE c = "i8" -> SignExt(le, 1) [] c = "i16" -> SignExt(le, 2) [] c = "i32" -> SignExt(le, 4)
                 [] c = "i64" -> TRUE [] c = "u8" -> ZeroExt(le, 1) [] c = "u16" -> ZeroExt(le, 2)
                 [] c = "u32" -> ZeroExt(le, 4) [] OTHER -> FALSE

(***************************************************************************)
(* Where a value goes inside a union.  Unnamed kinds: the branch of the    *)
(* same base kind (a logical type counts as its base).  Named: by          *)
(* unqualified name, by full name (the u64/i128/u128 carriers), by size    *)
(* (bytes into a fixed) or by number of fields (tuples, flattened          *)
(* structs).                                                               *)
(***************************************************************************)
KindIdx(u, env, K) == FirstIdx(u.branches, LAMBDA b : BaseKind(Deref(b, env)) \in K)
NamedIdx(u, env, kinds, short) ==
  FirstIdx(u.branches, LAMBDA b : LET d == Deref(b, env) IN d.k \in kinds /\ Short(d) = short)
FullNamedIdx(u, env, full) ==
  FirstIdx(u.branches, LAMBDA b : LET d == Deref(b, env) IN d.k = "fixed" /\ d.name = full)
FixedIdx(u, env, size) ==
  FirstIdx(u.branches, LAMBDA b : LET d == Deref(b, env) IN d.k = "fixed" /\ d.size = size)
RecordNIdx(u, env, n) ==
  FirstIdx(u.branches, LAMBDA b : LET d == Deref(b, env) IN d.k = "record" /\ Len(d.fields) = n)

(* the option shape: a union of exactly two branches one of which is null *)
IsOptionUnion(s, env) == s.k = "union" /\ Len(s.branches) = 2 /\ KindIdx(s, env, {"null"}) # 0

FieldPos(s, key) == FirstIdx(s.fields, LAMBDA f : f.name = key \/ key \in AliasesOf(f))
SymPos(s, sym) == FirstIdx(s.symbols, LAMBDA x : x = sym)

RECURSIVE ToAvro(_, _, _)

InBranch(sv, u, env, i) ==
  IF i = 0 THEN Undef
  ELSE LET x == ToAvro(sv, u.branches[i], env) IN
       IF IsDef(x) THEN [t |-> "union", i |-> i - 1, v |-> x] ELSE Undef

AllDef(q) == \A i \in 1..Len(q) : IsDef(q[i])

(***************************************************************************)
(* struct <-> record by field name (or alias), each field exactly once;    *)
(* a field that is skipped or never mentioned takes the schema's default.  *)
(***************************************************************************)
RecordOf(calls, s, env) ==
  LET n     == Len(s.fields)
      posOf == [j \in 1..Len(calls) |-> FieldPos(s, calls[j][1])]
      known == \A j \in 1..Len(calls) : posOf[j] # 0
      once  == \A j, k \in 1..Len(calls) : posOf[j] = posOf[k] => j = k
      Val(i) == LET J == {j \in 1..Len(calls) : posOf[j] = i} IN
                IF J = {} \/ calls[MinOf(J)][2].c = "skip"
                THEN (IF HasDef(s.fields[i]) THEN s.fields[i].def ELSE Undef)
                ELSE ToAvro(calls[MinOf(J)][2], s.fields[i].type, env)
      vals  == [i \in 1..n |-> Val(i)]
  IN IF known /\ once /\ AllDef(vals)
     THEN [t |-> "record", fields |-> [i \in 1..n |-> <<s.fields[i].name, vals[i]>>]]
     ELSE Undef

(* positional: tuple / tuple struct / tuple variant elements are the record's fields in order *)
RecordOfSeq(items, s, env) ==
  LET vals == [i \in 1..Len(items) |-> ToAvro(items[i], s.fields[i].type, env)] IN
  IF Len(items) = Len(s.fields) /\ AllDef(vals)
  THEN [t |-> "record", fields |-> [i \in 1..Len(items) |-> <<s.fields[i].name, vals[i]>>]]
  ELSE Undef

KeysDistinct(es) == \A i, j \in 1..Len(es) : es[i][1] = es[j][1] => i = j

(***************************************************************************)
(* ToAvro(sv, s, env): the Avro value the serde term denotes under schema  *)
(* s, or Undef when the documented mapping does not relate them.           *)
(***************************************************************************)
ToAvro(sv, s0, env) ==
  LET s == Deref(s0, env)
      c == sv.c
      U == s.k = "union"
  IN
  CASE c = "bool" ->
         IF s.k = "boolean" THEN [t |-> "boolean", bool |-> sv.bool]
         ELSE IF U THEN InBranch(sv, s, env, KindIdx(s, env, {"boolean"})) ELSE Undef
    [] c \in IntCalls ->
         IF s.k \in IntKinds THEN (IF Fits(c, sv.n) THEN [t |-> s.k, n |-> sv.n] ELSE Undef)
         ELSE IF U THEN InBranch(sv, s, env, KindIdx(s, env, {"int"})) ELSE Undef
    [] c \in LongCalls ->
         IF s.k \in LongKinds THEN (IF Fits(c, sv.n) THEN [t |-> s.k, n |-> sv.n] ELSE Undef)
         ELSE IF U THEN InBranch(sv, s, env, KindIdx(s, env, {"long"})) ELSE Undef
    [] c \in BigCalls ->
         IF s.k = "fixed" /\ s.name = BigName(c) /\ s.size = BigSize(c) /\ Len(sv.b) = s.size
         THEN [t |-> "fixed", b |-> sv.b]
         ELSE IF U THEN InBranch(sv, s, env, FullNamedIdx(s, env, BigName(c))) ELSE Undef
    [] c = "f32" ->
         IF s.k = "float" THEN [t |-> "float", bits |-> sv.bits]
         ELSE IF U THEN InBranch(sv, s, env, KindIdx(s, env, {"float"})) ELSE Undef
    [] c = "f64" ->
         IF s.k = "double" THEN [t |-> "double", bits |-> sv.bits]
         ELSE IF U THEN InBranch(sv, s, env, KindIdx(s, env, {"double"})) ELSE Undef
    [] c \in {"char", "str"} ->
         IF s.k = "string" THEN [t |-> "string", b |-> sv.b]
         ELSE IF U THEN InBranch(sv, s, env, KindIdx(s, env, {"string"})) ELSE Undef
    [] c = "bytes" ->
         IF s.k = "bytes" THEN [t |-> "bytes", b |-> sv.b]
         ELSE IF s.k = "fixed" THEN (IF Len(sv.b) = s.size THEN [t |-> "fixed", b |-> sv.b] ELSE Undef)
         ELSE IF s.k = "uuid" /\ s.base \in {"fixed", "bytes"}      \* the 16 bytes of a uuid::Uuid
         THEN (IF Len(sv.b) = 16 THEN [t |-> "uuid", b |-> sv.b] ELSE Undef)
         ELSE IF U THEN      \* the first branch that is bytes or a fixed of that size
           LET bi == KindIdx(s, env, {"bytes"})  fi == FixedIdx(s, env, Len(sv.b)) IN
           InBranch(sv, s, env, IF bi = 0 THEN fi ELSE IF fi = 0 THEN bi ELSE IF bi < fi THEN bi ELSE fi)
         ELSE Undef
    [] c = "none" ->
         IF IsOptionUnion(s, env) THEN [t |-> "union", i |-> KindIdx(s, env, {"null"}) - 1, v |-> [t |-> "null"]]
         ELSE Undef
    [] c = "some" ->
         IF IsOptionUnion(s, env)
         THEN LET j == 3 - KindIdx(s, env, {"null"})
                  x == ToAvro(sv.v, s.branches[j], env) IN
              IF IsDef(x) /\ Deref(s.branches[j], env).k # "null"
              THEN [t |-> "union", i |-> j - 1, v |-> x] ELSE Undef
         ELSE Undef
    [] c = "unit" ->
         IF s.k = "null" THEN [t |-> "null"]
         ELSE IF U THEN InBranch(sv, s, env, KindIdx(s, env, {"null"})) ELSE Undef
    [] c = "unit_struct" ->
         IF s.k = "record" THEN (IF Len(s.fields) = 0 /\ Short(s) = sv.name
                                 THEN [t |-> "record", fields |-> <<>>] ELSE Undef)
         ELSE IF U THEN InBranch(sv, s, env, NamedIdx(s, env, {"record"}, sv.name)) ELSE Undef
    [] c = "unit_variant" ->
         IF s.k = "enum"                 \* unit-only enum <-> Avro enum, by symbol
         THEN LET p == SymPos(s, sv.variant) IN
              IF p = 0 THEN Undef ELSE [t |-> "enum", i |-> p - 1, sym |-> sv.variant]
         ELSE IF U /\ sv.idx < Len(s.branches)
                 /\ LET b == Deref(s.branches[sv.idx + 1], env) IN
                    b.k = "null" \/ (b.k = "record" /\ Len(b.fields) = 0 /\ Short(b) = sv.variant)
         THEN LET b == Deref(s.branches[sv.idx + 1], env) IN     \* bare union / union of records
              [t |-> "union", i |-> sv.idx,
               v |-> IF b.k = "null" THEN [t |-> "null"] ELSE [t |-> "record", fields |-> <<>>]]
         ELSE Undef    \* (an Avro enum inside a general union is not part of the documented mapping:
                       \*  the reader takes the union itself for the Rust enum)
    [] c = "newtype_struct" ->
         IF s.k = "record" THEN (IF Len(s.fields) = 1 /\ Short(s) = sv.name
                                 THEN RecordOfSeq(<<sv.v>>, s, env) ELSE Undef)
         ELSE IF U THEN InBranch(sv, s, env, NamedIdx(s, env, {"record"}, sv.name)) ELSE Undef
    [] c = "newtype_variant" ->
         IF U /\ sv.idx < Len(s.branches)
         THEN LET b == Deref(s.branches[sv.idx + 1], env)
                  x == IF b.k = "record" /\ Len(b.fields) = 1 /\ Short(b) = sv.variant /\ HasAttr(b, "uor")
                       THEN RecordOfSeq(<<sv.v>>, b, env)         \* union of records
                       ELSE ToAvro(sv.v, b, env)                  \* bare union: the inner type itself
              IN IF IsDef(x) THEN [t |-> "union", i |-> sv.idx, v |-> x] ELSE Undef
         ELSE Undef
    [] c = "seq" ->
         IF s.k = "array"
         THEN LET xs == [i \in 1..Len(sv.items) |-> ToAvro(sv.items[i], s.items, env)] IN
              IF AllDef(xs) THEN [t |-> "array", items |-> xs] ELSE Undef
         ELSE IF U THEN InBranch(sv, s, env, KindIdx(s, env, {"array"})) ELSE Undef
    [] c = "tuple" ->
         IF Len(sv.items) = 1 THEN ToAvro(sv.items[1], s, env)        \* the schema of the only element
         ELSE IF Len(sv.items) = 0
         THEN (IF s.k = "null" THEN [t |-> "null"]
               ELSE IF U THEN InBranch(sv, s, env, KindIdx(s, env, {"null"})) ELSE Undef)
         \* (the attribute org.apache.avro.rust.tuple only matters to a self-describing read, see AnyTerm)
         ELSE IF s.k = "record" THEN RecordOfSeq(sv.items, s, env)
         ELSE IF U THEN InBranch(sv, s, env, RecordNIdx(s, env, Len(sv.items))) ELSE Undef
    [] c = "tuple_struct" ->
         IF s.k = "record" THEN (IF Short(s) = sv.name THEN RecordOfSeq(sv.items, s, env) ELSE Undef)
         ELSE IF U THEN InBranch(sv, s, env, NamedIdx(s, env, {"record"}, sv.name)) ELSE Undef
    [] c = "tuple_variant" ->
         IF U /\ sv.idx < Len(s.branches)
         THEN LET b == Deref(s.branches[sv.idx + 1], env)
                  x == IF b.k = "record" /\ Short(b) = sv.variant THEN RecordOfSeq(sv.items, b, env) ELSE Undef
              IN IF IsDef(x) THEN [t |-> "union", i |-> sv.idx, v |-> x] ELSE Undef
         ELSE Undef
    [] c = "map" ->
         IF s.k = "map"
         THEN LET xs == [i \in 1..Len(sv.entries) |-> ToAvro(sv.entries[i][2], s.values, env)] IN
              IF AllDef(xs) /\ KeysDistinct(sv.entries) /\ \A i \in 1..Len(xs) : IsUtf8(sv.entries[i][1])
              THEN [t |-> "map", entries |-> [i \in 1..Len(xs) |-> <<sv.entries[i][1], xs[i]>>]] ELSE Undef
         ELSE IF U THEN InBranch(sv, s, env, KindIdx(s, env, {"map"})) ELSE Undef
    [] c = "struct" ->
         IF s.k = "record" THEN RecordOf(sv.fields, s, env)
         ELSE IF U THEN InBranch(sv, s, env, NamedIdx(s, env, {"record"}, sv.name)) ELSE Undef
    [] c = "structmap" ->
         IF s.k = "record" THEN RecordOf(sv.fields, s, env) ELSE Undef
    [] c = "struct_variant" ->
         IF U /\ sv.idx < Len(s.branches)
         THEN LET b == Deref(s.branches[sv.idx + 1], env)
                  x == IF b.k = "record" /\ Short(b) = sv.variant THEN RecordOf(sv.fields, b, env) ELSE Undef
              IN IF IsDef(x) THEN [t |-> "union", i |-> sv.idx, v |-> x] ELSE Undef
         ELSE Undef
    [] OTHER -> Undef

(***************************************************************************)
(* The way back.  AnyTerm(v, s, env): the serde term a self-describing     *)
(* read (deserialize_any) of Avro value v yields - the primary Rust type   *)
(* of avro_data_model_to_serde.  Names the reader cannot know are "?",     *)
(* the variant index of an enum symbol read that way is 65535.             *)
(***************************************************************************)
RECURSIVE AnyTerm(_, _, _)
AnyTerm(v, s0, env) ==
  LET s == Deref(s0, env) IN
  CASE s.k = "null" -> [c |-> "unit"]
    [] s.k = "boolean" -> [c |-> "bool", bool |-> v.bool]
    [] s.k \in IntKinds -> [c |-> "i32", n |-> v.n]
    [] s.k \in LongKinds -> [c |-> "i64", n |-> v.n]
    [] s.k = "float" -> [c |-> "f32", bits |-> v.bits]
    [] s.k = "double" -> [c |-> "f64", bits |-> v.bits]
    [] s.k \in {"bytes", "fixed"} -> [c |-> "bytes", b |-> v.b]
    [] s.k = "string" -> [c |-> "str", b |-> v.b]
    [] s.k = "enum" -> [c |-> "unit_variant", name |-> "?", idx |-> 65535, variant |-> v.sym]
    [] s.k = "union" -> AnyTerm(v.v, s.branches[v.i + 1], env)
    [] s.k = "array" -> [c |-> "seq", hint |-> TRUE,
                         items |-> [i \in 1..Len(v.items) |-> AnyTerm(v.items[i], s.items, env)]]
    [] s.k = "map" -> [c |-> "map", hint |-> TRUE,
                       entries |-> [i \in 1..Len(v.entries) |->
                                      <<v.entries[i][1], AnyTerm(v.entries[i][2], s.values, env)>>]]
    [] s.k = "record" ->
         IF HasAttr(s, "tuple")
         THEN [c |-> "tuple", items |-> [i \in 1..Len(s.fields) |-> AnyTerm(v.fields[i][2], s.fields[i].type, env)]]
         ELSE [c |-> "struct", name |-> "?", len |-> Len(s.fields),
               fields |-> [i \in 1..Len(s.fields) |->
                             <<s.fields[i].name, AnyTerm(v.fields[i][2], s.fields[i].type, env)>>]]
    [] OTHER -> [c |-> "undef"]

(***************************************************************************)
(* Norm(sv, s, env): the term a type-directed read of the written bytes    *)
(* must give back for sv to count as "recovered": identical, except that a *)
(* struct is seen with every schema field, in schema order, under the      *)
(* schema's field names, the fields that were not serialized holding the   *)
(* schema default; length hints are not observable (hint = TRUE).          *)
(* Only evaluated where ToAvro(sv, s, env) is defined.                     *)
(***************************************************************************)
RECURSIVE Norm(_, _, _)

NormFields(calls, s, env) ==
  [i \in 1..Len(s.fields) |->
     LET J == {j \in 1..Len(calls) : FieldPos(s, calls[j][1]) = i} IN
     <<s.fields[i].name,
       IF J = {} \/ calls[MinOf(J)][2].c = "skip"
       THEN AnyTerm(s.fields[i].def, s.fields[i].type, env)
       ELSE Norm(calls[MinOf(J)][2], s.fields[i].type, env)>>]

NormSeq(items, s, env) == [i \in 1..Len(items) |-> Norm(items[i], s.fields[i].type, env)]

(* the branch a term was placed in (s is a union and ToAvro is defined) *)
BranchOf(sv, s, env) == s.branches[ToAvro(sv, s, env).i + 1]

Norm(sv, s0, env) ==
  LET s == Deref(s0, env)
      c == sv.c
  IN
  IF c = "tuple" /\ Len(sv.items) = 1 THEN [sv EXCEPT !.items = <<Norm(sv.items[1], s, env)>>]
  ELSE IF s.k = "union" /\ c \notin {"none", "some", "unit_variant", "newtype_variant", "tuple_variant", "struct_variant"}
  THEN Norm(sv, BranchOf(sv, s, env), env)
  ELSE
  CASE c \in ScalarCalls \cup {"none", "unit", "unit_struct"} -> sv
    [] c = "some" -> [sv EXCEPT !.v = Norm(sv.v, s.branches[3 - KindIdx(s, env, {"null"})], env)]
    [] c = "unit_variant" -> sv
    [] c = "newtype_struct" -> [sv EXCEPT !.v = Norm(sv.v, s.fields[1].type, env)]
    [] c = "newtype_variant" ->
         LET b == Deref(s.branches[sv.idx + 1], env) IN
         [sv EXCEPT !.v = IF b.k = "record" /\ Len(b.fields) = 1 /\ Short(b) = sv.variant /\ HasAttr(b, "uor")
                          THEN Norm(sv.v, b.fields[1].type, env) ELSE Norm(sv.v, b, env)]
    [] c = "seq" -> [c |-> "seq", hint |-> TRUE,
                     items |-> [i \in 1..Len(sv.items) |-> Norm(sv.items[i], s.items, env)]]
    [] c = "tuple" ->
         IF Len(sv.items) = 0 THEN sv ELSE [sv EXCEPT !.items = NormSeq(sv.items, s, env)]
    [] c = "tuple_struct" -> [sv EXCEPT !.items = NormSeq(sv.items, s, env)]
    [] c = "tuple_variant" -> [sv EXCEPT !.items = NormSeq(sv.items, Deref(s.branches[sv.idx + 1], env), env)]
    [] c = "map" -> [c |-> "map", hint |-> TRUE,
                     entries |-> [i \in 1..Len(sv.entries) |->
                                    <<sv.entries[i][1], Norm(sv.entries[i][2], s.values, env)>>]]
    [] c = "struct" -> [c |-> "struct", name |-> sv.name, len |-> Len(s.fields),
                        fields |-> NormFields(sv.fields, s, env)]
    [] c = "structmap" -> [c |-> "structmap", hint |-> TRUE, fields |-> NormFields(sv.fields, s, env)]
    [] c = "struct_variant" ->
         LET b == Deref(s.branches[sv.idx + 1], env) IN
         [c |-> "struct_variant", name |-> sv.name, idx |-> sv.idx, variant |-> sv.variant,
          len |-> Len(b.fields), fields |-> NormFields(sv.fields, b, env)]
    [] OTHER -> [c |-> "undef"]

(***************************************************************************)
(* Equality of serde terms as Rust equality sees it: map entries form a    *)
(* set (HashMap iteration order is arbitrary), everything else is          *)
(* positional; floats are bit patterns.                                    *)
(***************************************************************************)
RECURSIVE TermEq(_, _)
SeqTermEq(a, b) == Len(a) = Len(b) /\ \A i \in 1..Len(a) : TermEq(a[i], b[i])
FieldsTermEq(a, b) == Len(a) = Len(b) /\ \A i \in 1..Len(a) : a[i][1] = b[i][1] /\ TermEq(a[i][2], b[i][2])
TermEq(a, b) ==
  IF a.c # b.c THEN FALSE
  ELSE CASE a.c = "some" -> TermEq(a.v, b.v)
         [] a.c = "newtype_struct" -> a.name = b.name /\ TermEq(a.v, b.v)
         [] a.c = "newtype_variant" -> a.name = b.name /\ a.idx = b.idx /\ a.variant = b.variant /\ TermEq(a.v, b.v)
         [] a.c = "seq" -> SeqTermEq(a.items, b.items)
         [] a.c = "tuple" -> SeqTermEq(a.items, b.items)
         [] a.c = "tuple_struct" -> a.name = b.name /\ SeqTermEq(a.items, b.items)
         [] a.c = "tuple_variant" -> a.name = b.name /\ a.idx = b.idx /\ a.variant = b.variant /\ SeqTermEq(a.items, b.items)
         [] a.c = "map" ->
              /\ Len(a.entries) = Len(b.entries)
              /\ \A i \in 1..Len(a.entries) : \E j \in 1..Len(b.entries) :
                    a.entries[i][1] = b.entries[j][1] /\ TermEq(a.entries[i][2], b.entries[j][2])
              /\ KeysDistinct(b.entries)
         [] a.c = "struct" -> a.name = b.name /\ FieldsTermEq(a.fields, b.fields)
         [] a.c = "structmap" -> FieldsTermEq(a.fields, b.fields)
         [] a.c = "struct_variant" -> a.name = b.name /\ a.idx = b.idx /\ a.variant = b.variant
                                      /\ FieldsTermEq(a.fields, b.fields)
         [] a.c = "undef" -> FALSE
         [] OTHER -> a = b

(***************************************************************************)
(* The fragment on which the schema-less mapping (to_value / from_value)   *)
(* coincides with the schema-aware one, as the property lists it: scalars, *)
(* strings, bytes, options, sequences, string-keyed maps, structs and      *)
(* unit-only enums.                                                        *)
(***************************************************************************)
RECURSIVE Coincides(_)
Coincides(sv) ==
  CASE sv.c \in ScalarCalls \cup {"none", "unit_variant"} -> TRUE
    [] sv.c = "some" -> Coincides(sv.v)
    [] sv.c = "seq" -> \A i \in 1..Len(sv.items) : Coincides(sv.items[i])
    [] sv.c = "map" -> \A i \in 1..Len(sv.entries) : Coincides(sv.entries[i][2])
    [] sv.c = "struct" -> \A i \in 1..Len(sv.fields) : sv.fields[i][2].c # "skip" /\ Coincides(sv.fields[i][2])
    [] OTHER -> FALSE

(* ... and the schema side of that fragment: unit_variant against an enum (not a union of
   records), scalars not placed inside a general union *)
RECURSIVE CoincidesAt(_, _, _)
CoincidesAt(sv, s0, env) ==
  LET s == Deref(s0, env) IN
  CASE sv.c \in ScalarCalls -> s.k # "union"
    [] sv.c = "none" -> TRUE
    [] sv.c = "unit_variant" -> s.k = "enum"
    [] sv.c = "some" -> CoincidesAt(sv.v, s.branches[3 - KindIdx(s, env, {"null"})], env)
    [] sv.c = "seq" -> s.k = "array" /\ \A i \in 1..Len(sv.items) : CoincidesAt(sv.items[i], s.items, env)
    [] sv.c = "map" -> s.k = "map" /\ \A i \in 1..Len(sv.entries) : CoincidesAt(sv.entries[i][2], s.values, env)
    [] sv.c = "struct" ->
         s.k = "record" /\ Len(sv.fields) = Len(s.fields) /\ \A i \in 1..Len(sv.fields) :
            CoincidesAt(sv.fields[i][2], s.fields[FieldPos(s, sv.fields[i][1])].type, env)
    [] OTHER -> FALSE

(***************************************************************************)
(* Layout.  The block writer in function form (the state machine is        *)
(* SerdeBlock.tla): items are appended to a buffer; as soon as the buffer  *)
(* holds at least `target` bytes it is written as one block with a         *)
(* NEGATIVE item count followed by its byte size; what is left at the end  *)
(* is a last, smaller block; then the zero terminator.                     *)
(***************************************************************************)
RECURSIVE BufBlocks(_, _, _, _)
BufBlocks(encs, target, buf, n) ==
  IF Len(encs) = 0
  THEN (IF n > 0 THEN LongOfNegNat(n) \o LongOfNat(Len(buf)) \o buf ELSE <<>>) \o <<0>>
  ELSE LET b2 == buf \o encs[1] IN
       IF Len(b2) >= target
       THEN LongOfNegNat(n + 1) \o LongOfNat(Len(b2)) \o b2 \o BufBlocks(Tail(encs), target, <<>>, 0)
       ELSE BufBlocks(Tail(encs), target, b2, n + 1)

DirectBlocks(encs) == (IF Len(encs) = 0 THEN <<>> ELSE LongOfNat(Len(encs)) \o FlattenSeq(encs)) \o <<0>>

(* cfg = [t |-> target block size, 0 = None;  hint |-> lengths are given up front] *)
DefaultTarget == 1024
BlocksFor(encs, cfg) ==
  IF cfg.t = 0 /\ cfg.hint THEN DirectBlocks(encs)
  ELSE BufBlocks(encs, IF cfg.t = 0 THEN DefaultTarget ELSE cfg.t, <<>>, 0)

RECURSIVE EncB(_, _, _, _)
EncB(v, s0, env, cfg) ==
  LET s == Deref(s0, env) IN
  CASE s.k = "union" -> LongOfNat(v.i) \o EncB(v.v, s.branches[v.i + 1], env, cfg)
    [] s.k = "array" -> BlocksFor([i \in 1..Len(v.items) |-> EncB(v.items[i], s.items, env, cfg)], cfg)
    [] s.k = "map" -> BlocksFor([i \in 1..Len(v.entries) |->
                                   LenPrefix(v.entries[i][1]) \o EncB(v.entries[i][2], s.values, env, cfg)], cfg)
    [] s.k = "record" -> FlattenSeq([i \in 1..Len(s.fields) |-> EncB(v.fields[i][2], s.fields[i].type, env, cfg)])
    [] OTHER -> Enc(v, s, env)

(* are all sequence / map lengths of the term announced up front? (serialize_seq(Some(len))) *)
RECURSIVE Hinted(_)
Hinted(sv) ==
  CASE sv.c \in {"some", "newtype_struct", "newtype_variant"} -> Hinted(sv.v)
    [] sv.c = "seq" -> sv.hint /\ \A i \in 1..Len(sv.items) : Hinted(sv.items[i])
    [] sv.c \in {"tuple", "tuple_struct", "tuple_variant"} -> \A i \in 1..Len(sv.items) : Hinted(sv.items[i])
    [] sv.c = "map" -> sv.hint /\ \A i \in 1..Len(sv.entries) : Hinted(sv.entries[i][2])
    [] sv.c \in {"struct", "structmap", "struct_variant"} -> \A i \in 1..Len(sv.fields) : Hinted(sv.fields[i][2])
    [] OTHER -> TRUE

(* SerdeEnc: the bytes the schema-aware serializer is modelled to emit *)
SerdeEnc(sv, s, env, cfg) == EncB(ToAvro(sv, s, env), s, env, cfg)

(***************************************************************************)
(* The documented examples (serde/ser_schema tests quote the same bytes).  *)
(***************************************************************************)
SInt == [k |-> "int"]
OptInt == [k |-> "union", branches |-> <<[k |-> "null"], SInt>>]
IntOpt == [k |-> "union", branches |-> <<SInt, [k |-> "null"]>>]
I32(n) == [c |-> "i32", n |-> NatToLE8(n)]
ASSUME ToAvro([c |-> "u8", n |-> NatToLE8(4)], SInt, EmptyFun) = [t |-> "int", n |-> NatToLE8(4)]
ASSUME ~IsDef(ToAvro([c |-> "u32", n |-> NatToLE8(13)], SInt, EmptyFun))         \* u32 is a long
ASSUME ~IsDef(ToAvro([c |-> "none"], [k |-> "null"], EmptyFun))                   \* None needs a union
ASSUME SerdeEnc([c |-> "none"], OptInt, EmptyFun, [t |-> 0, hint |-> TRUE]) = <<0>>
ASSUME SerdeEnc([c |-> "some", v |-> I32(3)], OptInt, EmptyFun, [t |-> 0, hint |-> TRUE]) = <<2, 6>>
ASSUME SerdeEnc([c |-> "some", v |-> I32(3)], IntOpt, EmptyFun, [t |-> 0, hint |-> TRUE]) = <<0, 6>>
ASSUME SerdeEnc([c |-> "none"], IntOpt, EmptyFun, [t |-> 0, hint |-> TRUE]) = <<2>>
ASSUME SerdeEnc([c |-> "seq", hint |-> TRUE, items |-> <<I32(3), I32(27)>>], [k |-> "array", items |-> SInt],
                EmptyFun, [t |-> 0, hint |-> TRUE]) = <<4, 6, 54, 0>>
(* buffered, target 1: every item is its own block: count -1, size 1 *)
ASSUME SerdeEnc([c |-> "seq", hint |-> TRUE, items |-> <<I32(3), I32(27)>>], [k |-> "array", items |-> SInt],
                EmptyFun, [t |-> 1, hint |-> TRUE]) = <<1, 2, 6, 1, 2, 54, 0>>
(* buffered, large target: one negative block holding everything *)
ASSUME SerdeEnc([c |-> "seq", hint |-> TRUE, items |-> <<I32(3), I32(27)>>], [k |-> "array", items |-> SInt],
                EmptyFun, [t |-> 1000000, hint |-> TRUE]) = <<3, 4, 6, 54, 0>>
=============================================================================
