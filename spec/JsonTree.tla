------------------------------ MODULE JsonTree ------------------------------
(***************************************************************************)
(* JSON documents as terms, with ORDERED and POSSIBLY DUPLICATED object    *)
(* keys (so "strict JSON, no duplicate keys" is expressible).              *)
(*                                                                         *)
(*   [j |-> "obj", kv |-> << <<key, tree>>, ... >>]    key: STRING (atomic) *)
(*   [j |-> "arr", items |-> <<tree, ...>>]                                *)
(*   [j |-> "str", s |-> STRING, u |-> <<utf-8 bytes>>]  atom + code units  *)
(*   [j |-> "int", n |-> Int]             integers with |n| < 2^31          *)
(*   [j |-> "num", text |-> STRING]       any other number, source text     *)
(*   [j |-> "bool", bv |-> BOOLEAN]       [j |-> "null"]                    *)
(*                                                                         *)
(* The harness produces these with harness/src/jsontree.rs (a scanner that *)
(* keeps key order and duplicates, which serde_json::Value does not).      *)
(***************************************************************************)
EXTENDS Naturals, Integers, Sequences, FiniteSets, TLC

JObj(kv) == [j |-> "obj", kv |-> kv]
JArr(items) == [j |-> "arr", items |-> items]
JStr(s, u) == [j |-> "str", s |-> s, u |-> u]
JInt(n) == [j |-> "int", n |-> n]
JNum(text) == [j |-> "num", text |-> text]
JBool(b) == [j |-> "bool", bv |-> b]
JNull == [j |-> "null"]

IsObj(t) == t.j = "obj"
Keys(t) == [i \in 1..Len(t.kv) |-> t.kv[i][1]]
KeySet(t) == {t.kv[i][1] : i \in 1..Len(t.kv)}
HasKey(t, k) == IsObj(t) /\ k \in KeySet(t)
(* first / last occurrence (serde_json keeps the LAST duplicate) *)
GetFirst(t, k) == t.kv[CHOOSE i \in 1..Len(t.kv) : t.kv[i][1] = k /\ \A m \in 1..(i-1) : t.kv[m][1] # k][2]
GetLast(t, k) == t.kv[CHOOSE i \in 1..Len(t.kv) : t.kv[i][1] = k /\ \A m \in (i+1)..Len(t.kv) : t.kv[m][1] # k][2]
NoDupKeysHere(t) == \A a, b \in 1..Len(t.kv) : t.kv[a][1] = t.kv[b][1] => a = b

RECURSIVE NoDupKeys(_)
NoDupKeys(t) ==
  CASE t.j = "obj" -> NoDupKeysHere(t) /\ \A i \in 1..Len(t.kv) : NoDupKeys(t.kv[i][2])
    [] t.j = "arr" -> \A i \in 1..Len(t.items) : NoDupKeys(t.items[i])
    [] OTHER -> TRUE

(* equality of meaning for plain JSON values (objects as finite maps; requires no duplicate keys) *)
RECURSIVE JEq(_, _)
JEq(a, b) ==
  IF a.j # b.j THEN FALSE
  ELSE CASE a.j = "obj" ->
              /\ KeySet(a) = KeySet(b) /\ Len(a.kv) = Len(b.kv)
              /\ \A k \in KeySet(a) : JEq(GetLast(a, k), GetLast(b, k))
         [] a.j = "arr" -> Len(a.items) = Len(b.items) /\ \A i \in 1..Len(a.items) : JEq(a.items[i], b.items[i])
         [] a.j = "str" -> a.u = b.u
         [] OTHER -> a = b
=============================================================================
