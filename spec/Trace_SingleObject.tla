-------------------------- MODULE Trace_SingleObject --------------------------
(***************************************************************************)
(* Judges recorded single-object writer/reader executions (C18).           *)
(*  so-write : one call on a writer instance (after any history of other   *)
(*             calls, failed ones included).  Ok => the bytes that reached *)
(*             the sink are exactly C3 01, the little-endian CRC-64-AVRO   *)
(*             of the canonical form, then one datum that the independent  *)
(*             parser reads back as the value; both readers return the     *)
(*             value.  Failed => nothing reached the sink.                 *)
(*  so-damage: a message whose header was altered in one bit, or cut, is   *)
(*             rejected by both readers.                                   *)
(***************************************************************************)
EXTENDS AvroBinary, Crc64, Json, IOUtils, Known

Rec == ndJsonDeserialize(IOEnv.TRACE)
VARIABLE l

If(c, name) == IF c THEN {} ELSE {name}

SpecHeader(canon) == <<195, 1>> \o RabinBytes(canon)

JudgeWrite(e) ==
  LET env == Defs(e.s)
      hdr == SpecHeader(e.canon)
      m   == e.msg
      P   == IF Len(m) >= 10 THEN ParseAll(SubSeq(m, 11, Len(m)), e.s, env) ELSE Fail("short", 0)
  IN
  If(~e.panic, "C18:panic")
  \cup
  (IF e.expect = "ok" THEN
        If(e.res = "ok", "C18:good-write-failed")
   \cup If(e.res # "ok" \/ (Len(m) >= 10 /\ SubSeq(m, 1, 10) = hdr), "C18:header-is-not-C3-01-then-LE-CRC64-of-canonical-form")
   \cup If(e.res # "ok" \/ Len(m) < 10 \/ (P.ok /\ VEq(P.v, e.v)), "C18:message-is-not-header-then-exactly-this-datum")
   \cup If(e.res # "ok" \/ (e.read_generic.ok /\ VEq(e.read_generic.v, e.v)), "C18:generic-reader-does-not-return-the-value")
   \cup If(e.res # "ok" \/ ~e.typed \/ e.read_typed_ok, "C18:typed-reader-does-not-return-the-value")
   \cup If(e.res # "ok" \/ ~e.counted \/ e.returned = Len(m), "C18:returned-count-differs")
   ELSE
        If(e.res = "err", "C18:bad-write-succeeded")
   \cup If(e.expect # "rejected" \/ Len(m) = 0, "C18:rejected-value-reached-the-sink"))

JudgeDamage(e) ==
  LET hdr == SpecHeader(e.canon)
      dh  == SubSeq(e.damaged, 1, IF Len(e.damaged) < 10 THEN Len(e.damaged) ELSE 10)
  IN If(~e.panic, "C18:panic")
     \cup If(dh = hdr \/ (~e.generic_ok /\ ~e.typed_ok), "C18:foreign-or-short-header-accepted")
     \cup If(dh # hdr \/ Len(e.damaged) < Len(e.msg) \/ e.generic_ok, "C18:intact-message-rejected")

(* Beyond C18: the same writer/reader with a caller-supplied header builder.  The Glue header is
   03 00 followed by the 16 bytes of the schema UUID (crate documentation of GlueSchemaUuidHeader). *)
JudgeGlue(e) ==
  LET m == e.msg
      P == IF Len(m) >= 18 THEN ParseAll(SubSeq(m, 19, Len(m)), e.s, Defs(e.s)) ELSE Fail("short", 0)
  IN If(~e.panic, "C18:panic")
     \cup If(e.res = "ok", "C18:good-write-failed")
     \cup If(e.res # "ok" \/ (Len(m) >= 18 /\ SubSeq(m, 1, 18) = <<3, 0>> \o e.uuid), "C18:custom-header-not-emitted-as-built")
     \cup If(e.res # "ok" \/ Len(m) < 18 \/ (P.ok /\ VEq(P.v, e.v)), "C18:message-is-not-header-then-exactly-this-datum")
     \cup If(e.res # "ok" \/ (e.read_generic.ok /\ VEq(e.read_generic.v, e.v)), "C18:generic-reader-does-not-return-the-value")
     \cup If(~e.foreign_ok, "C18:foreign-or-short-header-accepted")
     \cup If(e.res # "ok" \/ e.returned = Len(m), "C18:returned-count-differs")

Judge(e) == [fail |-> IF e.ev = "so-write" THEN JudgeWrite(e)
                      ELSE IF e.ev = "so-glue" THEN JudgeGlue(e) ELSE JudgeDamage(e), known |-> {}, drift |-> {}]

Init == l = 1
Next == /\ l <= Len(Rec)
        /\ LET e == Rec[l]  r == Judge(e) IN
             IF r.fail = {} /\ r.drift = {} THEN TRUE
             ELSE PrintT("VERDICT " \o ToJson([id |-> e.id, fail |-> r.fail, known |-> r.known, drift |-> r.drift]))
        /\ l' = l + 1
Consumed == IF TLCGet("stats").diameter = Len(Rec) + 1 THEN PrintT("CONSUMED " \o ToString(Len(Rec)))
            ELSE PrintT("UNCONSUMED " \o ToString(TLCGet("stats").diameter)) /\ FALSE
=============================================================================
