SPECIFICATION Spec
CONSTANT MaxEdits = 1
CONSTANT SeedSet = "all"
INVARIANT EditsIrrelevant
INVARIANT CanonicalShape
INVARIANT Idempotent
INVARIANT GreyStable
INVARIANT RoundTripSatisfiable
INVARIANT DeviationsAreLocal
CHECK_DEADLOCK FALSE
