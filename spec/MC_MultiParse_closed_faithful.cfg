SPECIFICATION Spec
CONSTANT Mode = "faithful"
CONSTANT K = 2
CONSTANT KW = 2
CONSTANT KB = 1
CONSTANT EmitScn = FALSE
INVARIANT MachineMatchesClosedForm
CHECK_DEADLOCK FALSE
