---------------------------- MODULE AvroSchema ----------------------------
(***************************************************************************)
(* Schema terms.  A schema is a record with tag k and a fixed key set per  *)
(* tag.  Names are always FULL names (namespace resolution is the job of   *)
(* SchemaJson!Meaning; at this level a name is an atom).                   *)
(*                                                                         *)
(*   [k |-> "null"|"boolean"|"int"|"long"|"float"|"double"|"bytes"|"string"]*)
(*   [k |-> "date"|"time-millis"]                        int-based logical  *)
(*   [k |-> "time-micros"|"timestamp-millis"|...]        long-based logical *)
(*   [k |-> "array", items |-> s]      [k |-> "map", values |-> s]          *)
(*   [k |-> "union", branches |-> <<s1, ..>>]                               *)
(*   [k |-> "record", name |-> n, fields |-> <<[name |-> f, type |-> s,..]>>]*)
(*   [k |-> "enum", name |-> n, symbols |-> <<"A", ..>>]                    *)
(*   [k |-> "fixed", name |-> n, size |-> z]                                *)
(*   [k |-> "decimal", base |-> "bytes"|"fixed", name, size, precision, scale]*)
(*   [k |-> "uuid", base |-> "string"|"bytes"|"fixed", name, size]          *)
(*   [k |-> "duration", name, size]        [k |-> "big-decimal"]            *)
(*   [k |-> "ref", name |-> n]                                              *)
(***************************************************************************)
EXTENDS Naturals, Sequences, FiniteSets, TLC

IntKinds  == {"int", "date", "time-millis"}
LongKinds == {"long", "time-micros", "timestamp-millis", "timestamp-micros", "timestamp-nanos",
              "local-timestamp-millis", "local-timestamp-micros", "local-timestamp-nanos"}
PrimKinds == {"null", "boolean", "int", "long", "float", "double", "bytes", "string"}
NamedKinds == {"record", "enum", "fixed"}

SeqRange(s) == {s[i] : i \in DOMAIN s}

(* union of a sequence of functions with disjoint-or-agreeing domains (later wins) *)
FunMerge(f, g) == [x \in (DOMAIN f) \cup (DOMAIN g) |-> IF x \in DOMAIN g THEN g[x] ELSE f[x]]
EmptyFun == [x \in {} |-> 0]

(* The name environment of a schema: every named definition occurring in it. *)
RECURSIVE Defs(_)
RECURSIVE DefsSeq(_, _)
DefsSeq(ss, i) == IF i > Len(ss) THEN EmptyFun ELSE FunMerge(Defs(ss[i]), DefsSeq(ss, i + 1))
Defs(s) ==
  CASE s.k = "array" -> Defs(s.items)
    [] s.k = "map" -> Defs(s.values)
    [] s.k = "union" -> DefsSeq(s.branches, 1)
    [] s.k = "record" ->
         FunMerge(DefsSeq([i \in 1..Len(s.fields) |-> s.fields[i].type], 1), (s.name :> s))
    [] s.k \in {"enum", "fixed"} -> (s.name :> s)
    [] s.k \in {"decimal", "uuid"} -> IF s.base = "fixed" THEN (s.name :> s) ELSE EmptyFun
    [] s.k = "duration" -> (s.name :> s)
    [] OTHER -> EmptyFun

Deref(s, env) == IF s.k = "ref" THEN env[s.name] ELSE s
=============================================================================
