----------------------------- MODULE SerdeRecord -----------------------------
(***************************************************************************)
(* The record serializer of the schema-aware serde writer                  *)
(* (avro/src/serde/ser_schema/record/mod.rs), one action per call a        *)
(* Serialize implementation can make on it.                                *)
(*                                                                         *)
(* The record has N fields.  Field i serializes to ValB[i]; its schema     *)
(* default (when hasdef[i]) to DefB[i].  Calls arrive in ANY order:        *)
(*   CallSerialize(i)  serialize_field / serialize_entry for field i       *)
(*   CallSkip(i)       skip_field for field i (the default is written)     *)
(*   CallEnd / EndStep end(): defaults for every field not yet seen        *)
(* State as in the code: `pos` = field_position (next field the writer may *)
(* emit), `cache` = encodings of fields received too early, `out` = the    *)
(* bytes that reached the writer, `cnt` = bytes_written.                   *)
(***************************************************************************)
EXTENDS Naturals, Sequences, FiniteSets, TLC, SequencesExt

CONSTANTS N,        \* number of fields
          ValB,     \* [1..N -> byte sequence]
          DefB,     \* [1..N -> byte sequence]
          MaxCalls  \* bound on the number of calls before end()

VARIABLES hasdef,   \* [1..N -> BOOLEAN]  (chosen initially: the schema)
          pos, cache, out, cnt,
          st,       \* "open" | "ending" | "ok" | "err"
          hist      \* the calls made so far: <<"ser"|"skip", i>>
vars == <<hasdef, pos, cache, out, cnt, st, hist>>

NoCache == [x \in {} |-> <<>>]
Without(f, X) == [x \in (DOMAIN f) \ X |-> f[x]]

Init == /\ hasdef \in [1..N -> BOOLEAN]
        /\ pos = 1 /\ cache = NoCache /\ out = <<>> /\ cnt = 0 /\ st = "open" /\ hist = <<>>

(* how far the cached run starting at p reaches *)
RECURSIVE RunEnd(_, _)
RunEnd(p, c) == IF p \in DOMAIN c THEN RunEnd(p + 1, c) ELSE p
RunBytes(p, q, c) == FlattenSeq([j \in 1..(q - p) |-> c[p + j - 1]])

(* serialize_next_field(position, value) *)
SerializeNext(i, bytes) ==
  IF pos = i
  THEN \* the field the writer is waiting for: write it, then everything cached right behind it
       LET q == RunEnd(i + 1, cache)
           more == RunBytes(i + 1, q, cache) IN
       /\ out' = out \o bytes \o more
       /\ cnt' = cnt + Len(bytes) + Len(more)
       /\ pos' = q
       /\ cache' = Without(cache, (i + 1)..(q - 1))
       /\ UNCHANGED st
  ELSE IF pos < i
  THEN \* too early: keep the encoding until its turn comes
       IF i \in DOMAIN cache
       THEN st' = "err" /\ UNCHANGED <<pos, cache, out, cnt>>          \* duplicate
       ELSE cache' = (i :> bytes) @@ cache /\ UNCHANGED <<pos, out, cnt, st>>
  ELSE st' = "err" /\ UNCHANGED <<pos, cache, out, cnt>>               \* already written: duplicate

(* serialize_default(position) *)
SerializeDefault(i) ==
  IF hasdef[i] THEN SerializeNext(i, DefB[i])
  ELSE st' = "err" /\ UNCHANGED <<pos, cache, out, cnt>>               \* missing default for skipped field

CallSerialize(i) == /\ st = "open" /\ Len(hist) < MaxCalls
                    /\ SerializeNext(i, ValB[i])
                    /\ hist' = Append(hist, <<"ser", i>>) /\ UNCHANGED hasdef

CallSkip(i) == /\ st = "open" /\ Len(hist) < MaxCalls
               /\ SerializeDefault(i)
               /\ hist' = Append(hist, <<"skip", i>>) /\ UNCHANGED hasdef

CallEnd == /\ st = "open"
           /\ st' = "ending" /\ UNCHANGED <<hasdef, pos, cache, out, cnt, hist>>

(* while field_position != fields.len() { serialize_default(field_position) } *)
EndStep == /\ st = "ending"
           /\ IF pos = N + 1 THEN st' = "ok" /\ UNCHANGED <<pos, cache, out, cnt>>
              ELSE SerializeDefault(pos)
           /\ UNCHANGED <<hasdef, hist>>

Next == (\E i \in 1..N : CallSerialize(i) \/ CallSkip(i)) \/ CallEnd \/ EndStep
Spec == Init /\ [][Next]_vars

(* ---- what the calls mean ---- *)
Provided(k) == {i \in 1..N : \E j \in 1..Len(hist) : hist[j] = <<k, i>>}
Mentioned == Provided("ser") \cup Provided("skip")
NoDuplicates == \A j, k \in 1..Len(hist) : hist[j][2] = hist[k][2] => j = k
(* the bytes field i contributes: its value if serialized, else its default *)
Chosen(i) == IF i \in Provided("ser") THEN ValB[i] ELSE DefB[i]
InOrder(n) == FlattenSeq([i \in 1..n |-> Chosen(i)])

(* ---- invariants ---- *)
TypeOK == /\ pos \in 1..(N + 1) /\ st \in {"open", "ending", "ok", "err"}
          /\ DOMAIN cache \subseteq 1..N
CountIsBytes == cnt = Len(out)
(* what has been written is always the fields before `pos`, in schema order, each once *)
WrittenPrefix == st # "err" => out = InOrder(pos - 1)
(* nothing the writer could already have written sits in the cache *)
CacheAhead == st # "err" => \A i \in DOMAIN cache : i > pos
(* whatever the call order: the record with its fields in schema order, each exactly once *)
Complete == st = "ok" => /\ out = InOrder(N) /\ cnt = Len(out) /\ cache = NoCache
                         /\ NoDuplicates
                         /\ \A i \in 1..N : i \notin Provided("ser") => hasdef[i]
(* the only ways to fail: a field mentioned twice, or no default where one is needed *)
FailsOnlyFor == st = "err" => \/ ~NoDuplicates
                              \/ \E i \in 1..N : ~hasdef[i] /\ i \notin Provided("ser")
(* and it does finish well whenever the calls are legal *)
LegalCallsSucceed == (st \in {"ok", "err"} /\ NoDuplicates
                      /\ \A i \in 1..N : i \notin Provided("ser") => hasdef[i]) => st = "ok"
=============================================================================
