------------------------------ MODULE Container ------------------------------
(***************************************************************************)
(* The object container file format at byte level (Avro specification,     *)
(* "Object Container Files"; DESIGN Appendix B.2), independent of the      *)
(* crate's reader and writer:                                              *)
(*                                                                         *)
(*   file   = magic meta marker block*                                     *)
(*   magic  = 4F 62 6A 01                                                  *)
(*   meta   = map<bytes> in Avro binary encoding (any spec-legal layout)   *)
(*   marker = 16 bytes                                                     *)
(*   block  = long count, long size, size bytes of payload, marker         *)
(*                                                                         *)
(* ParseFile(f) returns the header metadata, the marker, every complete    *)
(* block [count, payload] and the byte offsets at which the header and     *)
(* each block end (the block boundaries C14 talks about).                  *)
(***************************************************************************)
EXTENDS AvroBinary

Magic == <<79, 98, 106, 1>>
MetaSchema == [k |-> "map", values |-> [k |-> "bytes"]]

NoFile(why) == [ok |-> FALSE, why |-> why, meta |-> <<>>, marker |-> <<>>, blocks |-> <<>>, bounds |-> <<>>, rest |-> 0]

RECURSIVE ParseBlocksF(_, _, _, _, _)
(* complete blocks from pos on; stops at the first position where no complete block with the
   right marker follows (rest = number of bytes left over there) *)
ParseBlocksF(f, pos, marker, blocks, bounds) ==
  IF pos > Len(f) THEN [blocks |-> blocks, bounds |-> bounds, rest |-> 0, badmarker |-> FALSE]
  ELSE LET c == ReadLong(f, pos) IN
       IF ~c.ok \/ IsNeg8(c.n) \/ ~IsSmallNat(c.n)
       THEN [blocks |-> blocks, bounds |-> bounds, rest |-> Len(f) - pos + 1, badmarker |-> FALSE]
       ELSE LET z == ReadLong(f, c.pos) IN
            IF ~z.ok \/ IsNeg8(z.n) \/ ~IsSmallNat(z.n) \/ z.pos + ToNat(z.n) + 16 - 1 > Len(f)
            THEN [blocks |-> blocks, bounds |-> bounds, rest |-> Len(f) - pos + 1, badmarker |-> FALSE]
            ELSE LET size == ToNat(z.n)
                     payload == SubSeq(f, z.pos, z.pos + size - 1)
                     mk == SubSeq(f, z.pos + size, z.pos + size + 15)
                     endp == z.pos + size + 16          \* first position after the block
                 IN IF mk # marker
                    THEN [blocks |-> blocks, bounds |-> bounds, rest |-> Len(f) - pos + 1, badmarker |-> TRUE]
                    ELSE ParseBlocksF(f, endp, marker,
                                      Append(blocks, [count |-> ToNat(c.n), payload |-> payload]),
                                      Append(bounds, endp - 1))

ParseFile(f) ==
  IF Len(f) < 4 \/ SubSeq(f, 1, 4) # Magic THEN NoFile("magic")
  ELSE LET m == Parse(f, 5, MetaSchema, EmptyFun) IN
       IF ~m.ok THEN NoFile("meta")
       ELSE IF m.pos + 15 > Len(f) THEN NoFile("marker")
       ELSE LET marker == SubSeq(f, m.pos, m.pos + 15)
                hdrEnd == m.pos + 15
                b == ParseBlocksF(f, hdrEnd + 1, marker, <<>>, <<hdrEnd>>)
            IN [ok |-> TRUE, why |-> IF b.badmarker THEN "badmarker" ELSE "",
                meta |-> [i \in 1..Len(m.v.entries) |-> <<m.v.entries[i][1], m.v.entries[i][2].b>>], marker |-> marker, blocks |-> b.blocks, bounds |-> b.bounds, rest |-> b.rest]

(* lookup in the metadata (last entry wins, as for any map) *)
MetaHas(meta, key) == \E i \in 1..Len(meta) : meta[i][1] = key
MetaGet(meta, key) == meta[CHOOSE i \in 1..Len(meta) : meta[i][1] = key /\ \A j \in (i+1)..Len(meta) : meta[j][1] # key][2]

(* building a file (the "independent implementation" writing direction of C04) *)
EncBlock(count, payload, marker) == LongOfNat(count) \o LongOfNat(Len(payload)) \o payload \o marker
FileOf(metaBytes, marker, blocks) ==
  Magic \o metaBytes \o marker \o FlattenSeq([i \in 1..Len(blocks) |-> EncBlock(blocks[i].count, blocks[i].payload, marker)])

(* items of a null-codec block: `count` datums of schema s from the payload, nothing left over *)
RECURSIVE ParseN(_, _, _, _, _, _)
ParseN(w, pos, n, s, env, acc) ==
  IF n = 0 THEN [ok |-> pos = Len(w) + 1, items |-> acc]
  ELSE LET r == Parse(w, pos, s, env) IN
       IF ~r.ok THEN [ok |-> FALSE, items |-> acc] ELSE ParseN(w, r.pos, n - 1, s, env, Append(acc, r.v))

AvroSchemaKey == <<97, 118, 114, 111, 46, 115, 99, 104, 101, 109, 97>>        \* "avro.schema"
AvroCodecKey  == <<97, 118, 114, 111, 46, 99, 111, 100, 101, 99>>             \* "avro.codec"
NullName == <<110, 117, 108, 108>>                                             \* "null"

ASSUME ParseFile(Magic \o <<0>> \o [i \in 1..16 |-> 7]).ok
ASSUME ParseFile(Magic \o <<0>> \o [i \in 1..16 |-> 7]).bounds = <<21>>
ASSUME ParseFile(Magic \o <<2, 2, 107, 2, 118, 0>> \o [i \in 1..16 |-> 7] \o <<4, 2, 9>> \o [i \in 1..16 |-> 7]).blocks
         = <<[count |-> 2, payload |-> <<9>>]>>
ASSUME ~ParseFile(<<79, 98, 106, 2, 0>>).ok
=============================================================================
