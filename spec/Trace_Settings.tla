--------------------------- MODULE Trace_Settings ---------------------------
(***************************************************************************)
(* Judges what the harness (avh_c19) recorded on the real crate.           *)
(*                                                                         *)
(* 1. Thread trials (events reset / call / ret / crash): LINEARIZABILITY   *)
(*    against Settings.  The events are in sequence-number order; `call`   *)
(*    is the module's Call action, `ret` its Return action with the        *)
(*    recorded value; between a call and its ret the specification may     *)
(*    take the silent steps Begin / Finish / Observe of that thread (at    *)
(*    most two per cell the call touches, so the search is finite).  A     *)
(*    trial is accepted iff some choice of silent steps consumes all of    *)
(*    its events.  The highest trace position reached is kept in TLC       *)
(*    register 1 (updated from the CONSTRAINT; needs -workers 1).          *)
(*    WriteOnce is checked as an action property on every step taken.      *)
(*                                                                         *)
(*    Search reductions (each preserves the set of accepted traces):       *)
(*     R1 silent steps are taken only when the next event is a `ret`       *)
(*        (a linearization point can always be moved later past `call`     *)
(*        events, it stays inside its own call..ret interval);             *)
(*     R2 Observe(t, c) is taken only just before t's own `ret` (the cell  *)
(*        is set and, by WriteOnce, the value read later is the same);     *)
(*     R3 while an initialiser is running the only step is its Finish      *)
(*        (everybody who needs the cell is blocked, every other step       *)
(*        commutes with Finish).                                           *)
(*                                                                         *)
(* 2. Per-event judging (events touch / firstuse / setlimit / probe):      *)
(*    which cells a call initialises (Touches), what the setter reports,   *)
(*    and the decoders' limit check  accepted <=> len <= limit in force.   *)
(*    Non-clean events print  VERDICT {"id":..,"fail":[..],"drift":[..]}.  *)
(***************************************************************************)
EXTENDS Settings, Json, IOUtils, Known

Rec == ndJsonDeserialize(IOEnv.TRACE)
N == Len(Rec)

VARIABLE l
tvars == <<cell, th, first, hist, l>>

TraceThreads == 0..9
TraceOpsOf(t) == {}

ASSUME TLCSet(1, 0)

If(c, name) == IF c THEN {} ELSE {name}

(***************************************************************************)
(* per-event judging                                                       *)
(***************************************************************************)
RangeOf(s) == {s[i] : i \in DOMAIN s}

\* the value that must be in force in a fresh process: the first set wins; a use before it installs the default
DefaultU64 == U64OfNat(DefaultMaxAllocationBytes)
InForce(e) == IF e.mode = "setfirst" THEN e.asked ELSE DefaultU64

\* 64-bit product of a 32-bit count and a small item size, on the byte carrier
RECURSIVE Carry(_, _, _)
Carry(b, i, c) == IF i > 8 THEN <<>> ELSE LET x == b[i] + c IN <<x % 256>> \o Carry(b, i + 1, x \div 256)
U64Scale(a, k) == Carry([i \in 1..8 |-> a[i] * k], 1, 0)     \* callers keep the product below 2^64
ASSUME U64Scale(U64OfNat(9586980), 56) = U64OfNat(536870880)
ASSUME U64Scale(U64OfNat(73), 56) = U64OfNat(4088)
ASSUME U64Scale(U64OfNat(1048577), 80) = U64OfNat(83886160)

JudgeProbe(e) ==
  LET F      == InForce(e)
      size   == IF e.isz = 1 THEN e.len ELSE U64Scale(e.len, e.isz)     \* bytes the crate accounts for the declaration
      isColl == e.isz # 1
      mustAccept == AcceptU64(size, F)             \* under every reading of "declared length"
      mustReject == ~AcceptU64(e.len, F)           \* under every reading
      passed == IF e.supplied THEN e.out = "ok" ELSE e.out \in {"ok", "other"}    \* got past the limit check
  IN [fail |->    If(e.out # "panic", "C05:panic")
             \cup If(~(mustAccept /\ e.out = "limit"), "C19:within-limit-rejected")
             \cup If(~(mustAccept /\ e.supplied /\ e.out \in {"other", "wrong"}), "TOOL:probe-failed-for-another-reason")
             \cup If(~(mustReject /\ passed), "C19:over-limit-accepted")
             \cup If(~(mustReject /\ e.out = "panic"), "C19:over-limit-panicked")      \* a panic is not a rejection
             \cup If(~(mustReject /\ e.supplied /\ e.out \in {"other", "wrong"}), "TOOL:probe-failed-for-another-reason"),
      \* collections: count <= limit < count * item size is decided by the crate's documented accounting (bytes)
      drift |-> If(~(isColl /\ ~mustAccept /\ ~mustReject /\ e.out # "limit"), "collection-not-accounted-in-bytes")]

JudgeSetLimit(e) ==
  [fail |->    If(e.reported = InForce(e), "C19:setter-reports-wrong-value")
          \cup If(e.again = InForce(e), "C19:second-set-reports-wrong-value"),
   drift |-> {}]

JudgeTouch(e) ==
  LET o == [op |-> e.op, c |-> e.c, arg |-> e.arg] IN
  [fail |-> If(RangeOf(e.touched) = Touches(o), "TOOL:call-touches-other-cells-than-modelled"), drift |-> {}]

Judge(e) ==
  CASE e.ev = "probe"    -> JudgeProbe(e)
    [] e.ev = "setlimit" -> JudgeSetLimit(e)
    [] e.ev = "touch"    -> JudgeTouch(e)
    [] e.ev = "firstuse" -> [fail |-> If(e.out = "ok", "TOOL:first-use-probe-failed"), drift |-> {}]
    [] e.ev = "childcrash" -> [fail |-> {"TOOL:child-crashed"}, drift |-> {}]

JudgedTags == {"probe", "setlimit", "touch", "firstuse", "childcrash"}

TrJudge == /\ l <= N /\ Rec[l].ev \in JudgedTags
           /\ LET e == Rec[l]  r == Judge(e) IN
                IF r.fail = {} /\ r.drift = {} THEN TRUE
                ELSE PrintT("VERDICT " \o ToJson([id |-> e.id, fail |-> r.fail, drift |-> r.drift]))
           /\ l' = l + 1
           /\ UNCHANGED vars

(***************************************************************************)
(* thread trials: the module's own actions, driven by the recording        *)
(***************************************************************************)
NoRunner == \A c \in Cells : cell[c].st # "running"

\* a new process: every cell unset
TrReset == /\ l <= N /\ Rec[l].ev = "reset"
           /\ Quiescent /\ NoRunner
           /\ cell'  = [c \in Cells |-> Unset]
           /\ th'    = [t \in Threads |-> Idle(0)]
           /\ first' = [c \in Cells |-> NoOp]
           /\ hist'  = {}
           /\ l' = l + 1

TrCall == /\ l <= N /\ Rec[l].ev = "call" /\ NoRunner
          /\ Rec[l].t \in Threads
          /\ Call(Rec[l].t, [op |-> Rec[l].op, c |-> Rec[l].c, arg |-> Rec[l].arg])
          /\ l' = l + 1

\* the recorded return value must be the one the specification computes
TrRet == /\ l <= N /\ Rec[l].ev = "ret" /\ NoRunner
         /\ Rec[l].t \in Threads
         /\ th[Rec[l].t].st = "busy" /\ th[Rec[l].t].todo = {}
         /\ RetVal(Rec[l].t) = Rec[l].val
         /\ Return(Rec[l].t)
         /\ l' = l + 1

\* silent steps (linearization points), see R1-R3 in the header
Silent == /\ l <= N /\ Rec[l].ev = "ret"
          /\ l' = l
          /\ \/ \E t \in Threads, c \in Cells : Finish(t, c)
             \/ NoRunner /\ \E t \in Threads, c \in Cells : Begin(t, c)
             \/ NoRunner /\ Rec[l].t \in Threads /\ \E c \in Cells : Observe(Rec[l].t, c)

TraceInit == Init /\ l = 1
TraceNext == TrReset \/ TrCall \/ TrRet \/ Silent \/ TrJudge
TraceSpec == TraceInit /\ [][TraceNext]_tvars

\* the frontier: highest position reached by any explored behaviour
Frontier == TLCSet(1, IF TLCGet(1) < l THEN l ELSE TLCGet(1))

\* WriteOnce on the steps actually taken (a reset is a new process)
TraceWriteOnce == [][~(l <= N /\ Rec[l].ev = "reset" /\ l' = l + 1)
                       => \A c \in Cells : cell[c].st = "set" => cell'[c] = cell[c]]_tvars

Accepted == IF TLCGet(1) = N + 1 THEN PrintT("CONSUMED " \o ToString(N))
            ELSE PrintT("FRONTIER " \o ToString(TLCGet(1))) /\ FALSE
=============================================================================
