--------------------------- MODULE MC_MultiParse ---------------------------
(***************************************************************************)
(* The multi-schema parser as a state machine over a bounded family of     *)
(* input sets; TLC explores every pick order (= every hash-map iteration   *)
(* order of the pending inputs).                                           *)
(*                                                                         *)
(*   Mode = "faithful"  the parser as the implementation works now         *)
(*                      (EXPECTED to violate Confluent / MatchesDeclarative*)
(*                      : the design-level counterexamples; what it returns*)
(*                      on success is right: ResultIsMeaning holds)        *)
(*   Mode = "pinned"    the pinned snapshot, before fix 59a830b (silent    *)
(*                      overwrite: also violates ResultIsMeaning)          *)
(*   Mode = "intended"  the documented contract (all properties hold)      *)
(*                                                                         *)
(* With EmitScn = TRUE every scenario is printed once as                   *)
(*   SCN {form, ins, main, expect, reach, shapes}                          *)
(* (reach = the faithful model's set of reachable outcomes) for the harness*)
(***************************************************************************)
EXTENDS MultiParse, Json

CONSTANTS Mode,      \* "faithful" | "pinned" | "intended"
          K,         \* parse_list: input sets of 1..K definitions of the universe
          KW,        \* parse_str_with_list: main + list of 0..KW-1 definitions
          KB,        \* parse_str_with_list with a main schema that is no definition: lists of 1..KB definitions
          EmitScn    \* BOOLEAN

(* ---- constructors of written forms ---- *)
H(n)      == [n |-> n, how |-> "none", ns |-> ""]
HA(n, ns) == [n |-> n, how |-> "attr", ns |-> ns]
HD(n, ns) == [n |-> n, how |-> "dotted", ns |-> ns]
TP(p)      == [k |-> "prim", p |-> p]
TR(n)      == [k |-> "ref", form |-> "short", ns |-> "", n |-> n]
TRF(ns, n) == [k |-> "ref", form |-> "full", ns |-> ns, n |-> n]
TRA(n)     == [k |-> "ref", form |-> "abs", ns |-> "", n |-> n]
TD(d)      == [k |-> "def", d |-> d]
TArr(t)    == [k |-> "array", items |-> t]
TOpt(t)    == [k |-> "opt", t |-> t]
DRec(h, fs) == [k |-> "record", hdr |-> h, fields |-> fs]
DFix(h, z)  == [k |-> "fixed", hdr |-> h, size |-> z]
DEnum(h)    == [k |-> "enum", hdr |-> h]
DWrap(h, d) == [k |-> "wrap", hdr |-> h, inner |-> d]

(***************************************************************************)
(* The universe of top-level definitions.  Input sets are ALL subsets of   *)
(* up to K of them, so every family meets every other one.                 *)
(***************************************************************************)
U == <<
  (* chains, diamonds, cycles (null namespace) *)
  DRec(H("A"), <<TR("B")>>),                                   \*  1  A -> B
  DRec(H("B"), <<TR("C")>>),                                   \*  2  B -> C
  DRec(H("C"), <<TP("int")>>),                                 \*  3  C
  DRec(H("A"), <<TR("B"), TR("C")>>),                          \*  4  A -> B, A -> C   (diamond top)
  DRec(H("B"), <<TOpt(TR("A")), TP("long")>>),                 \*  5  B -> A           (cycle with 1)
  DRec(H("A"), <<TArr(TR("A"))>>),                             \*  6  A -> A           (self cycle)
  DRec(H("B"), <<TR("D")>>),                                   \*  7  B -> D
  DRec(H("C"), <<TR("D")>>),                                   \*  8  C -> D           (4,7,8,9: diamond)
  DRec(H("D"), <<TP("string")>>),                              \*  9  D
  (* cross-namespace references *)
  DRec(HA("A", "p"), <<TRF("q", "B"), TR("C")>>),              \* 10  p.A -> q.B, p.C (short name inherits p)
  DRec(HD("B", "q"), <<TOpt(TRF("p", "A"))>>),                 \* 11  q.B -> p.A      (dotted name)
  DFix(HA("C", "p"), 2),                                       \* 12  p.C
  DRec(HA("A", "p"), <<TRA("C")>>),                            \* 13  p.A -> .C       (null-namespace C from inside p)
  (* nested definitions, referenced from the same and from other inputs *)
  DRec(H("A"), <<TD(DFix(H("N"), 1)), TR("N")>>),              \* 14  A { fixed N(1), N }
  DRec(H("B"), <<TR("N")>>),                                   \* 15  B -> N
  DRec(HA("A", "p"), <<TD(DFix(H("N"), 1))>>),                 \* 16  p.A { fixed p.N(1) }   (inherited namespace)
  DRec(H("B"), <<TRF("p", "N")>>),                             \* 17  B -> p.N
  (* conflicting duplicates: top-level / nested *)
  DFix(H("N"), 2),                                             \* 18  N(2)
  DFix(H("N"), 1),                                             \* 19  N(1)
  DRec(H("C"), <<TD(DFix(H("N"), 2))>>),                       \* 20  C { fixed N(2) }
  (* dangling reference; enum *)
  DRec(H("D"), <<TR("X")>>),                                   \* 21  D -> X
  DEnum(H("E")),                                               \* 22  E
  DRec(H("D"), <<TR("E"), TOpt(TR("A"))>>),                    \* 23  D -> E, A
  (* inputs whose "type" is itself a definition *)
  DWrap(H("Y"), DRec(H("X"), <<TP("int")>>)),                  \* 24  {name:Y, type:{record X}}
  DWrap(H("X"), DFix(H("X"), 1)),                              \* 25  {name:X, type:{fixed X}}
  DRec(H("B"), <<TR("Y")>>),                                   \* 26  B -> Y
  (* a named LOGICAL type as an input (by the harness' convention a fixed of size 12 is rendered as a duration) *)
  DFix(H("T"), 12),                                            \* 27  T (duration on fixed 12)
  DRec(H("D"), <<TR("T"), TOpt(TR("T"))>>)                     \* 28  D -> T
>>
N == Len(U)

(* 4-element sets are drawn from the core of the universe only (chains, diamonds, cycles, namespaces, *)
(* nested definitions and their duplicates) to keep the thorough model within minutes               *)
Core == (1..20)
Idx(k) == CASE k = 1 -> {<<i>> : i \in 1..N}
            [] k = 2 -> {p \in (1..N) \X (1..N) : p[1] < p[2]}
            [] k = 3 -> {p \in (1..N) \X (1..N) \X (1..N) : p[1] < p[2] /\ p[2] < p[3]}
            [] k = 4 -> {p \in Core \X Core \X Core \X Core : p[1] < p[2] /\ p[2] < p[3] /\ p[3] < p[4]}
IdxUpTo(k) == UNION {Idx(j) : j \in 1..k}

Take(q) == CASE Len(q) = 0 -> <<>>
             [] Len(q) = 1 -> <<U[q[1]]>>
             [] Len(q) = 2 -> <<U[q[1]], U[q[2]]>>
             [] Len(q) = 3 -> <<U[q[1]], U[q[2]], U[q[3]]>>
             [] Len(q) = 4 -> <<U[q[1]], U[q[2]], U[q[3]], U[q[4]]>>
Without(q, m) == SubSeq(q, 1, m - 1) \o SubSeq(q, m + 1, Len(q))

(* main schemas that are not definitions: a bare reference, a union, an array *)
BareMains == <<TR("A"), TOpt(TRF("p", "A")), TArr(TR("N"))>>

(* a scenario is identified by <<form, indices into U, position of the main schema / bare main>> *)
ListId(q)    == <<"list", q, 0>>
WithId(q, m) == <<"with", q, m>>
BareId(q, b) == <<"bare", q, b>>
ScnOf(id) ==
  CASE id[1] = "list" -> [form |-> "list", ins |-> Take(id[2]), main |-> TP("null")]
    [] id[1] = "with" -> [form |-> "with", ins |-> Take(Without(id[2], id[3])), main |-> TD(U[id[2][id[3]]])]
    [] id[1] = "bare" -> [form |-> "with", ins |-> Take(id[2]), main |-> BareMains[id[3]]]
ListScn(q) == ScnOf(ListId(q))

ScenarioIds ==
  {ListId(q) : q \in IdxUpTo(K)}
  \cup UNION {{WithId(q, m) : m \in 1..Len(q)} : q \in IdxUpTo(KW)}
  \cup {BareId(q, b) : q \in IdxUpTo(KB), b \in 1..Len(BareMains)}

(* ------------------------------------------------------------------ *)
VARIABLES sid,        \* the scenario's identifier (constant along a behaviour)
          pending,    \* inputs not yet parsed
          resolving,  \* records being parsed (empty between picks unless failed)
          parsed,     \* name -> schema
          out,        \* intended mode: result per input
          defined,    \* full names defined so far by this parse
          status,     \* "start" | "running" | "ok" | "err" | "panic"
          picks,      \* history: the order in which inputs were drained at top level
          events,     \* history: parser events (what the proposed hook would report)
          outcome     \* the terminal outcome
vars == <<sid, pending, resolving, parsed, out, defined, status, picks, events, outcome>>

scn == ScnOf(sid)

NoOutcome == [status |-> "none", res |-> <<>>, main |-> NoTerm]

Cur == [mode |-> Mode, ins |-> scn.ins, form |-> scn.form, main |-> scn.main,
        pending |-> pending, resolving |-> resolving, parsed |-> parsed, out |-> out, defined |-> defined,
        err |-> "", trace |-> TRUE, log |-> <<>>]

ScnLine(s) ==
  [form |-> s.form, ins |-> s.ins, main |-> s.main, expect |-> Expect(s),
   reach |-> AllOutcomes(s, "faithful"),
   shapes |-> [nestedref |-> NestedRefShape(s), nesteddup |-> NestedDupShape(s), wrapper |-> WrapperShape(s)]]

Init == /\ sid \in ScenarioIds
        /\ pending = {} /\ resolving = {} /\ parsed = {} /\ out = {} /\ defined = {}
        /\ status = "start" /\ picks = <<>> /\ events = <<>> /\ outcome = NoOutcome

(* the inputs are filed under their names; a name collision is rejected before anything is parsed *)
Start == /\ status = "start"
         /\ IF EmitScn THEN PrintT("SCN " \o ToJson(ScnLine(scn))) ELSE TRUE
         /\ IF PrecheckOk(scn, Mode)
            THEN /\ status' = "running" /\ pending' = 1..Len(scn.ins) /\ outcome' = outcome
            ELSE /\ status' = "err" /\ pending' = pending /\ outcome' = OutcomeErr
         /\ UNCHANGED <<sid, resolving, parsed, out, defined, picks, events>>

(* drain ONE pending input -- any of them: the pending map is a hash map *)
PickNext(i) ==
  /\ status = "running" /\ i \in pending
  /\ LET r == PickStep(TLCEval(Cur), i) IN
       /\ pending' = r.pending /\ resolving' = r.resolving /\ parsed' = r.parsed /\ out' = r.out
       /\ defined' = r.defined
       /\ events' = events \o r.log
       /\ IF r.err # "" THEN status' = "err" /\ outcome' = OutcomeErr
          ELSE status' = "running" /\ outcome' = outcome
  /\ picks' = Append(picks, i)
  /\ UNCHANGED sid

(* nothing pending: (parse the main schema,) hand out the results in input order *)
Finish ==
  /\ status = "running" /\ pending = {}
  /\ LET o == Complete(TLCEval(Cur), scn) IN status' = o.status /\ outcome' = o
  /\ UNCHANGED <<sid, pending, resolving, parsed, out, defined, picks, events>>

Next == Start \/ (\E i \in pending : PickNext(i)) \/ Finish
Spec == Init /\ [][Next]_vars

(* ---- properties ---- *)
Terminal == status \in {"ok", "err", "panic"}

(* all terminal states reachable from one input set agree on success/failure and on the result list: *)
(* every terminal state agrees with the run that drains the inputs in input order                    *)
Confluent == Terminal => outcome = CanonicalOutcome(scn, Mode)

(* success <=> AllRefsResolvable /\ NoDuplicateFullNames  (grey zones: either, but never a panic) *)
MatchesDeclarative ==
  Terminal => LET e == Expect(scn) IN
              /\ status # "panic"
              /\ e = "ok" => status = "ok"
              /\ e = "err" => status = "err"

(* the schemas are returned in input order, each with the definitions and references of its input *)
InputOrderPreserved ==
  status = "ok" => /\ Len(outcome.res) = Len(scn.ins)
                   /\ \A i \in 1..Len(scn.ins) : outcome.res[i].name = InMeaning(scn, i).name
ResultIsMeaning ==
  status = "ok" => /\ outcome.res = ExpectedResult(scn)
                   /\ outcome.main = MainMeaning(scn)

(* the closed form agrees with the machine: every terminal state is one of AllOutcomes *)
MachineMatchesClosedForm == Terminal => outcome \in AllOutcomes(scn, Mode)

(* the showcase of DESIGN section 4 is in the family and the faithful model is order dependent on it *)
Showcase == ListScn(<<14, 15>>)
ASSUME ListId(<<14, 15>>) \in ScenarioIds
ASSUME Cardinality(AllOutcomes(Showcase, "faithful")) = 2
ASSUME Cardinality(AllOutcomes(Showcase, "intended")) = 1
ASSUME Expect(Showcase) = "ok" /\ NestedRefShape(Showcase) /\ ~NestedDupShape(Showcase)
(* DESIGN section 3 C20 "F": [A{f1: fixed N(1), ..}, fixed N(2)] returned N(1) or N(2) in the pinned  *)
(* snapshot; since fix 59a830b the second definition is a name collision                              *)
Overwrite == ListScn(<<14, 18>>)
ASSUME Expect(Overwrite) = "err" /\ NestedDupShape(Overwrite)
ASSUME \A o \in AllOutcomes(Overwrite, "pinned") : o.status = "ok"
ASSUME Cardinality(AllOutcomes(Overwrite, "pinned")) = 2
ASSUME AllOutcomes(Overwrite, "faithful") = {OutcomeErr}
ASSUME AllOutcomes(Overwrite, "intended") = {OutcomeErr}
ASSUME AllOutcomes(ListScn(<<24>>), "faithful") = {OutcomePanic} /\ WrapperShape(ListScn(<<24>>))
=============================================================================
