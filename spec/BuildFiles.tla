------------------------------ MODULE BuildFiles ------------------------------
(***************************************************************************)
(* Spec -> implementation direction of C04: the independent implementation *)
(* WRITES container files.  Input (ndjson, from the harness): a schema     *)
(* term, its JSON text as bytes, and a list of conforming values.  For     *)
(* each, TLC assembles spec-conforming files with Container!FileOf in      *)
(* several variants of block partitioning and of the metadata map layout   *)
(* and prints them; the real Reader must read every one of them to the     *)
(* same values, schema and user metadata.                                  *)
(***************************************************************************)
EXTENDS Container, Json, IOUtils

Rec == ndJsonDeserialize(IOEnv.TRACE)
VARIABLE l

Marker == <<222, 173, 190, 239, 1, 2, 3, 4, 5, 6, 7, 8, 9, 10, 11, 12>>
UserKey1 == <<117, 115, 101, 114, 46, 107>>                 \* "user.k"
UserVal1 == <<0, 255, 128>>
UserKey2 == <<195, 169>>                                    \* "é"
UserVal2 == <<>>
UnknownAvroKey == <<97, 118, 114, 111, 46, 120, 121, 122>>  \* "avro.xyz" (reserved, unknown: ignored)

KV(k, v) == LenPrefix(k) \o LenPrefix(v)
(* metadata map layouts: name -> [bytes, user] where user = the user entries a reader must report *)
MetaLayouts(schemaBytes) ==
  LET S == KV(AvroSchemaKey, schemaBytes)
      C == KV(AvroCodecKey, NullName)
      U1 == KV(UserKey1, UserVal1)
      U2 == KV(UserKey2, UserVal2)
      X == KV(UnknownAvroKey, <<1>>)
      u12 == << <<UserKey1, UserVal1>>, <<UserKey2, UserVal2>> >>
  IN << [name |-> "schema-only",       bytes |-> LongOfNat(1) \o S \o <<0>>, user |-> <<>>],
        [name |-> "schema+codec-null",  bytes |-> LongOfNat(2) \o C \o S \o <<0>>, user |-> <<>>],
        [name |-> "two-map-blocks",     bytes |-> LongOfNat(1) \o U1 \o LongOfNat(2) \o S \o U2 \o <<0>>, user |-> u12],
        [name |-> "negative-count",     bytes |-> LongOfNegNat(3) \o LongOfNat(Len(S \o U1 \o U2)) \o S \o U1 \o U2 \o <<0>>, user |-> u12],
        [name |-> "unknown-avro-key",   bytes |-> LongOfNat(3) \o X \o S \o U1 \o <<0>>, user |-> << <<UserKey1, UserVal1>> >>] >>

(* partitions of n values into consecutive blocks, as sequences of block lengths *)
Partitions(n) ==
  IF n = 0 THEN {<<>>}
  ELSE {<<n>>} \cup {[i \in 1..n |-> 1]} \cup (IF n >= 3 THEN {<<1, n - 1>>, <<n - 1, 1>>} ELSE {})
       \* a block may hold no object at all (count 0, size 0): at the start, in the middle, at the end
       \cup (IF n >= 2 THEN {<<1, 0, n - 1>>, <<0, n>>, <<n, 0>>} ELSE {})

RECURSIVE BlocksFor(_, _, _, _, _)
BlocksFor(encs, part, i, from, acc) ==
  IF i > Len(part) THEN acc
  ELSE BlocksFor(encs, part, i + 1, from + part[i],
                 Append(acc, [count |-> part[i], payload |-> FlattenSeq(SubSeq(encs, from, from + part[i] - 1))]))

Init == l = 1
Next == /\ l <= Len(Rec)
        /\ LET e == Rec[l]
               env == Defs(e.s)
               encs == [i \in 1..Len(e.vals) |-> Enc(e.vals[i], e.s, env)]
               layouts == MetaLayouts(e.schema_bytes)
           IN \A p \in Partitions(Len(e.vals)) : \A m \in 1..Len(layouts) :
                \* not the full product: rotate the metadata layouts over the partitions
                ((Len(p) + m + l) % 2 = 0) =>
                PrintT("FILE " \o ToJson([src |-> l - 1, part |-> p, meta |-> layouts[m].name, user |-> layouts[m].user,
                                          bytes |-> FileOf(layouts[m].bytes, Marker, BlocksFor(encs, p, 1, 1, <<>>))]))
        /\ l' = l + 1
Consumed == IF TLCGet("stats").diameter = Len(Rec) + 1 THEN PrintT("CONSUMED " \o ToString(Len(Rec)))
            ELSE PrintT("UNCONSUMED " \o ToString(TLCGet("stats").diameter)) /\ FALSE
=============================================================================
