--------------------------- MODULE ResolveExamples ---------------------------
(* Literal cases of the specification's Schema Resolution section, ASSUMEd (TLC refuses to start if Resolve drifts). *)
EXTENDS Resolve

(***************************************************************************)
(* Literal cases from the specification text.                              *)
(***************************************************************************)
P(k) == [k |-> k]
IntV(n) == [t |-> "int", n |-> IntLE8(n)]
LongV(n) == [t |-> "long", n |-> IntLE8(n)]
NoEnv == EmptyFun
SR(w, r, v) == SpecResolve(w, r, v, Defs(w), Defs(r))

ASSUME SR(P("int"), P("long"), IntV(-3)) = LongV(-3)
ASSUME SR(P("long"), P("int"), LongV(3)) = Err                                  \* no demotion
ASSUME SR(P("double"), P("float"), [t |-> "double", bits |-> <<0,0,0,0,0,0,240,63>>]) = Err
ASSUME SR(P("int"), P("float"), IntV(16777217)) = [t |-> "float", bits |-> <<0,0,128,75>>]
ASSUME SR(P("string"), P("bytes"), [t |-> "string", b |-> <<97>>]) = [t |-> "bytes", b |-> <<97>>]
ASSUME SR(P("bytes"), P("string"), [t |-> "bytes", b |-> <<255>>]) = Err
ASSUME SR(P("date"), P("long"), [t |-> "date", n |-> IntLE8(7)]) = LongV(7)     \* logical type resolves as its base
ASSUME SR(P("int"), P("date"), IntV(7)) = [t |-> "date", n |-> IntLE8(7)]
\* enum: by symbol name; the reader's default for unknown symbols
ASSUME LET we == [k |-> "enum", name |-> "E", symbols |-> <<"A", "B", "C">>]
           re == [k |-> "enum", name |-> "E", symbols |-> <<"C", "A">>, hasdef |-> TRUE, def |-> "A"] IN
       /\ SR(we, re, [t |-> "enum", i |-> 2, sym |-> "C"]) = [t |-> "enum", i |-> 0, sym |-> "C"]
       /\ SR(we, re, [t |-> "enum", i |-> 1, sym |-> "B"]) = [t |-> "enum", i |-> 1, sym |-> "A"]
       /\ SR(we, [re EXCEPT !.hasdef = FALSE], [t |-> "enum", i |-> 1, sym |-> "B"]) = Err
\* record: by name regardless of order, by reader alias, writer-only dropped, reader-only defaulted
ASSUME LET wr == [k |-> "record", name |-> "R", fields |-> <<[name |-> "a", type |-> P("int")],
                                                              [name |-> "b", type |-> P("string")]>>]
           rr == [k |-> "record", name |-> "R", fields |->
                    <<[name |-> "c", type |-> P("long"), aliases |-> <<"zz", "a">>, hasdef |-> FALSE, defjson |-> JNull],
                      [name |-> "d", type |-> P("double"), aliases |-> <<>>, hasdef |-> TRUE, defjson |-> JInt(2)]>>]
           v == [t |-> "record", fields |-> << <<"a", IntV(5)>>, <<"b", [t |-> "string", b |-> <<120>>]>> >>] IN
       /\ SR(wr, rr, v) = [t |-> "record", fields |-> << <<"c", LongV(5)>>,
                                                          <<"d", [t |-> "double", bits |-> <<0,0,0,0,0,0,0,64>>]>> >>]
       /\ SR(wr, [rr EXCEPT !.fields[2].hasdef = FALSE], v) = Err
\* unions
ASSUME LET u == [k |-> "union", branches |-> <<P("null"), P("long"), P("string")>>] IN
       /\ SR(P("int"), u, IntV(1)) = [t |-> "union", i |-> 1, v |-> LongV(1)]
       /\ SR(u, P("long"), [t |-> "union", i |-> 1, v |-> LongV(9)]) = LongV(9)
       /\ SR(u, P("long"), [t |-> "union", i |-> 0, v |-> [t |-> "null"]]) = Err
       /\ SR(P("boolean"), u, [t |-> "boolean", bool |-> TRUE]) = Err
\* grey zone: first match vs exact match
ASSUME LET u == [k |-> "union", branches |-> <<P("long"), P("int")>>] IN
       SpecResults(P("int"), u, IntV(1), NoEnv, NoEnv)
         = {[t |-> "union", i |-> 0, v |-> LongV(1)], [t |-> "union", i |-> 1, v |-> IntV(1)]}
\* bytes default: code points, not UTF-8
ASSUME DefaultVal(JStr("~", <<195, 191, 65>>), P("bytes"), NoEnv, {}, StdPolicy) = [t |-> "bytes", b |-> <<255, 65>>]
=============================================================================
