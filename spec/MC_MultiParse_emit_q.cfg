SPECIFICATION Spec
CONSTANT Mode = "faithful"
CONSTANT K = 3
CONSTANT KW = 2
CONSTANT KB = 1
CONSTANT EmitScn = TRUE
CHECK_DEADLOCK FALSE
