SPECIFICATION Spec
CONSTANT Mode = "faithful"
CONSTANT K = 3
CONSTANT KW = 2
CONSTANT KB = 1
CONSTANT EmitScn = TRUE
INVARIANT InputOrderPreserved
INVARIANT ResultIsMeaning
CHECK_DEADLOCK FALSE
