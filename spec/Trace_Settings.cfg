SPECIFICATION TraceSpec
CONSTANT Threads <- TraceThreads
CONSTANT Cells <- AllCells
CONSTANT MaxOps = 1000000
CONSTANT KeepHistory = FALSE
CONSTANT OpsOf <- TraceOpsOf
CONSTRAINT Frontier
PROPERTY TraceWriteOnce
POSTCONDITION Accepted
CHECK_DEADLOCK FALSE
