----------------------------- MODULE Trace_Damage -----------------------------
(***************************************************************************)
(* Judges reads of truncated / marker-corrupted copies of real container   *)
(* files (C14).  A "file" event carries the intact bytes; the spec parses  *)
(* them ONCE with the independent Container!ParseFile (header end, block   *)
(* ends, block counts) and keeps the result in the state; each following   *)
(* "damage" event is judged against it:                                    *)
(*   cut k     : open fails iff k lies inside the header; otherwise exactly *)
(*               the items of the blocks that end at or before k are       *)
(*               delivered, equal to the intact values, then an error      *)
(*               unless k is a block boundary, then nothing                *)
(*   marker    : altering a byte of block b's trailing marker: the items   *)
(*               of the blocks before b, then an error, nothing from b on  *)
(*               (header marker: no item at all)                           *)
(*   magic     : open fails                                                *)
(*                                                                         *)
(* "session" events (trace validation against ReaderFn.tla, the Reader at  *)
(* the granularity of its code): the recorded call sequence of one session *)
(* with a damaged copy - polls of the value iterator, the conversion       *)
(* into_deser_iter at some point (also after an error), polls of the       *)
(* deserializing iterator, polls after the end - is replayed call by call  *)
(* on the model's transition functions Poll / Switch.  Verdict layer:      *)
(* nothing is delivered after the first error by either iterator; the      *)
(* delivered objects are the leading ones of the intact file and, once the *)
(* session has reached "end", exactly those of the blocks completely       *)
(* before the damage; the damage is reported as an error iff it must be.   *)
(* Coverage layer (drift): every call returns what the model's Poll does.  *)
(***************************************************************************)
EXTENDS Container, ReaderFn, Json, IOUtils, Known

Rec == ndJsonDeserialize(IOEnv.TRACE)
VARIABLES l, cur
tvars == <<l, cur>>

If(c, name) == IF c THEN {} ELSE {name}
Report(e, fail) == IF fail = {} THEN TRUE
                   ELSE PrintT("VERDICT " \o ToJson([id |-> e.id, fail |-> fail, known |-> {}, drift |-> {}]))

RECURSIVE SumCounts(_, _)
SumCounts(blocks, n) == IF n = 0 THEN 0 ELSE blocks[n].count + SumCounts(blocks, n - 1)

(* number of whole blocks ending at or before offset k: bounds = <<hdrEnd, end1, ..., endn>> *)
WholeBlocks(bounds, k) == Cardinality({i \in 2..Len(bounds) : bounds[i] <= k})

(* which marker occurrence (0 = header, b = block b) contains 1-based position p; 99 = none *)
MarkerAt(bounds, p) ==
  LET S == {i \in 1..Len(bounds) : p >= bounds[i] - 15 /\ p <= bounds[i]} IN
  IF S = {} THEN 99 ELSE (CHOOSE i \in S : TRUE) - 1

JudgeDamage(e, f) ==
  LET hdr == f.bounds[1]
      nb  == Len(f.blocks)
  IN
  If(~e.panic, "C14:panic")
  \* the deserializing iterator (read_next_deser) must behave exactly like the value iterator
  \cup If(~e.open_ok \/ (e.d_ok = e.n_ok /\ (e.d_err >= 1) = (e.n_err >= 1) /\ e.d_after = 0 /\ e.d_err <= 1),
          "C14:deserializing-iterator-differs-from-value-iterator")
  \cup
  (CASE e.kind = "cut" ->
         IF e.k < hdr THEN If(~e.open_ok, "C14:open-succeeded-on-file-cut-inside-header")
         ELSE LET w == WholeBlocks(f.bounds, e.k)
                  boundary == \E i \in 1..Len(f.bounds) : f.bounds[i] = e.k
              IN If(e.open_ok, "C14:open-failed-although-header-is-complete")
                 \cup If(~e.open_ok \/ e.n_ok = SumCounts(f.blocks, w), "C14:delivered-item-count-is-not-that-of-the-complete-blocks")
                 \cup If(~e.open_ok \/ e.mismatch_at = 0, "C14:delivered-values-are-not-a-prefix-of-what-was-written")
                 \cup If(~e.open_ok \/ boundary \/ e.n_err >= 1, "C14:truncation-not-reported-as-error")
                 \cup If(~e.open_ok \/ ~boundary \/ e.n_err = 0, "C14:error-on-cut-at-block-boundary")
                 \cup If(~e.open_ok \/ (e.after_err = 0 /\ e.n_err <= 1), "C14:items-or-errors-after-the-first-error")
    [] e.kind = "marker" ->
         LET b == MarkerAt(f.bounds, e.k) IN
         IF b = 99 THEN {"TOOL:offset-not-inside-a-marker"}
         ELSE LET before == IF b = 0 THEN 0 ELSE b - 1 IN
              If(e.open_ok, "C14:open-failed-on-marker-corruption")
              \cup If(~e.open_ok \/ e.n_ok = SumCounts(f.blocks, before), "C14:item-delivered-from-or-after-block-with-corrupt-marker")
              \cup If(~e.open_ok \/ e.mismatch_at = 0, "C14:delivered-values-are-not-a-prefix-of-what-was-written")
              \cup If(~e.open_ok \/ (b = 0 /\ nb = 0) \/ e.n_err = 1, "C14:marker-corruption-not-reported-as-error")
              \cup If(~e.open_ok \/ e.after_err = 0, "C14:items-or-errors-after-the-first-error")
    [] e.kind = "magic" -> If(~e.open_ok, "C14:open-succeeded-with-altered-magic"))

(* ---- sessions ---- *)
FileDesc(f) ==
  [H |-> f.bounds[1],
   blocks |-> [i \in 1..Len(f.blocks) |->
                 LET cb == Len(LongOfNat(f.blocks[i].count)) IN
                 [count |-> f.blocks[i].count, cbytes |-> cb, rest |-> f.bounds[i + 1] - f.bounds[i] - cb]]]

DamageOf(e, f) ==
  CASE e.kind = "cut"    -> [cut |-> e.k, corrupt |-> NoCorrupt, magic |-> FALSE]
    [] e.kind = "marker" -> [cut |-> f.bounds[Len(f.bounds)], corrupt |-> MarkerAt(f.bounds, e.k), magic |-> FALSE]
    [] e.kind = "magic"  -> [cut |-> f.bounds[Len(f.bounds)], corrupt |-> NoCorrupt, magic |-> TRUE]

(* replay of the recorded calls on the model: the index of the first call whose result differs from Poll's, 0 = none *)
RECURSIVE ReplayCalls(_, _, _, _, _)
ReplayCalls(F, D, s, calls, n) ==
  IF n > Len(calls) THEN 0
  ELSE LET c == calls[n] IN
       IF c.r = "switch" THEN ReplayCalls(F, D, Switch(s, FALSE), calls, n + 1)
       ELSE LET r == Poll(F, D, s, FALSE, Len(F.blocks) + 1) IN
            IF r.res # c.r \/ (r.res = "item" /\ ItemsUpTo(F, r.blk - 1) + r.idx # c.ord)
               \/ s.mode # (IF c.m = "v" THEN "value" ELSE "deser")
            THEN n
            ELSE ReplayCalls(F, D, r.s, calls, n + 1)

JudgeSession(e, f) ==
  LET F == FileDesc(f)
      D == DamageOf(e, f)
      calls == e.calls
      polls == SelectSeq(calls, LAMBDA c : c.r # "switch")
      errAt == {n \in 1..Len(polls) : polls[n].r = "err"}
      firstErr == IF errAt = {} THEN 0 ELSE CHOOSE n \in errAt : \A m \in errAt : n <= m
      items == SelectSeq(polls, LAMBDA c : c.r = "item")
      reachedEnd == \E n \in 1..Len(polls) : polls[n].r = "end"
      exp == ExpectedItems(F, D)
  IN
  IF D.corrupt = 99 /\ e.kind = "marker" THEN [fail |-> {"TOOL:offset-not-inside-a-marker"}, drift |-> {}]
  ELSE IF e.panic THEN [fail |-> {"C14:panic"}, drift |-> {}]
  ELSE IF ~e.open_ok
  THEN [fail |-> If(~OpenOk(F, D), "C14:open-failed-although-header-is-complete"), drift |-> {}]
  ELSE
  [fail |->
        If(OpenOk(F, D), IF e.kind = "magic" THEN "C14:open-succeeded-with-altered-magic"
                         ELSE "C14:open-succeeded-on-file-cut-inside-header")
     \cup If(firstErr = 0 \/ \A m \in (firstErr + 1)..Len(polls) : polls[m].r = "end",
             "C14:items-or-errors-after-the-first-error")
     \cup If(\A n \in 1..Len(items) : items[n].match /\ items[n].ord = n,
             "C14:delivered-values-are-not-a-prefix-of-what-was-written")
     \cup If(Len(items) <= exp, "C14:item-delivered-from-or-after-the-damaged-block")
     \cup If(~reachedEnd \/ Len(items) = exp, "C14:delivered-item-count-is-not-that-of-the-complete-blocks")
     \cup If(~reachedEnd \/ ~MustError(F, D) \/ firstErr > 0, "C14:damage-not-reported-as-error")
     \cup If(firstErr = 0 \/ MustError(F, D), "C14:error-although-nothing-must-be-reported"),
   drift |-> LET d == ReplayCalls(F, D, Opened(F), calls, 1) IN
             IF OpenOk(F, D) /\ d # 0 THEN {"session-differs-from-the-reader-model"} ELSE {}]

TraceInit == l = 1 /\ cur = NoFile("none")
TrFile == /\ l <= Len(Rec) /\ Rec[l].ev = "file"
          /\ LET f == ParseFile(Rec[l].bytes) IN
               /\ cur' = f
               /\ Report(Rec[l], If(f.ok /\ f.rest = 0 /\ SumCounts(f.blocks, Len(f.blocks)) = Rec[l].intact_n,
                                    "C04:written-file-does-not-parse-as-a-container-file"))
          /\ l' = l + 1
TrDamage == /\ l <= Len(Rec) /\ Rec[l].ev = "damage"
            /\ Report(Rec[l], IF cur.ok THEN JudgeDamage(Rec[l], cur) ELSE {})
            /\ l' = l + 1 /\ UNCHANGED cur
TrSession == /\ l <= Len(Rec) /\ Rec[l].ev = "session"
             /\ (IF cur.ok
                 THEN LET r == JudgeSession(Rec[l], cur) IN
                      IF r.fail = {} /\ r.drift = {} THEN TRUE
                      ELSE PrintT("VERDICT " \o ToJson([id |-> Rec[l].id, fail |-> r.fail, known |-> {}, drift |-> r.drift]))
                 ELSE TRUE)
             /\ l' = l + 1 /\ UNCHANGED cur
TraceNext == TrFile \/ TrDamage \/ TrSession
TraceSpec == TraceInit /\ [][TraceNext]_tvars

Consumed == IF TLCGet("stats").diameter = Len(Rec) + 1 THEN PrintT("CONSUMED " \o ToString(Len(Rec)))
            ELSE PrintT("UNCONSUMED " \o ToString(TLCGet("stats").diameter)) /\ FALSE
=============================================================================
