----------------------------- MODULE Trace_Damage -----------------------------
(***************************************************************************)
(* Judges reads of truncated / marker-corrupted copies of real container   *)
(* files (C14).  A "file" event carries the intact bytes; the spec parses  *)
(* them ONCE with the independent Container!ParseFile (header end, block   *)
(* ends, block counts) and keeps the result in the state; each following   *)
(* "damage" event is judged against it:                                    *)
(*   cut k     : open fails iff k lies inside the header; otherwise exactly *)
(*               the items of the blocks that end at or before k are       *)
(*               delivered, equal to the intact values, then an error      *)
(*               unless k is a block boundary, then nothing                *)
(*   marker    : altering a byte of block b's trailing marker: the items   *)
(*               of the blocks before b, then an error, nothing from b on  *)
(*               (header marker: no item at all)                           *)
(*   magic     : open fails                                                *)
(***************************************************************************)
EXTENDS Container, Json, IOUtils, Known

Rec == ndJsonDeserialize(IOEnv.TRACE)
VARIABLES l, cur
tvars == <<l, cur>>

If(c, name) == IF c THEN {} ELSE {name}
Report(e, fail) == IF fail = {} THEN TRUE
                   ELSE PrintT("VERDICT " \o ToJson([id |-> e.id, fail |-> fail, known |-> {}, drift |-> {}]))

RECURSIVE SumCounts(_, _)
SumCounts(blocks, n) == IF n = 0 THEN 0 ELSE blocks[n].count + SumCounts(blocks, n - 1)

(* number of whole blocks ending at or before offset k: bounds = <<hdrEnd, end1, ..., endn>> *)
WholeBlocks(bounds, k) == Cardinality({i \in 2..Len(bounds) : bounds[i] <= k})

(* which marker occurrence (0 = header, b = block b) contains 1-based position p; 99 = none *)
MarkerAt(bounds, p) ==
  LET S == {i \in 1..Len(bounds) : p >= bounds[i] - 15 /\ p <= bounds[i]} IN
  IF S = {} THEN 99 ELSE (CHOOSE i \in S : TRUE) - 1

JudgeDamage(e, f) ==
  LET hdr == f.bounds[1]
      nb  == Len(f.blocks)
  IN
  If(~e.panic, "C14:panic")
  \* the deserializing iterator (read_next_deser) must behave exactly like the value iterator
  \cup If(~e.open_ok \/ (e.d_ok = e.n_ok /\ (e.d_err >= 1) = (e.n_err >= 1) /\ e.d_after = 0 /\ e.d_err <= 1),
          "C14:deserializing-iterator-differs-from-value-iterator")
  \cup
  (CASE e.kind = "cut" ->
         IF e.k < hdr THEN If(~e.open_ok, "C14:open-succeeded-on-file-cut-inside-header")
         ELSE LET w == WholeBlocks(f.bounds, e.k)
                  boundary == \E i \in 1..Len(f.bounds) : f.bounds[i] = e.k
              IN If(e.open_ok, "C14:open-failed-although-header-is-complete")
                 \cup If(~e.open_ok \/ e.n_ok = SumCounts(f.blocks, w), "C14:delivered-item-count-is-not-that-of-the-complete-blocks")
                 \cup If(~e.open_ok \/ e.mismatch_at = 0, "C14:delivered-values-are-not-a-prefix-of-what-was-written")
                 \cup If(~e.open_ok \/ boundary \/ e.n_err >= 1, "C14:truncation-not-reported-as-error")
                 \cup If(~e.open_ok \/ ~boundary \/ e.n_err = 0, "C14:error-on-cut-at-block-boundary")
                 \cup If(~e.open_ok \/ (e.after_err = 0 /\ e.n_err <= 1), "C14:items-or-errors-after-the-first-error")
    [] e.kind = "marker" ->
         LET b == MarkerAt(f.bounds, e.k) IN
         IF b = 99 THEN {"TOOL:offset-not-inside-a-marker"}
         ELSE LET before == IF b = 0 THEN 0 ELSE b - 1 IN
              If(e.open_ok, "C14:open-failed-on-marker-corruption")
              \cup If(~e.open_ok \/ e.n_ok = SumCounts(f.blocks, before), "C14:item-delivered-from-or-after-block-with-corrupt-marker")
              \cup If(~e.open_ok \/ e.mismatch_at = 0, "C14:delivered-values-are-not-a-prefix-of-what-was-written")
              \cup If(~e.open_ok \/ (b = 0 /\ nb = 0) \/ e.n_err = 1, "C14:marker-corruption-not-reported-as-error")
              \cup If(~e.open_ok \/ e.after_err = 0, "C14:items-or-errors-after-the-first-error")
    [] e.kind = "magic" -> If(~e.open_ok, "C14:open-succeeded-with-altered-magic"))

TraceInit == l = 1 /\ cur = NoFile("none")
TrFile == /\ l <= Len(Rec) /\ Rec[l].ev = "file"
          /\ LET f == ParseFile(Rec[l].bytes) IN
               /\ cur' = f
               /\ Report(Rec[l], If(f.ok /\ f.rest = 0 /\ SumCounts(f.blocks, Len(f.blocks)) = Rec[l].intact_n,
                                    "C04:written-file-does-not-parse-as-a-container-file"))
          /\ l' = l + 1
TrDamage == /\ l <= Len(Rec) /\ Rec[l].ev = "damage"
            /\ Report(Rec[l], IF cur.ok THEN JudgeDamage(Rec[l], cur) ELSE {})
            /\ l' = l + 1 /\ UNCHANGED cur
TraceNext == TrFile \/ TrDamage
TraceSpec == TraceInit /\ [][TraceNext]_tvars

Consumed == IF TLCGet("stats").diameter = Len(Rec) + 1 THEN PrintT("CONSUMED " \o ToString(Len(Rec)))
            ELSE PrintT("UNCONSUMED " \o ToString(TLCGet("stats").diameter)) /\ FALSE
=============================================================================
