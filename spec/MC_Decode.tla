------------------------------ MODULE MC_Decode ------------------------------
(***************************************************************************)
(* Decoding arbitrary short byte strings (properties C05, C06): every byte *)
(* string up to MaxLen over an alphabet of boundary bytes, under schemas   *)
(* covering each decoder arm.  TLC checks on the transcription itself that *)
(* a successful parse always conforms to the schema and survives           *)
(* re-encode / re-decode, and emits every (schema, bytes) pair with the    *)
(* transcription's verdict as a scenario for the real decoders.            *)
(***************************************************************************)
EXTENDS Universe, Json

CONSTANT MaxLen

VARIABLES s, w, out, phase
vars == <<s, w, out, phase>>

Alphabet == {0, 1, 2, 3, 16, 127, 128, 129, 254, 255}

DecodeSchemas ==
  { Prim("boolean"), Prim("int"), Prim("long"), Prim("float"), Prim("bytes"), Prim("string"),
    FixedS("F2", 2), EnumS("ns.E"), DecB, Prim("big-decimal"), UuidB,
    [k |-> "union", branches |-> <<Prim("null"), Prim("string")>>],
    [k |-> "union", branches |-> <<Prim("boolean"), Prim("null"), EnumS("ns.E")>>],
    [k |-> "array", items |-> Prim("long")],
    [k |-> "array", items |-> [k |-> "union", branches |-> <<Prim("null"), Prim("boolean")>>]],
    [k |-> "map", values |-> Prim("boolean")],
    RecS("ns.R", <<Fld("a", Prim("boolean")), Fld("b", Prim("string"))>>),
    RecS("ns.L", <<Fld("v", Prim("int")),
                   Fld("next", [k |-> "union", branches |-> <<Prim("null"), Ref("ns.L")>>])>>) }

Init == /\ s \in DecodeSchemas
        /\ w \in SeqsUpTo(Alphabet, MaxLen)
        /\ out = Fail("", 0) /\ phase = "start"

Decode == /\ phase = "start"
          /\ out' = Parse(w, 1, s, Defs(s))
          /\ phase' = "decoded" /\ UNCHANGED <<s, w>>

Emit == /\ phase = "decoded"
        /\ PrintT("SCN " \o ToJson([s |-> s, bytes |-> w, specok |-> out.ok, why |-> out.why]))
        /\ phase' = "done" /\ UNCHANGED <<s, w, out>>

Next == Decode \/ Emit
Spec == Init /\ [][Next]_vars

(* a successful parse conforms, and re-encoding then re-decoding gives the same value *)
DecodedConforms == phase # "start" /\ out.ok => Conforms(out.v, s, Defs(s))
ReencodeStable ==
  phase # "start" /\ out.ok =>
     LET r == ParseAll(Enc(out.v, s, Defs(s)), s, Defs(s)) IN r.ok /\ VEq(r.v, out.v)
(* never reads beyond the input, always advances monotonically *)
PositionSane == phase # "start" /\ out.ok => out.pos >= 1 /\ out.pos <= Len(w) + 1
=============================================================================
