------------------------------ MODULE ReaderFn ------------------------------
(***************************************************************************)
(* The container Reader at the granularity of its code                     *)
(* (avro/src/reader/mod.rs Reader / ReaderDeser, reader/block.rs Block),   *)
(* as transition FUNCTIONS on a state record, so that the model-checked    *)
(* state machine (ReaderSession.tla) and the trace specification           *)
(* (Trace_ReaderSession.tla) step the same definitions.                    *)
(*                                                                         *)
(* A file is F = [H |-> bytes of the header (magic, metadata, marker),     *)
(*                blocks |-> << [count, cbytes, rest] >>]                  *)
(*   count  objects in the block, cbytes bytes of the count varint,        *)
(*   rest   bytes of the size varint + payload + 16-byte marker.           *)
(* Damage is D = [cut |-> bytes kept, corrupt |-> b] : the trailing marker *)
(* of block b is altered (b = 0: the marker in the header; NoCorrupt:      *)
(* none); D.magic: the magic is altered.                                   *)
(*                                                                         *)
(* State s = [pos      bytes consumed from the input,                      *)
(*            blk      index of the block whose header was read last,      *)
(*            msg      Block.message_count: objects still to deliver,      *)
(*            verified TRUE iff the buffer holds the payload of a block    *)
(*                     whose marker was compared and found equal,          *)
(*            errored  Reader.errored, the latch set by the first error,   *)
(*            mode     "value" (Reader) or "deser" (ReaderDeser)]          *)
(*                                                                         *)
(* read_block_next assigns message_count BEFORE the size, the payload and  *)
(* the marker are read and compared: after a failure there, msg > 0 with   *)
(* an unverified buffer.  Only the latch keeps those objects from being    *)
(* delivered; the two iterators share it (into_deser_iter moves the        *)
(* Reader, latch included).                                                *)
(***************************************************************************)
EXTENDS Naturals, Sequences

NoCorrupt == 99

BlockLen(F, i) == F.blocks[i].cbytes + F.blocks[i].rest
RECURSIVE EndOf(_, _)
EndOf(F, i) == IF i = 0 THEN F.H ELSE EndOf(F, i - 1) + BlockLen(F, i)
FileLen(F) == EndOf(F, Len(F.blocks))

Intact(F) == [cut |-> FileLen(F), corrupt |-> NoCorrupt, magic |-> FALSE]

(* Reader::new / Block::new: the whole header is read with read_exact; an altered header marker is still a header *)
OpenOk(F, D) == ~D.magic /\ D.cut >= F.H
Opened(F) == [pos |-> F.H, blk |-> 0, msg |-> 0, verified |-> TRUE, errored |-> FALSE, mode |-> "value"]

(* one execution of Block::read_block_next (called with msg = 0): [s, res] with res in {"eof", "ok", "err"} *)
ReadBlock(F, D, s) ==
  LET i == s.blk + 1 IN
  IF s.pos >= D.cut \/ i > Len(F.blocks)
  THEN [s |-> s, res |-> "eof"]                                         \* no byte left: clean end, Ok(false)
  ELSE IF D.cut < s.pos + F.blocks[i].cbytes
  THEN [s |-> [s EXCEPT !.pos = D.cut], res |-> "err"]                  \* input ends inside the count
  ELSE LET s1 == [s EXCEPT !.msg = F.blocks[i].count, !.blk = i, !.verified = FALSE] IN   \* message_count assigned
       IF D.cut < s.pos + BlockLen(F, i)
       THEN [s |-> [s1 EXCEPT !.pos = D.cut], res |-> "err"]            \* size / payload / marker incomplete
       ELSE IF D.corrupt = i \/ D.corrupt = 0
       THEN [s |-> [s1 EXCEPT !.pos = s.pos + BlockLen(F, i)], res |-> "err"]   \* marker differs from the header's
       ELSE [s |-> [s1 EXCEPT !.pos = s.pos + BlockLen(F, i), !.verified = TRUE], res |-> "ok"]

(* Iterator::next of Reader / ReaderDeser: [s, res, blk, idx, verified]                                        *)
(*   res = "end"  (None), "err" (Some(Err)), "item" (Some(Ok)): object idx of block blk                          *)
(* emptyEnds = the defect class "a block without objects ends the iteration" (the code before d6e6f25)           *)
RECURSIVE Poll(_, _, _, _, _)
Poll(F, D, s, emptyEnds, fuel) ==
  IF s.errored THEN [s |-> s, res |-> "end", blk |-> 0, idx |-> 0, verified |-> TRUE]       \* the latch
  ELSE IF s.msg > 0
  THEN [s |-> [s EXCEPT !.msg = s.msg - 1], res |-> "item", blk |-> s.blk,
        idx |-> F.blocks[s.blk].count - s.msg + 1, verified |-> s.verified]
  ELSE IF fuel = 0 THEN [s |-> s, res |-> "end", blk |-> 0, idx |-> 0, verified |-> TRUE]
  ELSE LET r == ReadBlock(F, D, s) IN
       IF r.res = "eof" THEN [s |-> r.s, res |-> "end", blk |-> 0, idx |-> 0, verified |-> TRUE]
       ELSE IF r.res = "err" THEN [s |-> [r.s EXCEPT !.errored = TRUE], res |-> "err", blk |-> 0, idx |-> 0, verified |-> TRUE]
       ELSE IF emptyEnds /\ r.s.msg = 0 THEN [s |-> r.s, res |-> "end", blk |-> 0, idx |-> 0, verified |-> TRUE]
       ELSE Poll(F, D, r.s, emptyEnds, fuel - 1)

(* Reader::into_deser_iter; latchPerIterator = the defect class "the wrapper keeps its own latch" *)
Switch(s, latchPerIterator) ==
  [s EXCEPT !.mode = "deser", !.errored = IF latchPerIterator THEN FALSE ELSE s.errored]

(* ---- what C14 promises, as functions of (F, D) ---- *)
Lim(D, F) == IF D.corrupt = NoCorrupt THEN Len(F.blocks) ELSE IF D.corrupt = 0 THEN 0 ELSE D.corrupt - 1
GoodBlocks(F, D) == {i \in 1..Len(F.blocks) : EndOf(F, i) <= D.cut /\ i <= Lim(D, F)}
RECURSIVE ItemsUpTo(_, _)
ItemsUpTo(F, n) == IF n = 0 THEN 0 ELSE F.blocks[n].count + ItemsUpTo(F, n - 1)
(* good blocks form an initial segment 1..g *)
NGood(F, D) == LET S == GoodBlocks(F, D) IN IF S = {} THEN 0 ELSE CHOOSE m \in S : \A x \in S : x <= m
ExpectedItems(F, D) == ItemsUpTo(F, NGood(F, D))
OnBoundary(F, D) == \E i \in 0..Len(F.blocks) : EndOf(F, i) = D.cut
(* the read must end with an error unless nothing is damaged from the reader's point of view *)
MustError(F, D) ==
  IF D.corrupt # NoCorrupt THEN ~(D.corrupt = 0 /\ Len(F.blocks) = 0) /\ D.corrupt <= Len(F.blocks)
  ELSE ~OnBoundary(F, D)
=============================================================================
