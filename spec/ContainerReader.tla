--------------------------- MODULE ContainerReader ---------------------------
(***************************************************************************)
(* The container Reader as a state machine over a damaged file (C14),      *)
(* structured like avro/src/reader/block.rs + reader/mod.rs:               *)
(*   ReadHeader            magic, metadata, marker (read_exact)            *)
(*   ReadBlock             count, size, payload, marker compare - all      *)
(*                         before any item of the block is yielded         *)
(*   NextItem              one item of the current block                   *)
(*   Latch                 after the first error nothing is yielded        *)
(*                                                                         *)
(* The file is abstract: a header of H bytes, then blocks given by         *)
(* [count, cbytes (bytes of the count varint), rest (bytes of size field,  *)
(* payload and marker)].  Damage is chosen in Init: Cut(k) keeps k bytes;  *)
(* Corrupt(b) alters block b's trailing marker (b = 0: the header marker). *)
(***************************************************************************)
EXTENDS Naturals, Sequences, FiniteSets, TLC

CONSTANTS H, Blocks, EofMidCountIsCleanEnd   \* the last one selects the defect class (FALSE = intended design)

VARIABLES cut, corrupt, pos, state, delivered, errors, remaining, blk
vars == <<cut, corrupt, pos, state, delivered, errors, remaining, blk>>

BlockLen(i) == Blocks[i].cbytes + Blocks[i].rest
RECURSIVE EndOf(_)
EndOf(i) == IF i = 0 THEN H ELSE EndOf(i - 1) + BlockLen(i)
FileLen == EndOf(Len(Blocks))
NoCorrupt == 99

Init == /\ \/ cut \in 0..FileLen /\ corrupt = NoCorrupt
           \/ cut = FileLen /\ corrupt \in 0..Len(Blocks)
        /\ pos = 0 /\ state = "opening" /\ delivered = <<>> /\ errors = 0 /\ remaining = 0 /\ blk = 0

(* Reader::new: the whole header must be there (read_exact); a corrupted header marker is still a header *)
ReadHeader == /\ state = "opening"
              /\ IF cut < H THEN state' = "open-failed" /\ UNCHANGED pos
                 ELSE state' = "between" /\ pos' = H
              /\ UNCHANGED <<cut, corrupt, delivered, errors, remaining, blk>>

(* read_block_next: nothing left => clean end; otherwise the whole block must be present and its
   marker must equal the header's *)
ReadBlock ==
  /\ state = "between" /\ remaining = 0
  /\ LET i == blk + 1 IN
     IF pos = cut \/ i > Len(Blocks)
     THEN state' = "done" /\ UNCHANGED <<pos, errors, remaining, blk>>            \* clean end on a boundary
     ELSE IF EofMidCountIsCleanEnd /\ cut < pos + Blocks[i].cbytes
     THEN state' = "done" /\ UNCHANGED <<pos, errors, remaining, blk>>            \* defect: EOF inside the count
     ELSE IF cut < pos + BlockLen(i)
     THEN state' = "latched" /\ errors' = errors + 1 /\ UNCHANGED <<pos, remaining, blk>>   \* truncated block
     ELSE IF corrupt = 0 \/ corrupt = i
     THEN state' = "latched" /\ errors' = errors + 1 /\ UNCHANGED <<pos, remaining, blk>>   \* marker mismatch
     ELSE /\ pos' = pos + BlockLen(i) /\ blk' = i /\ remaining' = Blocks[i].count
          /\ state' = (IF Blocks[i].count = 0 THEN "between" ELSE "inblock") /\ UNCHANGED errors
  /\ UNCHANGED <<cut, corrupt, delivered>>

NextItem == /\ state = "inblock" /\ remaining > 0
            /\ delivered' = Append(delivered, <<blk, Blocks[blk].count - remaining + 1>>)
            /\ remaining' = remaining - 1
            /\ state' = (IF remaining = 1 THEN "between" ELSE "inblock")
            /\ UNCHANGED <<cut, corrupt, pos, errors, blk>>

Next == ReadHeader \/ ReadBlock \/ NextItem
Spec == Init /\ [][Next]_vars /\ WF_vars(Next)

(* ---- C14 on the design ---- *)
Terminal == state \in {"open-failed", "done", "latched"}
WholeBlocksBefore(k) == {i \in 1..Len(Blocks) : EndOf(i) <= k}
Expected ==    \* the items of the blocks that lie completely before the damage, in order
  LET lim == IF corrupt = NoCorrupt THEN Len(Blocks) ELSE IF corrupt = 0 THEN 0 ELSE corrupt - 1
      ok == {i \in WholeBlocksBefore(cut) : i <= lim} IN
  [n \in 1..Cardinality({<<i, j>> \in (1..Len(Blocks)) \X (1..4) : i \in ok /\ j <= Blocks[i].count}) |-> n]
ItemsOf(S) == Cardinality({<<i, j>> \in (1..Len(Blocks)) \X (1..4) : i \in S /\ j <= Blocks[i].count})
OnBoundary == cut \in {EndOf(i) : i \in 0..Len(Blocks)}

TruePrefix ==
  Terminal =>
    LET lim == IF corrupt = NoCorrupt THEN Len(Blocks) ELSE IF corrupt = 0 THEN 0 ELSE corrupt - 1
        ok == {i \in WholeBlocksBefore(cut) : i <= lim}
    IN /\ (cut < H <=> state = "open-failed")
       /\ state # "open-failed" => Len(delivered) = ItemsOf(ok)
       /\ \A n \in 1..Len(delivered) : delivered[n][1] \in ok
ErrorUnlessBoundary ==
  Terminal /\ state # "open-failed" =>
    IF corrupt # NoCorrupt THEN (corrupt = 0 /\ Len(Blocks) = 0) \/ errors = 1
    ELSE (errors = 0 <=> OnBoundary) /\ errors <= 1
Terminates == <>Terminal
=============================================================================
