\* liveness: under weak fairness of every thread's steps every call returns (Progress)
SPECIFICATION FairSpec
CONSTANT Model = "nn"
CONSTANT Threads <- MCThreads
CONSTANT Cells <- MCCells
CONSTANT MaxOps = 1
CONSTANT KeepHistory = TRUE
CONSTANT OpsOf <- MCOpsOf
INVARIANT TypeOK
INVARIANT Agreement
INVARIANT ExactlyOneSetSucceeds
PROPERTY WriteOnce
PROPERTY Linearizable
PROPERTY Progress
CHECK_DEADLOCK TRUE
