----------------------- MODULE Trace_SchemaRoundTrip -----------------------
(***************************************************************************)
(* Judges recorded executions of  text1 -> Schema::parse_str ->            *)
(* serde_json::to_string = text2 -> parse_str -> to_string = text3  and of *)
(* the same schema through an object-container-file header                 *)
(* (harness `avh_c10 run`).  One ndjson line = one event.                  *)
(*                                                                         *)
(*   t         the JSON tree text1 was rendered from                       *)
(*   tree2     text2 tokenised keeping key order AND duplicate keys        *)
(*   proj1/2   structural projection (M-term, SchemaJson!Meaning's shape)  *)
(*             of the parsed schemas, by walking the public Schema enum    *)
(*   hdr_tree  the avro.schema entry of the header Writer::new wrote       *)
(*   proj_hdr  projection of Reader::writer_schema() on that file          *)
(***************************************************************************)
EXTENDS SchemaJson, Known, Json, IOUtils

Rec == ndJsonDeserialize(IOEnv.TRACE)

VARIABLE l

If(c, name) == IF c THEN {} ELSE {name}

NULLNS == "C10-null-namespace-lost"
DECDUP == "C10-decimal-fixed-duplicate-keys"
DevIds == {NULLNS, DECDUP} \cap KnownIds

(* Representation noise, never compared: the crate keeps the parameters of a decimal a second time as
   attributes "precision"/"scale" of the inner fixed; the M-term has one place for them. *)
Nz(x) == DropDecimalAttrs(x)

(* what the in-memory schema p looks like after the deviant writer and a correct reader *)
DevSets == IF NULLNS \in DevIds THEN {{NULLNS}} ELSE {}
Dev(D, p) == IF NULLNS \in D THEN LoseNullNs(Nz(p), <<>>) ELSE Nz(p)
Same(a, b) == MEq(Nz(a), Nz(b))

Smallest(Ds) == CHOOSE D \in Ds : \A X \in Ds : Cardinality(D) <= Cardinality(X)
Tags(Ds, clause) == IF Ds = {} THEN {} ELSE {d \o "|" \o clause : d \in Smallest(Ds)}
ExplainM(obs, p) == {D \in DevSets : MEq(Nz(obs), Dev(D, p))}

(* names defined / referenced by an M-term (for "the lost namespace makes a reference dangle") *)
RECURSIVE DefNamesM(_), RefNamesM(_)
DefNamesM(x) ==
  CASE x.m \in {"fixed", "enum"} -> {x.name}
    [] x.m \in {"uuid-fixed", "duration"} -> {x.inner.name}
    [] x.m = "decimal" -> IF x.inner.m = "prim" THEN {} ELSE {x.inner.name}
    [] x.m = "record" -> {x.name} \cup UNION {DefNamesM(x.fields[i].type) : i \in 1..Len(x.fields)}
    [] x.m = "array" -> DefNamesM(x.items)
    [] x.m = "map" -> DefNamesM(x.values)
    [] x.m = "union" -> UNION {DefNamesM(x.branches[i]) : i \in 1..Len(x.branches)}
    [] OTHER -> {}
RefNamesM(x) ==
  CASE x.m = "ref" -> {x.name}
    [] x.m = "record" -> UNION {RefNamesM(x.fields[i].type) : i \in 1..Len(x.fields)}
    [] x.m = "array" -> RefNamesM(x.items)
    [] x.m = "map" -> RefNamesM(x.values)
    [] x.m = "union" -> UNION {RefNamesM(x.branches[i]) : i \in 1..Len(x.branches)}
    [] OTHER -> {}
Closed(x) == RefNamesM(x) \subseteq DefNamesM(x)
(* the null-namespace deviation turns a closed schema into one with a dangling reference or a clash *)
BreaksNames(p) ==
  /\ NULLNS \in DevIds /\ Closed(p)
  /\ LET q == LoseNullNs(p, <<>>) IN ~Closed(q)

Judge(e) ==
  IF ~NoDupKeys(e.t) THEN [fail |-> {"TOOL:scenario-has-duplicate-keys"}, known |-> {}, drift |-> {}]
  ELSE IF ~e.parse_ok THEN [fail |-> {}, known |-> {}, drift |-> {"schema-not-accepted"}]
  ELSE IF e.panic \/ ~e.ser_ok THEN [fail |-> {"C10:panic-or-serialize-error"}, known |-> {}, drift |-> {}]
  ELSE
  LET p1 == e.proj1
      m1 == Meaning(e.t)
      m2 == IF e.scan2_ok THEN Meaning(e.tree2) ELSE [m |-> "invalid"]
      grey == HasGreyAttrs(e.t)
      \* (a) strict JSON
      dupOk == e.scan2_ok /\ NoDupKeys(e.tree2)
      dupKnown == e.scan2_ok /\ ~dupOk /\ DECDUP \in DevIds /\ OnlyDecimalDups(e.tree2)
      \* (b) the written JSON, read by the reference reader, is the schema that was in memory
      denOk == e.scan2_ok /\ Same(m2, p1)
      denDs == IF denOk \/ ~e.scan2_ok THEN {} ELSE ExplainM(m2, p1)
      \* (c) the crate's own re-read
      reKnown == ~e.parse2_ok /\ BreaksNames(p1)
      sameOk == e.parse2_ok /\ Same(e.proj2, p1)
      sameDs == IF sameOk \/ ~e.parse2_ok THEN {} ELSE ExplainM(e.proj2, p1)
      \* a different text is explained when a different re-read schema is, or by the duplicated decimal keys
      \* (the re-read picks the defaulted "scale": 0 up as one more attribute and writes it twice)
      textKnown == e.parse2_ok /\ ~e.text3_same /\ (sameDs # {} \/ (dupKnown /\ DefaultedScaleDup(e.tree2)))
      \* (d) container header
      hm == IF e.hdr_scan_ok THEN Meaning(e.hdr_tree) ELSE [m |-> "invalid"]
      hdrOpenKnown == ~e.hdr_ok /\ BreaksNames(p1)
      hdenOk == e.hdr_ok /\ e.hdr_scan_ok /\ Same(hm, p1)
      hdenDs == IF hdenOk \/ ~e.hdr_ok \/ ~e.hdr_scan_ok THEN {} ELSE ExplainM(hm, p1)
      hsameOk == e.hdr_ok /\ Same(e.proj_hdr, p1)
      hsameDs == IF hsameOk \/ ~e.hdr_ok THEN {} ELSE ExplainM(e.proj_hdr, p1)
      \* (e) the parser read text1 as the reference reader does
      readOk == Same(m1, p1)
      fail ==
        If(e.scan2_ok, "C10:output-not-json")
        \cup If(~e.scan2_ok \/ dupOk \/ dupKnown, "C10:duplicate-keys")
        \cup If(~e.scan2_ok \/ denOk \/ denDs # {}, "C10:json-denotes-other-schema")
        \cup If(e.parse2_ok \/ reKnown, "C10:output-not-accepted")
        \cup If(~e.parse2_ok \/ sameOk \/ sameDs # {}, "C10:reparsed-schema-differs")
        \cup If(~e.parse2_ok \/ e.text3_same \/ textKnown, "C10:text-not-stable")
        \cup If(e.hdr_ok \/ hdrOpenKnown, "C10:header-unreadable")
        \cup If(~e.hdr_ok \/ (e.hdr_scan_ok /\ (hdenOk \/ hdenDs # {})), "C10:header-json-denotes-other-schema")
        \cup If(~e.hdr_ok \/ hsameOk \/ hsameDs # {}, "C10:header-schema-differs")
        \cup If(readOk \/ grey, "C10:parsed-meaning-differs")
      known ==
        (IF dupKnown THEN {DECDUP \o "|C10:duplicate-keys"} ELSE {})
        \cup Tags(denDs, "C10:json-denotes-other-schema")
        \cup (IF reKnown THEN {NULLNS \o "|C10:output-not-accepted"} ELSE {})
        \cup Tags(sameDs, "C10:reparsed-schema-differs")
        \cup (IF textKnown THEN (IF sameDs # {} THEN Tags(sameDs, "C10:text-not-stable") ELSE {DECDUP \o "|C10:text-not-stable"}) ELSE {})
        \cup (IF hdrOpenKnown THEN {NULLNS \o "|C10:header-unreadable"} ELSE {})
        \cup Tags(hdenDs, "C10:header-json-denotes-other-schema")
        \cup Tags(hsameDs, "C10:header-schema-differs")
      drift ==
        (IF ~readOk /\ grey THEN {"grey:attributes-on-primitive-or-ignored-logical-type"} ELSE {})
        \cup If(~e.hdr_ok \/ e.hdr_text_same, "header-json-differs-from-to_string")
        \cup If(e.value_same, "to_value-differs-from-to_string")
  IN [fail |-> fail, known |-> known, drift |-> drift]

Init == l = 1
Next == /\ l <= Len(Rec)
        /\ LET e == Rec[l]  r == Judge(e) IN
             IF r.fail = {} /\ r.drift = {} /\ r.known = {} THEN TRUE
             ELSE PrintT("VERDICT " \o ToJson([id |-> e.id, fail |-> r.fail, known |-> r.known, drift |-> r.drift]))
        /\ l' = l + 1

Consumed == IF TLCGet("stats").diameter = Len(Rec) + 1 THEN PrintT("CONSUMED " \o ToString(Len(Rec)))
            ELSE PrintT("UNCONSUMED " \o ToString(TLCGet("stats").diameter)) /\ FALSE
=============================================================================
