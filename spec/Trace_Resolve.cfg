INIT Init
NEXT Next
POSTCONDITION Consumed
CHECK_DEADLOCK FALSE
