-------------------------------- MODULE Sink --------------------------------
(***************************************************************************)
(* The std::io::Write contract as an adversarial environment (C13).        *)
(*                                                                         *)
(* A writer is a sequence of emission sites.  A site of kind "WA" emits    *)
(* its bytes with write_all (loop until everything is accepted, retry on   *)
(* Interrupted, Ok(0) is an error); a site of kind "W1" calls write once   *)
(* and takes the result as done (the defect class of C13).  The sink is    *)
(* the adversary: per call it accepts 1..n of the n offered bytes, or      *)
(* returns Interrupted, Ok(0), or another error.                           *)
(***************************************************************************)
EXTENDS Naturals, Sequences, TLC, SequencesExt

CONSTANTS Sites        \* <<[kind |-> "WA"|"W1", bytes |-> <<..>>], ...>>

VARIABLES todo,        \* remaining sites (head is being emitted)
          delivered,   \* bytes the sink has accepted so far
          calls,       \* number of sink calls
          result       \* "running" | "ok" | "err"
vars == <<todo, delivered, calls, result>>

Intended == FlattenSeq([i \in 1..Len(Sites) |-> Sites[i].bytes])

Init == todo = Sites /\ delivered = <<>> /\ calls = 0 /\ result = "running"

Site == Head(todo)

Finish == IF Len(todo) = 1 THEN "ok" ELSE "running"

(* the sink accepts n of the offered bytes *)
SinkAccept(n) ==
  /\ result = "running" /\ todo # <<>> /\ Len(Site.bytes) > 0 /\ n \in 1..Len(Site.bytes)
  /\ delivered' = delivered \o SubSeq(Site.bytes, 1, n)
  /\ calls' = calls + 1
  /\ IF Site.kind = "WA" /\ n < Len(Site.bytes)
     THEN todo' = <<[Site EXCEPT !.bytes = SubSeq(@, n + 1, Len(@))]>> \o Tail(todo) /\ result' = result
     ELSE todo' = Tail(todo) /\ result' = Finish      \* W1: the rest of the piece is silently dropped

(* an empty piece needs no call *)
SkipEmpty == /\ result = "running" /\ todo # <<>> /\ Len(Site.bytes) = 0
             /\ todo' = Tail(todo) /\ result' = Finish /\ UNCHANGED <<delivered, calls>>

(* ErrorKind::Interrupted: write_all retries; a single write propagates it as an error *)
SinkInterrupted ==
  /\ result = "running" /\ todo # <<>> /\ Len(Site.bytes) > 0
  /\ calls' = calls + 1 /\ UNCHANGED delivered
  /\ IF Site.kind = "WA" THEN UNCHANGED <<todo, result>> ELSE result' = "err" /\ UNCHANGED todo

(* Ok(0) for a non-empty buffer: write_all reports WriteZero; a single write "succeeds" with nothing written *)
SinkZero ==
  /\ result = "running" /\ todo # <<>> /\ Len(Site.bytes) > 0
  /\ calls' = calls + 1 /\ UNCHANGED delivered
  /\ IF Site.kind = "WA" THEN result' = "err" /\ UNCHANGED todo
     ELSE todo' = Tail(todo) /\ result' = Finish

SinkError == /\ result = "running" /\ todo # <<>> /\ Len(Site.bytes) > 0
             /\ calls' = calls + 1 /\ result' = "err" /\ UNCHANGED <<todo, delivered>>

Next == (\E n \in 1..8 : SinkAccept(n)) \/ SkipEmpty \/ SinkInterrupted \/ SinkZero \/ SinkError
Spec == Init /\ [][Next]_vars

(* C13: either everything intended was delivered, in order, or the caller was told *)
NoSilentLoss == result = "ok" => delivered = Intended
DeliveredIsPrefixWhileWA == (\A i \in 1..Len(Sites) : Sites[i].kind = "WA") => IsPrefix(delivered, Intended)
=============================================================================
