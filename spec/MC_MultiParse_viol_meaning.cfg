SPECIFICATION Spec
CONSTANT Mode = "pinned"
CONSTANT K = 2
CONSTANT KW = 0
CONSTANT KB = 0
CONSTANT EmitScn = FALSE
INVARIANT ResultIsMeaning
CHECK_DEADLOCK FALSE
