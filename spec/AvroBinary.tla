---------------------------- MODULE AvroBinary ----------------------------
(***************************************************************************)
(* The Avro binary encoding, transcribed from the specification text       *)
(* (DESIGN Appendix B.1), NOT from the Rust.  This module is the           *)
(* "independent implementation" of properties C01/C02/C04/C06/C16/C18.     *)
(*                                                                         *)
(*   EncM(v, s, env, mode)  bytes of value v under schema s; `mode` picks  *)
(*                          one of the spec-legal layouts for arrays/maps  *)
(*   Enc(v, s, env)         the layout a plain writer emits: one block     *)
(*                          with a positive count, then the 0 terminator   *)
(*   Parse(w, pos, s, env)  [ok, why, v, pos]: accepts every spec-legal    *)
(*                          layout, strict at end of input                 *)
(***************************************************************************)
EXTENDS AvroValue, SequencesExt

LenPrefix(b) == LongOfNat(Len(b)) \o b

(***************************************************************************)
(* Layout modes.  blocks: a non-empty tuple of [n, neg] used cyclically;   *)
(* n = 0 means "all remaining items"; neg = TRUE writes the count negated  *)
(* followed by the byte size of the block.  rev = TRUE writes map entries  *)
(* in reverse order (any order is legal).                                  *)
(***************************************************************************)
Canon == [blocks |-> <<[n |-> 0, neg |-> FALSE]>>, rev |-> FALSE]

RECURSIVE BlocksOf(_, _, _)
BlocksOf(encs, bl, i) ==
  IF Len(encs) = 0 THEN <<0>>
  ELSE LET d == bl[((i - 1) % Len(bl)) + 1]
           n == IF d.n = 0 \/ d.n > Len(encs) THEN Len(encs) ELSE d.n
           body == FlattenSeq(SubSeq(encs, 1, n))
           hdr == IF d.neg THEN LongOfNegNat(n) \o LongOfNat(Len(body)) ELSE LongOfNat(n)
       IN hdr \o body \o BlocksOf(SubSeq(encs, n + 1, Len(encs)), bl, i + 1)

RECURSIVE EncM(_, _, _, _)
EncM(v, s0, env, m) ==
  LET s == Deref(s0, env) IN
  CASE s.k = "null" -> <<>>
    [] s.k = "boolean" -> <<IF v.bool THEN 1 ELSE 0>>
    [] s.k \in IntKinds \cup LongKinds -> ZigZagVarint(v.n)
    [] s.k \in {"float", "double"} -> v.bits
    [] s.k \in {"bytes", "string"} -> LenPrefix(v.b)
    [] s.k = "fixed" -> v.b
    [] s.k = "enum" -> LongOfNat(v.i)
    [] s.k = "union" -> LongOfNat(v.i) \o EncM(v.v, s.branches[v.i + 1], env, m)
    [] s.k = "array" ->
         BlocksOf([i \in 1..Len(v.items) |-> EncM(v.items[i], s.items, env, m)], m.blocks, 1)
    [] s.k = "map" ->
         LET es == IF m.rev THEN Reverse(v.entries) ELSE v.entries IN
         BlocksOf([i \in 1..Len(es) |-> LenPrefix(es[i][1]) \o EncM(es[i][2], s.values, env, m)],
                  m.blocks, 1)
    [] s.k = "record" ->
         FlattenSeq([i \in 1..Len(s.fields) |-> EncM(v.fields[i][2], s.fields[i].type, env, m)])
    [] s.k = "decimal" ->
         IF s.base = "bytes" THEN LenPrefix(v.b) ELSE BESignExtend(v.b, s.size)
    [] s.k = "uuid" ->
         IF s.base = "string" THEN LenPrefix(UuidText(v.b))
         ELSE IF s.base = "bytes" THEN LenPrefix(v.b) ELSE v.b
    [] s.k = "duration" -> v.b
    [] s.k = "big-decimal" -> LenPrefix(LenPrefix(v.unscaled) \o ZigZagVarint(v.scale))

Enc(v, s, env) == EncM(v, s, env, Canon)

(***************************************************************************)
(* Parsing.  limit bounds every length declared in the data (bytes/string  *)
(* length, cumulative item count); MaxLimit = "no limit that matters".     *)
(***************************************************************************)
Fail(why, pos) == [ok |-> FALSE, why |-> why, v |-> NoValue, pos |-> pos]
Good(v, pos) == [ok |-> TRUE, why |-> "", v |-> v, pos |-> pos]

ReadN(w, pos, n) == IF pos + n - 1 > Len(w) THEN Fail("eof", pos)
                    ELSE Good(SubSeq(w, pos, pos + n - 1), pos + n)

(* a length: non-negative long that fits TLC's integers; more than the input holds => eof *)
ReadLenPrefixed(w, pos) ==
  LET r == ReadLong(w, pos) IN
  IF ~r.ok THEN Fail(r.why, pos)
  ELSE IF IsNeg8(r.n) THEN Fail("neglen", pos)
  ELSE IF ~IsSmallNat(r.n) THEN Fail("eof", pos)      \* longer than any input we handle
  ELSE ReadN(w, r.pos, ToNat(r.n))

(* A block count above MaxItems is outside what this transcription evaluates (such a count can
   only be honoured for zero-width items, and is a resource question - see DecodeSafety). *)
MaxItems == 100000

RECURSIVE Parse(_, _, _, _)
RECURSIVE ParseItems(_, _, _, _, _, _, _)
RECURSIVE ParseBlocks(_, _, _, _, _, _)
RECURSIVE ParseFields(_, _, _, _, _, _)

(* n items (array: values; map: key then value), appended to acc *)
ParseItems(w, pos, n, s, env, ismap, acc) ==
  IF n = 0 THEN Good(acc, pos)
  ELSE IF ismap
    THEN LET k == ReadLenPrefixed(w, pos) IN
         IF ~k.ok THEN Fail(k.why, pos)
         ELSE IF ~IsUtf8(k.v) THEN Fail("utf8", pos)
         ELSE LET r == Parse(w, k.pos, s, env) IN
              IF ~r.ok THEN Fail(r.why, r.pos)
              ELSE ParseItems(w, r.pos, n - 1, s, env, ismap, Append(acc, <<k.v, r.v>>))
    ELSE LET r == Parse(w, pos, s, env) IN
         IF ~r.ok THEN Fail(r.why, r.pos)
         ELSE ParseItems(w, r.pos, n - 1, s, env, ismap, Append(acc, r.v))

ParseBlocks(w, pos, s, env, ismap, acc) ==
  LET c == ReadLong(w, pos) IN
  IF ~c.ok THEN Fail(c.why, pos)
  ELSE IF c.n = Zero8 THEN Good(acc, c.pos)
  ELSE IF IsNeg8(c.n)
    THEN LET z  == ReadLong(w, c.pos)                                  \* byte size of the block
             m1 == BitsToLE([i \in 1..64 |-> 1 - BitLE(c.n, i - 1)], 8) \* ~c = -c - 1 >= 0
         IN IF ~z.ok THEN Fail(z.why, pos)
            ELSE IF ~IsSmallNat(m1) \/ ToNat(m1) >= MaxItems THEN Fail("toolarge", pos)
            ELSE LET r == ParseItems(w, z.pos, ToNat(m1) + 1, s, env, ismap, acc) IN
                 IF ~r.ok THEN r ELSE ParseBlocks(w, r.pos, s, env, ismap, r.v)
  ELSE IF ~IsSmallNat(c.n) \/ ToNat(c.n) > MaxItems THEN Fail("toolarge", pos)
  ELSE LET r == ParseItems(w, c.pos, ToNat(c.n), s, env, ismap, acc) IN
       IF ~r.ok THEN r ELSE ParseBlocks(w, r.pos, s, env, ismap, r.v)

ParseFields(w, pos, fs, i, env, acc) ==
  IF i > Len(fs) THEN Good(acc, pos)
  ELSE LET r == Parse(w, pos, fs[i].type, env) IN
       IF ~r.ok THEN r
       ELSE ParseFields(w, r.pos, fs, i + 1, env, Append(acc, <<fs[i].name, r.v>>))

Parse(w, pos, s0, env) ==
  LET s == Deref(s0, env) IN
  CASE s.k = "null" -> Good([t |-> "null"], pos)
    [] s.k = "boolean" ->
         IF pos > Len(w) THEN Fail("eof", pos)
         ELSE IF w[pos] = 0 THEN Good([t |-> "boolean", bool |-> FALSE], pos + 1)
         ELSE IF w[pos] = 1 THEN Good([t |-> "boolean", bool |-> TRUE], pos + 1)
         ELSE Fail("boolbyte", pos)
    [] s.k \in IntKinds ->
         LET r == ReadLong(w, pos) IN
         IF ~r.ok THEN Fail(r.why, pos)
         ELSE IF ~IsI32(r.n) THEN Fail("intrange", pos)
         ELSE Good([t |-> s.k, n |-> r.n], r.pos)
    [] s.k \in LongKinds ->
         LET r == ReadLong(w, pos) IN
         IF ~r.ok THEN Fail(r.why, pos) ELSE Good([t |-> s.k, n |-> r.n], r.pos)
    [] s.k = "float" ->
         LET r == ReadN(w, pos, 4) IN IF ~r.ok THEN r ELSE Good([t |-> "float", bits |-> r.v], r.pos)
    [] s.k = "double" ->
         LET r == ReadN(w, pos, 8) IN IF ~r.ok THEN r ELSE Good([t |-> "double", bits |-> r.v], r.pos)
    [] s.k = "bytes" ->
         LET r == ReadLenPrefixed(w, pos) IN IF ~r.ok THEN r ELSE Good([t |-> "bytes", b |-> r.v], r.pos)
    [] s.k = "string" ->
         LET r == ReadLenPrefixed(w, pos) IN
         IF ~r.ok THEN r
         ELSE IF ~IsUtf8(r.v) THEN Fail("utf8", pos)
         ELSE Good([t |-> "string", b |-> r.v], r.pos)
    [] s.k = "fixed" ->
         LET r == ReadN(w, pos, s.size) IN IF ~r.ok THEN r ELSE Good([t |-> "fixed", b |-> r.v], r.pos)
    [] s.k = "enum" ->
         LET r == ReadLong(w, pos) IN
         IF ~r.ok THEN Fail(r.why, pos)
         ELSE IF IsNeg8(r.n) \/ ~IsSmallNat(r.n) \/ ToNat(r.n) >= Len(s.symbols) THEN Fail("enumindex", pos)
         ELSE Good([t |-> "enum", i |-> ToNat(r.n), sym |-> s.symbols[ToNat(r.n) + 1]], r.pos)
    [] s.k = "union" ->
         LET r == ReadLong(w, pos) IN
         IF ~r.ok THEN Fail(r.why, pos)
         ELSE IF IsNeg8(r.n) \/ ~IsSmallNat(r.n) \/ ToNat(r.n) >= Len(s.branches) THEN Fail("unionindex", pos)
         ELSE LET b == Parse(w, r.pos, s.branches[ToNat(r.n) + 1], env) IN
              IF ~b.ok THEN b ELSE Good([t |-> "union", i |-> ToNat(r.n), v |-> b.v], b.pos)
    [] s.k = "array" ->
         LET r == ParseBlocks(w, pos, s.items, env, FALSE, <<>>) IN
         IF ~r.ok THEN r ELSE Good([t |-> "array", items |-> r.v], r.pos)
    [] s.k = "map" ->
         LET r == ParseBlocks(w, pos, s.values, env, TRUE, <<>>) IN
         IF ~r.ok THEN r ELSE Good([t |-> "map", entries |-> r.v], r.pos)
    [] s.k = "record" ->
         LET r == ParseFields(w, pos, s.fields, 1, env, <<>>) IN
         IF ~r.ok THEN r ELSE Good([t |-> "record", fields |-> r.v], r.pos)
    [] s.k = "decimal" ->
         IF s.base = "bytes"
         THEN LET r == ReadLenPrefixed(w, pos) IN
              IF ~r.ok THEN r ELSE Good([t |-> "decimal", b |-> r.v], r.pos)
         ELSE LET r == ReadN(w, pos, s.size) IN
              IF ~r.ok THEN r ELSE Good([t |-> "decimal", b |-> r.v], r.pos)
    [] s.k = "uuid" ->
         IF s.base = "string"
         THEN LET r == ReadLenPrefixed(w, pos) IN
              IF ~r.ok THEN r
              ELSE IF ~IsCanonUuidText(r.v) THEN Fail("uuidtext", pos)
              ELSE Good([t |-> "uuid", b |-> UuidOfText(r.v)], r.pos)
         ELSE IF s.base = "bytes"
         THEN LET r == ReadLenPrefixed(w, pos) IN
              IF ~r.ok THEN r
              ELSE IF Len(r.v) # 16 THEN Fail("uuidlen", pos)
              ELSE Good([t |-> "uuid", b |-> r.v], r.pos)
         ELSE LET r == ReadN(w, pos, 16) IN
              IF ~r.ok THEN r ELSE Good([t |-> "uuid", b |-> r.v], r.pos)
    [] s.k = "duration" ->
         LET r == ReadN(w, pos, 12) IN IF ~r.ok THEN r ELSE Good([t |-> "duration", b |-> r.v], r.pos)
    [] s.k = "big-decimal" ->
         LET r == ReadLenPrefixed(w, pos) IN
         IF ~r.ok THEN r
         ELSE LET u == ReadLenPrefixed(r.v, 1) IN
              IF ~u.ok THEN Fail("bigdec-inner", pos)
              ELSE LET sc == ReadLong(r.v, u.pos) IN
                   IF ~sc.ok THEN Fail("bigdec-inner", pos)
                   ELSE Good([t |-> "big-decimal", unscaled |-> u.v, scale |-> sc.n], r.pos)

(* Parse one complete datum from the whole of w *)
ParseAll(w, s, env) ==
  LET r == Parse(w, 1, s, env) IN
  IF r.ok /\ r.pos # Len(w) + 1 THEN Fail("trailing", r.pos) ELSE r

(***************************************************************************)
(* The specification's literal examples.                                   *)
(***************************************************************************)
SLong == [k |-> "long"]
SStr == [k |-> "string"]
ExRec == [k |-> "record", name |-> "test",
          fields |-> <<[name |-> "a", type |-> SLong], [name |-> "b", type |-> SStr]>>]
ExRecV == [t |-> "record", fields |-> << <<"a", [t |-> "long", n |-> NatToLE8(27)]>>,
                                         <<"b", [t |-> "string", b |-> <<102, 111, 111>>]>> >>]
ASSUME Enc(ExRecV, ExRec, Defs(ExRec)) = <<54, 6, 102, 111, 111>>       \* 36 06 66 6f 6f
ASSUME Enc([t |-> "array", items |-> <<[t |-> "long", n |-> NatToLE8(3)], [t |-> "long", n |-> NatToLE8(27)]>>],
           [k |-> "array", items |-> SLong], EmptyFun) = <<4, 6, 54, 0>>    \* 04 06 36 00
ExU == [k |-> "union", branches |-> <<[k |-> "null"], SStr>>]
ASSUME Enc([t |-> "union", i |-> 0, v |-> [t |-> "null"]], ExU, EmptyFun) = <<0>>
ASSUME Enc([t |-> "union", i |-> 1, v |-> [t |-> "string", b |-> <<97>>]], ExU, EmptyFun) = <<2, 2, 97>>
ASSUME Enc([t |-> "string", b |-> <<102, 111, 111>>], SStr, EmptyFun) = <<6, 102, 111, 111>>
ASSUME ParseAll(<<54, 6, 102, 111, 111>>, ExRec, Defs(ExRec)).v = ExRecV
ASSUME ParseAll(<<3, 4, 6, 54, 0>>, [k |-> "array", items |-> SLong], EmptyFun).v.items
         = <<[t |-> "long", n |-> NatToLE8(3)], [t |-> "long", n |-> NatToLE8(27)]>>  \* -2 items, 4 bytes
ASSUME ~ParseAll(<<54, 6, 102, 111>>, ExRec, Defs(ExRec)).ok
=============================================================================
