--------------------------- MODULE AtomicSettings ---------------------------
(***************************************************************************)
(* The contract of the process-wide settings as ONE atomic step per cell   *)
(* access: "get the value, initialising the cell first if nobody has".     *)
(* This is what the documentation promises ("only changes the setting      *)
(* once", "returns the configured value"); Settings.tla, where the         *)
(* initialiser runs between Begin and Finish while other threads wait,     *)
(* must refine it (property Linearizable in MC_Settings): an initialiser   *)
(* in flight has abstractly not happened yet, Finish is the abstract       *)
(* GetOrInit, Begin stutters.                                              *)
(***************************************************************************)
EXTENDS Naturals, FiniteSets

CONSTANTS Threads, Cells, MaxOps,
          InitValueOf(_, _),      \* value a call's initialiser publishes into a cell
          TouchesOf(_),           \* cells a call needs
          IsCall(_), NoCall

VARIABLES acell,   \* acell[c] = [st |-> "unset" | "set", x |-> value]
          ath      \* ath[t]   = [st, op, todo, seen, won, n]

avars == <<acell, ath>>

AUnset    == [st |-> "unset", x |-> 0]
AIdle(n)  == [st |-> "idle", op |-> NoCall, todo |-> {}, run |-> "none", seen |-> 0, won |-> 0, n |-> n]

AInit == /\ acell = [c \in Cells |-> AUnset]
         /\ ath   = [t \in Threads |-> AIdle(0)]

\* (written on the primed state so that it can be checked as a step property without enumerating all calls)
ACall(t) == /\ ath[t].st = "idle" /\ ath[t].n < MaxOps
            /\ LET o == ath'[t].op IN
                 /\ IsCall(o)
                 /\ ath' = [ath EXCEPT ![t] = [st |-> "busy", op |-> o, todo |-> TouchesOf(o), run |-> "none",
                                               seen |-> 0, won |-> 0, n |-> ath[t].n]]
            /\ UNCHANGED acell

\* the one atomic step: initialise if unset, then read
GetOrInit(t, c) ==
  /\ ath[t].st = "busy" /\ c \in ath[t].todo
  /\ LET fresh == acell[c].st = "unset"
         v     == IF fresh THEN InitValueOf(ath[t].op, c) ELSE acell[c].x
     IN /\ acell' = [acell EXCEPT ![c] = [st |-> "set", x |-> v]]
        /\ ath'   = [ath EXCEPT ![t].todo = @ \ {c},
                                ![t].seen = IF c = ath[t].op.c THEN v ELSE @,
                                ![t].won  = IF c = ath[t].op.c THEN (IF fresh THEN 1 ELSE 0) ELSE @]

AReturn(t) == /\ ath[t].st = "busy" /\ ath[t].todo = {}
              /\ ath' = [ath EXCEPT ![t] = AIdle(ath[t].n + 1)]
              /\ UNCHANGED acell

ANext == \E t \in Threads : ACall(t) \/ AReturn(t) \/ \E c \in Cells : GetOrInit(t, c)
ASpec == AInit /\ [][ANext]_avars
=============================================================================
