------------------------------- MODULE Known -------------------------------
KnownIds == {"C08-alias-ignored", "C08-long-to-int", "C08-double-to-float", "C08-logical-not-base", "C08-fixed-string-coercion", "C08-named-by-structure", "C08-union-default-null-shortcut", "C08-bytes-default-utf8"}
=============================================================================
