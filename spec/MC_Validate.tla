----------------------------- MODULE MC_Validate -----------------------------
(***************************************************************************)
(* Enumerates lenient and near-miss forms of canonical values (C07): for   *)
(* every schema of the bounded universe and a few conforming values, every *)
(* single perturbation at the root or at depth <= 2.  Checks that Denotes  *)
(* is reflexive on canonical values and that anything a lenient value      *)
(* denotes conforms, then emits the scenario for the validating writers.   *)
(***************************************************************************)
EXTENDS Validate, Json

CONSTANT Tier

VARIABLES s, good, pv, phase
vars == <<s, good, pv, phase>>

EnumD == [k |-> "enum", name |-> "ns.ED", symbols |-> <<"A", "B", "C">>, hasdef |-> TRUE, def |-> "B"]

(* unions whose branches are two named types of the same kind, inside collections: a bare item must be
   written under the branch it belongs to, item by item *)
Enum2 == [k |-> "enum", name |-> "ns.E2", symbols |-> <<"L", "M">>]
UE2 == [k |-> "union", branches |-> <<EnumS("ns.E"), Enum2>>]
UF2 == [k |-> "union", branches |-> <<FixedS("F2", 2), FixedS("ns.G1", 1)>>]
UR2 == [k |-> "union", branches |-> <<RecS("ns.P", <<Fld("a", Prim("long"))>>), RecS("ns.Q", <<Fld("b", Prim("string"))>>), Prim("null")>>]
(* an earlier record branch all of whose fields are nullable: a bare record of the LATER branch carries none of
   them and must still be written under its own branch (validation matches it there) *)
NullOr(x) == [k |-> "union", branches |-> <<Prim("null"), x>>]
UR3 == [k |-> "union", branches |-> <<RecS("ns.HB", <<Fld("host", NullOr(Prim("string"))), Fld("seq", NullOr(Prim("long")))>>),
                                      RecS("ns.LG", <<Fld("user", Prim("string")), Fld("attempts", Prim("int"))>>)>>]
SameKindUnions == Over({UE2, UF2, UR2, UR3}) \cup {UR3} \cup {RecS("ns.W", <<Fld("a", [k |-> "array", items |-> UE2])>>)}

Schemas == IF Tier = "quick"
           THEN Leaves \cup Unions(CoreLeaves) \cup Special
                \cup {RecS("ns.R", <<Fld("a", x)>>) : x \in Leaves}
                \cup {RecS("R", <<Fld("a", [k |-> "union", branches |-> <<Prim("null"), x>>]), Fld("b", Prim("long"))>>) : x \in CoreLeaves \ {Prim("null")}}
                \cup Over(CoreLeaves) \cup {EnumD, RecS("ns.R", <<Fld("a", EnumD)>>)} \cup SameKindUnions
           ELSE {EnumD, RecS("ns.R", <<Fld("a", EnumD)>>)} \cup SameKindUnions \cup Leaves \cup Depth1 \cup Special \cup Depth2Sample
                \cup {RecS("R", <<Fld("a", [k |-> "union", branches |-> <<Prim("null"), x>>]), Fld("b", Prim("long"))>>) : x \in CoreLeaves \ {Prim("null")}}

ValsOf(x) == Thin(IF x \in Special THEN ValsFuel(x, Defs(x), FALSE, 2) ELSE Vals(x, Defs(x), FALSE))
(* prefer non-empty containers so that nested perturbations exist *)
Rich(S) == LET R == {v \in S : (v.t = "array" => Len(v.items) > 0) /\ (v.t = "map" => Len(v.entries) > 0)} IN
           IF R = {} THEN S ELSE R

Init == /\ s \in Schemas
        /\ good \in (IF s \in SameKindUnions THEN Rich(Vals(s, Defs(s), FALSE)) ELSE {}) \cup Thin(Rich(IF s \in Special THEN ValsFuel(s, Defs(s), FALSE, 2) ELSE Vals(s, Defs(s), FALSE)))
        /\ pv = P("none", good) /\ phase = "start"

Perturb == /\ phase = "start"
           /\ pv' \in {P("Canonical", good)} \cup Variants(good, s, Defs(s), 2)
           /\ phase' = "perturbed" /\ UNCHANGED <<s, good>>

Emit == /\ phase = "perturbed"
        /\ PrintT("SCN " \o ToJson([s |-> s, good |-> good, v |-> pv.v, kind |-> pv.kind]))
        /\ phase' = "done" /\ UNCHANGED <<s, good, pv>>

Next == Perturb \/ Emit
Spec == Init /\ [][Next]_vars

CanonicalDenotesItself == Conforms(good, s, Defs(s)) /\ Denotes(good, good, s, Defs(s))
=============================================================================
