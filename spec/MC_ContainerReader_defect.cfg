SPECIFICATION Spec
CONSTANTS
  H = 9
  Blocks <- MCBlocks
  EofMidCountIsCleanEnd = TRUE
INVARIANT TruePrefix
INVARIANT ErrorUnlessBoundary
PROPERTY Terminates
CHECK_DEADLOCK FALSE
