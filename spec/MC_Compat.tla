------------------------------ MODULE MC_Compat ------------------------------
(***************************************************************************)
(* The bounded-exhaustive schema enumeration of property C09: every        *)
(* schema is emitted with its boundary values; the glue forms all ordered  *)
(* pairs.  One state per schema; the design-level checks are that every    *)
(* schema is well formed, its values conform, and it reads itself          *)
(* (reflexivity on the specification side).                                *)
(***************************************************************************)
EXTENDS Compat, ResolveUniverse, Json

CONSTANT EnumTier        \* "quick" | "thorough"

VARIABLES S, done
vars == <<S, done>>

Fa(n, ty, al) == FldD(n, ty, al, FALSE, JNull)
En2(n, syms, d) == [k |-> "enum", name |-> n, symbols |-> syms, hasdef |-> TRUE, def |-> d]
R_(fs) == Rc("ns.R", fs)
I_(ty) == Rc("ns.I", <<F("x", ty)>>)
L_(vty, nxt) == Rc("ns.L", <<F("v", vty), F("next", nxt)>>)

EnumLeaves ==
  {PrimS(k) : k \in {"null", "boolean", "int", "long", "float", "double", "string", "bytes", "date", "timestamp-millis"}}
  \cup { Fx("ns.F", 2), Fx("ns.F", 3), Fx("ns.G", 2), E3, En("ns.E", <<"A", "B">>), En("ns.E", <<"C", "B", "A", "D">>),
         En2("ns.E", <<"B", "A">>, "A"), En("ns.E2", <<"A", "B", "C">>) }

EnumCore == {PrimS("int"), PrimS("long"), PrimS("double"), PrimS("string"), PrimS("bytes"), E3}

EnumContainers ==
  {Arr(x) : x \in EnumCore} \cup {Mp(x) : x \in EnumCore \ {E3}}
  \cup { Un(<<PrimS("null"), PrimS("int")>>), Un(<<PrimS("int"), PrimS("null")>>), Un(<<PrimS("null"), PrimS("long")>>),
         Un(<<PrimS("null"), PrimS("string")>>), Un(<<PrimS("string"), PrimS("bytes")>>), Un(<<PrimS("int"), PrimS("string")>>),
         Un(<<PrimS("long"), PrimS("int")>>), Un(<<PrimS("null"), PrimS("int"), PrimS("string")>>),
         Un(<<PrimS("null"), E3>>), Un(<<PrimS("double")>>), Un(<<RecA, RecB>>), Un(<<RecB, RecA>>), Un(<<PrimS("null"), RecA>>),
         Un(<<PrimS("null"), PrimS("double")>>), Un(<<PrimS("null"), PrimS("bytes")>>), Un(<<PrimS("float"), PrimS("long")>>),
         Un(<<PrimS("date"), PrimS("timestamp-millis")>>), Un(<<PrimS("timestamp-millis"), PrimS("date")>>),
         Mp(E3), Arr(PrimS("float")), Arr(PrimS("date")),
         Arr(Un(<<PrimS("null"), PrimS("long")>>)), Mp(Arr(PrimS("int"))), Arr(Arr(PrimS("long"))) }

EnumRecords ==
  { R_(<<>>) }
  \cup {R_(<<F("a", x)>>) : x \in EnumCore \cup {PrimS("float"), PrimS("date"), Fx("ns.F", 2)}}
  \cup {R_(<<F("a", x), F("b", y)>>) : x \in {PrimS("int"), PrimS("long")}, y \in {PrimS("string"), PrimS("bytes")}}
  \cup { R_(<<F("b", PrimS("string")), F("a", PrimS("int"))>>),
         R_(<<F("a", PrimS("int")), FDf("b", PrimS("string"), JStr("d", <<100>>))>>),
         R_(<<FDf("c", PrimS("long"), JInt(7)), F("a", PrimS("int"))>>),
         R_(<<F("c", PrimS("long")), F("a", PrimS("int"))>>),
         R_(<<Fa("z", PrimS("int"), <<"a">>)>>),
         R_(<<Fa("z", PrimS("long"), <<"q", "a">>), F("b", PrimS("string"))>>),
         R_(<<F("a", Un(<<PrimS("null"), PrimS("int")>>))>>),
         R_(<<FDf("a", Un(<<PrimS("null"), PrimS("int")>>), JNull), F("b", PrimS("string"))>>),
         R_(<<F("a", Arr(PrimS("int"))), F("b", Arr(PrimS("int")))>>),         \* repeated identical sub-schemas
         R_(<<F("a", Arr(PrimS("long"))), F("b", Arr(PrimS("int")))>>),
         R_(<<F("a", Arr(PrimS("int"))), F("b", Arr(PrimS("long")))>>),
         R_(<<F("a", PrimS("int")), F("b", PrimS("string")), FDf("c", PrimS("long"), JInt(7))>>),
         R_(<<F("a", Mp(PrimS("string")))>>), R_(<<F("a", Arr(PrimS("long")))>>), R_(<<F("a", Arr(PrimS("int")))>>),
         R_(<<F("a", Un(<<PrimS("null"), PrimS("long")>>))>>),
         R_(<<F("a", E3), F("b", E3)>>),                                        \* definition + (rendered) reference
         \* sibling positions with logical types: the second comparison must not inherit the verdict of the first
         R_(<<F("a", PrimS("date")), F("b", PrimS("timestamp-micros"))>>),
         R_(<<F("a", PrimS("date")), F("b", PrimS("time-millis"))>>),
         R_(<<F("a", PrimS("date")), F("b", PrimS("date"))>>),
         R_(<<F("a", PrimS("time-millis")), F("b", PrimS("date"))>>),
         R_(<<F("a", Mp(PrimS("date"))), F("b", Arr(PrimS("timestamp-micros")))>>),
         R_(<<F("a", Mp(PrimS("date"))), F("b", Arr(PrimS("time-millis")))>>),
         \* the writer has BOTH a field with the reader field's name and one with its alias (a rename done in two
         \* steps): the name wins, whatever the declaration order
         R_(<<F("q", PrimS("long")), F("a", PrimS("string"))>>),
         R_(<<F("q", PrimS("string")), F("a", PrimS("long"))>>),
         R_(<<Fa("a", PrimS("long"), <<"q">>)>>),
         \* enum-typed field with a field default, enum without default / fewer symbols
         R_(<<FDf("a", E3, JStr("A", <<65>>)), F("b", PrimS("string"))>>),
         R_(<<FDf("a", En("ns.E", <<"A", "B">>), JStr("A", <<65>>)), F("b", PrimS("string"))>>) }

(* one named type used in two fields (definition + reference), in both orders; recursive shapes; pairs whose      *)
(* referenced definitions differ although every reference has the same name                                        *)
EnumNamed ==
  { R_(<<F("a", Fx("ns.N", 2)), F("b", RefS("ns.N"))>>),
    R_(<<F("b", Fx("ns.N", 2)), F("a", RefS("ns.N"))>>),
    R_(<<F("a", Fx("ns.N", 2))>>), R_(<<F("b", Fx("ns.N", 2))>>),
    R_(<<F("i", I_(PrimS("long"))), F("j", RefS("ns.I"))>>),
    R_(<<F("i", I_(PrimS("int"))), F("j", RefS("ns.I"))>>),
    R_(<<F("i", I_(PrimS("double"))), F("j", RefS("ns.I"))>>),
    R_(<<F("j", I_(PrimS("long"))), F("i", RefS("ns.I"))>>),
    R_(<<FDf("k", I_(PrimS("int")), JObj(<< <<"x", JInt(1)>> >>)), F("j", RefS("ns.I"))>>),
    R_(<<FDf("k", I_(PrimS("long")), JObj(<< <<"x", JInt(1)>> >>)), F("j", RefS("ns.I"))>>),
    R_(<<F("j", I_(PrimS("long")))>>), R_(<<F("j", I_(PrimS("int")))>>),
    L_(PrimS("int"), Un(<<PrimS("null"), RefS("ns.L")>>)),
    L_(PrimS("long"), Un(<<PrimS("null"), RefS("ns.L")>>)),
    L_(PrimS("double"), Un(<<PrimS("null"), RefS("ns.L")>>)),
    L_(PrimS("int"), Un(<<RefS("ns.L"), PrimS("null")>>)),
    L_(PrimS("long"), Arr(RefS("ns.L"))),
    L_(PrimS("int"), Arr(RefS("ns.L"))),
    L_(PrimS("string"), Mp(RefS("ns.L"))),
    Rc("ns.L", <<F("v", PrimS("int"))>>),
    \* two different nested named types of the same kind (a memo must not confuse them)
    R_(<<F("a", I_(PrimS("long"))), F("b", Rc("ns.J", <<F("y", PrimS("string"))>>))>>),
    R_(<<F("a", I_(PrimS("long"))), F("b", Rc("ns.J", <<F("y", PrimS("int"))>>))>>),
    R_(<<F("a", E3), F("b", En("ns.E2", <<"A", "B", "C">>))>>),
    R_(<<F("a", E3), F("b", En("ns.E2", <<"A", "B">>))>>),
    Un(<<PrimS("null"), L_(PrimS("int"), Un(<<PrimS("null"), RefS("ns.L")>>))>>) }

EnumAll == EnumLeaves \cup EnumContainers \cup EnumRecords \cup EnumNamed
EnumQuick == {PrimS(k) : k \in {"int", "long", "double", "string", "bytes", "date"}}
             \cup {Fx("ns.F", 2), E3, En("ns.E", <<"A", "B">>), En2("ns.E", <<"B", "A">>, "A"),
                   Arr(PrimS("int")), Arr(PrimS("long")), Mp(PrimS("string")),
                   Un(<<PrimS("null"), PrimS("int")>>), Un(<<PrimS("long"), PrimS("int")>>), Un(<<PrimS("string"), PrimS("bytes")>>),
                   Un(<<RecA, RecB>>), Un(<<PrimS("date"), PrimS("timestamp-millis")>>)}
             \cup {s \in EnumRecords : Len(s.fields) # 1 \/ s.fields[1].type.k \in {"int", "long", "union"}}
             \cup EnumNamed
Schemas == IF EnumTier = "quick" THEN EnumQuick ELSE EnumAll

Init == S \in Schemas /\ done = FALSE
Emit == /\ ~done
        /\ PrintT("ENUM " \o ToJson([W |-> S, vals |-> SetToSeq(RVals(S, Defs(S), 2, FALSE))]))
        /\ done' = TRUE /\ UNCHANGED S
Next == Emit
Spec == Init /\ [][Next]_vars

WellFormed == WellFormedR(S)
ValuesConform == \A v \in RVals(S, Defs(S), 2, FALSE) : Conforms(v, S, Defs(S))
(* Every schema reads its own values identically in at least one reading of the grey zones.  Not in all: under  *)
(* the literal first-match reading [long, int] delivers a written int in its long branch and [string, bytes]    *)
(* sends written non-UTF-8 bytes to the string branch (both found by TLC).                                       *)
ReadsItself == \E p \in Policies : \A v \in RVals(S, Defs(S), 2, FALSE) : REq(Res(S, S, v, Defs(S), Defs(S), {}, p), v)
=============================================================================
