SPECIFICATION Spec
CONSTANT MaxEdits = 2
CONSTANT SeedSet = "small"
INVARIANT EditsIrrelevant
INVARIANT CanonicalShape
INVARIANT Idempotent
INVARIANT GreyStable
INVARIANT RoundTripSatisfiable
INVARIANT DeviationsAreLocal
CHECK_DEADLOCK FALSE
