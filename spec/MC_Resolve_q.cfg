SPECIFICATION Spec
CONSTANT MaxSteps = 2
CONSTANT DeepSeeds = "quick"
CONSTANT PolicySet = "two"
INVARIANT ValuesConform
INVARIANT ResultConforms
INVARIANT Idempotent
INVARIANT IdentityOnSelf
INVARIANT SafeStepsAlwaysReadable
INVARIANT EmitScn
CHECK_DEADLOCK FALSE
