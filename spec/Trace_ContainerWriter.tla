------------------------ MODULE Trace_ContainerWriter ------------------------
(***************************************************************************)
(* Trace validation for C03: recorded operation histories of the real      *)
(* Writer (harness avh_c03 replay) are replayed on the ContainerWriter     *)
(* model, one event = one model action.                                    *)
(*                                                                         *)
(* Verdict layer (literal consequences of C03), evaluated after EVERY      *)
(* event on what the harness observed:                                     *)
(*   - the values in the complete blocks of the sink are a prefix of the   *)
(*     values whose append returned Ok (nothing lost/duplicated/reordered, *)
(*     no phantom value);                                                  *)
(*   - an append that returned an error leaves the blocks unchanged;       *)
(*   - after a successful flush, and after closing, all of them are there; *)
(*   - exactly one header, first; one sync marker throughout;              *)
(*   - the final read-back (crate Reader) = the appended values, the       *)
(*     writer schema and exactly the metadata whose add returned Ok.       *)
(* Coverage layer (drift): block partition and results as the faithful     *)
(* model predicts them.                                                    *)
(***************************************************************************)
EXTENDS ContainerWriter, Json, IOUtils, Known

Rec == ndJsonDeserialize(IOEnv.TRACE)

VARIABLES l, obsAppended, obsMeta, prevFlat
tvars == <<vars, l, obsAppended, obsMeta, prevFlat>>

TrIds == {"a", "b", "c", "z"}      \* "z": a value that is zero bytes wide (schema "null")
TrSize == [v \in TrIds |-> CASE v = "a" -> 4 [] v = "b" -> 5 [] v = "c" -> 9 [] v = "z" -> 0]

If(c, name) == IF c THEN {} ELSE {name}
Flat(blocks) == FlattenSeq(blocks)
Report(e, fail, drift) ==
  IF fail = {} /\ drift = {} THEN TRUE
  ELSE PrintT("VERDICT " \o ToJson([id |-> e.bid, step |-> IF "step" \in DOMAIN e THEN e.step ELSE 0 - 1,
                                    fail |-> fail, known |-> {}, drift |-> drift]))

TraceInit == /\ l = 1 /\ obsAppended = <<>> /\ obsMeta = {} /\ prevFlat = <<>>
             /\ sink = <<>> /\ buffer = <<>> /\ bufBytes = 0 /\ hasHeader = FALSE
             /\ meta = {} /\ epoch = 0 /\ appended = <<>> /\ okMeta = {} /\ open = TRUE
             /\ nops = 0 /\ last = <<"init">> /\ blockSize = 0

IsEvent(name) == l <= Len(Rec) /\ Rec[l].ev = name /\ l' = l + 1

(* a new behaviour: fresh writer with the recorded block size *)
TrBegin == /\ IsEvent("begin")
           /\ obsAppended' = <<>> /\ obsMeta' = {} /\ prevFlat' = <<>>
           /\ sink' = <<>> /\ buffer' = <<>> /\ bufBytes' = 0 /\ hasHeader' = FALSE
           /\ meta' = {} /\ epoch' = 0 /\ appended' = <<>> /\ okMeta' = {} /\ open' = TRUE
           /\ nops' = 0 /\ last' = <<"init">> /\ blockSize' = Rec[l].block_size

(* the model action an operation event stands for *)
ModelAction(op) ==
  CASE op[1] = "append" -> AppendOk(op[2])
    [] op[1] = "append-rejected" -> AppendRejected
    [] op[1] = "append-encode-fails" -> AppendEncodeFails
    [] op[1] = "flush" -> Flush
    [] op[1] = "flush-sinkfail" -> FlushSinkFails
    [] op[1] = "extend" -> ExtendOk(op[2])
    [] op[1] = "extend-bad" -> ExtendStopsAtBad(op[2])
    [] op[1] = "add-meta" -> AddUserMetadata(op[2])
    [] op[1] = "reset" -> Reset
    [] op[1] = "close" -> Close(op[2])
    [] op[1] = "reopen" -> Reopen

ModelBlocks(s) == SelectSeq(s, LAMBDA x : x[1] = "blk")

TrOp ==
  /\ IsEvent("op")
  /\ LET e == Rec[l]  op == e.op  flat == Flat(e.blocks) IN
     /\ ModelAction(op)
     /\ LET isAppend == op[1] = "append"
            isExtend == op[1] = "extend"
            failing  == op[1] \in {"append-rejected", "append-encode-fails"}
            newApp == IF op[1] = "reset" THEN <<>>
                      ELSE IF isAppend /\ e.res = "ok" THEN Append(obsAppended, op[2])
                      ELSE IF isExtend /\ e.res = "ok" THEN obsAppended \o op[2]
                      ELSE IF op[1] = "extend-bad" THEN obsAppended \o op[2]     \* the values before the bad one
                      ELSE obsAppended
            newMeta == IF op[1] = "reset" THEN {}
                       ELSE IF op[1] = "add-meta" /\ e.res = "ok" THEN obsMeta \cup {op[2]} ELSE obsMeta
            fail ==
              If(~e.panic, "C03:panic")
              \cup If(~(failing \/ op[1] = "extend-bad") \/ e.res = "err", "TOOL:operation-meant-to-fail-succeeded")
              \* (with nothing pending flush() returns before it reaches the sink's flush)
              \cup If(op[1] # "flush-sinkfail" \/ (e.res = "err") = (buffer # <<>>), "C13:sink-flush-error-not-reported")
              \cup If(e.split_ok, "C03:sink-not-a-container-file")
              \cup If(~e.split_ok \/ IsPrefix(flat, newApp), "C03:blocks-not-a-prefix-of-appended-values")
              \cup If(~e.split_ok \/ ~failing \/ (e.res = "err" /\ flat = prevFlat), "C03:failed-append-left-a-trace")
              \cup If(~e.split_ok \/ ~(op[1] \in {"flush", "close"} /\ e.res = "ok") \/ flat = newApp,
                      "C03:values-missing-after-flush-or-close")
              \cup If(~e.split_ok \/ e.sink_len = 0 \/ e.hdrs = 1, "C03:header-count")
              \cup If(~e.split_ok \/ e.markers_same, "C03:sync-marker-differs")
              \cup If(~(op[1] = "close") \/ e.res = "ok", "C03:close-failed")
              \cup If(~(isAppend \/ isExtend \/ op[1] = "flush") \/ e.res = "ok", "C03:good-operation-failed")
            drift ==
              If(~e.split_ok \/ e.blocks = [i \in 1..Len(ModelBlocks(sink')) |-> ModelBlocks(sink')[i][2]], "block-partition-differs-from-model")
              \cup If(op[1] # "add-meta" \/ e.res = last'[3], "add-metadata-result-differs-from-model")
              \cup If(~e.split_ok \/ e.partial = 0, "incomplete-block-in-sink")
        IN /\ Report(e, fail, drift)
           /\ obsAppended' = newApp /\ obsMeta' = newMeta /\ prevFlat' = flat

TrEnd ==
  /\ IsEvent("end")
  /\ LET e == Rec[l]
         fail == If(e.read_ok, "C03:read-back-failed")
                 \cup If(~e.read_ok \/ e.read = obsAppended, "C03:read-back-differs-from-appended-values")
                 \cup If(~e.read_ok \/ (e.deser_ok /\ e.deser_read = obsAppended), "C03:deserializing-read-back-differs-from-appended-values")
                 \cup If(~e.read_ok \/ e.schema_same, "C03:writer-schema-differs")
                 \cup If(~e.read_ok \/ ({e.meta[i] : i \in 1..Len(e.meta)} = obsMeta /\ e.nmeta = Cardinality(obsMeta)),
                         "C03:user-metadata-differs")
         drift == If(appended = obsAppended, "model-appended-differs-from-observed")
     IN Report(e, fail, drift)
  /\ UNCHANGED <<vars, obsAppended, obsMeta, prevFlat>>

TraceNext == TrBegin \/ TrOp \/ TrEnd
TraceSpec == TraceInit /\ [][TraceNext]_tvars

(* the design invariants of the model must also hold along every recorded history *)
TraceInv == Prefix /\ PendingAccounted /\ HeaderOnce /\ MetaFrozen /\ BufBytesConsistent

Consumed == IF TLCGet("stats").diameter = Len(Rec) + 1 THEN PrintT("CONSUMED " \o ToString(Len(Rec)))
            ELSE PrintT("UNCONSUMED " \o ToString(TLCGet("stats").diameter)) /\ FALSE
=============================================================================
