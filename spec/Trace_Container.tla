---------------------------- MODULE Trace_Container ----------------------------
(***************************************************************************)
(* C04: object container files conform to the specified layout in both     *)
(* directions.                                                             *)
(*  "written": a file produced by the real Writer is parsed by the         *)
(*     independent byte-level parser (Container!ParseFile): magic, map     *)
(*     with avro.schema and avro.codec (absent or "null" iff null codec),  *)
(*     one marker, blocks whose size field is the stored payload length    *)
(*     and whose (decompressed) payload holds exactly `count` datums equal *)
(*     to the appended values.  Payloads of compressed blocks are          *)
(*     decompressed by reference decompressors (event field plains).       *)
(*  "fed": a file assembled by the independent implementation              *)
(*     (BuildFiles / reference compressors) is read by the real Reader to  *)
(*     the same values, schema and user metadata.                          *)
(***************************************************************************)
EXTENDS Container, Json, IOUtils, Known

Rec == ndJsonDeserialize(IOEnv.TRACE)
VARIABLE l

If(c, name) == IF c THEN {} ELSE {name}

CodecName(c) ==
  CASE c = "null" -> NullName
    [] c = "deflate" -> <<100, 101, 102, 108, 97, 116, 101>>
    [] c = "snappy" -> <<115, 110, 97, 112, 112, 121>>
    [] c = "bzip2" -> <<98, 122, 105, 112, 50>>
    [] c = "xz" -> <<120, 122>>
    [] c = "zstandard" -> <<122, 115, 116, 97, 110, 100, 97, 114, 100>>

RECURSIVE AllItems(_, _, _, _, _)
(* datums of all blocks from plain payloads: [ok, items] *)
AllItems(blocks, plains, i, s, acc) ==
  IF i > Len(blocks) THEN [ok |-> TRUE, items |-> acc]
  ELSE LET r == ParseN(plains[i], 1, blocks[i].count, s, Defs(s), <<>>) IN
       IF ~r.ok THEN [ok |-> FALSE, items |-> acc]
       ELSE AllItems(blocks, plains, i + 1, s, acc \o r.items)

SameValues(a, b) == Len(a) = Len(b) /\ \A i \in 1..Len(a) : VEq(a[i], b[i])

JudgeWritten(e) ==
  LET f == ParseFile(e.bytes) IN
  IF ~f.ok THEN {"C04:written-file-not-a-container-file:" \o f.why}
  ELSE
  LET havePlain == e.codec = "null" \/ Len(e.plains) = Len(f.blocks)
      plains == IF e.codec = "null" THEN [i \in 1..Len(f.blocks) |-> f.blocks[i].payload] ELSE e.plains
      items == IF havePlain THEN AllItems(f.blocks, plains, 1, e.s, <<>>) ELSE [ok |-> TRUE, items |-> <<>>]
      total == FoldSeq(LAMBDA b, acc : acc + b.count, 0, f.blocks)
  IN
     If(f.rest = 0 /\ f.why = "", "C04:trailing-bytes-or-foreign-marker-after-last-block")
     \cup If(MetaHas(f.meta, AvroSchemaKey), "C04:avro.schema-missing")
     \cup If(e.schema_roundtrip_ok, "C04:avro.schema-is-not-the-JSON-form-of-the-writer-schema")
     \cup If(IF e.codec = "null" THEN (~MetaHas(f.meta, AvroCodecKey) \/ MetaGet(f.meta, AvroCodecKey) = NullName)
             ELSE MetaHas(f.meta, AvroCodecKey) /\ MetaGet(f.meta, AvroCodecKey) = CodecName(e.codec),
             "C04:avro.codec-does-not-name-the-codec")
     \cup If(total = Len(e.vals), "C04:block-counts-do-not-add-up-to-the-values-written")
     \cup If(~havePlain \/ (items.ok /\ SameValues(items.items, e.vals)), "C04:block-payloads-do-not-hold-exactly-the-values")
     \cup If(e.codec = "null" \/ e.ref_ok, "C04:reference-decompressor-rejects-a-block")

JudgeFed(e) ==
  If(~e.panic, "C04:panic")
  \cup If(e.open_ok, "C04:conforming-file-rejected")
  \cup If(~e.open_ok \/ (~e.read_err /\ SameValues(e.items, e.vals)), "C04:values-read-differ")
  \cup If(~e.open_ok \/ e.schema_ok, "C04:schema-read-differs")
  \cup If(~e.open_ok \/ (Len(e.user) = Len(e.got_user) /\ \A i \in 1..Len(e.user) : \E j \in 1..Len(e.got_user) : e.user[i] = e.got_user[j]),
          "C04:user-metadata-read-differs")

Judge(e) == [fail |-> IF e.ev = "written" THEN JudgeWritten(e) ELSE JudgeFed(e), known |-> {}, drift |-> {}]

Init == l = 1
Next == /\ l <= Len(Rec)
        /\ LET e == Rec[l]  r == Judge(e) IN
             IF r.fail = {} THEN TRUE
             ELSE PrintT("VERDICT " \o ToJson([id |-> e.id, fail |-> r.fail, known |-> r.known, drift |-> r.drift]))
        /\ l' = l + 1
Consumed == IF TLCGet("stats").diameter = Len(Rec) + 1 THEN PrintT("CONSUMED " \o ToString(Len(Rec)))
            ELSE PrintT("UNCONSUMED " \o ToString(TLCGet("stats").diameter)) /\ FALSE
=============================================================================
