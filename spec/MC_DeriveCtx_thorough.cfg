INIT Init
NEXT Next
CONSTANT Slices = 40
CONSTANT Pick = 1
CONSTANT MaxE2 = 2
INVARIANT TypeOK
INVARIANT DefinedAtMostOnce
INVARIANT RefsPointBackwards
INVARIANT Finished
INVARIANT MachineMatchesFunction
INVARIANT EmitGraph
CHECK_DEADLOCK FALSE
