--------------------------- MODULE Trace_SchemaWF ---------------------------
(***************************************************************************)
(* Judges recorded executions of the real schema parser (harness           *)
(* `avh_c11 run`).  One ndjson line = one input text = one step.           *)
(*                                                                         *)
(* Verdict layer (property C11), every clause a literal consequence of the *)
(* statement:                                                              *)
(*   C11:<api>-panic|hang|abort      parsing any text never panics/hangs   *)
(*   C11:post-panic|hang:<op>        every operation on an accepted schema *)
(*                                   completes                             *)
(*   C11:accepted-<rule>             accepted => WellFormed (one clause    *)
(*                                   per violated rule of SchemaWF)        *)
(*   C11:rejected-wellformed:<msg>   WellFormed => accepted (<msg> = first *)
(*                                   words of the error, i.e. the rule the *)
(*                                   implementation applied)               *)
(*   C11:result-duplicate-fullname / C11:result-dangling-reference         *)
(*                                   the walked result of a well-formed    *)
(*                                   text is itself well formed            *)
(* WellFormed is RE-EVALUATED here on the tree scanned from the text the   *)
(* parser saw; the scenario's prediction is only cross-checked (TOOL).     *)
(* Grey zones (SchemaWF `grey`) accept either outcome and are counted.     *)
(* Text that is not JSON is judged for totality only.                      *)
(***************************************************************************)
EXTENDS SchemaWF, Known, Json, IOUtils

Rec == ndJsonDeserialize(IOEnv.TRACE)

VARIABLE l

Apis == {"parse_str", "parse_value", "parse_reader"}
Crash == {"panic", "hang", "abort", "died"}

(* ---------------- deviation predicates of the known findings ---------------- *)
(* When does the crate's Parsing-Canonical-Form writer panic?  (avro/src/schema/mod.rs parsing_canonical_form /   *)
(* pcf_map.)  It walks the serialized schema, descends into the value of every key it keeps                        *)
(* (name type fields symbols items values order; size precision scale as integers) and has no case for a number,   *)
(* boolean or null there, unwraps `as_i64()` on the three integer keys.  Custom attributes that happen to carry    *)
(* such a key reach it unchecked.  PcfPanics mirrors that walk on the input tree.                                  *)
IntLikeStr(u) == NumIntSyntax(u) /\ IntLitInRange(u, 64)
CanonInt(v) == v.j = "int" \/ (v.j = "num" /\ NumIntSyntax(v.u) /\ IntLitInRange(v.u, 64)) \/ (v.j = "str" /\ IntLikeStr(v.u))
PcfIntKeys == {"size", "precision", "scale"}
PcfWalkKeys == {"name", "type", "fields", "symbols", "items", "values", "order"}
RECURSIVE PcfPanics(_)
PcfPanics(t) ==
  CASE t.j = "obj" -> \E i \in 1..Len(t.kv) :
                         \/ t.kv[i][1] \in PcfIntKeys /\ ~CanonInt(t.kv[i][2])
                         \/ t.kv[i][1] \in PcfWalkKeys /\ PcfPanics(t.kv[i][2])
    [] t.j = "arr" -> \E i \in 1..Len(t.items) : PcfPanics(t.items[i])
    [] t.j = "str" -> FALSE
    [] OTHER -> TRUE

RECURSIVE HasDefaultKey(_)
HasDefaultKey(t) ==
  CASE t.j = "obj" -> \E i \in 1..Len(t.kv) : t.kv[i][1] = "default" \/ HasDefaultKey(t.kv[i][2])
    [] t.j = "arr" -> \E i \in 1..Len(t.items) : HasDefaultKey(t.items[i])
    [] OTHER -> FALSE

(* a number beyond i64 inside a field default *)
RECURSIVE HasIntOverI64(_), HasDefaultIntOverI64(_)
HasIntOverI64(t) ==
  CASE t.j = "obj" -> \E i \in 1..Len(t.kv) : HasIntOverI64(t.kv[i][2])
    [] t.j = "arr" -> \E i \in 1..Len(t.items) : HasIntOverI64(t.items[i])
    [] t.j = "num" -> NumIntSyntax(t.u) /\ ~IntLitInRange(t.u, 64)
    [] OTHER -> FALSE
HasDefaultIntOverI64(t) ==
  CASE t.j = "obj" -> \E i \in 1..Len(t.kv) : IF t.kv[i][1] = "default" THEN HasIntOverI64(t.kv[i][2]) ELSE HasDefaultIntOverI64(t.kv[i][2])
    [] t.j = "arr" -> \E i \in 1..Len(t.items) : HasDefaultIntOverI64(t.items[i])
    [] OTHER -> FALSE

(* a field that carries a default while its type mentions (by a reference string) a record that is still being
   defined at that point -- the crate type-checks defaults by resolving them immediately, when that name is not
   registered yet *)
LastDotPos(u) == LET SS == {i \in 1..Len(u) : u[i] = 46} IN IF SS = {} THEN 0 ELSE CHOOSE i \in SS : \A j \in SS : j <= i
ShortU(u) == SubSeq(u, LastDotPos(u) + 1, Len(u))
RECURSIVE MentionsOpen(_, _), DefaultOnOpenType(_, _)
MentionsOpen(t, open) ==
  CASE t.j = "str" -> ShortU(t.u) \in open
    [] t.j = "arr" -> \E i \in 1..Len(t.items) : MentionsOpen(t.items[i], open)
    [] t.j = "obj" -> \E i \in 1..Len(t.kv) : t.kv[i][1] \in {"type", "items", "values"} /\ MentionsOpen(t.kv[i][2], open)
    [] OTHER -> FALSE
DefaultOnOpenType(t, open) ==
  CASE t.j = "arr" -> \E i \in 1..Len(t.items) : DefaultOnOpenType(t.items[i], open)
    [] t.j = "obj" ->
         LET isRec == \E i \in 1..Len(t.kv) : t.kv[i][1] = "type" /\ t.kv[i][2].j = "str" /\ t.kv[i][2].s = "record"
             nm == {ShortU(t.kv[i][2].u) : i \in {x \in 1..Len(t.kv) : t.kv[x][1] = "name" /\ t.kv[x][2].j = "str"}}
             open2 == IF isRec THEN open \cup nm ELSE open
             hasDef == \E i \in 1..Len(t.kv) : t.kv[i][1] = "default"
             ty == {t.kv[i][2] : i \in {x \in 1..Len(t.kv) : t.kv[x][1] = "type"}}
         IN \/ (~isRec /\ hasDef /\ \E y \in ty : MentionsOpen(y, open))
            \/ \E i \in 1..Len(t.kv) : t.kv[i][1] \in {"fields", "type", "items", "values"} /\ DefaultOnOpenType(t.kv[i][2], open2)
    [] OTHER -> FALSE

(* finding ids that explain the failed clause c of event e exactly *)
Explains(e, tree, c, p) ==
  {id \in KnownIds :
     \/ /\ id = "C11-canonical-form-panics-on-unexpected-attribute-kind"
        /\ p.out = "panic" /\ p.kind \in {"called-option-unwrap-on-a", "only-valid-schemas-are-accepted", "got-invalid-json-value-for"}
        /\ e.json /\ PcfPanics(tree)
        /\ \/ p.op \in {"canonical_form", "fingerprint_rabin", "fingerprint_md5", "fingerprint_sum"}
           \* the parser itself renders the canonical form of a field's schema into the message of a rejected default
           \/ p.op \in Apis /\ HasDefaultKey(tree)
     \/ id = "C11-duplicate-fullname-accepted" /\ c = "C11:accepted-duplicate-fullname"
     \/ id = "C11-primitive-name-accepted" /\ c = "C11:accepted-primitive-name-redefined"
     \/ id = "C11-non-object-field-skipped" /\ c = "C11:accepted-field-not-object"
     \/ id = "C11-integer-default-over-i64-rejected"
          /\ c = "C11:rejected-wellformed:json-number-could-not" /\ HasDefaultIntOverI64(tree)
     \/ id = "C11-default-on-type-under-definition-rejected"
          /\ c = "C11:rejected-wellformed:default-s-value-type" /\ DefaultOnOpenType(tree, {})
  }

NoPost == [out |-> "", kind |-> "", op |-> ""]

Judge(e) ==
  LET out(a) == e.parse[a].out
      acc == {a \in Apis : out(a) = "ok"}
      rej == {a \in Apis : out(a) = "err"}
      tree == IF e.json THEN Dedup(e.tree, TRUE) ELSE e.tree
      W == IF e.json THEN WF(e.tree) ELSE [verdict |-> "none", bad |-> {}, grey |-> {}, names |-> {}]
      (* totality: pairs <<clause, post-record or NoPost>> *)
      crashP == {<<"C11:" \o a \o "-" \o out(a), [out |-> out(a), kind |-> e.parse[a].kind, op |-> a]>> : a \in {a \in Apis : out(a) \in Crash}}
      crashO == {<<"C11:post-" \o e.post[i].out \o ":" \o e.post[i].op, e.post[i]>>
                   : i \in {i \in 1..Len(e.post) : e.post[i].out \in Crash}}
      (* default-conformance deviations (DESIGN A.1): a violated rule r is explained by a known finding iff r is no  *)
      (* longer violated when the document is re-read with exactly that deviation switched on (all three together   *)
      (* if no single one suffices)                                                                               *)
      devs == KnownIds \cap {DevFixedLength, DevCodePoint, DevBytesArray}
      badUnder == TLCEval([id \in devs |-> WFD(e.tree, {id}).bad])
      badUnderAll == WFD(e.tree, devs).bad
      devExplains(r) == IF \E id \in devs : r \notin badUnder[id] THEN {id \in devs : r \notin badUnder[id]}
                        ELSE IF devs # {} /\ r \notin badUnderAll THEN devs ELSE {}
      accR == IF W.verdict = "bad" /\ acc # {} THEN W.bad ELSE {}
      accF == {<<"C11:accepted-" \o r, NoPost>> : r \in {r \in accR : devExplains(r) = {}}}
      accK == UNION {{id \o "|C11:accepted-" \o r : id \in devExplains(r)} : r \in accR}
      rejF == IF W.verdict = "ok" /\ rej # {} THEN {<<"C11:rejected-wellformed:" \o e.parse[a].kind, NoPost>> : a \in rej} ELSE {}
      names == {e.names[i] : i \in 1..Len(e.names)}
      resF == IF W.verdict = "ok" /\ acc # {} /\ Len(e.names) < 64 /\ Len(e.refs) < 64
              THEN (IF Cardinality(names) # Len(e.names) THEN {<<"C11:result-duplicate-fullname", NoPost>>} ELSE {})
                   \cup (IF \E i \in 1..Len(e.refs) : e.refs[i] \notin names THEN {<<"C11:result-dangling-reference", NoPost>>} ELSE {})
              ELSE {}
      tool == IF e.pred # "none" /\ (e.pred # W.verdict \/ {e.prule[i] : i \in 1..Len(e.prule)} # W.bad)
              THEN {"TOOL:prediction-differs-from-reevaluation"} ELSE {}
      all == crashP \cup crashO \cup accF \cup rejF \cup resF
      known == accK \cup UNION {{id \o "|" \o cp[1] : id \in Explains(e, tree, cp[1], cp[2])} : cp \in all}
      fail == {cp[1] : cp \in {x \in all : Explains(e, tree, x[1], x[2]) = {}}} \cup tool
      drift ==
        (IF acc # {} /\ rej # {} THEN {"parse-apis-disagree"} ELSE {})
        \cup (IF ~e.same THEN {"parse-apis-return-different-schemas"} ELSE {})
        \cup (IF W.verdict = "ok" /\ acc # {} /\ \E i \in 1..Len(e.post) : e.post[i].op = "resolved_new" /\ e.post[i].out = "err"
              THEN {"wellformed-accepted-but-ResolvedSchema-errs"} ELSE {})
        \cup (IF W.verdict = "ok" /\ acc # {} /\ Len(e.names) < 64 /\ names # W.names THEN {"defined-fullnames-differ"} ELSE {})
  IN [fail |-> fail, known |-> known, drift |-> drift, grey |-> W.grey, verdict |-> W.verdict]

Init == l = 1
Next == /\ l <= Len(Rec)
        /\ LET e == Rec[l]  r == Judge(e) IN
             IF r.fail = {} /\ r.drift = {} /\ r.known = {} /\ r.grey = {} THEN TRUE
             ELSE PrintT("VERDICT " \o ToJson([id |-> e.id, fail |-> r.fail, known |-> r.known, drift |-> r.drift, grey |-> r.grey]))
        /\ l' = l + 1

Consumed == IF TLCGet("stats").diameter = Len(Rec) + 1 THEN PrintT("CONSUMED " \o ToString(Len(Rec)))
            ELSE PrintT("UNCONSUMED " \o ToString(TLCGet("stats").diameter)) /\ FALSE
=============================================================================
