SPECIFICATION Spec
CONSTANT Sites <- OneW1
CONSTRAINT Bounded
INVARIANT NoSilentLoss
CHECK_DEADLOCK FALSE
