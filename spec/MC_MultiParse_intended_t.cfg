SPECIFICATION Spec
CONSTANT Mode = "intended"
CONSTANT K = 4
CONSTANT KW = 3
CONSTANT KB = 2
CONSTANT EmitScn = FALSE
INVARIANT Confluent
INVARIANT MatchesDeclarative
INVARIANT InputOrderPreserved
INVARIANT ResultIsMeaning
CHECK_DEADLOCK FALSE
