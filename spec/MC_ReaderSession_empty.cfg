SPECIFICATION Spec
CONSTANTS
  File <- MCFile
  MaxPolls = 9
  LatchPerIterator = FALSE
  EmptyBlockEnds = TRUE
INVARIANT OpenIffHeaderComplete
INVARIANT OnlyVerified
INVARIANT TruePrefix
INVARIANT NothingAfterError
INVARIANT EndMeansAll
INVARIANT ErrorReported
PROPERTY Quiesces
CHECK_DEADLOCK FALSE
