\* the named deviation check-then-set (SpecBroken): TLC must find the counterexample to Linearizable (refinement of AtomicSettings)
SPECIFICATION SpecBroken
CONSTANT Model = "mv"
CONSTANT Threads <- MCThreads
CONSTANT Cells <- MCCells
CONSTANT MaxOps = 1
CONSTANT KeepHistory = TRUE
CONSTANT OpsOf <- MCOpsOf
PROPERTY Linearizable
CHECK_DEADLOCK FALSE
