SPECIFICATION TraceSpec
CONSTANTS
  Ids <- TrIds
  Size <- TrSize
  Keys = {"k1", "k2", "k3"}
  BlockSizes = {0}
  MaxOps = 1000000
INVARIANT TraceInv
POSTCONDITION Consumed
CHECK_DEADLOCK FALSE
