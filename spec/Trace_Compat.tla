---------------------------- MODULE Trace_Compat ----------------------------
(***************************************************************************)
(* Judges recorded compatibility verdicts against recorded reads (harness  *)
(* `avh_c09 run`).  One ndjson line = one writer schema W with its values  *)
(* and a list of reader schemas; per reader R: can_read(W,R), can_read(R,W),*)
(* mutual_read both ways, can_read(R,R), whether R arose from W by the     *)
(* recorded step history, and for every value of W whether the real read   *)
(* with R succeeded.                                                       *)
(*                                                                         *)
(* Verdict layer (property C09):                                           *)
(*   C09:full-but-read-fails     can_read(W,R) = Full => every recorded    *)
(*                               read of a W-value with R succeeded        *)
(*   C09:safe-step-incompatible  SafeHistory(hist) => can_read(W,R) # Err  *)
(*   C09:self-not-full           can_read(S,S) = Full                      *)
(*   C09:mutual-not-symmetric    mutual_read(W,R) = mutual_read(R,W)       *)
(*   C09:panic                                                             *)
(* A failure is moved to `known` iff a named finding explains exactly this *)
(* observation: the failing read is one the resolution rules allow but a   *)
(* named C08 deviation refuses; or the rules give no result and the only   *)
(* reason is non-UTF-8 bytes read as string; or the descent of the two     *)
(* schemas compares two references by name although their definitions      *)
(* differ; or (safe steps) it compares a reference with a definition.      *)
(***************************************************************************)
EXTENDS Compat, Known, Json, IOUtils

Rec == ndJsonDeserialize(IOEnv.TRACE)
VARIABLE l

F_Alias   == "C09-full-but-alias-ignored"
F_Logical == "C09-full-but-logical-not-base"
F_BytesDef == "C09-full-but-bytes-default-utf8"
F_UnionDef == "C09-full-union-default-later-branch"
F_Utf8    == "C09-full-bytes-to-string"
F_RefRef  == "C09-full-ref-ref-by-name"
F_RefDef  == "C09-safe-ref-vs-definition"

(* the C08 deviations that make a read FAIL where the rules give a value, with the C09 finding they surface as *)
FailDevs == << <<DevAlias, F_Alias>>, <<DevLogical, F_Logical>>, <<DevBytesDef, F_BytesDef>> >>

(* the parallel descent meets two references to the same name whose definitions differ *)
RECURSIVE MeetsRefRef(_, _, _, _, _)
MeetsRefRef(w, r, ew, er, fuel) ==
  IF fuel = 0 THEN FALSE
  ELSE IF w.k = "ref" /\ r.k = "ref" THEN w.name = r.name /\ w.name \in DOMAIN ew /\ w.name \in DOMAIN er /\ ew[w.name] # er[w.name]
  ELSE IF w.k = "union" /\ r.k = "union"
       THEN \E i \in 1..Len(w.branches), j \in 1..Len(r.branches) : MeetsRefRef(w.branches[i], r.branches[j], ew, er, fuel - 1)
  ELSE IF w.k = "union" THEN \E i \in 1..Len(w.branches) : MeetsRefRef(w.branches[i], r, ew, er, fuel - 1)
  ELSE IF r.k = "union" THEN \E j \in 1..Len(r.branches) : MeetsRefRef(w, r.branches[j], ew, er, fuel - 1)
  ELSE IF w.k = "array" /\ r.k = "array" THEN MeetsRefRef(w.items, r.items, ew, er, fuel - 1)
  ELSE IF w.k = "map" /\ r.k = "map" THEN MeetsRefRef(w.values, r.values, ew, er, fuel - 1)
  ELSE IF w.k = "record" /\ r.k = "record"
       THEN \E i \in 1..Len(r.fields) :
              LET wi == WriterFieldFor(r.fields[i], w, {}) IN
              wi > 0 /\ MeetsRefRef(w.fields[wi].type, r.fields[i].type, ew, er, fuel - 1)
  ELSE FALSE

(* why a read that the verdict Full promised failed: the id of the finding that explains it, or "" *)
Cause(e, rd, v, ew, er) ==
  IF ReadableSome(e.W, rd.R, v, ew, er)
  THEN \* the rules give a value; the reader refused it
       \* ... because of a named deviation: in one and the same reading the rules give a value and the deviation an error
       LET hits == {i \in 1..Len(FailDevs) : FailDevs[i][2] \in KnownIds
                      /\ \E p \in {StdPolicy, FitPolicy} : /\ ~IsErr(Res(e.W, rd.R, v, ew, er, {}, p))
                                                          /\ IsErr(Res(e.W, rd.R, v, ew, er, {FailDevs[i][1]}, p))} IN
       IF hits # {} THEN FailDevs[CHOOSE i \in hits : TRUE][2]
       ELSE IF F_UnionDef \in KnownIds /\ ~ReadableAll(e.W, rd.R, v, ew, er) THEN F_UnionDef
       ELSE ""
  ELSE \* the rules give no result in any reading: the verdict itself is wrong
       IF F_Utf8 \in KnownIds /\ \E p \in Policies : ~IsErr(Res(e.W, rd.R, v, ew, er, {DevUtf8}, p)) THEN F_Utf8
       ELSE IF F_RefRef \in KnownIds /\ MeetsRefRef(e.wn, rd.rn, ew, er, 8) THEN F_RefRef
       ELSE ""

JudgeReader(e, rd, ew) ==
  IF ~rd.parse_ok THEN [fail |-> {}, known |-> {}, drift |-> {"reader-schema-not-accepted"}]
  ELSE
  LET er == Defs(rd.R)
      n == Len(rd.reads)
      bad == {i \in 1..n : rd.reads[i].enc_ok /\ ~rd.reads[i].ok}
      full == rd.cr_wr.vd = "Full"
      causes == IF full THEN {Cause(e, rd, e.vals[i], ew, er) : i \in bad} ELSE {}
      safe == rd.hist # <<>> /\ SafeHistory(rd.hist)
      safeErr == safe /\ rd.cr_wr.vd = "Err"
      safeKnown == safeErr /\ F_RefDef \in KnownIds /\ MeetsRefVsDef(e.wn, rd.rn, 8)
      toolSafe == safe /\ \E i \in 1..n : ~ReadableAll(e.W, rd.R, e.vals[i], ew, er)
      allReadOk == n > 0 /\ \A i \in 1..n : rd.reads[i].enc_ok /\ rd.reads[i].ok
      anyPanic == rd.cr_wr.panic \/ rd.cr_rw.panic \/ rd.mu_wr.panic \/ rd.mu_rw.panic \/ rd.cr_rr.panic
                  \/ \E i \in 1..n : rd.reads[i].panic
  IN [fail |-> (IF "" \in causes THEN {"C09:full-but-read-fails"} ELSE {})
               \cup (IF safeErr /\ ~safeKnown THEN {"C09:safe-step-incompatible"} ELSE {})
               \cup (IF rd.cr_rr.vd # "Full" THEN {"C09:self-not-full"} ELSE {})
               \cup (IF rd.mu_wr.vd # rd.mu_rw.vd THEN {"C09:mutual-not-symmetric"} ELSE {})
               \cup (IF anyPanic THEN {"C09:panic"} ELSE {})
               \cup (IF toolSafe THEN {"TOOL:safe-history-not-readable"} ELSE {}),
      known |-> {c \o "|C09:full-but-read-fails" : c \in causes \ {""}}
                \cup (IF safeKnown THEN {F_RefDef \o "|C09:safe-step-incompatible"} ELSE {}),
      drift |-> (IF rd.mu_wr.vd # Meet(rd.cr_wr.vd, rd.cr_rw.vd) THEN {"mutual-is-not-the-documented-meet"} ELSE {})
                \cup (IF full /\ bad = {} /\ \E i \in 1..n : ~ReadableSome(e.W, rd.R, e.vals[i], ew, er)
                      THEN {"verdict-full-reads-succeed-but-rules-give-no-result"} ELSE {})
                \cup (IF rd.cr_wr.vd = "Err" /\ allReadOk /\ \A i \in 1..n : ReadableAll(e.W, rd.R, e.vals[i], ew, er)
                      THEN {"verdict-incompatible-although-every-value-reads"} ELSE {})]

Judge(e) ==
  IF ~e.parse_ok THEN [fail |-> {}, known |-> {}, drift |-> {"schema-not-accepted"}, at |-> {}]
  ELSE
  LET ew == Defs(e.W)
      conf == \A i \in 1..Len(e.vals) : Conforms(e.vals[i], e.W, ew)
      js == TLCEval([i \in 1..Len(e.readers) |-> JudgeReader(e, e.readers[i], ew)])
  IN [fail |-> UNION {js[i].fail : i \in 1..Len(js)}
               \cup (IF conf THEN {} ELSE {"TOOL:value-not-conforming"})
               \cup (IF e.cr_ww.vd # "Full" THEN {"C09:self-not-full"} ELSE {})
               \cup (IF e.cr_ww.panic THEN {"C09:panic"} ELSE {}),
      known |-> UNION {js[i].known : i \in 1..Len(js)},
      drift |-> UNION {js[i].drift : i \in 1..Len(js)},
      at |-> {i - 1 : i \in {j \in 1..Len(js) : js[j].fail # {}}}]

Init == l = 1
Next == /\ l <= Len(Rec)
        /\ LET e == Rec[l]  r == Judge(e) IN
             IF r.fail = {} /\ r.drift = {} /\ r.known = {} THEN TRUE
             ELSE PrintT("VERDICT " \o ToJson([id |-> e.id, fail |-> r.fail, known |-> r.known, drift |-> r.drift, at |-> r.at]))
        /\ l' = l + 1

Consumed == IF TLCGet("stats").diameter = Len(Rec) + 1 THEN PrintT("CONSUMED " \o ToString(Len(Rec)))
            ELSE PrintT("UNCONSUMED " \o ToString(TLCGet("stats").diameter)) /\ FALSE
=============================================================================
