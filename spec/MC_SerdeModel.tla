--------------------------- MODULE MC_SerdeModel ---------------------------
(***************************************************************************)
(* The documented serde <-> Avro mapping over a bounded universe of Rust   *)
(* types x boundary values (SerdeTypes) plus hand-written (term, schema)   *)
(* pairs.  TLC checks that the mapping is coherent - every term denotes a  *)
(* conforming Avro value; the modelled writer output parses back to that   *)
(* value under every block-size setting; reading back is a retraction      *)
(* (Norm) - and emits every explored pair as a scenario for the harness.   *)
(***************************************************************************)
EXTENDS SerdeTypes, Json

CONSTANT Tier            \* "quick" | "thorough"

VARIABLES sv, s, corpus, phase
vars == <<sv, s, corpus, phase>>

Types == Scalars \cup Composite
Typed(full) == UNION {{<<x, SchemaOf(ty)>> : x \in TermsOf(ty, full)} : ty \in Types}
Pairs == Typed(Tier = "thorough") \cup Extra
         \cup {<<x, SchemaOf(HighBytesDefault)>> : x \in TermsOf(HighBytesDefault, FALSE)}
CorpusPairs == UNION {{<<x, SchemaOf(Corpus[n]), n>> : x \in CorpusTerms(n, Tier = "thorough")} : n \in DOMAIN Corpus}

Targets == {0, 1, 8, 1000000}

Init == /\ \/ \E p \in Pairs : sv = p[1] /\ s = p[2] /\ corpus = ""
           \/ \E p \in CorpusPairs : sv = p[1] /\ s = p[2] /\ corpus = p[3]
        /\ phase = "start"

Emit == /\ phase = "start"
        /\ PrintT("SCN " \o ToJson([sv |-> sv, s |-> s, corpus |-> corpus]))
        /\ phase' = "done" /\ UNCHANGED <<sv, s, corpus>>

Next == Emit
Spec == Init /\ [][Next]_vars

env == Defs(s)
av == ToAvro(sv, s, env)

(* ---- properties of the mapping ---- *)
Denotes == IsDef(av) /\ Conforms(av, s, env)

EveryBlockSizeParsesBack ==
  IsDef(av) =>
    \A t \in Targets :
       LET w == SerdeEnc(sv, s, env, [t |-> t, hint |-> Hinted(sv)])
           r == ParseAll(w, s, env)
       IN r.ok /\ VEq(r.v, av)

(* direct mode = the plain writer's layout *)
DirectIsCanonical ==
  IsDef(av) /\ Hinted(sv) => SerdeEnc(sv, s, env, [t |-> 0, hint |-> TRUE]) = Enc(av, s, env)

(* reading back: Norm is a retraction that keeps the denotation *)
NormRetracts ==
  IsDef(av) =>
    LET n == Norm(sv, s, env) IN
    /\ IsDef(ToAvro(n, s, env)) /\ VEq(ToAvro(n, s, env), av)
    /\ Norm(n, s, env) = n

(* a self-describing read denotes the same value wherever the mapping relates its result to s *)
AnyReadDenotes ==
  IsDef(av) =>
    LET a == AnyTerm(av, s, env)  b == ToAvro(a, s, env) IN
    IsDef(b) => VEq(b, av)

(* named types are defined once *)
RECURSIVE NameList(_)
RECURSIVE NameListSeq(_, _)
NameListSeq(q, i) == IF i > Len(q) THEN <<>> ELSE NameList(q[i]) \o NameListSeq(q, i + 1)
NameList(x) ==
  CASE x.k = "array" -> NameList(x.items)
    [] x.k = "map" -> NameList(x.values)
    [] x.k = "union" -> NameListSeq(x.branches, 1)
    [] x.k = "record" -> <<x.name>> \o NameListSeq([i \in 1..Len(x.fields) |-> x.fields[i].type], 1)
    [] x.k \in {"enum", "fixed"} -> <<x.name>>
    [] OTHER -> <<>>
NamesOnce == LET q == NameList(s) IN \A i, j \in 1..Len(q) : q[i] = q[j] => i = j
=============================================================================
