------------------------------- MODULE Codec -------------------------------
(***************************************************************************)
(* The codec layer of the Avro object container file (property C15).       *)
(*                                                                         *)
(* Written from the Avro specification ("Required codecs / optional        *)
(* codecs": null; deflate = raw RFC 1951, no zlib wrapper, no checksum;    *)
(* snappy = raw snappy block followed by the 4-byte BIG-ENDIAN CRC-32 of   *)
(* the UNCOMPRESSED data; bzip2, xz, zstandard = their standard streams),  *)
(* from RFC 1951, from the snappy format description                       *)
(* (format_description.txt) and from the crate's documented contract       *)
(* (`Codec::compress`, `Codec::decompress`, `util::max_allocation_bytes`). *)
(*                                                                         *)
(* Part 1  CRC-32 (IEEE 802.3, reflected, table driven) on 16-bit limbs.   *)
(* Part 2  raw snappy: complete decoder; three spec-side encoders.         *)
(* Part 3  raw deflate: stored-block and fixed-Huffman encoders; complete  *)
(*         inflate (stored, fixed and dynamic Huffman blocks).             *)
(* Part 4  the codec contract as a state machine over one record `cs`:     *)
(*         Compress / Corrupt / Decompress, header metadata <-> codec,     *)
(*         and the invariants the property states.                         *)
(*                                                                         *)
(* bzip2, xz and zstandard bit-streams are NOT transcribed (DESIGN §5):    *)
(* for them the machine carries the reading of a reference decompressor    *)
(* (an instrument) and the contract constrains that reading.               *)
(***************************************************************************)
EXTENDS Bits, Bitwise

Min2(a, b) == IF a <= b THEN a ELSE b
Max2(a, b) == IF a >= b THEN a ELSE b
MinOf(S) == CHOOSE x \in S : \A y \in S : x <= y
MaxOf(S) == CHOOSE x \in S : \A y \in S : x >= y

(***************************************************************************)
(* Part 1.  CRC-32.  A 32-bit word is <<lo16, hi16>>.  Polynomial          *)
(* 0xEDB88320 (reflected 0x04C11DB7), initial value and final xor          *)
(* 0xFFFFFFFF, bytes processed least significant bit first.                *)
(***************************************************************************)
CrcPoly == <<33568, 60856>>                    \* 0x8320, 0xEDB8
W32Xor(a, b) == <<a[1] ^^ b[1], a[2] ^^ b[2]>>
W32Shr1(w) == <<(w[1] \div 2) + 32768 * (w[2] % 2), w[2] \div 2>>

RECURSIVE CrcBitSteps(_, _)
CrcBitSteps(w, k) ==
  IF k = 0 THEN w
  ELSE CrcBitSteps(IF w[1] % 2 = 1 THEN W32Xor(W32Shr1(w), CrcPoly) ELSE W32Shr1(w), k - 1)

CrcTable == TLCEval([n \in 0..255 |-> CrcBitSteps(<<n, 0>>, 8)])

CrcUpdate(c, byte) ==
  LET t == CrcTable[(c[1] ^^ byte) % 256]
  IN  <<((c[1] \div 256) + 256 * (c[2] % 256)) ^^ t[1], (c[2] \div 256) ^^ t[2]>>

(* fold over b[lo..hi]; divide and conquer keeps TLC's recursion depth at log n *)
RECURSIVE CrcFold(_, _, _, _)
CrcFold(b, lo, hi, c) ==
  IF lo > hi THEN c
  ELSE IF lo = hi THEN CrcUpdate(c, b[lo])
  ELSE LET mid == (lo + hi) \div 2 IN CrcFold(b, mid + 1, hi, CrcFold(b, lo, mid, c))

Crc32(b) == LET c == CrcFold(b, 1, Len(b), <<65535, 65535>>) IN <<c[1] ^^ 65535, c[2] ^^ 65535>>
W32BE(w) == <<w[2] \div 256, w[2] % 256, w[1] \div 256, w[1] % 256>>
W32LE(w) == <<w[1] % 256, w[1] \div 256, w[2] % 256, w[2] \div 256>>
Crc32BE(b) == W32BE(Crc32(b))

Ascii123456789 == <<49, 50, 51, 52, 53, 54, 55, 56, 57>>
ASSUME CrcTable[1] = <<12438, 30471>>                   \* 0x77073096
ASSUME CrcTable[255] = <<61325, 11522>>                  \* 0x2D02EF8D
ASSUME Crc32BE(Ascii123456789) = <<203, 244, 57, 38>>   \* the CRC-32 check value 0xCBF43926
ASSUME Crc32BE(<<>>) = <<0, 0, 0, 0>>
ASSUME Crc32BE(<<97>>) = <<232, 183, 190, 67>>          \* "a" -> 0xE8B7BE43

(***************************************************************************)
(* Part 2.  The raw snappy block format.                                   *)
(*   preamble : uncompressed length, little-endian base-128 varint (32 bit)*)
(*   elements : tag byte, low two bits = kind                              *)
(*     00 literal   len-1 in the upper 6 bits if < 60; 60..63: len-1 in    *)
(*                  the following 1..4 bytes, little endian                *)
(*     01 copy      len-4 in bits 2..4 (4..11), offset = bits 5..7 * 256   *)
(*                  + next byte (11 bits)                                  *)
(*     10 copy      len-1 in the upper 6 bits (1..64), offset 2 bytes LE   *)
(*     11 copy      len-1 in the upper 6 bits (1..64), offset 4 bytes LE   *)
(*   a copy may overlap its own output (offset < length); offset 0 and     *)
(*   offsets beyond the output produced so far are errors; the total must  *)
(*   equal the preamble.                                                   *)
(***************************************************************************)
SErr(why) == [ok |-> FALSE, out |-> <<>>, why |-> why]
SOk(out) == [ok |-> TRUE, out |-> out, why |-> ""]

P128(k) == CASE k = 0 -> 1 [] k = 1 -> 128 [] k = 2 -> 16384 [] k = 3 -> 2097152 [] k = 4 -> 268435456

(* [ok, big, n, pos]; big = the value needs bit 31 (not representable in TLC, and certainly over any limit) *)
SnVarint(b, pos) ==
  LET n == Len(b)
      Ends == {k \in 0..4 : pos + k <= n /\ b[pos + k] < 128 /\ \A j \in 0..(k - 1) : b[pos + j] >= 128}
  IN IF Ends = {} THEN [ok |-> FALSE, big |-> FALSE, n |-> 0, pos |-> pos]
     ELSE LET k == CHOOSE x \in Ends : TRUE
              V(j) == IF j <= k THEN (b[pos + j] % 128) * P128(j) ELSE 0
          IN IF k = 4 /\ b[pos + 4] >= 16 THEN [ok |-> FALSE, big |-> FALSE, n |-> 0, pos |-> pos]
             ELSE IF k = 4 /\ b[pos + 4] >= 8 THEN [ok |-> TRUE, big |-> TRUE, n |-> 0, pos |-> pos + 5]
             ELSE [ok |-> TRUE, big |-> FALSE, n |-> V(0) + V(1) + V(2) + V(3) + V(4), pos |-> pos + k + 1]

(* little-endian value of the n (1..4) bytes at pos; caller guarantees the top byte < 128 when n = 4 *)
LEn(b, pos, n) == b[pos] + (IF n >= 2 THEN 256 * b[pos + 1] ELSE 0)
                + (IF n >= 3 THEN 65536 * b[pos + 2] ELSE 0) + (IF n >= 4 THEN 16777216 * b[pos + 3] ELSE 0)

(* the len bytes a copy of (offset, len) appends to out: byte-by-byte semantics, so it may overlap *)
CopyFrom(out, off, len) ==
  LET base == Len(out) - off IN
  IF off >= len THEN SubSeq(out, base + 1, base + len)
  ELSE TLCEval([i \in 1..len |-> out[base + 1 + ((i - 1) % off)]])

RECURSIVE SnLoop(_, _, _, _)
SnLoop(b, pos, out, want) ==
  IF pos > Len(b) THEN (IF Len(out) = want THEN SOk(out) ELSE SErr("output-shorter-than-preamble"))
  ELSE
  LET tag == b[pos]  kind == tag % 4  up == tag \div 4  avail == Len(b) - pos IN
  IF kind = 0 THEN
    LET nx == IF up < 60 THEN 0 ELSE up - 59 IN
    IF nx > avail THEN SErr("eof-in-literal-length")
    ELSE IF nx = 4 /\ b[pos + 4] >= 128 THEN SErr("literal-longer-than-input")
    ELSE LET lenm1 == IF nx = 0 THEN up ELSE LEn(b, pos + 1, nx)
             start == pos + nx + 1
         IN IF lenm1 >= Len(b) - start + 1 THEN SErr("eof-in-literal")
            ELSE IF Len(out) + lenm1 + 1 > want THEN SErr("output-longer-than-preamble")
            ELSE SnLoop(b, start + lenm1 + 1, out \o SubSeq(b, start, start + lenm1), want)
  ELSE
    LET nb == CASE kind = 1 -> 1 [] kind = 2 -> 2 [] kind = 3 -> 4 IN
    IF nb > avail THEN SErr("eof-in-copy")
    ELSE IF kind = 3 /\ b[pos + 4] >= 128 THEN SErr("offset-beyond-output")
    ELSE LET len == IF kind = 1 THEN 4 + (up % 8) ELSE up + 1
             off == IF kind = 1 THEN 256 * (up \div 8) + b[pos + 1] ELSE LEn(b, pos + 1, nb)
         IN IF off = 0 THEN SErr("offset-zero")
            ELSE IF off > Len(out) THEN SErr("offset-beyond-output")
            ELSE IF Len(out) + len > want THEN SErr("output-longer-than-preamble")
            ELSE SnLoop(b, pos + 1 + nb, out \o CopyFrom(out, off, len), want)

(* the declared uncompressed length, or -1 (malformed) / -2 (needs bit 31) *)
SnappyDeclaredLen(b) == LET v == SnVarint(b, 1) IN IF ~v.ok THEN -1 ELSE IF v.big THEN -2 ELSE v.n

SnappyDecode(b) ==
  LET v == SnVarint(b, 1) IN
  IF ~v.ok THEN SErr("bad-preamble")
  ELSE IF v.big THEN SErr("preamble-over-2^31")
  ELSE SnLoop(b, v.pos, <<>>, v.n)

(* --- spec-side encoders (any stream they emit is a legal snappy block) --- *)
LEBytes(v, n) == [i \in 1..n |-> (v \div (256 ^ (i - 1))) % 256]

MinExt(L) == IF L <= 60 THEN 0 ELSE IF L <= 256 THEN 1 ELSE IF L <= 65536 THEN 2 ELSE IF L <= 16777216 THEN 3 ELSE 4

(* one literal element for the non-empty x; ext = number of length bytes (0 = inline, L <= 60).
   A wider-than-necessary length field is legal: the format prescribes no minimality. *)
SnLiteral(x, ext) ==
  LET L == Len(x) IN
  IF ext = 0 THEN <<4 * (L - 1)>> \o x
  ELSE <<4 * (59 + ext)>> \o LEBytes(L - 1, ext) \o x

(* form 1: 4 <= len <= 11, off < 2048; form 2: 1 <= len <= 64, off < 65536; form 3: 1 <= len <= 64 *)
SnCopy(off, len, form) ==
  CASE form = 1 -> <<1 + 4 * (len - 4) + 32 * (off \div 256), off % 256>>
    [] form = 2 -> <<2 + 4 * (len - 1)>> \o LEBytes(off, 2)
    [] form = 3 -> <<3 + 4 * (len - 1)>> \o LEBytes(off, 4)

FormMinLen(form) == IF form = 1 THEN 4 ELSE 1
FormMaxLen(form) == IF form = 1 THEN 11 ELSE 64
FormMaxOff(form) == IF form = 1 THEN 2047 ELSE IF form = 2 THEN 65535 ELSE 16777215

(* number of positions k < cap with x[i+k] = x[i+k-off] from k = 0 on (overlap allowed) *)
MatchLen(x, i, off, cap) ==
  LET bad == {k \in 0..(cap - 1) : i + k > Len(x) \/ x[i + k] # x[i + k - off]}
  IN IF bad = {} THEN cap ELSE MinOf(bad)

(* mode: [chunk: max literal length per element, ext: least width of the literal length field,
          form: 0 = literals only | 1 | 2 | 3 copy form, offs: candidate offsets] *)
RECURSIVE SnFlushLit(_, _, _, _)
SnFlushLit(x, a, z, m) ==
  IF a > z THEN <<>>
  ELSE LET take == Min2(m.chunk, z - a + 1)
       IN SnLiteral(SubSeq(x, a, a + take - 1), Max2(m.ext, MinExt(take))) \o SnFlushLit(x, a + take, z, m)

RECURSIVE SnEncFrom(_, _, _, _)
SnEncFrom(x, i, lit, m) ==
  IF i > Len(x) THEN SnFlushLit(x, lit, i - 1, m)
  ELSE LET cands == {o \in m.offs : o < i /\ o <= FormMaxOff(m.form)}
           best  == IF cands = {} THEN 0 ELSE MaxOf({MatchLen(x, i, o, FormMaxLen(m.form)) : o \in cands})
       IN IF best < FormMinLen(m.form) THEN SnEncFrom(x, i + 1, lit, m)
          ELSE LET o == MinOf({c \in cands : MatchLen(x, i, c, FormMaxLen(m.form)) = best})
               IN SnFlushLit(x, lit, i - 1, m) \o SnCopy(o, best, m.form) \o SnEncFrom(x, i + best, i + best, m)

SnappyEncode(x, m) ==
  VarintNat(Len(x)) \o (IF m.form = 0 THEN SnFlushLit(x, 1, Len(x), m) ELSE SnEncFrom(x, 1, 1, m))

SnLitMode(chunk, ext) == [chunk |-> chunk, ext |-> ext, form |-> 0, offs |-> {}]
SnCopyMode(form, offs) == [chunk |-> 60, ext |-> 0, form |-> form, offs |-> offs]

(* hand-made streams (format description, section 2) *)
ASSUME SnappyDecode(<<0>>) = SOk(<<>>)
ASSUME SnappyDecode(<<3, 8, 97, 98, 99>>) = SOk(<<97, 98, 99>>)                        \* literal "abc"
ASSUME SnappyDecode(<<10, 0, 97, 34, 1, 0>>) = SOk([i \in 1..10 |-> 97])               \* "a", copy2(off 1, len 9): overlap
ASSUME SnappyDecode(<<8, 4, 97, 98, 5, 2, 0, 98>>) = SOk(<<97,98,97,98,97,98,97,98>>)  \* "ab", copy1(off 2,len 5), "b"
ASSUME SnappyDecode(<<6, 4, 120, 121, 15, 2, 0, 0, 0>>) = SOk(<<120,121,120,121,120,121>>)  \* copy4(off 2, len 4)
ASSUME SnappyDecode(<<3, 240, 2, 97, 98, 99>>) = SOk(<<97, 98, 99>>)                   \* 1-byte extended literal length
ASSUME SnappyDecode(<<3, 244, 2, 0, 97, 98, 99>>) = SOk(<<97, 98, 99>>)                \* 2-byte extended literal length
ASSUME ~SnappyDecode(<<3, 4, 97, 98>>).ok                                              \* shorter than the preamble
ASSUME ~SnappyDecode(<<2, 0, 97, 2, 0, 0>>).ok                                         \* offset zero
ASSUME ~SnappyDecode(<<2, 0, 97, 2, 2, 0>>).ok                                         \* offset beyond output
ASSUME ~SnappyDecode(<<1, 4, 97, 98>>).ok                                              \* longer than the preamble
ASSUME ~SnappyDecode(<<>>).ok /\ ~SnappyDecode(<<128, 128, 128, 128, 16>>).ok
ASSUME SnVarint(<<254, 255, 127>>, 1).n = 2097150 /\ SnVarint(<<128, 128, 128, 128, 8>>, 1).big
ASSUME SnappyEncode(<<97, 98, 99>>, SnLitMode(60, 0)) = <<3, 8, 97, 98, 99>>
ASSUME SnappyEncode([i \in 1..10 |-> 97], SnCopyMode(2, {1})) = <<10, 0, 97, 34, 1, 0>>

(* The Avro "snappy" codec: raw block, then big-endian CRC-32 of the uncompressed data. *)
AvroSnappyFrame(x, block) == block \o Crc32BE(x)
AvroSnappy(x, m) == AvroSnappyFrame(x, SnappyEncode(x, m))

AvroSnappyDecode(y) ==
  IF Len(y) < 4 THEN SErr("shorter-than-trailer")
  ELSE LET d == SnappyDecode(SubSeq(y, 1, Len(y) - 4)) IN
       IF ~d.ok THEN d
       ELSE IF SubSeq(y, Len(y) - 3, Len(y)) # Crc32BE(d.out) THEN SErr("crc-mismatch")
       ELSE d

(***************************************************************************)
(* Part 3.  RFC 1951 "deflate", raw (no zlib/gzip wrapper).                *)
(* Bits are numbered from the least significant bit of each byte; Huffman  *)
(* codes are packed most significant bit first, everything else least      *)
(* significant bit first (RFC 1951 section 3.1.1).                         *)
(***************************************************************************)
RECURSIVE StoredFrom(_, _, _)
StoredFrom(x, a, blk) ==
  LET n == Len(x) - a + 1  take == Min2(n, blk)  final == (take = n) IN
  <<IF final THEN 1 ELSE 0, take % 256, take \div 256, 255 - (take % 256), 255 - (take \div 256)>>
    \o SubSeq(x, a, a + take - 1) \o (IF final THEN <<>> ELSE StoredFrom(x, a + take, blk))

(* stored (BTYPE=00) blocks of at most blk <= 65535 bytes each; the empty input is one empty final block *)
StoredDeflate(x, blk) == StoredFrom(x, 1, blk)

ASSUME StoredDeflate(<<>>, 65535) = <<1, 0, 0, 255, 255>>
ASSUME StoredDeflate(<<97, 98, 99>>, 65535) = <<1, 3, 0, 252, 255, 97, 98, 99>>    \* = zlib level 0, raw
ASSUME StoredDeflate(<<97, 98, 99>>, 2) = <<0, 2, 0, 253, 255, 97, 98, 1, 1, 0, 254, 255, 99>>

(* ---- bit reader ---- *)
ByteOr0(b, i) == IF i <= Len(b) THEN b[i] ELSE 0
BitAt(b, p) == (b[(p \div 8) + 1] \div P2(p % 8)) % 2          \* p = 0-based bit position
(* n <= 16 bits from position p, least significant first; caller checks p + n <= 8 * Len(b) *)
BitsAt(b, p, n) ==
  IF n = 0 THEN 0
  ELSE LET i == (p \div 8) + 1 IN
       ((ByteOr0(b, i) + 256 * ByteOr0(b, i + 1) + 65536 * ByteOr0(b, i + 2)) \div (2 ^ (p % 8))) % (2 ^ n)

(* ---- canonical Huffman codes from code lengths (RFC 1951 section 3.2.2) ---- *)
(* lens[s+1] = code length of symbol s (0 = unused).  count[l] = number of codes of length l,
   syms = symbols ordered by (length, symbol): the order in which canonical codes are assigned. *)
RECURSIVE SymsFrom(_, _)
SymsFrom(lens, l) ==
  IF l > 15 THEN <<>>
  ELSE SelectSeq([s \in 1..Len(lens) |-> s - 1], LAMBDA s : lens[s + 1] = l) \o SymsFrom(lens, l + 1)

RECURSIVE HuffLeft(_, _, _)
HuffLeft(count, l, left) ==                       \* > 0 incomplete, 0 complete, < 0 over-subscribed
  IF l > 15 \/ left < 0 THEN left ELSE HuffLeft(count, l + 1, 2 * left - count[l])

Huff(lens) ==
  LET count == [l \in 1..15 |-> Cardinality({s \in 1..Len(lens) : lens[s] = l})]
  IN TLCEval([count |-> count, syms |-> SymsFrom(lens, 1), left |-> HuffLeft(count, 1, 1),
              used |-> Cardinality({s \in 1..Len(lens) : lens[s] # 0})])

(* a code set a decoder must accept: complete, or the single-code case (one code of length 1) *)
HuffUsable(h) == h.left = 0 \/ (h.left > 0 /\ h.used = 1 /\ h.count[1] = 1)

(* decode one symbol: read bit by bit, most significant code bit first *)
RECURSIVE HuffDec(_, _, _, _, _, _, _)
HuffDec(h, b, p, len, code, first, index) ==
  IF len > 15 \/ p >= 8 * Len(b) THEN [ok |-> FALSE, sym |-> 0, p |-> p]
  ELSE LET c == code + BitAt(b, p)  cnt == h.count[len] IN
       IF c - cnt < first THEN [ok |-> TRUE, sym |-> h.syms[index + (c - first) + 1], p |-> p + 1]
       ELSE HuffDec(h, b, p + 1, len + 1, 2 * c, 2 * (first + cnt), index + cnt)
Sym(h, b, p) == HuffDec(h, b, p, 1, 0, 0, 0)

LenBase  == <<3,4,5,6,7,8,9,10,11,13,15,17,19,23,27,31,35,43,51,59,67,83,99,115,131,163,195,227,258>>
LenExtra == <<0,0,0,0,0,0,0,0,1,1,1,1,2,2,2,2,3,3,3,3,4,4,4,4,5,5,5,5,0>>
DistBase == <<1,2,3,4,5,7,9,13,17,25,33,49,65,97,129,193,257,385,513,769,1025,1537,2049,3073,
              4097,6145,8193,12289,16385,24577>>
DistExtra == <<0,0,0,0,1,1,2,2,3,3,4,4,5,5,6,6,7,7,8,8,9,9,10,10,11,11,12,12,13,13>>

FixedLitLens == [s \in 1..288 |-> IF s <= 144 THEN 8 ELSE IF s <= 256 THEN 9 ELSE IF s <= 280 THEN 7 ELSE 8]
FixedDistLens == [s \in 1..30 |-> 5]
FixedLit == Huff(FixedLitLens)
FixedDist == Huff(FixedDistLens)

IErr(why) == [ok |-> FALSE, p |-> 0, out |-> <<>>, why |-> why]
IOk(p, out) == [ok |-> TRUE, p |-> p, out |-> out, why |-> ""]

(* the compressed data of one Huffman block (RFC 1951 section 3.2.5) *)
RECURSIVE InfCodes(_, _, _, _, _)
InfCodes(b, p, out, hl, hd) ==
  LET s == Sym(hl, b, p)  nbits == 8 * Len(b) IN
  IF ~s.ok THEN IErr("bad-literal/length-code")
  ELSE IF s.sym < 256 THEN InfCodes(b, s.p, Append(out, s.sym), hl, hd)
  ELSE IF s.sym = 256 THEN IOk(s.p, out)
  ELSE IF s.sym > 285 THEN IErr("length-symbol-286/287")
  ELSE LET li == s.sym - 256  eb == LenExtra[li] IN
       IF s.p + eb > nbits THEN IErr("eof-in-length-extra-bits")
       ELSE LET len == LenBase[li] + BitsAt(b, s.p, eb)
                d == Sym(hd, b, s.p + eb)
            IN IF ~d.ok THEN IErr("bad-distance-code")
               ELSE IF d.sym > 29 THEN IErr("distance-symbol-30/31")
               ELSE LET de == DistExtra[d.sym + 1] IN
                    IF d.p + de > nbits THEN IErr("eof-in-distance-extra-bits")
                    ELSE LET dist == DistBase[d.sym + 1] + BitsAt(b, d.p, de) IN
                         IF dist > Len(out) THEN IErr("distance-too-far-back")
                         ELSE InfCodes(b, d.p + de, out \o CopyFrom(out, dist, len), hl, hd)

(* a stored block: skip to the byte boundary, LEN, NLEN = ~LEN, LEN bytes *)
InfStored(b, p, out) ==
  LET q == (p + 7) \div 8 IN                              \* bytes consumed so far
  IF q + 4 > Len(b) THEN IErr("eof-in-stored-header")
  ELSE LET len == b[q + 1] + 256 * b[q + 2]  nlen == b[q + 3] + 256 * b[q + 4] IN
       IF len + nlen # 65535 THEN IErr("stored-length-complement")
       ELSE IF q + 4 + len > Len(b) THEN IErr("eof-in-stored-data")
       ELSE IOk(8 * (q + 4 + len), out \o SubSeq(b, q + 5, q + 4 + len))

(* the code-length alphabet of a dynamic block (RFC 1951 section 3.2.7) *)
ClOrder == <<16, 17, 18, 0, 8, 7, 9, 6, 10, 5, 11, 4, 12, 3, 13, 2, 14, 1, 15>>

RECURSIVE ReadLens(_, _, _, _, _)
ReadLens(b, p, hc, acc, total) ==                          \* -> [ok, p, lens]
  IF Len(acc) = total THEN [ok |-> TRUE, p |-> p, lens |-> acc]
  ELSE LET s == Sym(hc, b, p)  nbits == 8 * Len(b)  bad == [ok |-> FALSE, p |-> p, lens |-> <<>>] IN
       IF ~s.ok THEN bad
       ELSE IF s.sym < 16 THEN ReadLens(b, s.p, hc, Append(acc, s.sym), total)
       ELSE LET eb   == CASE s.sym = 16 -> 2 [] s.sym = 17 -> 3 [] s.sym = 18 -> 7
                base == CASE s.sym = 16 -> 3 [] s.sym = 17 -> 3 [] s.sym = 18 -> 11
            IN IF s.p + eb > nbits \/ (s.sym = 16 /\ Len(acc) = 0) THEN bad
               ELSE LET rep == base + BitsAt(b, s.p, eb)
                        val == IF s.sym = 16 THEN acc[Len(acc)] ELSE 0
                    IN IF Len(acc) + rep > total THEN bad
                       ELSE ReadLens(b, s.p + eb, hc, acc \o [i \in 1..rep |-> val], total)

InfDynamic(b, p, out) ==
  LET nbits == 8 * Len(b) IN
  IF p + 14 > nbits THEN IErr("eof-in-dynamic-header")
  ELSE LET hlit == BitsAt(b, p, 5) + 257  hdist == BitsAt(b, p + 5, 5) + 1  hclen == BitsAt(b, p + 10, 4) + 4 IN
       IF hlit > 286 \/ hdist > 30 THEN IErr("too-many-length-or-distance-codes")
       ELSE IF p + 14 + 3 * hclen > nbits THEN IErr("eof-in-code-length-code-lengths")
       ELSE LET cl == [s \in 1..19 |->
                         LET S == {i \in 1..hclen : ClOrder[i] = s - 1} IN
                         IF S = {} THEN 0 ELSE BitsAt(b, p + 14 + 3 * ((CHOOSE i \in S : TRUE) - 1), 3)]
                hc == Huff(cl)
            IN IF hc.left # 0 THEN IErr("code-length-code-not-complete")
               ELSE LET r == ReadLens(b, p + 14 + 3 * hclen, hc, <<>>, hlit + hdist) IN
                    IF ~r.ok THEN IErr("bad-code-lengths")
                    ELSE IF r.lens[257] = 0 THEN IErr("no-end-of-block-code")
                    ELSE LET hl == Huff(SubSeq(r.lens, 1, hlit))
                             hd == Huff(SubSeq(r.lens, hlit + 1, hlit + hdist))
                         IN IF ~HuffUsable(hl) THEN IErr("literal/length-code-set")
                            ELSE IF ~(HuffUsable(hd) \/ hd.used = 0) THEN IErr("distance-code-set")
                            ELSE InfCodes(b, r.p, out, hl, hd)

(* the block loop.  Result [ok, out, why, types (BTYPE of every block), bytes (bytes consumed)] *)
RECURSIVE InfBlocks(_, _, _, _)
InfBlocks(b, p, out, types) ==
  IF p + 3 > 8 * Len(b) THEN [ok |-> FALSE, out |-> <<>>, why |-> "eof-in-block-header", types |-> types, bytes |-> 0]
  ELSE LET final == BitAt(b, p)  type == BitsAt(b, p + 1, 2)
           r == CASE type = 0 -> InfStored(b, p + 3, out)
                  [] type = 1 -> InfCodes(b, p + 3, out, FixedLit, FixedDist)
                  [] type = 2 -> InfDynamic(b, p + 3, out)
                  [] type = 3 -> IErr("reserved-block-type")
       IN IF ~r.ok THEN [ok |-> FALSE, out |-> <<>>, why |-> r.why, types |-> Append(types, type), bytes |-> 0]
          ELSE IF final = 1
          THEN [ok |-> TRUE, out |-> r.out, why |-> "", types |-> Append(types, type), bytes |-> (r.p + 7) \div 8]
          ELSE InfBlocks(b, r.p, r.out, Append(types, type))

InflateFull(b) == InfBlocks(b, 0, <<>>, <<>>)
(* a raw deflate stream denotes its output iff the last block ends in the last byte *)
Inflate(b) == LET r == InflateFull(b) IN
              IF r.ok /\ r.bytes = Len(b) THEN SOk(r.out)
              ELSE IF r.ok THEN SErr("trailing-bytes") ELSE SErr(r.why)

(* ---- spec-side fixed-Huffman encoder (bit list, then packed least significant bit first) ---- *)
MsbBits(v, n) == [i \in 1..n |-> (v \div (2 ^ (n - i))) % 2]
LsbBits(v, n) == [i \in 1..n |-> (v \div (2 ^ (i - 1))) % 2]
FixedLitCode(s) == IF s <= 143 THEN MsbBits(48 + s, 8)
                   ELSE IF s <= 255 THEN MsbBits(400 + (s - 144), 9)
                   ELSE IF s <= 279 THEN MsbBits(s - 256, 7)
                   ELSE MsbBits(192 + (s - 280), 8)
LenIndex(len) == MaxOf({i \in 1..29 : LenBase[i] <= len})
DistIndex(d) == MaxOf({i \in 1..30 : DistBase[i] <= d})
FixedMatchBits(len, dist) ==
  LET li == IF len = 258 THEN 29 ELSE LenIndex(len)  di == DistIndex(dist) IN
  FixedLitCode(256 + li) \o LsbBits(len - LenBase[li], LenExtra[li])
    \o MsbBits(di - 1, 5) \o LsbBits(dist - DistBase[di], DistExtra[di])

RECURSIVE FixedFrom(_, _, _)
FixedFrom(x, i, offs) ==
  IF i > Len(x) THEN FixedLitCode(256)
  ELSE LET cands == {o \in offs : o < i}
           best == IF cands = {} THEN 0 ELSE MaxOf({MatchLen(x, i, o, 258) : o \in cands})
       IN IF best < 3 THEN FixedLitCode(x[i]) \o FixedFrom(x, i + 1, offs)
          ELSE LET o == MinOf({c \in cands : MatchLen(x, i, c, 258) = best})
               IN FixedMatchBits(best, o) \o FixedFrom(x, i + best, offs)

PackBits(bits) ==
  LET n == Len(bits)  nb == (n + 7) \div 8
      B(k) == IF k <= n THEN bits[k] ELSE 0
  IN [j \in 1..nb |-> LET o == 8 * (j - 1) IN
        B(o+1) + 2*B(o+2) + 4*B(o+3) + 8*B(o+4) + 16*B(o+5) + 32*B(o+6) + 64*B(o+7) + 128*B(o+8)]

(* one final fixed-Huffman block; offs = candidate match distances ({} = literals only) *)
FixedDeflate(x, offs) == PackBits(<<1, 1, 0>> \o FixedFrom(x, 1, offs))

ASSUME FixedDeflate(<<>>, {}) = <<3, 0>>                                              \* = zlib's empty stream
ASSUME Inflate(<<3, 0>>) = SOk(<<>>)
ASSUME Inflate(<<1, 3, 0, 252, 255, 97, 98, 99>>) = SOk(<<97, 98, 99>>)
ASSUME Inflate(<<75, 76, 74, 78, 132, 33, 0>>) = SOk(<<97,98,99,97,98,99,97,98,99,97,98,99>>)   \* zlib Z_FIXED "abcabcabcabc"
ASSUME Inflate(<<203, 72, 205, 201, 201, 87, 200, 64, 39, 1>>)                        \* zlib -9 "hello hello hello hello"
       = SOk(<<104,101,108,108,111,32,104,101,108,108,111,32,104,101,108,108,111,32,104,101,108,108,111>>)
ASSUME ~Inflate(<<1, 3, 0, 252, 254, 97, 98, 99>>).ok                                 \* NLEN is not ~LEN
ASSUME ~Inflate(<<1, 3, 0, 252, 255, 97, 98>>).ok                                     \* truncated
ASSUME ~Inflate(<<7, 0>>).ok                                                          \* BTYPE = 11
ASSUME ~Inflate(<<120, 156, 75, 76, 74, 6, 0, 2, 77, 1, 39>>).ok                      \* the zlib-WRAPPED "abc" is not raw deflate
ASSUME Inflate(<<75, 76, 74, 6, 0>>) = SOk(<<97, 98, 99>>)                            \* ... its raw body is
ASSUME FixedDeflate(<<97, 98, 99>>, {}) = <<75, 76, 74, 6, 0>>

(***************************************************************************)
(* Part 4.  The codec contract.                                            *)
(***************************************************************************)
CodecNames == {"null", "deflate", "snappy", "bzip2", "xz", "zstandard"}
SpecifiedCodecs == {"null", "deflate", "snappy"}          \* bit-stream fully defined in this module

(* the setting domain the crate exposes for each codec (level as a small natural;
   deflate: miniz_oxide's CompressionLevel as u8, 255 = DefaultCompression) *)
Levels(c) == CASE c = "null" -> {0} [] c = "snappy" -> {0}
               [] c = "deflate" -> {0, 1, 6, 9, 10, 255}
               [] c = "bzip2" -> 1..9
               [] c = "xz" -> 0..9
               [] c = "zstandard" -> 0..22

(* Does the byte string y, read as a stream of codec c, denote x?  Decidable here for the specified codecs. *)
Denotes(c, y) ==
  CASE c = "null" -> SOk(y)
    [] c = "deflate" -> Inflate(y)
    [] c = "snappy" -> AvroSnappyDecode(y)

(* the decompressor the contract prescribes: an error, or the denoted data if it is within the limit.
   The null codec copies nothing (the caller already holds the bytes): the cap clause is about
   data a decompressor PRODUCES, so for null both readings (identity, or an error over the limit) are accepted. *)
SpecDecompress(c, y, limit) ==
  LET d == Denotes(c, y) IN
  IF ~d.ok THEN d
  ELSE IF c # "null" /\ Len(d.out) > limit THEN SErr("over-allocation-limit")
  ELSE d

(* ---- file header metadata <-> codec (+ level) ---- *)
(* avro.codec names are those of the Avro specification; an absent key means "null".  The crate
   records the level of bzip2 / xz / zstandard under "avro.codec.compression_level" as ONE byte;
   deflate's level is not recorded.  NoLevel = 256 stands for "key absent". *)
NoLevel == 256
LevelRecorded(c) == c \in {"bzip2", "xz", "zstandard"}
DefaultLevel(c) == CASE c = "bzip2" -> 9 [] c = "xz" -> 9 [] c = "zstandard" -> 0 [] c = "deflate" -> 255 [] OTHER -> 0
Str(bytes) == bytes                                   \* names travel as UTF-8 byte strings
NameBytes(c) == CASE c = "null" -> <<110,117,108,108>>
                  [] c = "deflate" -> <<100,101,102,108,97,116,101>>
                  [] c = "snappy" -> <<115,110,97,112,112,121>>
                  [] c = "bzip2" -> <<98,122,105,112,50>>
                  [] c = "xz" -> <<120,122>>
                  [] c = "zstandard" -> <<122,115,116,97,110,100,97,114,100>>
(* metadata as [has_codec, codec (bytes), level (0..255 or NoLevel)] *)
MetaOf(c, lvl) == [has_codec |-> c # "null", codec |-> IF c = "null" THEN <<>> ELSE NameBytes(c),
                   level |-> IF LevelRecorded(c) THEN lvl ELSE NoLevel]
CodecOfMeta(m) ==                                      \* [ok, codec, level]
  IF ~m.has_codec THEN [ok |-> TRUE, codec |-> "null", level |-> 0]
  ELSE LET S == {c \in CodecNames : NameBytes(c) = m.codec} IN
       IF S = {} THEN [ok |-> FALSE, codec |-> "", level |-> 0]
       ELSE LET c == CHOOSE x \in S : TRUE IN
            [ok |-> TRUE, codec |-> c,
             level |-> IF LevelRecorded(c) /\ m.level # NoLevel THEN m.level ELSE DefaultLevel(c)]

ASSUME \A c \in CodecNames : \A lvl \in Levels(c) :
         LET r == CodecOfMeta(MetaOf(c, lvl)) IN
         r.ok /\ r.codec = c /\ (LevelRecorded(c) => r.level = lvl)

(* ---- the state machine: one record ---- *)
(*  phase   "idle" | "compressed" | "decompressed"                                         *)
(*  codec, level, limit                                                                    *)
(*  plain   the data handed to Compress (or the data a foreign stream was made from)       *)
(*  stored  the bytes in the block                                                         *)
(*  origin  "library" | "spec" | "reference" | "hostile": who produced `stored`            *)
(*  damage  "none" | "trailer" | "truncated" | "other"                                     *)
(*  res     [ok, out]: what Decompress returned                                            *)
Fresh(limit) == [phase |-> "idle", codec |-> "null", level |-> 0, limit |-> limit, plain |-> <<>>,
                 stored |-> <<>>, origin |-> "library", damage |-> "none", res |-> [ok |-> FALSE, out |-> <<>>]]

(* Compress(x, c, lvl) produced y *)
CompressStep(s, c, lvl, x, y, origin) ==
  [s EXCEPT !.phase = "compressed", !.codec = c, !.level = lvl, !.plain = x, !.stored = y,
            !.origin = origin, !.damage = "none"]

FlipBit(y, byteIdx, bit) == [y EXCEPT ![byteIdx] = IF (y[byteIdx] \div P2(bit)) % 2 = 1 THEN y[byteIdx] - P2(bit)
                                                                                      ELSE y[byteIdx] + P2(bit)]
(* environment: flip bit `bit` of the k-th of the last four bytes *)
FlipTrailerBitStep(s, k, bit) ==
  [s EXCEPT !.stored = FlipBit(s.stored, Len(s.stored) - 4 + k, bit), !.damage = "trailer"]
TruncateStep(s, n) == [s EXCEPT !.stored = SubSeq(s.stored, 1, n), !.damage = "truncated"]

(* Decompress returned r = [ok, out] *)
DecompressStep(s, r) == [s EXCEPT !.phase = "decompressed", !.res = r]

(* ---- what the property states, as predicates on the state ---- *)
Done(s) == s.phase = "decompressed"
(* every intact stream made from x -- by the library, by the spec's encoders or by a reference codec -- comes back as x *)
RoundTripInv(s) == Done(s) /\ s.damage = "none" /\ s.origin # "hostile" /\ Len(s.plain) <= s.limit
                     => s.res.ok /\ s.res.out = s.plain
(* the library's block is a stream of the named format denoting x (specified codecs) *)
StreamInv(s) == s.phase # "idle" /\ s.damage = "none" /\ s.origin = "library" /\ s.codec \in SpecifiedCodecs
                     => LET d == Denotes(s.codec, s.stored) IN d.ok /\ d.out = s.plain
(* snappy: block, then BE(CRC-32(x)) *)
TrailerInv(s) == s.phase # "idle" /\ s.damage = "none" /\ s.origin = "library" /\ s.codec = "snappy"
                     => Len(s.stored) >= 4 /\ SubSeq(s.stored, Len(s.stored) - 3, Len(s.stored)) = Crc32BE(s.plain)
(* a wrong checksum is rejected: whatever is accepted carries the checksum of what is returned *)
ChecksumInv(s) == Done(s) /\ s.codec = "snappy" /\ s.res.ok
                     => Len(s.stored) >= 4 /\ SubSeq(s.stored, Len(s.stored) - 3, Len(s.stored)) = Crc32BE(s.res.out)
DamagedTrailerInv(s) == Done(s) /\ s.codec = "snappy" /\ s.damage = "trailer" => ~s.res.ok
(* error, or data no larger than the allocation limit *)
CapInv(s) == Done(s) /\ s.codec # "null" /\ s.res.ok => Len(s.res.out) <= s.limit
(* whatever a specified decoder accepts is what the format says the bytes denote *)
AgreesWithFormat(s) == Done(s) /\ s.codec \in SpecifiedCodecs /\ s.res.ok
                     => LET d == Denotes(s.codec, s.stored) IN d.ok /\ d.out = s.res.out
=============================================================================
