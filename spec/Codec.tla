------------------------------- MODULE Codec -------------------------------
(***************************************************************************)
(* The codec layer of the Avro object container file (property C15).       *)
(*                                                                         *)
(* Written from the Avro specification ("Required codecs / optional        *)
(* codecs": null; deflate = raw RFC 1951, no zlib wrapper, no checksum;    *)
(* snappy = raw snappy block followed by the 4-byte BIG-ENDIAN CRC-32 of   *)
(* the UNCOMPRESSED data; bzip2, xz, zstandard = their standard streams),  *)
(* from RFC 1951, from the snappy format description                       *)
(* (format_description.txt) and from the crate's documented contract       *)
(* (`Codec::compress`, `Codec::decompress`, `util::max_allocation_bytes`). *)
(*                                                                         *)
(* Part 1  CRC-32 (IEEE 802.3, reflected, table driven) on 16-bit limbs.   *)
(* Part 2  raw snappy: complete decoder (a small machine, one element per  *)
(*         step); a parameterised spec-side encoder (literal chunking,     *)
(*         every width of the literal length field, the three copy forms). *)
(* Part 3  raw deflate: stored-block and fixed-Huffman encoders; complete  *)
(*         inflate (stored, fixed and dynamic Huffman blocks).             *)
(* Part 4  the codec contract as a state machine over one record:          *)
(*         CompressStep / RefReadStep / damage steps / DecompressStep,     *)
(*         header metadata <-> (codec, level), and the clauses of the      *)
(*         property as predicates on the state.  MC_Codec drives it with   *)
(*         the spec's own encoders/decoders, Trace_Codec with what the     *)
(*         library really produced.                                        *)
(*                                                                         *)
(* bzip2, xz and zstandard bit-streams are NOT transcribed (DESIGN §5):    *)
(* for them the machine carries the reading of a reference decompressor    *)
(* (an instrument) and the contract constrains that reading.               *)
(***************************************************************************)
EXTENDS Bits, Bitwise

Min2(a, b) == IF a <= b THEN a ELSE b
Max2(a, b) == IF a >= b THEN a ELSE b
MinOf(S) == CHOOSE x \in S : \A y \in S : x <= y
MaxOf(S) == CHOOSE x \in S : \A y \in S : x >= y

(***************************************************************************)
(* Part 1.  CRC-32.  A 32-bit word is <<lo16, hi16>>.  Polynomial          *)
(* 0xEDB88320 (reflected 0x04C11DB7), initial value and final xor          *)
(* 0xFFFFFFFF, bytes processed least significant bit first.                *)
(***************************************************************************)
CrcPoly == <<33568, 60856>>                    \* 0x8320, 0xEDB8

(* Exclusive or of 16-bit limbs.  Bitwise's a ^^ b is the definition; it is a RECURSIVE operator that
   TLC interprets level by level (measured: ~50 us per call, CRC-32 at 4.7 kB/s).  Xor16 looks the four
   nibbles up in a literal 16 x 16 table instead (measured 6.7 kB/s) and is checked against ^^ below. *)
XorNibble ==
<<
  <<0, 1, 2, 3, 4, 5, 6, 7, 8, 9, 10, 11, 12, 13, 14, 15>>,
  <<1, 0, 3, 2, 5, 4, 7, 6, 9, 8, 11, 10, 13, 12, 15, 14>>,
  <<2, 3, 0, 1, 6, 7, 4, 5, 10, 11, 8, 9, 14, 15, 12, 13>>,
  <<3, 2, 1, 0, 7, 6, 5, 4, 11, 10, 9, 8, 15, 14, 13, 12>>,
  <<4, 5, 6, 7, 0, 1, 2, 3, 12, 13, 14, 15, 8, 9, 10, 11>>,
  <<5, 4, 7, 6, 1, 0, 3, 2, 13, 12, 15, 14, 9, 8, 11, 10>>,
  <<6, 7, 4, 5, 2, 3, 0, 1, 14, 15, 12, 13, 10, 11, 8, 9>>,
  <<7, 6, 5, 4, 3, 2, 1, 0, 15, 14, 13, 12, 11, 10, 9, 8>>,
  <<8, 9, 10, 11, 12, 13, 14, 15, 0, 1, 2, 3, 4, 5, 6, 7>>,
  <<9, 8, 11, 10, 13, 12, 15, 14, 1, 0, 3, 2, 5, 4, 7, 6>>,
  <<10, 11, 8, 9, 14, 15, 12, 13, 2, 3, 0, 1, 6, 7, 4, 5>>,
  <<11, 10, 9, 8, 15, 14, 13, 12, 3, 2, 1, 0, 7, 6, 5, 4>>,
  <<12, 13, 14, 15, 8, 9, 10, 11, 4, 5, 6, 7, 0, 1, 2, 3>>,
  <<13, 12, 15, 14, 9, 8, 11, 10, 5, 4, 7, 6, 1, 0, 3, 2>>,
  <<14, 15, 12, 13, 10, 11, 8, 9, 6, 7, 4, 5, 2, 3, 0, 1>>,
  <<15, 14, 13, 12, 11, 10, 9, 8, 7, 6, 5, 4, 3, 2, 1, 0>> >>
Xor16(a, b) == XorNibble[(a % 16) + 1][(b % 16) + 1]
             + 16 * XorNibble[((a \div 16) % 16) + 1][((b \div 16) % 16) + 1]
             + 256 * XorNibble[((a \div 256) % 16) + 1][((b \div 256) % 16) + 1]
             + 4096 * XorNibble[(a \div 4096) + 1][(b \div 4096) + 1]
ASSUME \A a \in 0..15 : \A b \in 0..15 : XorNibble[a + 1][b + 1] = a ^^ b
ASSUME \A a \in {0, 1, 255, 256, 4660, 33568, 43981, 60856, 65535} :
         \A b \in {0, 7, 128, 4095, 21845, 43690, 61680, 65535} : Xor16(a, b) = a ^^ b

W32Xor(a, b) == <<Xor16(a[1], b[1]), Xor16(a[2], b[2])>>
W32Shr1(w) == <<(w[1] \div 2) + 32768 * (w[2] % 2), w[2] \div 2>>

(* one bit step of the reflected algorithm *)
CrcBit(w) == IF w[1] % 2 = 1 THEN W32Xor(W32Shr1(w), CrcPoly) ELSE W32Shr1(w)

(* The table, entry n+1 for byte n, written out as a literal and checked below against the bit-wise
   definition.  (Measured on TLC: a zero-arity definition is evaluated once, at start-up, only if its body
   mentions neither TLCEval nor a RECURSIVE operator -- and Bitwise's ^^ is one; a computed table
   would be rebuilt on every look-up.) *)
CrcTable ==
<<
  <<0, 0>>, <<12438, 30471>>, <<24876, 60942>>, <<20922, 39177>>, <<50201, 1901>>, <<62607, 28778>>,
  <<42293, 59747>>, <<38307, 40548>>, <<34866, 3803>>, <<47268, 31196>>, <<59678, 57557>>, <<55688, 38866>>,
  <<19499, 2486>>, <<31933, 32433>>, <<11527, 59320>>, <<7569, 37055>>, <<4196, 7607>>, <<8434, 27312>>,
  <<29000, 62393>>, <<16862, 33982>>, <<54397, 6874>>, <<58603, 28125>>, <<46417, 62676>>, <<34247, 33747>>,
  <<38998, 4972>>, <<43200, 25707>>, <<63866, 64866>>, <<51692, 35429>>, <<23631, 5121>>, <<27865, 25350>>,
  <<15715, 64015>>, <<3573, 36104>>, <<8392, 15214>>, <<4190, 19561>>, <<16868, 54624>>, <<29042, 41575>>,
  <<58577, 15363>>, <<54343, 19204>>, <<34301, 53773>>, <<46443, 42250>>, <<43258, 13749>>, <<39020, 17074>>,
  <<51670, 56251>>, <<63808, 44220>>, <<27875, 13016>>, <<23669, 17887>>, <<3535, 56534>>, <<15705, 43985>>,
  <<12460, 9945>>, <<58, 20958>>, <<20864, 51415>>, <<24854, 49104>>, <<62645, 8628>>, <<50211, 22195>>,
  <<38297, 53178>>, <<42255, 47293>>, <<47262, 10242>>, <<34824, 24325>>, <<55730, 50700>>, <<59684, 45323>>,
  <<31879, 12143>>, <<19473, 22632>>, <<7595, 49505>>, <<11581, 46694>>, <<16784, 30428>>, <<28934, 475>>,
  <<8380, 39122>>, <<4138, 61397>>, <<34185, 29105>>, <<46367, 1718>>, <<58533, 40895>>, <<54323, 59576>>,
  <<51618, 30727>>, <<63796, 3840>>, <<43150, 38409>>, <<38936, 57614>>, <<3515, 32618>>, <<15661, 2157>>,
  <<27799, 37220>>, <<23553, 58979>>, <<20980, 27499>>, <<24930, 7276>>, <<12504, 34149>>, <<78, 62050>>,
  <<38381, 27654>>, <<42363, 6913>>, <<62657, 33288>>, <<50263, 62735>>, <<55750, 26032>>, <<59728, 4791>>,
  <<47338, 35774>>, <<34940, 64697>>, <<7647, 25309>>, <<11593, 5594>>, <<31987, 36051>>, <<19557, 64468>>,
  <<24920, 19890>>, <<20942, 15029>>, <<116, 41916>>, <<12514, 54459>>, <<42305, 19167>>, <<38359, 15832>>,
  <<50285, 42193>>, <<62715, 54230>>, <<59754, 17257>>, <<55804, 13422>>, <<34886, 44391>>, <<47312, 55904>>,
  <<11635, 17412>>, <<7653, 13059>>, <<19551, 43530>>, <<31945, 56589>>, <<28988, 20485>>, <<16810, 9986>>,
  <<4112, 48651>>, <<8326, 51468>>, <<46373, 22376>>, <<34227, 8303>>, <<54281, 47462>>, <<58527, 52833>>,
  <<63758, 24286>>, <<51608, 10713>>, <<38946, 45264>>, <<43188, 51159>>, <<15639, 22963>>, <<3457, 11956>>,
  <<23611, 47037>>, <<27821, 49338>>, <<33568, 60856>>, <<46006, 39615>>, <<57868, 950>>, <<53914, 29873>>,
  <<18233, 60117>>, <<30639, 40402>>, <<9749, 1243>>, <<5763, 29660>>, <<2834, 58211>>, <<15236, 37988>>,
  <<27198, 3437>>, <<23208, 31338>>, <<53003, 58382>>, <<65437, 37641>>, <<44583, 2560>>, <<40625, 32007>>,
  <<37700, 61455>>, <<41938, 34568>>, <<62056, 7681>>, <<49918, 26886>>, <<22365, 63330>>, <<26571, 32869>>,
  <<13937, 6508>>, <<1767, 28267>>, <<7030, 65236>>, <<11232, 35283>>, <<31322, 4314>>, <<19148, 26589>>,
  <<57199, 63929>>, <<61433, 36542>>, <<48707, 6071>>, <<36565, 24752>>, <<41960, 54998>>, <<37758, 41425>>,
  <<49860, 14552>>, <<62034, 20447>>, <<26609, 53691>>, <<22375, 42684>>, <<1757, 16309>>, <<13899, 18610>>,
  <<11226, 55309>>, <<6988, 44810>>, <<19190, 13827>>, <<31328, 16644>>, <<61379, 57184>>, <<57173, 43111>>,
  <<36591, 12654>>, <<48761, 18025>>, <<45964, 52065>>, <<33562, 48230>>, <<53920, 9583>>, <<57910, 21096>>,
  <<30613, 52236>>, <<18179, 47883>>, <<5817, 8706>>, <<9775, 21765>>, <<15294, 50618>>, <<2856, 45757>>,
  <<23186, 11188>>, <<27140, 23731>>, <<65447, 49879>>, <<53041, 46544>>, <<40587, 11481>>, <<44573, 23518>>,
  <<49840, 39780>>, <<61990, 60515>>, <<41884, 30058>>, <<37642, 621>>, <<1705, 39945>>, <<13887, 60174>>,
  <<26501, 29191>>, <<22291, 1280>>, <<19074, 38335>>, <<31252, 58040>>, <<11182, 31665>>, <<6968, 3254>>,
  <<36507, 37586>>, <<48653, 58837>>, <<61367, 31964>>, <<57121, 3035>>, <<53972, 34515>>, <<57922, 61908>>,
  <<46072, 26845>>, <<33646, 8154>>, <<5837, 33214>>, <<9819, 63161>>, <<30689, 28592>>, <<18295, 6327>>,
  <<23270, 34824>>, <<27248, 65295>>, <<15306, 26118>>, <<2908, 4353>>, <<40703, 36709>>, <<44649, 63586>>,
  <<65491, 24939>>, <<53061, 5740>>, <<57976, 40970>>, <<53998, 55053>>, <<33620, 19972>>, <<46018, 14595>>,
  <<9825, 42855>>, <<5879, 53344>>, <<18253, 18793>>, <<30683, 15982>>, <<27210, 44753>>, <<23260, 55766>>,
  <<2918, 16607>>, <<15344, 14296>>, <<44627, 43452>>, <<40645, 57019>>, <<53119, 18354>>, <<65513, 12469>>,
  <<61980, 48573>>, <<49802, 51898>>, <<37680, 21427>>, <<41894, 9396>>, <<13829, 47824>>, <<1683, 52695>>,
  <<22313, 21726>>, <<26559, 9177>>, <<31278, 45926>>, <<19128, 50273>>, <<6914, 23912>>, <<11156, 10863>>,
  <<48695, 46091>>, <<36513, 49932>>, <<57115, 23045>>, <<61325, 11522>> >>

CrcTableEntry(n) == CrcBit(CrcBit(CrcBit(CrcBit(CrcBit(CrcBit(CrcBit(CrcBit(<<n, 0>>))))))))
ASSUME Len(CrcTable) = 256 /\ \A n \in 0..255 : CrcTable[n + 1] = CrcTableEntry(n)

CrcUpdate(c, byte) ==
  LET t == CrcTable[(Xor16(c[1], byte) % 256) + 1]
  IN  <<Xor16((c[1] \div 256) + 256 * (c[2] % 256), t[1]), Xor16(c[2] \div 256, t[2])>>

(* fold over b[lo..hi]; divide and conquer keeps TLC's recursion depth at log n.  TLC passes
   operator arguments lazily: the test on `left` forces the left half before the right half starts
   (otherwise the thunks nest n deep). *)
RECURSIVE CrcFold(_, _, _, _)
CrcFold(b, lo, hi, c) ==
  IF lo > hi THEN c
  ELSE IF lo = hi THEN CrcUpdate(c, b[lo])
  ELSE LET mid == (lo + hi) \div 2
           left == CrcFold(b, lo, mid, c)
       IN IF left[1] < 0 THEN left ELSE CrcFold(b, mid + 1, hi, left)

Crc32(b) == LET c == CrcFold(b, 1, Len(b), <<65535, 65535>>) IN <<65535 - c[1], 65535 - c[2]>>   \* final xor with 0xFFFFFFFF
W32BE(w) == <<w[2] \div 256, w[2] % 256, w[1] \div 256, w[1] % 256>>
W32LE(w) == <<w[1] % 256, w[1] \div 256, w[2] % 256, w[2] \div 256>>
Crc32BE(b) == W32BE(Crc32(b))

Ascii123456789 == <<49, 50, 51, 52, 53, 54, 55, 56, 57>>
ASSUME CrcTable[2] = <<12438, 30471>>                   \* 0x77073096
ASSUME CrcTable[256] = <<61325, 11522>>                  \* 0x2D02EF8D
ASSUME Crc32BE(Ascii123456789) = <<203, 244, 57, 38>>   \* the CRC-32 check value 0xCBF43926
ASSUME Crc32BE(<<>>) = <<0, 0, 0, 0>>
ASSUME Crc32BE(<<97>>) = <<232, 183, 190, 67>>          \* "a" -> 0xE8B7BE43

(***************************************************************************)
(* Part 2.  The raw snappy block format.                                   *)
(*   preamble : uncompressed length, little-endian base-128 varint (32 bit)*)
(*   elements : tag byte, low two bits = kind                              *)
(*     00 literal   len-1 in the upper 6 bits if < 60; 60..63: len-1 in    *)
(*                  the following 1..4 bytes, little endian                *)
(*     01 copy      len-4 in bits 2..4 (4..11), offset = bits 5..7 * 256   *)
(*                  + next byte (11 bits)                                  *)
(*     10 copy      len-1 in the upper 6 bits (1..64), offset 2 bytes LE   *)
(*     11 copy      len-1 in the upper 6 bits (1..64), offset 4 bytes LE   *)
(*   a copy may overlap its own output (offset < length); offset 0 and     *)
(*   offsets beyond the output produced so far are errors; the total must  *)
(*   equal the preamble.                                                   *)
(***************************************************************************)
SErr(why) == [ok |-> FALSE, out |-> <<>>, why |-> why]
SOk(out) == [ok |-> TRUE, out |-> out, why |-> ""]

P128(k) == CASE k = 0 -> 1 [] k = 1 -> 128 [] k = 2 -> 16384 [] k = 3 -> 2097152 [] k = 4 -> 268435456

(* [ok, big, n, pos]; big = the value needs bit 31 (not representable in TLC, and certainly over any limit) *)
SnVarint(b, pos) ==
  LET n == Len(b)
      Ends == {k \in 0..4 : pos + k <= n /\ b[pos + k] < 128 /\ \A j \in 0..(k - 1) : b[pos + j] >= 128}
  IN IF Ends = {} THEN [ok |-> FALSE, big |-> FALSE, n |-> 0, pos |-> pos]
     ELSE LET k == CHOOSE x \in Ends : TRUE
              V(j) == IF j <= k THEN (b[pos + j] % 128) * P128(j) ELSE 0
          IN IF k = 4 /\ b[pos + 4] >= 16 THEN [ok |-> FALSE, big |-> FALSE, n |-> 0, pos |-> pos]
             ELSE IF k = 4 /\ b[pos + 4] >= 8 THEN [ok |-> TRUE, big |-> TRUE, n |-> 0, pos |-> pos + 5]
             ELSE [ok |-> TRUE, big |-> FALSE, n |-> V(0) + V(1) + V(2) + V(3) + V(4), pos |-> pos + k + 1]

(* little-endian value of the n (1..4) bytes at pos; caller guarantees the top byte < 128 when n = 4 *)
LEn(b, pos, n) == b[pos] + (IF n >= 2 THEN 256 * b[pos + 1] ELSE 0)
                + (IF n >= 3 THEN 65536 * b[pos + 2] ELSE 0) + (IF n >= 4 THEN 16777216 * b[pos + 3] ELSE 0)

(* the len bytes a copy of (offset, len) appends to out: byte-by-byte semantics, so it may overlap *)
CopyFrom(out, off, len) ==
  LET base == Len(out) - off IN
  IF off >= len THEN SubSeq(out, base + 1, base + len)
  ELSE TLCEval([i \in 1..len |-> out[base + 1 + ((i - 1) % off)]])

(* The decoder as a little machine: state [pos, out, done, ok, why]; SnElement consumes one element. *)
SnHalt(st, why) == [st EXCEPT !.done = TRUE, !.ok = FALSE, !.why = why]
SnElement(b, st, want) ==
  LET pos == st.pos  out == st.out IN
  IF pos > Len(b)
  THEN (IF Len(out) = want THEN [st EXCEPT !.done = TRUE, !.ok = TRUE] ELSE SnHalt(st, "output-shorter-than-preamble"))
  ELSE
  LET tag == b[pos]  kind == tag % 4  up == tag \div 4  avail == Len(b) - pos IN
  IF kind = 0 THEN
    LET nx == IF up < 60 THEN 0 ELSE up - 59 IN
    IF nx > avail THEN SnHalt(st, "eof-in-literal-length")
    ELSE IF nx = 4 /\ b[pos + 4] >= 128 THEN SnHalt(st, "literal-longer-than-input")
    ELSE LET lenm1 == IF nx = 0 THEN up ELSE LEn(b, pos + 1, nx)
             start == pos + nx + 1
         IN IF lenm1 >= Len(b) - start + 1 THEN SnHalt(st, "eof-in-literal")
            ELSE IF Len(out) + lenm1 + 1 > want THEN SnHalt(st, "output-longer-than-preamble")
            ELSE [st EXCEPT !.pos = start + lenm1 + 1, !.out = out \o SubSeq(b, start, start + lenm1)]
  ELSE
    LET nb == CASE kind = 1 -> 1 [] kind = 2 -> 2 [] kind = 3 -> 4 IN
    IF nb > avail THEN SnHalt(st, "eof-in-copy")
    ELSE IF kind = 3 /\ b[pos + 4] >= 128 THEN SnHalt(st, "offset-beyond-output")
    ELSE LET len == IF kind = 1 THEN 4 + (up % 8) ELSE up + 1
             off == IF kind = 1 THEN 256 * (up \div 8) + b[pos + 1] ELSE LEn(b, pos + 1, nb)
         IN IF off = 0 THEN SnHalt(st, "offset-zero")
            ELSE IF off > Len(out) THEN SnHalt(st, "offset-beyond-output")
            ELSE IF Len(out) + len > want THEN SnHalt(st, "output-longer-than-preamble")
            ELSE [st EXCEPT !.pos = pos + 1 + nb, !.out = out \o CopyFrom(out, off, len)]

(* run to completion.  Three nested loops of at most 64 rounds keep TLC's recursion depth below 200
   for up to 64^3 elements (measured: a 1100-deep recursion over a 70 000-byte output is 10x slower). *)
RECURSIVE SnRun(_, _, _, _, _)
SnRun(b, st, want, level, k) ==
  IF st.done \/ k = 0 THEN st
  ELSE SnRun(b, IF level = 0 THEN SnElement(b, st, want) ELSE SnRun(b, st, want, level - 1, 64), want, level, k - 1)

SnLoop(b, pos, want) ==
  LET st == SnRun(b, [pos |-> pos, out |-> <<>>, done |-> FALSE, ok |-> FALSE, why |-> ""], want, 2, 64) IN
  IF ~st.done THEN SErr("more-than-262144-elements") ELSE IF st.ok THEN SOk(st.out) ELSE SErr(st.why)

(* the declared uncompressed length, or -1 (malformed) / -2 (needs bit 31) *)
SnappyDeclaredLen(b) == LET v == SnVarint(b, 1) IN IF ~v.ok THEN -1 ELSE IF v.big THEN -2 ELSE v.n

SnappyDecode(b) ==
  LET v == SnVarint(b, 1) IN
  IF ~v.ok THEN SErr("bad-preamble")
  ELSE IF v.big THEN SErr("preamble-over-2^31")
  ELSE SnLoop(b, v.pos, v.n)

(* --- spec-side encoders (any stream they emit is a legal snappy block) --- *)
LEBytes(v, n) == [i \in 1..n |-> (v \div (256 ^ (i - 1))) % 256]

MinExt(L) == IF L <= 60 THEN 0 ELSE IF L <= 256 THEN 1 ELSE IF L <= 65536 THEN 2 ELSE IF L <= 16777216 THEN 3 ELSE 4

(* one literal element for the non-empty x; ext = number of length bytes (0 = inline, L <= 60).
   A wider-than-necessary length field is legal: the format prescribes no minimality. *)
SnLiteral(x, ext) ==
  LET L == Len(x) IN
  IF ext = 0 THEN <<4 * (L - 1)>> \o x
  ELSE <<4 * (59 + ext)>> \o LEBytes(L - 1, ext) \o x

(* form 1: 4 <= len <= 11, off < 2048; form 2: 1 <= len <= 64, off < 65536; form 3: 1 <= len <= 64 *)
SnCopy(off, len, form) ==
  CASE form = 1 -> <<1 + 4 * (len - 4) + 32 * (off \div 256), off % 256>>
    [] form = 2 -> <<2 + 4 * (len - 1)>> \o LEBytes(off, 2)
    [] form = 3 -> <<3 + 4 * (len - 1)>> \o LEBytes(off, 4)

FormMinLen(form) == IF form = 1 THEN 4 ELSE 1
FormMaxLen(form) == IF form = 1 THEN 11 ELSE 64
FormMaxOff(form) == IF form = 1 THEN 2047 ELSE IF form = 2 THEN 65535 ELSE 16777215

(* number of positions k < cap with x[i+k] = x[i+k-off] from k = 0 on (overlap allowed) *)
MatchLen(x, i, off, cap) ==
  LET bad == {k \in 0..(cap - 1) : i + k > Len(x) \/ x[i + k] # x[i + k - off]}
  IN IF bad = {} THEN cap ELSE MinOf(bad)

(* mode: [chunk: max literal length per element, ext: least width of the literal length field,
          form: 0 = literals only | 1 | 2 | 3 copy form, offs: candidate offsets] *)
RECURSIVE SnFlushLit(_, _, _, _)
SnFlushLit(x, a, z, m) ==
  IF a > z THEN <<>>
  ELSE LET take == Min2(m.chunk, z - a + 1)
       IN SnLiteral(SubSeq(x, a, a + take - 1), Max2(m.ext, MinExt(take))) \o SnFlushLit(x, a + take, z, m)

RECURSIVE SnEncFrom(_, _, _, _)
SnEncFrom(x, i, lit, m) ==
  IF i > Len(x) THEN SnFlushLit(x, lit, i - 1, m)
  ELSE LET cands == {o \in m.offs : o < i /\ o <= FormMaxOff(m.form)}
           best  == IF cands = {} THEN 0 ELSE MaxOf({MatchLen(x, i, o, FormMaxLen(m.form)) : o \in cands})
       IN IF best < FormMinLen(m.form) THEN SnEncFrom(x, i + 1, lit, m)
          ELSE LET o == MinOf({c \in cands : MatchLen(x, i, c, FormMaxLen(m.form)) = best})
               IN SnFlushLit(x, lit, i - 1, m) \o SnCopy(o, best, m.form) \o SnEncFrom(x, i + best, i + best, m)

SnappyEncode(x, m) ==
  VarintNat(Len(x)) \o (IF m.form = 0 THEN SnFlushLit(x, 1, Len(x), m) ELSE SnEncFrom(x, 1, 1, m))

SnLitMode(chunk, ext) == [chunk |-> chunk, ext |-> ext, form |-> 0, offs |-> {}]
SnCopyMode(form, offs) == [chunk |-> 60, ext |-> 0, form |-> form, offs |-> offs]

(* hand-made streams (format description, section 2) *)
ASSUME SnappyDecode(<<0>>) = SOk(<<>>)
ASSUME SnappyDecode(<<3, 8, 97, 98, 99>>) = SOk(<<97, 98, 99>>)                        \* literal "abc"
ASSUME SnappyDecode(<<10, 0, 97, 34, 1, 0>>) = SOk([i \in 1..10 |-> 97])               \* "a", copy2(off 1, len 9): overlap
ASSUME SnappyDecode(<<8, 4, 97, 98, 5, 2, 0, 98>>) = SOk(<<97,98,97,98,97,98,97,98>>)  \* "ab", copy1(off 2,len 5), "b"
ASSUME SnappyDecode(<<6, 4, 120, 121, 15, 2, 0, 0, 0>>) = SOk(<<120,121,120,121,120,121>>)  \* copy4(off 2, len 4)
ASSUME SnappyDecode(<<3, 240, 2, 97, 98, 99>>) = SOk(<<97, 98, 99>>)                   \* 1-byte extended literal length
ASSUME SnappyDecode(<<3, 244, 2, 0, 97, 98, 99>>) = SOk(<<97, 98, 99>>)                \* 2-byte extended literal length
ASSUME ~SnappyDecode(<<3, 4, 97, 98>>).ok                                              \* shorter than the preamble
ASSUME ~SnappyDecode(<<2, 0, 97, 2, 0, 0>>).ok                                         \* offset zero
ASSUME ~SnappyDecode(<<2, 0, 97, 2, 2, 0>>).ok                                         \* offset beyond output
ASSUME ~SnappyDecode(<<1, 4, 97, 98>>).ok                                              \* longer than the preamble
ASSUME ~SnappyDecode(<<>>).ok /\ ~SnappyDecode(<<128, 128, 128, 128, 16>>).ok
ASSUME SnVarint(<<254, 255, 127>>, 1).n = 2097150 /\ SnVarint(<<128, 128, 128, 128, 8>>, 1).big
ASSUME SnappyEncode(<<97, 98, 99>>, SnLitMode(60, 0)) = <<3, 8, 97, 98, 99>>
ASSUME SnappyEncode([i \in 1..10 |-> 97], SnCopyMode(2, {1})) = <<10, 0, 97, 34, 1, 0>>

(* The Avro "snappy" codec: raw block, then big-endian CRC-32 of the uncompressed data. *)
AvroSnappyFrame(x, block) == block \o Crc32BE(x)
AvroSnappy(x, m) == AvroSnappyFrame(x, SnappyEncode(x, m))

AvroSnappyDecode(y) ==
  IF Len(y) < 4 THEN SErr("shorter-than-trailer")
  ELSE LET d == SnappyDecode(SubSeq(y, 1, Len(y) - 4)) IN
       IF ~d.ok THEN d
       ELSE IF SubSeq(y, Len(y) - 3, Len(y)) # Crc32BE(d.out) THEN SErr("crc-mismatch")
       ELSE d

(***************************************************************************)
(* Part 3.  RFC 1951 "deflate", raw (no zlib/gzip wrapper).                *)
(* Bits are numbered from the least significant bit of each byte; Huffman  *)
(* codes are packed most significant bit first, everything else least      *)
(* significant bit first (RFC 1951 section 3.1.1).                         *)
(***************************************************************************)
RECURSIVE StoredFrom(_, _, _)
StoredFrom(x, a, blk) ==
  LET n == Len(x) - a + 1  take == Min2(n, blk)  final == (take = n) IN
  <<IF final THEN 1 ELSE 0, take % 256, take \div 256, 255 - (take % 256), 255 - (take \div 256)>>
    \o SubSeq(x, a, a + take - 1) \o (IF final THEN <<>> ELSE StoredFrom(x, a + take, blk))

(* stored (BTYPE=00) blocks of at most blk <= 65535 bytes each; the empty input is one empty final block *)
StoredDeflate(x, blk) == StoredFrom(x, 1, blk)

ASSUME StoredDeflate(<<>>, 65535) = <<1, 0, 0, 255, 255>>
ASSUME StoredDeflate(<<97, 98, 99>>, 65535) = <<1, 3, 0, 252, 255, 97, 98, 99>>    \* = zlib level 0, raw
ASSUME StoredDeflate(<<97, 98, 99>>, 2) = <<0, 2, 0, 253, 255, 97, 98, 1, 1, 0, 254, 255, 99>>

(* ---- bit reader ---- *)
ByteOr0(b, i) == IF i <= Len(b) THEN b[i] ELSE 0
BitAt(b, p) == (b[(p \div 8) + 1] \div P2(p % 8)) % 2          \* p = 0-based bit position
(* n <= 16 bits from position p, least significant first; caller checks p + n <= 8 * Len(b) *)
BitsAt(b, p, n) ==
  IF n = 0 THEN 0
  ELSE LET i == (p \div 8) + 1 IN
       ((ByteOr0(b, i) + 256 * ByteOr0(b, i + 1) + 65536 * ByteOr0(b, i + 2)) \div (2 ^ (p % 8))) % (2 ^ n)

(* ---- canonical Huffman codes from code lengths (RFC 1951 section 3.2.2) ---- *)
(* lens[s+1] = code length of symbol s (0 = unused).  count[l] = number of codes of length l,
   syms = symbols ordered by (length, symbol): the order in which canonical codes are assigned. *)
RECURSIVE SymsFrom(_, _)
SymsFrom(lens, l) ==
  IF l > 15 THEN <<>>
  ELSE SelectSeq([s \in 1..Len(lens) |-> s - 1], LAMBDA s : lens[s + 1] = l) \o SymsFrom(lens, l + 1)

RECURSIVE HuffLeft(_, _, _)
HuffLeft(count, l, left) ==                       \* > 0 incomplete, 0 complete, < 0 over-subscribed
  IF l > 15 \/ left < 0 THEN left ELSE HuffLeft(count, l + 1, 2 * left - count[l])

Huff(lens) ==
  LET C(l) == Cardinality({s \in 1..Len(lens) : lens[s] = l})
      count == <<C(1), C(2), C(3), C(4), C(5), C(6), C(7), C(8), C(9), C(10), C(11), C(12), C(13), C(14), C(15)>>
  IN [count |-> count, syms |-> SymsFrom(lens, 1), left |-> HuffLeft(count, 1, 1),
      used |-> Cardinality({s \in 1..Len(lens) : lens[s] # 0})]     \* explicit tuples: nothing lazy inside

(* a code set a decoder must accept: complete, or the single-code case (one code of length 1) *)
HuffUsable(h) == h.left = 0 \/ (h.left > 0 /\ h.used = 1 /\ h.count[1] = 1)

(* decode one symbol: read bit by bit, most significant code bit first *)
RECURSIVE HuffDec(_, _, _, _, _, _, _)
HuffDec(h, b, p, len, code, first, index) ==
  IF len > 15 \/ p >= 8 * Len(b) THEN [ok |-> FALSE, sym |-> 0, p |-> p]
  ELSE LET c == code + BitAt(b, p)  cnt == h.count[len] IN
       IF c - cnt < first THEN [ok |-> TRUE, sym |-> h.syms[index + (c - first) + 1], p |-> p + 1]
       ELSE HuffDec(h, b, p + 1, len + 1, 2 * c, 2 * (first + cnt), index + cnt)
Sym(h, b, p) == HuffDec(h, b, p, 1, 0, 0, 0)

LenBase  == <<3,4,5,6,7,8,9,10,11,13,15,17,19,23,27,31,35,43,51,59,67,83,99,115,131,163,195,227,258>>
LenExtra == <<0,0,0,0,0,0,0,0,1,1,1,1,2,2,2,2,3,3,3,3,4,4,4,4,5,5,5,5,0>>
DistBase == <<1,2,3,4,5,7,9,13,17,25,33,49,65,97,129,193,257,385,513,769,1025,1537,2049,3073,
              4097,6145,8193,12289,16385,24577>>
DistExtra == <<0,0,0,0,1,1,2,2,3,3,4,4,5,5,6,6,7,7,8,8,9,9,10,10,11,11,12,12,13,13>>

FixedLitLens == [s \in 1..288 |-> IF s <= 144 THEN 8 ELSE IF s <= 256 THEN 9 ELSE IF s <= 280 THEN 7 ELSE 8]
FixedDistLens == [s \in 1..30 |-> 5]
(* the two fixed tables written out (a constant that goes through a RECURSIVE operator would be
   re-evaluated by TLC on every use); checked against the construction just below *)
FixedLit == [count |-> <<0, 0, 0, 0, 0, 0, 24, 152, 112, 0, 0, 0, 0, 0, 0>>,
             syms |-> [i \in 1..24 |-> 255 + i] \o [i \in 1..144 |-> i - 1] \o [i \in 1..8 |-> 279 + i]
                        \o [i \in 1..112 |-> 143 + i],
             left |-> 0, used |-> 288]
FixedDist == [count |-> <<0, 0, 0, 0, 30, 0, 0, 0, 0, 0, 0, 0, 0, 0, 0>>, syms |-> [i \in 1..30 |-> i - 1] \o <<>>,
              left |-> 2048, used |-> 30]
ASSUME FixedLit = Huff(FixedLitLens) /\ FixedDist = Huff(FixedDistLens)

IErr(why) == [ok |-> FALSE, p |-> 0, out |-> <<>>, why |-> why]
IOk(p, out) == [ok |-> TRUE, p |-> p, out |-> out, why |-> ""]

(* the compressed data of one Huffman block (RFC 1951 section 3.2.5), as a little machine:
   state [p, out, done, ok, why]; InfSymbol consumes one literal/length(+distance) symbol. *)
InfHalt(st, why) == [st EXCEPT !.done = TRUE, !.ok = FALSE, !.why = why]
InfSymbol(b, st, hl, hd) ==
  LET p == st.p  out == st.out  s == Sym(hl, b, p)  nbits == 8 * Len(b) IN
  IF ~s.ok THEN InfHalt(st, "bad-literal/length-code")
  ELSE IF s.sym < 256 THEN [st EXCEPT !.p = s.p, !.out = Append(out, s.sym)]
  ELSE IF s.sym = 256 THEN [st EXCEPT !.p = s.p, !.done = TRUE, !.ok = TRUE]
  ELSE IF s.sym > 285 THEN InfHalt(st, "length-symbol-286/287")
  ELSE LET li == s.sym - 256  eb == LenExtra[li] IN
       IF s.p + eb > nbits THEN InfHalt(st, "eof-in-length-extra-bits")
       ELSE LET len == LenBase[li] + BitsAt(b, s.p, eb)
                d == Sym(hd, b, s.p + eb)
            IN IF ~d.ok THEN InfHalt(st, "bad-distance-code")
               ELSE IF d.sym > 29 THEN InfHalt(st, "distance-symbol-30/31")
               ELSE LET de == DistExtra[d.sym + 1] IN
                    IF d.p + de > nbits THEN InfHalt(st, "eof-in-distance-extra-bits")
                    ELSE LET dist == DistBase[d.sym + 1] + BitsAt(b, d.p, de) IN
                         IF dist > Len(out) THEN InfHalt(st, "distance-too-far-back")
                         ELSE [st EXCEPT !.p = d.p + de, !.out = out \o CopyFrom(out, dist, len)]

(* nested loops of at most 64 rounds, as in SnRun: recursion depth < 200 for up to 64^3 symbols *)
RECURSIVE InfRun(_, _, _, _, _, _)
InfRun(b, st, hl, hd, level, k) ==
  IF st.done \/ k = 0 THEN st
  ELSE InfRun(b, IF level = 0 THEN InfSymbol(b, st, hl, hd) ELSE InfRun(b, st, hl, hd, level - 1, 64), hl, hd, level, k - 1)

InfCodes(b, p, out, hl, hd) ==
  LET st == InfRun(b, [p |-> p, out |-> out, done |-> FALSE, ok |-> FALSE, why |-> ""], hl, hd, 2, 64) IN
  IF ~st.done THEN IErr("more-than-262144-symbols-in-a-block") ELSE IF st.ok THEN IOk(st.p, st.out) ELSE IErr(st.why)

(* a stored block: skip to the byte boundary, LEN, NLEN = ~LEN, LEN bytes *)
InfStored(b, p, out) ==
  LET q == (p + 7) \div 8 IN                              \* bytes consumed so far
  IF q + 4 > Len(b) THEN IErr("eof-in-stored-header")
  ELSE LET len == b[q + 1] + 256 * b[q + 2]  nlen == b[q + 3] + 256 * b[q + 4] IN
       IF len + nlen # 65535 THEN IErr("stored-length-complement")
       ELSE IF q + 4 + len > Len(b) THEN IErr("eof-in-stored-data")
       ELSE IOk(8 * (q + 4 + len), out \o SubSeq(b, q + 5, q + 4 + len))

(* the code-length alphabet of a dynamic block (RFC 1951 section 3.2.7) *)
ClOrder == <<16, 17, 18, 0, 8, 7, 9, 6, 10, 5, 11, 4, 12, 3, 13, 2, 14, 1, 15>>

RECURSIVE ReadLens(_, _, _, _, _)
ReadLens(b, p, hc, acc, total) ==                          \* -> [ok, p, lens]
  IF Len(acc) = total THEN [ok |-> TRUE, p |-> p, lens |-> acc]
  ELSE LET s == Sym(hc, b, p)  nbits == 8 * Len(b)  bad == [ok |-> FALSE, p |-> p, lens |-> <<>>] IN
       IF ~s.ok THEN bad
       ELSE IF s.sym < 16 THEN ReadLens(b, s.p, hc, Append(acc, s.sym), total)
       ELSE LET eb   == CASE s.sym = 16 -> 2 [] s.sym = 17 -> 3 [] s.sym = 18 -> 7
                base == CASE s.sym = 16 -> 3 [] s.sym = 17 -> 3 [] s.sym = 18 -> 11
            IN IF s.p + eb > nbits \/ (s.sym = 16 /\ Len(acc) = 0) THEN bad
               ELSE LET rep == base + BitsAt(b, s.p, eb)
                        val == IF s.sym = 16 THEN acc[Len(acc)] ELSE 0
                    IN IF Len(acc) + rep > total THEN bad
                       ELSE ReadLens(b, s.p + eb, hc, acc \o [i \in 1..rep |-> val], total)

InfDynamic(b, p, out) ==
  LET nbits == 8 * Len(b) IN
  IF p + 14 > nbits THEN IErr("eof-in-dynamic-header")
  ELSE LET hlit == BitsAt(b, p, 5) + 257  hdist == BitsAt(b, p + 5, 5) + 1  hclen == BitsAt(b, p + 10, 4) + 4 IN
       IF hlit > 286 \/ hdist > 30 THEN IErr("too-many-length-or-distance-codes")
       ELSE IF p + 14 + 3 * hclen > nbits THEN IErr("eof-in-code-length-code-lengths")
       ELSE LET cl == [s \in 1..19 |->
                         LET S == {i \in 1..hclen : ClOrder[i] = s - 1} IN
                         IF S = {} THEN 0 ELSE BitsAt(b, p + 14 + 3 * ((CHOOSE i \in S : TRUE) - 1), 3)]
                hc == Huff(cl)
            IN IF hc.left # 0 THEN IErr("code-length-code-not-complete")
               ELSE LET r == ReadLens(b, p + 14 + 3 * hclen, hc, <<>>, hlit + hdist) IN
                    IF ~r.ok THEN IErr("bad-code-lengths")
                    ELSE IF r.lens[257] = 0 THEN IErr("no-end-of-block-code")
                    ELSE LET hl == Huff(SubSeq(r.lens, 1, hlit))
                             hd == Huff(SubSeq(r.lens, hlit + 1, hlit + hdist))
                         IN IF ~HuffUsable(hl) THEN IErr("literal/length-code-set")
                            ELSE IF ~(HuffUsable(hd) \/ hd.used = 0) THEN IErr("distance-code-set")
                            ELSE InfCodes(b, r.p, out, hl, hd)

(* the block loop.  Result [ok, out, why, types (BTYPE of every block), bytes (bytes consumed)] *)
RECURSIVE InfBlocks(_, _, _, _)
InfBlocks(b, p, out, types) ==
  IF p + 3 > 8 * Len(b) THEN [ok |-> FALSE, out |-> <<>>, why |-> "eof-in-block-header", types |-> types, bytes |-> 0]
  ELSE LET final == BitAt(b, p)  type == BitsAt(b, p + 1, 2)
           r == CASE type = 0 -> InfStored(b, p + 3, out)
                  [] type = 1 -> InfCodes(b, p + 3, out, FixedLit, FixedDist)
                  [] type = 2 -> InfDynamic(b, p + 3, out)
                  [] type = 3 -> IErr("reserved-block-type")
       IN IF ~r.ok THEN [ok |-> FALSE, out |-> <<>>, why |-> r.why, types |-> Append(types, type), bytes |-> 0]
          ELSE IF final = 1
          THEN [ok |-> TRUE, out |-> r.out, why |-> "", types |-> Append(types, type), bytes |-> (r.p + 7) \div 8]
          ELSE InfBlocks(b, r.p, r.out, Append(types, type))

InflateFull(b) == InfBlocks(b, 0, <<>>, <<>>)
(* a raw deflate stream denotes its output iff the last block ends in the last byte *)
Inflate(b) == LET r == InflateFull(b) IN
              IF r.ok /\ r.bytes = Len(b) THEN SOk(r.out)
              ELSE IF r.ok THEN SErr("trailing-bytes") ELSE SErr(r.why)

(* ---- spec-side fixed-Huffman encoder (bit list, then packed least significant bit first) ---- *)
MsbBits(v, n) == [i \in 1..n |-> (v \div (2 ^ (n - i))) % 2]
LsbBits(v, n) == [i \in 1..n |-> (v \div (2 ^ (i - 1))) % 2]
FixedLitCode(s) == IF s <= 143 THEN MsbBits(48 + s, 8)
                   ELSE IF s <= 255 THEN MsbBits(400 + (s - 144), 9)
                   ELSE IF s <= 279 THEN MsbBits(s - 256, 7)
                   ELSE MsbBits(192 + (s - 280), 8)
LenIndex(len) == MaxOf({i \in 1..29 : LenBase[i] <= len})
DistIndex(d) == MaxOf({i \in 1..30 : DistBase[i] <= d})
FixedMatchBits(len, dist) ==
  LET li == IF len = 258 THEN 29 ELSE LenIndex(len)  di == DistIndex(dist) IN
  FixedLitCode(256 + li) \o LsbBits(len - LenBase[li], LenExtra[li])
    \o MsbBits(di - 1, 5) \o LsbBits(dist - DistBase[di], DistExtra[di])

RECURSIVE FixedFrom(_, _, _)
FixedFrom(x, i, offs) ==
  IF i > Len(x) THEN FixedLitCode(256)
  ELSE LET cands == {o \in offs : o < i}
           best == IF cands = {} THEN 0 ELSE MaxOf({MatchLen(x, i, o, 258) : o \in cands})
       IN IF best < 3 THEN FixedLitCode(x[i]) \o FixedFrom(x, i + 1, offs)
          ELSE LET o == MinOf({c \in cands : MatchLen(x, i, c, 258) = best})
               IN FixedMatchBits(best, o) \o FixedFrom(x, i + best, offs)

PackBits(bits) ==
  LET n == Len(bits)  nb == (n + 7) \div 8
      B(k) == IF k <= n THEN bits[k] ELSE 0
  IN SubSeq([j \in 1..nb |-> LET o == 8 * (j - 1) IN
        B(o+1) + 2*B(o+2) + 4*B(o+3) + 8*B(o+4) + 16*B(o+5) + 32*B(o+6) + 64*B(o+7) + 128*B(o+8)], 1, nb)

(* one final fixed-Huffman block; offs = candidate match distances ({} = literals only) *)
FixedDeflate(x, offs) == PackBits(<<1, 1, 0>> \o FixedFrom(x, 1, offs))

ASSUME FixedDeflate(<<>>, {}) = <<3, 0>>                                              \* = zlib's empty stream
ASSUME Inflate(<<3, 0>>) = SOk(<<>>)
ASSUME Inflate(<<1, 3, 0, 252, 255, 97, 98, 99>>) = SOk(<<97, 98, 99>>)
ASSUME Inflate(<<75, 76, 74, 78, 132, 33, 0>>) = SOk(<<97,98,99,97,98,99,97,98,99,97,98,99>>)   \* zlib Z_FIXED "abcabcabcabc"
ASSUME Inflate(<<203, 72, 205, 201, 201, 87, 200, 64, 39, 1>>)                        \* zlib -9 "hello hello hello hello"
       = SOk(<<104,101,108,108,111,32,104,101,108,108,111,32,104,101,108,108,111,32,104,101,108,108,111>>)
ASSUME Inflate(<<21, 197, 177, 13, 0, 0, 0, 130, 176, 151, 25, 12, 247, 171, 12, 20, 65, 141, 151, 144, 181, 121, 165>>)   \* zlib -9, a DYNAMIC block
       = SOk(<<112,118,112,112,118,118,118,116,118,118,112,112,118,112,116,112,116,116,116,116,112,116,116,118,116,116,116,116,118,112>>)
ASSUME InflateFull(<<21, 197, 177, 13, 0, 0, 0, 130, 176, 151, 25, 12, 247, 171, 12, 20, 65, 141, 151, 144, 181, 121, 165>>).types = <<2>>
ASSUME ~Inflate(<<1, 3, 0, 252, 254, 97, 98, 99>>).ok                                 \* NLEN is not ~LEN
ASSUME ~Inflate(<<1, 3, 0, 252, 255, 97, 98>>).ok                                     \* truncated
ASSUME ~Inflate(<<7, 0>>).ok                                                          \* BTYPE = 11
ASSUME ~Inflate(<<120, 156, 75, 76, 74, 6, 0, 2, 77, 1, 39>>).ok                      \* the zlib-WRAPPED "abc" is not raw deflate
ASSUME Inflate(<<75, 76, 74, 6, 0>>) = SOk(<<97, 98, 99>>)                            \* ... its raw body is
ASSUME FixedDeflate(<<97, 98, 99>>, {}) = <<75, 76, 74, 6, 0>>

(***************************************************************************)
(* Part 4.  The codec contract.                                            *)
(***************************************************************************)
CodecNames == {"null", "deflate", "snappy", "bzip2", "xz", "zstandard"}
SpecifiedCodecs == {"null", "deflate", "snappy"}          \* bit-stream fully defined in this module
ReferenceCodecs == {"deflate", "bzip2", "xz"}             \* a reference implementation exists as instrument

(* the setting domain the crate exposes for each codec (level as a small natural;
   deflate: miniz_oxide's CompressionLevel as u8, 255 = DefaultCompression) *)
Levels(c) == CASE c = "null" -> {0} [] c = "snappy" -> {0}
               [] c = "deflate" -> {0, 1, 6, 9, 10, 255}
               [] c = "bzip2" -> 1..9
               [] c = "xz" -> 0..9
               [] c = "zstandard" -> 0..22

(* Byte strings the machine talks about.  A payload or a block is carried either in full (its
   bytes) or, when it is large, as length + SHA-256 taken by the recording instrument.         *)
D(x) == [full |-> TRUE, bytes |-> x, len |-> Len(x), sha |-> ""]
Digest(len, sha) == [full |-> FALSE, bytes |-> <<>>, len |-> len, sha |-> sha]
DataEq(a, b) == IF a.full /\ b.full THEN a.bytes = b.bytes
                ELSE a.len = b.len /\ a.sha = b.sha /\ a.sha # ""
NoData == D(<<>>)

(* Does the byte string y, read as a stream of codec c, denote a byte string?  Decidable here for the specified codecs. *)
Denotes(c, y) ==
  CASE c = "null" -> SOk(y)
    [] c = "deflate" -> Inflate(y)
    [] c = "snappy" -> AvroSnappyDecode(y)

(* the same without the snappy trailer check: what the BLOCK (everything but the last four bytes) denotes *)
BlockDenotes(c, y) ==
  IF c # "snappy" THEN Denotes(c, y)
  ELSE IF Len(y) < 4 THEN SErr("shorter-than-trailer") ELSE SnappyDecode(SubSeq(y, 1, Len(y) - 4))

(* the decompressor the contract prescribes: an error, or the denoted data if it is within the limit.
   The null codec copies nothing (the caller already holds the bytes): the cap clause is about
   data a decompressor PRODUCES, so for null both readings (identity, or an error over the limit) are accepted. *)
SpecDecompress(c, y, limit) ==
  LET d == Denotes(c, y) IN
  IF ~d.ok THEN d
  ELSE IF c # "null" /\ Len(d.out) > limit THEN SErr("over-allocation-limit")
  ELSE d

(* ---- file header metadata <-> codec (+ level) ---- *)
(* avro.codec names are those of the Avro specification; an absent key means "null".  The crate
   records the level of bzip2 / xz / zstandard under "avro.codec.compression_level" as ONE byte;
   deflate's level is not recorded.  NoLevel = 256 stands for "key absent". *)
NoLevel == 256
LevelRecorded(c) == c \in {"bzip2", "xz", "zstandard"}
DefaultLevel(c) == CASE c = "bzip2" -> 9 [] c = "xz" -> 9 [] c = "zstandard" -> 0 [] c = "deflate" -> 255 [] OTHER -> 0
NameBytes(c) == CASE c = "null" -> <<110,117,108,108>>
                  [] c = "deflate" -> <<100,101,102,108,97,116,101>>
                  [] c = "snappy" -> <<115,110,97,112,112,121>>
                  [] c = "bzip2" -> <<98,122,105,112,50>>
                  [] c = "xz" -> <<120,122>>
                  [] c = "zstandard" -> <<122,115,116,97,110,100,97,114,100>>
(* metadata as [has_codec, codec (bytes), level (0..255 or NoLevel)] *)
MetaOf(c, lvl) == [has_codec |-> c # "null", codec |-> IF c = "null" THEN <<>> ELSE NameBytes(c),
                   level |-> IF LevelRecorded(c) THEN lvl ELSE NoLevel]
CodecOfMeta(m) ==                                      \* [ok, codec, level]
  IF ~m.has_codec THEN [ok |-> TRUE, codec |-> "null", level |-> 0]
  ELSE LET S == {c \in CodecNames : NameBytes(c) = m.codec} IN
       IF S = {} THEN [ok |-> FALSE, codec |-> "", level |-> 0]
       ELSE LET c == CHOOSE x \in S : TRUE IN
            [ok |-> TRUE, codec |-> c,
             level |-> IF LevelRecorded(c) /\ m.level # NoLevel THEN m.level ELSE DefaultLevel(c)]

ASSUME \A c \in CodecNames : \A lvl \in Levels(c) :
         LET r == CodecOfMeta(MetaOf(c, lvl)) IN
         r.ok /\ r.codec = c /\ (LevelRecorded(c) => r.level = lvl)

(* ---- the state machine: one record ---- *)
(*  phase   "idle" | "compressed" | "decompressed"                                         *)
(*  codec, level, limit                                                                    *)
(*  plain   the data handed to Compress (or the data a foreign stream was made from)       *)
(*  stored  the bytes in the block                                                         *)
(*  origin  "library" | "spec" | "reference" | "hostile": who produced `stored`            *)
(*  damage  "none" | "trailer" | "truncated" | "bit"                                       *)
(*  res     [ok, out]: what Decompress returned                                            *)
(*  ref     [avail, ok, out]: the reading of the reference decompressor on `stored`        *)
NoRef == [avail |-> FALSE, ok |-> FALSE, out |-> NoData]
Fresh(limit) == [phase |-> "idle", codec |-> "null", level |-> 0, limit |-> limit, plain |-> NoData,
                 stored |-> NoData, origin |-> "library", damage |-> "none",
                 res |-> [ok |-> FALSE, out |-> NoData], ref |-> NoRef]

(* Compress(x, c, lvl) produced y (x, y: data terms) *)
CompressStep(s, c, lvl, x, y, origin) ==
  [s EXCEPT !.phase = "compressed", !.codec = c, !.level = lvl, !.plain = x, !.stored = y,
            !.origin = origin, !.damage = "none"]

(* the instrument: a reference decompressor read `stored` *)
RefReadStep(s, r) == [s EXCEPT !.ref = r]

FlipBit(y, byteIdx, bit) == [y EXCEPT ![byteIdx] = IF (y[byteIdx] \div P2(bit)) % 2 = 1 THEN y[byteIdx] - P2(bit)
                                                                                      ELSE y[byteIdx] + P2(bit)]
(* environment: flip bit `bit` of the k-th (1..4) of the last four bytes; of byte k; cut to n bytes *)
FlipTrailerBitStep(s, k, bit) ==
  [s EXCEPT !.stored = D(FlipBit(s.stored.bytes, Len(s.stored.bytes) - 4 + k, bit)), !.damage = "trailer"]
FlipAnyBitStep(s, k, bit) == [s EXCEPT !.stored = D(FlipBit(s.stored.bytes, k, bit)), !.damage = "bit"]
TruncateStep(s, n) == [s EXCEPT !.stored = D(SubSeq(s.stored.bytes, 1, n)), !.damage = "truncated"]

(* Decompress returned r = [ok, out] *)
DecompressStep(s, r) == [s EXCEPT !.phase = "decompressed", !.res = r]

(* ---- what the property states, as predicates on the state ---- *)
Done(s) == s.phase = "decompressed"
Trailer(y) == SubSeq(y, Len(y) - 3, Len(y))

(* every intact stream made from x -- by the library, by the spec's encoders or by a reference codec --
   comes back as x *)
RoundTripInv(s) == Done(s) /\ s.damage = "none" /\ s.origin # "hostile" /\ s.plain.len <= s.limit
                     => s.res.ok /\ DataEq(s.res.out, s.plain)
(* the library's block is a stream of the named format denoting x (specified codecs; needs the bytes;
   for snappy the trailer is TrailerInv's business: StreamInv /\ TrailerInv <=> Denotes(..) = x) *)
StreamInv(s) == s.phase # "idle" /\ s.damage = "none" /\ s.origin \in {"library", "spec"}
                /\ s.codec \in SpecifiedCodecs /\ s.stored.full /\ s.plain.full
                     => LET d == BlockDenotes(s.codec, s.stored.bytes) IN d.ok /\ d.out = s.plain.bytes
(* the null codec stores the data as they are (also decidable on digests) *)
NullInv(s) == s.phase # "idle" /\ s.damage = "none" /\ s.origin = "library" /\ s.codec = "null"
                     => DataEq(s.stored, s.plain)
(* ... and for the others the reference decompressor accepts it and reads x *)
ReferenceInv(s) == s.phase # "idle" /\ s.damage = "none" /\ s.origin = "library" /\ s.ref.avail
                     => s.ref.ok /\ DataEq(s.ref.out, s.plain)
(* snappy: block, then BE(CRC-32(x)) *)
TrailerInv(s) == s.phase # "idle" /\ s.damage = "none" /\ s.origin \in {"library", "spec"}
                 /\ s.codec = "snappy" /\ s.stored.full /\ s.plain.full
                     => s.stored.len >= 4 /\ Trailer(s.stored.bytes) = Crc32BE(s.plain.bytes)
(* a wrong checksum is rejected: whatever is accepted carries the checksum of what is returned *)
ChecksumInv(s) == Done(s) /\ s.codec = "snappy" /\ s.res.ok /\ s.stored.full /\ s.res.out.full
                     => s.stored.len >= 4 /\ Trailer(s.stored.bytes) = Crc32BE(s.res.out.bytes)
DamagedTrailerInv(s) == Done(s) /\ s.codec = "snappy" /\ s.damage = "trailer" => ~s.res.ok
(* error, or data no larger than the allocation limit *)
CapInv(s) == Done(s) /\ s.codec # "null" /\ s.res.ok => s.res.out.len <= s.limit
(* whatever a specified decoder accepts is what the format says the bytes denote (not stated by the
   property for damaged input: coverage layer) *)
AgreesWithFormat(s) == Done(s) /\ s.codec \in SpecifiedCodecs /\ s.res.ok /\ s.stored.full /\ s.res.out.full
                     => LET d == Denotes(s.codec, s.stored.bytes) IN d.ok /\ d.out = s.res.out.bytes
=============================================================================
