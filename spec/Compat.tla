------------------------------- MODULE Compat -------------------------------
(***************************************************************************)
(* Compatibility verdicts (property C09).  The verdict of the checker is   *)
(* an OBSERVATION with the alphabet the crate documents:                   *)
(*    "Full"     resolving will always work                                *)
(*    "Partial"  resolving may error (enum symbols / union branches only   *)
(*               partly covered)                                           *)
(*    "Err"      incompatible                                              *)
(* The specification side supplies what the verdict must be sound against: *)
(*    Readable(W, R, vals)    every value of W in vals resolves under R    *)
(*    SafeHistory(hist)       R arose from W by always-safe steps only     *)
(* and the algebraic laws (reflexivity, symmetry of the mutual verdict,    *)
(* the meet the crate documents for mutual_read).                          *)
(***************************************************************************)
EXTENDS Resolve

Verdicts == {"Full", "Partial", "Err"}

(* documented combination of two directions: Full /\ Full = Full, anything with Partial = Partial, an error wins *)
Meet(a, b) == IF a = "Err" \/ b = "Err" THEN "Err" ELSE IF a = "Full" /\ b = "Full" THEN "Full" ELSE "Partial"
ASSUME \A a, b \in Verdicts : Meet(a, b) = Meet(b, a)

(* readable in EVERY reading of the grey zones / in SOME reading *)
ReadableAll(W, R, v, ew, er)  == \A p \in Policies : ~IsErr(Res(W, R, v, ew, er, {}, p))
ReadableSome(W, R, v, ew, er) == \E p \in Policies : ~IsErr(Res(W, R, v, ew, er, {}, p))
SpecReadable(W, R, vals) == \A v \in vals : ReadableAll(W, R, v, Defs(W), Defs(R))

(***************************************************************************)
(* Does a parallel descent through writer and reader schema (fields paired *)
(* by name or reader alias, items with items, values with values, every    *)
(* writer branch with every reader branch) meet a pair in which exactly    *)
(* one side is a REFERENCE?  Both terms must be in document-order normal   *)
(* form (first occurrence = definition), as the parsed schemas are.        *)
(***************************************************************************)
RECURSIVE MeetsRefVsDef(_, _, _)
MeetsRefVsDef(w, r, fuel) ==
  IF fuel = 0 THEN FALSE
  ELSE IF (w.k = "ref") # (r.k = "ref") THEN w.k \notin {"union"} /\ r.k \notin {"union"}
  ELSE IF w.k = "union" /\ r.k = "union"
       THEN \E i \in 1..Len(w.branches), j \in 1..Len(r.branches) : MeetsRefVsDef(w.branches[i], r.branches[j], fuel - 1)
  ELSE IF w.k = "union" THEN \E i \in 1..Len(w.branches) : MeetsRefVsDef(w.branches[i], r, fuel - 1)
  ELSE IF r.k = "union" THEN \E j \in 1..Len(r.branches) : MeetsRefVsDef(w, r.branches[j], fuel - 1)
  ELSE IF w.k = "array" /\ r.k = "array" THEN MeetsRefVsDef(w.items, r.items, fuel - 1)
  ELSE IF w.k = "map" /\ r.k = "map" THEN MeetsRefVsDef(w.values, r.values, fuel - 1)
  ELSE IF w.k = "record" /\ r.k = "record"
       THEN \E i \in 1..Len(r.fields) :
              LET wi == WriterFieldFor(r.fields[i], w, {}) IN
              wi > 0 /\ MeetsRefVsDef(w.fields[wi].type, r.fields[i].type, fuel - 1)
  ELSE FALSE
=============================================================================
