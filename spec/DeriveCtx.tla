------------------------------ MODULE DeriveCtx ------------------------------
(***************************************************************************)
(* Schema construction for derived types as a CONTEXT MACHINE: a depth-    *)
(* first walk over a graph of named record types that threads the set     *)
(* `named` of full names already defined (get_schema_in_ctxt), one action  *)
(* per step of the walk.                                                   *)
(*                                                                         *)
(* Graph: G[t] = the ordered edges <<[to, m]>> of type t;  m is            *)
(*   "plain" | "opt" | "vec"   a field of type T / Option<Box<T>> / Vec<T> *)
(*   "flatten"                 #[serde(flatten)]: the derived              *)
(*                             get_record_fields_in_ctxt of T is spliced   *)
(*                             in; T itself is not defined by this         *)
(*   "probe"                   the fields of T obtained through the        *)
(*                             library helper get_record_fields_in_ctxt    *)
(*                             (used for `#[avro(with = ..)]` and for      *)
(*                             hand-written impls): T is temporarily       *)
(*                             removed from `named`, its schema is built,  *)
(*                             the definition of T itself is discarded and *)
(*                             the membership of T is restored             *)
(* Output: `doc` = the events <<"def"|"ref", t>> in document order.        *)
(***************************************************************************)
EXTENDS Naturals, Sequences, FiniteSets, TLC

CONSTANT N                     \* number of named types; the root is type 1
VARIABLES G,                   \* the graph (chosen initially, then fixed)
          named, doc,
          stack,               \* frames [k |-> "schema"|"fields"|"probe", t, i, was, at]
          done
vars == <<G, named, doc, stack, done>>

Frame(k, t) == [k |-> k, t |-> t, i |-> 1, was |-> FALSE, at |-> 0]
Top == stack[Len(stack)]
Edge == G[Top.t][Top.i]
Advance(st) == [st EXCEPT ![Len(st)].i = @ + 1]
Pop(st) == SubSeq(st, 1, Len(st) - 1)

(* the walk starts by asking for the schema of the root *)
InitWalk == named = {} /\ doc = <<>> /\ stack = <<>> /\ done = FALSE

Start == /\ stack = <<>> /\ ~done /\ doc = <<>>
         /\ named' = {1} /\ doc' = << <<"def", 1>> >> /\ stack' = <<Frame("schema", 1)>>
         /\ UNCHANGED <<G, done>>

HasEdge == stack # <<>> /\ Top.i <= Len(G[Top.t])

(* a field whose type is already defined: a reference *)
EmitRef == /\ HasEdge /\ Edge.m \in {"plain", "opt", "vec"} /\ Edge.to \in named
           /\ doc' = Append(doc, <<"ref", Edge.to>>)
           /\ stack' = Advance(stack) /\ UNCHANGED <<G, named, done>>

(* a field whose type is not yet defined: define it here and descend *)
EmitDef == /\ HasEdge /\ Edge.m \in {"plain", "opt", "vec"} /\ Edge.to \notin named
           /\ named' = named \cup {Edge.to}
           /\ doc' = Append(doc, <<"def", Edge.to>>)
           /\ stack' = Append(stack, Frame("schema", Edge.to)) /\ UNCHANGED <<G, done>>

(* #[serde(flatten)] on a derived type: its fields are computed in place *)
FlattenFields == /\ HasEdge /\ Edge.m = "flatten"
                 /\ stack' = Append(stack, Frame("fields", Edge.to)) /\ UNCHANGED <<G, named, doc, done>>

(* the library helper: temporarily forget T, build its schema, keep only the fields *)
FlattenProbe == /\ HasEdge /\ Edge.m = "probe"
                /\ named' = named \cup {Edge.to}            \* (removed, then re-inserted by the nested get_schema)
                /\ doc' = Append(doc, <<"tmp", Edge.to>>)   \* the definition that will be discarded
                /\ stack' = Append(stack, [Frame("probe", Edge.to) EXCEPT !.was = Edge.to \in named, !.at = Len(doc) + 1])
                /\ UNCHANGED <<G, done>>

RemoveAt(q, j) == SubSeq(q, 1, j - 1) \o SubSeq(q, j + 1, Len(q))

Leave == /\ stack # <<>> /\ Top.i > Len(G[Top.t])
         /\ IF Top.k = "probe"
            THEN /\ doc' = RemoveAt(doc, Top.at)
                 /\ named' = IF Top.was \/ \E j \in (Top.at + 1)..Len(doc) : doc[j] = <<"ref", Top.t>>
                             THEN named ELSE named \ {Top.t}
            ELSE UNCHANGED <<named, doc>>
         /\ stack' = IF Len(stack) = 1 THEN <<>> ELSE Advance(Pop(stack))
         /\ done' = (Len(stack) = 1)
         /\ UNCHANGED G

Next == Start \/ EmitRef \/ EmitDef \/ FlattenFields \/ FlattenProbe \/ Leave

(* ---- graphs ---- *)
Modes == {"plain", "opt", "vec", "flatten", "probe"}
Inline == {"plain", "flatten", "probe"}       \* edges that embed the target by value
Succ(t, M, g) == {g[t][i].to : i \in {j \in 1..Len(g[t]) : g[t][j].m \in M}}
RECURSIVE Closure(_, _, _)
Closure(S, M, g) == LET S2 == S \cup UNION {Succ(t, M, g) : t \in S} IN IF S2 = S THEN S ELSE Closure(S2, M, g)
(* a finite Rust type: no cycle through by-value edges; a flattened / probed type does not lead back to itself *)
ValidGraph(g) ==
  /\ \A t \in 1..N : t \notin Closure(Succ(t, Inline, g), Inline, g)
  /\ \A t \in 1..N : \A i \in 1..Len(g[t]) :
        g[t][i].m \in {"flatten", "probe"} =>
           /\ t \notin Closure({g[t][i].to}, Modes, g) /\ g[t][i].to # t
           \* (a flattened type that is itself recursive is outside this model: the helper then rewrites the
           \*  first inner reference into a definition)
           /\ g[t][i].to \notin Closure(Succ(g[t][i].to, Modes, g), Modes, g)
  /\ Closure({1}, Modes, g) = 1..N                       \* everything is reachable from the root
  \* no type is spliced twice into the same record (its field names would clash)
  /\ \A t \in 1..N : \A i, j \in 1..Len(g[t]) :
        (i # j /\ g[t][i].m \in {"flatten", "probe"} /\ g[t][j].m \in {"flatten", "probe"}) =>
           Closure({g[t][i].to}, {"flatten", "probe"}, g) \cap Closure({g[t][j].to}, {"flatten", "probe"}, g) = {}

(* ---- invariants ---- *)
DefsOf(t) == {j \in 1..Len(doc) : doc[j] = <<"def", t>>}
TypeOK == named \subseteq 1..N /\ done \in BOOLEAN
(* at most one definition of each name, at any time *)
DefinedAtMostOnce == \A t \in 1..N : Cardinality(DefsOf(t)) <= 1
(* every reference points back to a definition (while a probe is being built, possibly to the one to be discarded) *)
RefsPointBackwards == \A j \in 1..Len(doc) : doc[j][1] = "ref" =>
                         \E i \in 1..(j - 1) : doc[i][2] = doc[j][2] /\ doc[i][1] \in {"def", "tmp"}
(* at the end: exactly the types reachable through field edges (possibly below flattened ones) are defined, once *)
Finished ==
  done => /\ \A j \in 1..Len(doc) : doc[j][1] = "ref" => \E i \in 1..(j - 1) : doc[i] = <<"def", doc[j][2]>>
          /\ \A j \in 1..Len(doc) : doc[j][1] # "tmp"
          /\ \A t \in 1..N : t \in named <=> Cardinality(DefsOf(t)) = 1
          /\ doc[1] = <<"def", 1>>
=============================================================================
