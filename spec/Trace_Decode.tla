---------------------------- MODULE Trace_Decode ----------------------------
(***************************************************************************)
(* Judges recorded executions of the reading entry points on untrusted     *)
(* bytes (harness avh_c05 run).                                            *)
(*                                                                         *)
(*  C05: the outcome alphabet is {ok, err} (panic / timeout / abort have   *)
(*       no place in it); the largest single allocation requested inside   *)
(*       the call is bounded by the limit in force.                        *)
(*  C06: an Ok result is the value the independent parser finds in those   *)
(*       bytes (so a truncated datum is an error, never completed with     *)
(*       invented values), it conforms, validates, re-encodes and          *)
(*       re-decodes to itself; generic and schema-aware decoder agree.     *)
(***************************************************************************)
EXTENDS AvroBinary, Json, IOUtils, Known

Rec == ndJsonDeserialize(IOEnv.TRACE)
VARIABLE l

If(c, name) == IF c THEN {} ELSE {name}

RECURSIVE HasMap(_, _, _)
HasMap(s, env, fuel) ==
  CASE s.k = "map" -> TRUE
    [] s.k = "array" -> HasMap(s.items, env, fuel)
    [] s.k = "union" -> \E i \in 1..Len(s.branches) : HasMap(s.branches[i], env, fuel)
    [] s.k = "record" -> \E i \in 1..Len(s.fields) : HasMap(s.fields[i].type, env, fuel)
    [] s.k = "ref" -> fuel > 0 /\ HasMap(env[s.name], env, fuel - 1)
    [] OTHER -> FALSE

(* Allocation bound.  Slack = 64 KiB for requests not sized by the data.  A hash map reserves
   buckets in powers of two (up to ~2.3 x the guarded size): 3 x limit where a map can occur.   *)
Slack == 65536
CodecSlack == 16777216     \* working memory of the decompressors (bzip2: 4 x 900 kB block, ...), not sized by a declared length
Bound(limit, hasmap, codec) ==
  IF limit >= 500000000 THEN 2147483647
  ELSE (IF hasmap THEN 3 * limit ELSE limit) + (IF codec THEN CodecSlack ELSE Slack)

(* a record that contains itself through record fields only has no finite value and no finite encoding *)
RECURSIVE RecOnlyReach(_, _, _)
RecOnlyReach(s, env, seen) ==
  CASE s.k = "record" ->
         \E i \in 1..Len(s.fields) : RecOnlyReach(s.fields[i].type, env, seen \cup {s.name})
    [] s.k = "ref" -> s.name \in seen \/ (s.name \in DOMAIN env /\ RecOnlyReach(env[s.name], env, seen \cup {s.name}))
    [] OTHER -> FALSE
Uninhabited(s) == RecOnlyReach(s, Defs(s), {})

(***************************************************************************)
(* Known deviations (each predicate pins the node kind, the position and   *)
(* the exact deviant outcome; anything else stays a violation).            *)
(***************************************************************************)
Explained(e, clause) == {}   \* filled per finding below

ContentWhys == {"bigdec-inner", "uuidtext", "uuidlen", "utf8", "boolbyte", "enumindex", "intrange"}
OneSidedAllocRefusal(e) == (e.gen.ekind = "alloc") # (e.ser.ekind = "alloc")

DatumFails(e) ==
  LET env == Defs(e.s)
      P   == Parse(e.bytes, 1, e.s, env)
      g   == e.gen
  IN
     \* (a uuid text in another notation than the canonical one - no hyphens, braces, urn: - read as the uuid it
     \*  denotes is leniency on input, not an invented value: drift, as long as the result conforms)
     If(~g.ok \/ P.ok \/ P.why = "toolarge" \/ (P.why = "uuidtext" /\ Conforms(g.v, e.s, env)), "C06:accepted-invalid-" \o P.why)
     \cup If(~(g.ok /\ P.ok) \/ (VEq(g.v, P.v) /\ g.consumed = P.pos - 1), "C06:decoded-value-differs")
     \cup If(~g.ok \/ Conforms(g.v, e.s, env), "C06:decoded-nonconforming")
     \cup If(~g.ok \/ g.valid, "C06:validate-rejects-decoded")
     \cup If(~g.ok \/ (g.reenc.ok /\ g.redec.ok /\ VEq(g.redec.v, g.v)), "C06:reencode-redecode")
     \* the dynamic target of the schema-aware deserializer takes logical types as their base, so the
     \* checks that exist only at the logical level (big-decimal inner framing, uuid text/length) are not compared
     \* a refusal under the configured allocation limit (error kind "alloc") says nothing about completeness:
     \* the two decoders charge a declared count differently (items x size of the in-memory value vs. nothing up front)
     \cup If(g.panic \/ e.ser.panic \/ (~g.ok /\ P.why \in {"bigdec-inner", "uuidtext", "uuidlen"})
             \/ OneSidedAllocRefusal(e)
             \/ (g.ok = e.ser.ok /\ (g.ok => g.consumed = e.ser.consumed)),
             "C06:decoders-disagree")
     \* targets that ignore part / all of the datum (deserialize_ignored_any): skipping may leave the CONTENT of the
     \* skipped data unchecked (text validity, ranges), but must still find the same datum boundaries - in
     \* particular a truncated datum stays an error.  (The other direction - the deserializer refuses to ignore
     \* a record / enum / fixed at all - is a limitation of the target shape, not a statement about the bytes: drift.)
     \cup UNION {If(g.panic \/ e.ser.ig[i].panic \/ ~e.ser.ig[i].ok
                     \/ (~g.ok /\ (P.why \in ContentWhys \/ g.ekind = "alloc"))
                     \/ (g.ok /\ g.consumed = e.ser.ig[i].consumed),
                     "C06:ignoring-deserializer-accepts-what-the-decoder-rejects") : i \in 1..Len(e.ser.ig)}
     \cup If(~(P.ok /\ ~g.ok /\ ~g.panic) \/ e.limit < 500000000, "C02:rejected-spec-legal")

(* Known finding C05-uninhabited-record-recursion: decoding under a record that contains itself through
   record fields only recurses without consuming input until the stack overflows (process abort). *)
Dev_UninhabitedRecursion(e) ==
  /\ "C05-uninhabited-record-recursion" \in KnownIds
  /\ e.entry = "datum" /\ e.outcome = "abort" /\ Uninhabited(e.s)

Judge(e) ==
  IF e.outcome = "schema-not-accepted" THEN [fail |-> {}, known |-> {}, drift |-> {"schema-not-accepted"}]
  ELSE IF e.entry = "datum" /\ Uninhabited(e.s)
  THEN IF e.outcome \in {"ok", "err"} THEN [fail |-> {}, known |-> {}, drift |-> {}]
       ELSE IF Dev_UninhabitedRecursion(e)
       THEN [fail |-> {}, known |-> {"C05-uninhabited-record-recursion|C05:" \o e.outcome}, drift |-> {}]
       ELSE [fail |-> {"C05:" \o e.outcome}, known |-> {}, drift |-> {}]
  ELSE
  LET hasmap == IF e.entry \in {"datum", "single"} THEN HasMap(e.s, Defs(e.s), 3) ELSE TRUE
      codec  == e.entry \notin {"datum", "single"}
      fail ==
        If(e.outcome \in {"ok", "err"}, "C05:" \o e.outcome)
        \cup If(e.largest <= Bound(e.limit, hasmap, codec), "C05:allocation-above-limit")
        \* "heavy" inputs (hundreds of thousands of declared items) are judged for C05 only
        \cup (IF e.entry = "datum" /\ e.outcome \in {"ok", "err"} /\ ~e.heavy THEN DatumFails(e) ELSE {})
      drift == IF e.entry = "datum" /\ e.outcome \in {"ok", "err"} /\ ~e.heavy /\ OneSidedAllocRefusal(e) /\ e.gen.ok # e.ser.ok
               THEN {"limit-refusal-by-one-decoder-only"} ELSE {}
      drift2 == IF e.entry = "datum" /\ e.outcome \in {"ok", "err"} /\ ~e.heavy /\ e.gen.ok
                   /\ \E i \in 1..Len(e.ser.ig) : ~e.ser.ig[i].ok /\ ~e.ser.ig[i].panic /\ e.ser.ig[i].ekind # "alloc"
                THEN {"deserializer-cannot-ignore-this-shape"} ELSE {}
      drift3 == IF e.entry = "datum" /\ e.outcome = "ok" /\ ~e.heavy
                   /\ LET P == Parse(e.bytes, 1, e.s, Defs(e.s)) IN ~P.ok /\ P.why = "uuidtext" /\ Conforms(e.gen.v, e.s, Defs(e.s))
                THEN {"lenient-uuid-text-accepted"} ELSE {}
  IN [fail |-> fail, known |-> {}, drift |-> drift \cup drift2 \cup drift3]

Init == l = 1
Next == /\ l <= Len(Rec)
        /\ LET e == Rec[l]  r == Judge(e) IN
             IF r.fail = {} /\ r.drift = {} /\ r.known = {} THEN TRUE
             ELSE PrintT("VERDICT " \o ToJson([id |-> e.id, fail |-> r.fail, known |-> r.known, drift |-> r.drift]))
        /\ l' = l + 1

Consumed == IF TLCGet("stats").diameter = Len(Rec) + 1 THEN PrintT("CONSUMED " \o ToString(Len(Rec)))
            ELSE PrintT("UNCONSUMED " \o ToString(TLCGet("stats").diameter)) /\ FALSE
=============================================================================
