---------------------------- MODULE ReaderSession ----------------------------
(***************************************************************************)
(* A session with the container Reader over a damaged file (C14): the      *)
(* caller opens the file, polls the iterator as often as it likes - also   *)
(* after it has reported an error or the end - and may convert the reader  *)
(* into the deserializing iterator (into_deser_iter) at any point, also    *)
(* after an error.  The transitions are those of ReaderFn.tla.             *)
(*                                                                         *)
(* TLC explores every damage (every cut offset, every marker occurrence)   *)
(* of the constant file x every session shape (number of polls, position   *)
(* of the conversion) and checks what C14 promises on the design:          *)
(*   OnlyVerified     every delivered object comes from a block that lies  *)
(*                    completely before the damage (marker compared)       *)
(*   TruePrefix       the delivered objects are, in order, the first ones  *)
(*                    of the expected sequence                             *)
(*   NothingAfterError after an error result nothing but "end" follows,    *)
(*                    whichever iterator is used afterwards                *)
(*   EndMeansAll      "end" without an error => every expected object was  *)
(*                    delivered and the damage is not one that must be     *)
(*                    reported                                             *)
(*   ErrorReported    a session polled to quiescence has seen an error     *)
(*                    iff the damage must be reported                      *)
(* The defect classes (constants) must each produce a counterexample.      *)
(***************************************************************************)
EXTENDS ReaderFn, FiniteSets, TLC

CONSTANTS File,                \* the file description F
          MaxPolls,            \* bound on polls per session
          LatchPerIterator,    \* defect class: ReaderDeser keeps its own latch
          EmptyBlockEnds       \* defect class: a block without objects ends the iteration (code before d6e6f25)

VARIABLES dmg, st, s, results, switched
vars == <<dmg, st, s, results, switched>>

Damages == {[cut |-> k, corrupt |-> NoCorrupt, magic |-> FALSE] : k \in 0..FileLen(File)}
           \cup {[cut |-> FileLen(File), corrupt |-> b, magic |-> FALSE] : b \in 0..Len(File.blocks)}
           \cup {[cut |-> FileLen(File), corrupt |-> NoCorrupt, magic |-> TRUE]}

Init == /\ dmg \in Damages /\ st = "fresh" /\ s = Opened(File) /\ results = <<>> /\ switched = FALSE

DoOpen == /\ st = "fresh"
          /\ st' = IF OpenOk(File, dmg) THEN "open" ELSE "open-failed"
          /\ UNCHANGED <<dmg, s, results, switched>>

DoPoll == /\ st = "open" /\ Len(results) < MaxPolls
          /\ LET r == Poll(File, dmg, s, EmptyBlockEnds, Len(File.blocks) + 1) IN
               /\ s' = r.s
               /\ results' = Append(results, [res |-> r.res, blk |-> r.blk, idx |-> r.idx, verified |-> r.verified, mode |-> s.mode])
          /\ UNCHANGED <<dmg, st, switched>>

DoSwitch == /\ st = "open" /\ ~switched
            /\ s' = Switch(s, LatchPerIterator) /\ switched' = TRUE
            /\ UNCHANGED <<dmg, st, results>>

Next == DoOpen \/ DoPoll \/ DoSwitch
Spec == Init /\ [][Next]_vars /\ WF_vars(DoOpen) /\ WF_vars(DoPoll)

(* ---- C14 on the design ---- *)
Items == SelectSeq(results, LAMBDA r : r.res = "item")
ErrAt == {n \in 1..Len(results) : results[n].res = "err"}
(* position of object (blk, idx) in the intact sequence *)
Ordinal(r) == ItemsUpTo(File, r.blk - 1) + r.idx

OpenIffHeaderComplete == st # "fresh" => (st = "open" <=> (~dmg.magic /\ dmg.cut >= File.H))
OnlyVerified == \A n \in 1..Len(Items) : Items[n].verified /\ Items[n].blk \in GoodBlocks(File, dmg)
TruePrefix == /\ \A n \in 1..Len(Items) : Ordinal(Items[n]) = n
              /\ Len(Items) <= ExpectedItems(File, dmg)
NothingAfterError == \A n \in ErrAt : \A m \in (n + 1)..Len(results) : results[m].res = "end"
EndMeansAll == \A n \in 1..Len(results) :
                 (results[n].res = "end" /\ \A m \in 1..n : results[m].res # "err")
                 => /\ Cardinality({m \in 1..n : results[m].res = "item"}) = ExpectedItems(File, dmg)
                    /\ ~MustError(File, dmg)
ErrorReported == \A n \in ErrAt : MustError(File, dmg)
(* liveness: polling reaches "end" (every session is finite) *)
Quiesces == st = "open" ~> (Len(results) = MaxPolls \/ (results # <<>> /\ results[Len(results)].res = "end"))
=============================================================================
