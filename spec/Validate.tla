------------------------------ MODULE Validate ------------------------------
(***************************************************************************)
(* Lenient values and what they denote (property C07).                     *)
(*                                                                         *)
(* Validation accepts values that are not in the schema's canonical        *)
(* representation (a bare value in a union-typed position, a string for an *)
(* enum, int for long, float for double, a map for a record, bytes for     *)
(* fixed/decimal, a record with a nullable field left out, ...).  The spec *)
(* does not prescribe WHAT validation accepts; it fixes what an accepted   *)
(* value MEANS:  Denotes(v, d, s)  -- the canonical value d of schema s is *)
(* a reading of the lenient value v -- and therefore which bytes a         *)
(* validating writer may emit for it.                                      *)
(***************************************************************************)
EXTENDS Universe

(***************************************************************************)
(* IEEE-754 widening binary32 -> binary64 on bit patterns (exact).         *)
(***************************************************************************)
F32Bits(le4) == [i \in 1..32 |-> BitLE(le4, i - 1)]            \* index 1 = bit 0
F32Exp(b) == b[24] + 2*b[25] + 4*b[26] + 8*b[27] + 16*b[28] + 32*b[29] + 64*b[30] + 128*b[31]
F32MantZero(b) == \A i \in 1..23 : b[i] = 0
(* position (1..23) of the highest set mantissa bit of a subnormal *)
F32TopMant(b) == CHOOSE i \in 1..23 : b[i] = 1 /\ \A j \in (i+1)..23 : b[j] = 0

ExpBits11(e) == [i \in 1..11 |-> (e \div (2^(i - 1))) % 2]

F32ToF64(le4) ==
  LET b == F32Bits(le4)
      s == b[32]
      e == F32Exp(b)
      \* 64-bit layout: bits 1..52 mantissa, 53..63 exponent, 64 sign
      mk(e11, mant52) == BitsToLE([i \in 1..64 |-> IF i <= 52 THEN mant52[i]
                                                    ELSE IF i <= 63 THEN e11[i - 52] ELSE s], 8)
      mantShift == [i \in 1..52 |-> IF i >= 30 THEN b[i - 29] ELSE 0]
  IN IF e = 255 THEN mk(ExpBits11(2047), mantShift)                       \* inf / NaN (payload kept, shifted)
     ELSE IF e = 0 THEN
        IF F32MantZero(b) THEN mk(ExpBits11(0), [i \in 1..52 |-> 0])      \* signed zero
        ELSE LET t == F32TopMant(b)                                        \* subnormal: value = m * 2^-149
                 \* normalised: 1.xxx * 2^(t - 1 - 149); exponent field = t - 150 + 1023
                 e64 == t + 873
                 \* mantissa bits below the top bit, left-aligned into 52 bits
                 m == [i \in 1..52 |-> LET src == i - (52 - (t - 1)) IN IF src >= 1 /\ src <= t - 1 THEN b[src] ELSE 0]
             IN mk(ExpBits11(e64), m)
     ELSE mk(ExpBits11(e + 896), mantShift)

IsNaN32(le4) == LET b == F32Bits(le4) IN F32Exp(b) = 255 /\ ~F32MantZero(b)
IsNaN64(le8) == (le8[8] % 128) = 127 /\ le8[7] >= 240
                /\ ~(le8[7] = 240 /\ le8[6] = 0 /\ le8[5] = 0 /\ le8[4] = 0 /\ le8[3] = 0 /\ le8[2] = 0 /\ le8[1] = 0)

ASSUME F32ToF64(<<0, 0, 128, 63>>) = <<0, 0, 0, 0, 0, 0, 240, 63>>                 \* 1.0
ASSUME F32ToF64(<<0, 0, 0, 128>>) = <<0, 0, 0, 0, 0, 0, 0, 128>>                   \* -0.0
ASSUME F32ToF64(<<0, 0, 128, 127>>) = <<0, 0, 0, 0, 0, 0, 240, 127>>               \* +inf
ASSUME F32ToF64(<<0, 0, 247, 194>>) = <<0, 0, 0, 0, 0, 224, 94, 192>>              \* -123.5
ASSUME F32ToF64(<<1, 0, 0, 0>>) = <<0, 0, 0, 0, 0, 0, 160, 54>>                    \* 2^-149
ASSUME F32ToF64(<<255, 255, 127, 127>>) = <<0, 0, 0, 224, 255, 255, 239, 71>>      \* f32::MAX
ASSUME F32ToF64(<<0, 0, 192, 127>>) = <<0, 0, 0, 0, 0, 0, 248, 127>>               \* quiet NaN

(***************************************************************************)
(* TLA+ strings are atomic: the UTF-8 bytes of the (few) names and symbols *)
(* that can occur where a string/map key stands for a name.                *)
(***************************************************************************)
NameUtf8(n) ==
  CASE n = "A" -> <<65>> [] n = "B" -> <<66>> [] n = "C" -> <<67>>
    [] n = "a" -> <<97>> [] n = "b" -> <<98>> [] n = "v" -> <<118>> [] n = "i" -> <<105>> [] n = "j" -> <<106>>
    [] n = "x" -> <<120>> [] n = "f" -> <<102>> [] n = "g" -> <<103>> [] n = "m" -> <<109>>
    [] n = "next" -> <<110, 101, 120, 116>> [] n = "kids" -> <<107, 105, 100, 115>>
    [] n = "S0" -> <<83, 48>> [] n = "S1" -> <<83, 49>> [] n = "S2" -> <<83, 50>> [] n = "S3" -> <<83, 51>>
    [] n = "L" -> <<76>> [] n = "M" -> <<77>>
    [] n = "f0" -> <<102, 48>> [] n = "f1" -> <<102, 49>> [] n = "f2" -> <<102, 50>>
    [] OTHER -> <<0>>

(***************************************************************************)
(* Denotes(v, d, s, env): canonical d (Conforms(d, s) is checked           *)
(* separately) is a reading of the lenient value v.                        *)
(***************************************************************************)
NullIndex(s) == IF \E i \in 1..Len(s.branches) : s.branches[i].k = "null"
                THEN (CHOOSE i \in 1..Len(s.branches) : s.branches[i].k = "null"
                                                        /\ \A j \in 1..(i-1) : s.branches[j].k # "null") - 1
                ELSE 99
IsNullable(s, env) == LET x == Deref(s, env) IN x.k = "null" \/ (x.k = "union" /\ NullIndex(x) = 0)
(* the crate calls a field nullable when its schema is null or a union whose FIRST branch is null *)

RECURSIVE Denotes(_, _, _, _)
Denotes(v, d, s0, env) ==
  LET s == Deref(s0, env) IN
  CASE s.k = "union" ->
         /\ d.t = "union" /\ d.i < Len(s.branches)
         /\ IF v.t = "union" THEN v.i = d.i /\ Denotes(v.v, d.v, s.branches[d.i + 1], env)
            ELSE Denotes(v, d.v, s.branches[d.i + 1], env)
    [] v.t = "union" -> FALSE
    [] s.k = "null" -> v.t = "null" /\ d.t = "null"
    [] s.k = "boolean" -> v.t = "boolean" /\ d = v
    [] s.k \in IntKinds -> d.t = s.k /\ v.t \in IntKinds /\ v.n = d.n
    [] s.k \in LongKinds -> d.t = s.k /\ v.t \in IntKinds \cup LongKinds /\ v.n = d.n
    [] s.k = "float" -> v.t = "float" /\ d = v
    [] s.k = "double" -> d.t = "double" /\ ((v.t = "double" /\ d.bits = v.bits)
                                            \/ (v.t = "float" /\ d.bits = F32ToF64(v.bits))
                                            \* widening a NaN may quiet it / change the payload (hardware dependent)
                                            \/ (v.t = "float" /\ IsNaN32(v.bits) /\ IsNaN64(d.bits)))
    [] s.k = "bytes" -> v.t = "bytes" /\ d = v
    [] s.k = "string" -> v.t = "string" /\ d = v
    [] s.k = "fixed" -> d.t = "fixed" /\ v.t \in {"fixed", "bytes"} /\ v.b = d.b
    [] s.k = "enum" -> d.t = "enum" /\ ((v.t = "enum" /\ v.i = d.i /\ v.sym = d.sym)
                                         \/ (v.t = "string" /\ v.b = NameUtf8(d.sym)))
    [] s.k = "array" -> v.t = "array" /\ d.t = "array" /\ Len(v.items) = Len(d.items)
                        /\ \A i \in 1..Len(v.items) : Denotes(v.items[i], d.items[i], s.items, env)
    [] s.k = "map" -> /\ v.t = "map" /\ d.t = "map" /\ Len(v.entries) = Len(d.entries)
                      /\ \A i \in 1..Len(v.entries) : \E j \in 1..Len(d.entries) :
                            v.entries[i][1] = d.entries[j][1]
                            /\ Denotes(v.entries[i][2], d.entries[j][2], s.values, env)
    [] s.k = "record" ->
         /\ d.t = "record" /\ Len(d.fields) = Len(s.fields)
         /\ \/ /\ v.t = "record"
               /\ \A i \in 1..Len(v.fields) : \E j \in 1..Len(s.fields) : v.fields[i][1] = s.fields[j].name
               /\ \A j \in 1..Len(s.fields) :
                    LET hits == {i \in 1..Len(v.fields) : v.fields[i][1] = s.fields[j].name} IN
                    IF hits = {} THEN IsNullable(s.fields[j].type, env)
                                      /\ (d.fields[j][2].t = "null"
                                          \/ (d.fields[j][2].t = "union" /\ d.fields[j][2].v.t = "null"))
                    ELSE \E i \in hits : Denotes(v.fields[i][2], d.fields[j][2], s.fields[j].type, env)
            \/ /\ v.t = "map"
               /\ \A j \in 1..Len(s.fields) :
                    LET hits == {i \in 1..Len(v.entries) : v.entries[i][1] = NameUtf8(s.fields[j].name)} IN
                    IF hits = {} THEN IsNullable(s.fields[j].type, env)
                                      /\ (d.fields[j][2].t = "null"
                                          \/ (d.fields[j][2].t = "union" /\ d.fields[j][2].v.t = "null"))
                    ELSE \E i \in hits : Denotes(v.entries[i][2], d.fields[j][2], s.fields[j].type, env)
    [] s.k = "decimal" -> d.t = "decimal" /\ v.t \in {"decimal", "bytes", "fixed"} /\ BENumEq(v.b, d.b)
    [] s.k = "uuid" -> d.t = "uuid" /\ ((v.t \in {"uuid", "bytes", "fixed"} /\ v.b = d.b)
                                         \/ (v.t = "string" /\ IsCanonUuidText(v.b) /\ UuidOfText(v.b) = d.b))
    [] s.k = "duration" -> d.t = "duration" /\ v.t \in {"duration", "fixed"} /\ v.b = d.b
    [] s.k = "big-decimal" -> v.t = "big-decimal" /\ VEq(v, d)
    [] OTHER -> FALSE

(***************************************************************************)
(* Perturbation actions: from a canonical value to accepted-but-lenient    *)
(* forms and to near-miss forms.  Each result is [kind, v].                *)
(***************************************************************************)
P(kind, v) == [kind |-> kind, v |-> v]

AtRoot(v, s0, env) ==
  LET s == Deref(s0, env) IN
  CASE s.k = "union" ->
         {P("UnwrapUnion", v.v)}
         \cup {P("WrongBranchIndex", [v EXCEPT !.i = (v.i + 1) % Len(s.branches)])}
         \cup {P("BranchIndexOutOfRange", [v EXCEPT !.i = Len(s.branches)])}
         \cup {P("NoMatchingBranch", [t |-> "duration", b |-> <<1,0,0,0, 2,0,0,0, 3,0,0,0>>])}
    [] s.k = "enum" ->
         {P("EnumAsString", [t |-> "string", b |-> NameUtf8(v.sym)]),
          P("UnknownSymbolString", [t |-> "string", b |-> <<90>>]),
          P("IndexSymbolMismatch", [v EXCEPT !.sym = "Zed"]),
          P("EnumIndexOutOfRange", [t |-> "enum", i |-> Len(s.symbols) + 4, sym |-> "Zed"])}
    [] s.k \in LongKinds -> {P("IntForLong", [t |-> "int", n |-> NatToLE8(64)]),
                             P("StringForLong", [t |-> "string", b |-> <<49>>])}
    [] s.k \in IntKinds \ {"int"} -> {P("IntForLogicalInt", [t |-> "int", n |-> v.n])}
    [] s.k = "int" -> {P("LongForInt", [t |-> "long", n |-> v.n])}
    [] s.k = "double" -> {P("FloatForDouble", [t |-> "float", bits |-> x]) : x \in {<<0,0,247,194>>, <<1,0,0,0>>, <<0,0,192,127>>}}
                         \cup {P("IntForDouble", [t |-> "int", n |-> NatToLE8(1)])}
    [] s.k = "float" -> {P("DoubleForFloat", [t |-> "double", bits |-> <<0,0,0,0,0,0,240,63>>])}
    [] s.k = "fixed" -> {P("BytesForFixed", [t |-> "bytes", b |-> v.b]),
                         P("WrongFixedSize", [t |-> "fixed", b |-> v.b \o <<7>>]),
                         P("WrongBytesSizeForFixed", [t |-> "bytes", b |-> v.b \o <<7>>])}
    [] s.k = "bytes" -> {P("StringForBytes", [t |-> "string", b |-> v.b]), P("FixedForBytes", [t |-> "fixed", b |-> v.b])}
    [] s.k = "string" -> {P("BytesForString", [t |-> "bytes", b |-> v.b])}
    [] s.k = "decimal" -> {P("BytesForDecimal", [t |-> "bytes", b |-> v.b]),
                           P("FixedForDecimal", [t |-> "fixed", b |-> v.b]),
                           P("FixedTooLongForDecimal", [t |-> "fixed", b |-> <<0, 0, 0>> \o v.b])}
    [] s.k = "uuid" -> {P("StringForUuid", [t |-> "string", b |-> UuidText(v.b)]),
                        P("BytesForUuid", [t |-> "bytes", b |-> v.b]),
                        P("FixedForUuid", [t |-> "fixed", b |-> v.b]),
                        P("ShortBytesForUuid", [t |-> "bytes", b |-> <<1, 2, 3>>]),
                        P("GarbageStringForUuid", [t |-> "string", b |-> [i \in 1..36 |-> 122]])}
    [] s.k = "duration" -> {P("FixedForDuration", [t |-> "fixed", b |-> v.b]),
                            P("ShortFixedForDuration", [t |-> "fixed", b |-> <<1, 2>>])}
    [] s.k = "record" ->
         {P("MapForRecord", [t |-> "map", entries |-> [i \in 1..Len(v.fields) |-> <<NameUtf8(v.fields[i][1]), v.fields[i][2]>>]])}
         \cup {P("ReorderFields", [v EXCEPT !.fields = Reverse(v.fields)])}
         \cup {P("ExtraField", [v EXCEPT !.fields = Append(v.fields, <<"zzz", [t |-> "null"]>>)])}
         \cup {P("DropField", [v EXCEPT !.fields = SubSeq(v.fields, 1, i - 1) \o SubSeq(v.fields, i + 1, Len(v.fields))])
                 : i \in 1..Len(v.fields)}
         \cup {P("RenameField", [v EXCEPT !.fields[i] = <<"zzz", v.fields[i][2]>>]) : i \in 1..Len(v.fields)}
    [] s.k = "array" ->
         {P("MapForArray", [t |-> "map", entries |-> <<>>])}
         \cup (IF Len(v.items) > 0 /\ \A i \in 1..Len(v.items) : v.items[i].t = "union"
               THEN {P("UnwrapAllItems", [v EXCEPT !.items = [i \in 1..Len(v.items) |-> v.items[i].v]])} ELSE {})
    [] s.k = "map" ->
         {P("ArrayForMap", [t |-> "array", items |-> <<>>])}
         \cup (IF Len(v.entries) > 0 /\ \A i \in 1..Len(v.entries) : v.entries[i][2].t = "union"
               THEN {P("UnwrapAllValues", [v EXCEPT !.entries = [i \in 1..Len(v.entries) |-> <<v.entries[i][1], v.entries[i][2].v>>]])} ELSE {})
    [] s.k = "boolean" -> {P("IntForBoolean", [t |-> "int", n |-> NatToLE8(1)])}
    [] s.k = "null" -> {P("BooleanForNull", [t |-> "boolean", bool |-> FALSE])}
    [] OTHER -> {}

(* one perturbation anywhere: at the root, or inside exactly one child *)
RECURSIVE Variants(_, _, _, _)
Variants(v, s0, env, depth) ==
  LET s == Deref(s0, env) IN
  AtRoot(v, s0, env)
  \cup (IF depth = 0 THEN {} ELSE
        CASE s.k = "union" /\ v.t = "union" ->
               {P(p.kind, [v EXCEPT !.v = p.v]) : p \in Variants(v.v, s.branches[v.i + 1], env, depth - 1)}
          [] s.k = "array" /\ Len(v.items) > 0 ->
               {P(p.kind, [v EXCEPT !.items[1] = p.v]) : p \in Variants(v.items[1], s.items, env, depth - 1)}
          [] s.k = "map" /\ Len(v.entries) > 0 ->
               {P(p.kind, [v EXCEPT !.entries[1] = <<v.entries[1][1], p.v>>]) :
                   p \in Variants(v.entries[1][2], s.values, env, depth - 1)}
          [] s.k = "record" ->
               UNION {{P(p.kind, [v EXCEPT !.fields[i] = <<v.fields[i][1], p.v>>]) :
                          p \in Variants(v.fields[i][2], s.fields[i].type, env, depth - 1)}
                      : i \in 1..Len(v.fields)}
          [] OTHER -> {})
=============================================================================
