INIT Init
NEXT Next
INVARIANT CountIsBytes
INVARIANT Conservation
INVARIANT BufferBelowTarget
INVARIANT Done
INVARIANT IsLegalLayout
CHECK_DEADLOCK FALSE
