-------------------------- MODULE MC_ReaderSession --------------------------
EXTENDS ReaderSession
(* block shapes: count varints of one and two bytes, a block without objects in the middle, a last block of one *)
MCFile == [H |-> 9, blocks |-> << [count |-> 2, cbytes |-> 1, rest |-> 20], [count |-> 3, cbytes |-> 2, rest |-> 18],
                                 [count |-> 0, cbytes |-> 1, rest |-> 17], [count |-> 1, cbytes |-> 1, rest |-> 19] >>]
=============================================================================
