---------------------------- MODULE MC_DeriveCtx ----------------------------
(***************************************************************************)
(* The context machine over every valid graph of <= 3 named record types   *)
(* (root: <= 2 edges, second type: <= 2, third: <= 1; edge modes plain /   *)
(* Option<Box<_>> / flatten / probe): chains, diamonds, self and mutual    *)
(* recursion, flatten of a type that is also used as a field.  Binds the   *)
(* machine to the function form of DeriveModel (ExpectedSchema of the      *)
(* concrete definitions the graph stands for) and emits a slice of the     *)
(* graphs as concrete scenarios for the generated corpus.                  *)
(***************************************************************************)
EXTENDS DeriveModel, Json

CONSTANTS Slices, Pick,      \* emit the graphs whose code is = Pick modulo Slices
          MaxE2              \* bound on the edges of the second type

VARIABLES G, named, doc, stack, done

NT == 3
M == INSTANCE DeriveCtx WITH N <- NT

EdgeSet == {[to |-> t, m |-> m] : t \in 1..NT, m \in {"plain", "opt", "flatten", "probe"}}
EdgeSeqs(n) == UNION {[1..k -> EdgeSet] : k \in 0..n}

Init == /\ G \in {g \in [1..NT -> EdgeSeqs(2)] : Len(g[2]) <= MaxE2 /\ Len(g[3]) <= 1 /\ M!ValidGraph(g)}
        /\ M!InitWalk
Next == M!Next /\ UNCHANGED G

TypeOK == M!TypeOK
DefinedAtMostOnce == M!DefinedAtMostOnce
RefsPointBackwards == M!RefsPointBackwards
Finished == M!Finished

(* ---- the concrete definitions a graph stands for ---- *)
TName(t) == "T" \o ToString(t)
(* field names stay distinct after flattening: every type has its own words *)
EdgeWord == << <<"left", "right">>, <<"one", "two">>, <<"item", "kids">> >>
FieldOfEdge(t, e, k) ==
  CASE e.m = "plain" -> Fld0(<<EdgeWord[t][k]>>, FNamed(TName(e.to)))
    [] e.m = "opt" -> Fld0(<<EdgeWord[t][k]>>, FOpt(FBox(FNamed(TName(e.to)))))
    [] e.m \in {"flatten", "probe"} -> [Fld0(<<EdgeWord[t][k]>>, FNamed(TName(e.to))) EXCEPT !.flatten = TRUE]
(* field names must stay distinct after flattening: type t's own scalar field is x<t> *)
XWord == <<"x", "y", "z42">>
DefsOfGraph(g) ==
  [t \in 1..NT |-> StructD(TName(t), <<Fld0(<<XWord[t]>>, FS("i32"))>> \o [k \in 1..Len(g[t]) |-> FieldOfEdge(t, g[t][k], k)])]

HasProbe(g) == \E t \in 1..NT : \E i \in 1..Len(g[t]) : g[t][i].m = "probe"
MachineMatchesFunction ==
  (done /\ ~HasProbe(G)) =>
     LET q == DocOrder(ExpectedSchema(DefsOfGraph(G), TName(1))) IN
     q = [j \in 1..Len(doc) |-> <<doc[j][1], TName(doc[j][2])>>]

(* ---- emission ---- *)
ModeCode(m) == CASE m = "plain" -> 1 [] m = "opt" -> 2 [] m = "flatten" -> 3 [] m = "probe" -> 4
RECURSIVE CodeOf(_, _)
CodeOf(q, i) == IF i > Len(q) THEN 0 ELSE (5 * q[i].to + ModeCode(q[i].m)) * i + CodeOf(q, i + 1)
GraphCode(g) == CodeOf(g[1], 1) + 7 * CodeOf(g[2], 1) + 13 * CodeOf(g[3], 1)

RECURSIVE TakeSome(_, _)
TakeSome(S, n) == IF n = 0 \/ S = {} THEN <<>> ELSE LET x == CHOOSE y \in S : TRUE IN <<x>> \o TakeSome(S \ {x}, n - 1)

EmitGraph ==
  IF done /\ ~HasProbe(G) /\ GraphCode(G) % Slices = Pick
  THEN LET defs == DefsOfGraph(G)
           ty == TyOf(defs, FNamed(TName(1)), <<>>) IN
       PrintT("SCN " \o ToJson([defs |-> defs, root |-> TName(1), grp |-> "CTX", exp |-> ExpectedSchema(defs, TName(1)),
                                 vals |-> TakeSome(TermsOf(ty, FALSE), 3)]))
  ELSE TRUE
=============================================================================
