SPECIFICATION Spec
CONSTANT Mode = "faithful"
CONSTANT K = 4
CONSTANT KW = 3
CONSTANT KB = 2
CONSTANT EmitScn = TRUE
INVARIANT InputOrderPreserved
INVARIANT ResultIsMeaning
CHECK_DEADLOCK FALSE
