SPECIFICATION Spec
CONSTANTS
  Datums = {"d1", "d2", "d3"}
  MaxOps = 5
  AllowSkipTruncate = FALSE
INVARIANT BufferIsHeaderBetweenCalls
INVARIANT EveryMessageIsHeaderThenOneDatum
CHECK_DEADLOCK FALSE
