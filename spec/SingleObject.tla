----------------------------- MODULE SingleObject -----------------------------
(***************************************************************************)
(* Single-object encoding (C18): one writer instance used for a sequence   *)
(* of messages.  The generic writer keeps a reusable buffer that holds the *)
(* header between calls (avro/src/writer/single_object.rs):                *)
(*                                                                         *)
(*   buffer   what the reusable buffer holds (header token, datum tokens)  *)
(*   out      messages that reached sinks, one entry per successful call   *)
(*                                                                         *)
(* Datums are abstract ids; the header is the token "H".  Every call       *)
(* appends the datum behind the header, hands the whole buffer to the sink *)
(* with write_all, and truncates back to the header - on EVERY exit path.  *)
(* SkipTruncate models the defect class (an early return that leaves the   *)
(* datum in the buffer); it is not part of Next and is only enabled in the *)
(* configuration that must exhibit the counterexample.                     *)
(***************************************************************************)
EXTENDS Naturals, Sequences, TLC

CONSTANTS Datums, MaxOps, AllowSkipTruncate

VARIABLES buffer, out, nops, last
vars == <<buffer, out, nops, last>>

Header == <<"H">>
Init == buffer = Header /\ out = <<>> /\ nops = 0 /\ last = "init"

Step(name) == nops < MaxOps /\ nops' = nops + 1 /\ last' = name

(* validation ok, encoding ok, sink accepts everything *)
WriteOk(d) == /\ Step("ok")
              /\ out' = Append(out, buffer \o <<d>>)
              /\ buffer' = Header
(* validation rejects the value: nothing is encoded *)
WriteRejected == Step("rejected") /\ UNCHANGED <<buffer, out>>
(* the datum is encoded into the buffer, then the sink fails: the buffer must still be restored *)
WriteSinkFails(d) == Step("sinkfail") /\ buffer' = Header /\ UNCHANGED out
(* defect class: the datum stays in the buffer after a failure *)
SkipTruncate(d) == AllowSkipTruncate /\ Step("sinkfail-notrunc") /\ buffer' = buffer \o <<d>> /\ UNCHANGED out

Next == (\E d \in Datums : WriteOk(d) \/ WriteSinkFails(d) \/ SkipTruncate(d)) \/ WriteRejected
Spec == Init /\ [][Next]_vars

BufferIsHeaderBetweenCalls == buffer = Header
EveryMessageIsHeaderThenOneDatum == \A i \in 1..Len(out) : Len(out[i]) = 2 /\ out[i][1] = "H" /\ out[i][2] \in Datums
=============================================================================
