SPECIFICATION Spec
CONSTANT Tier = "quick"
INVARIANT CanonicalDenotesItself
CHECK_DEADLOCK FALSE
