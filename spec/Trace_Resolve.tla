--------------------------- MODULE Trace_Resolve ---------------------------
(***************************************************************************)
(* Judges recorded reads with a reader schema (harness `avh_c08 run`).     *)
(* One ndjson line = one (W, R, hist) pair with one case per written value:*)
(* the value, and for each of the three entry points (dr = datum reader    *)
(* with reader_schema, cr = container Reader with reader_schema, vr =      *)
(* Value::resolve on the decoded value) the delivered value or error, the  *)
(* outcome of Value::validate against R and of resolving the result again. *)
(*                                                                         *)
(* Verdict layer (property C08), per entry point X:                        *)
(*   C08:result-X        delivered = Res(W, R, v) under some reading of    *)
(*                       the grey zones (values by REq; Err <=> any error) *)
(*   C08:validates-X     a delivered value validates against R             *)
(*   C08:idempotent-X    resolving the delivered value with R again gives  *)
(*                       the same value                                    *)
(*   C08:entry-points-agree   the three deliver the same                   *)
(*   C08:panic           no entry point panics                             *)
(* A failed clause is moved to `known` iff the observation is EXACTLY what *)
(* Res predicts with a minimal set of named deviations (known findings)    *)
(* enabled; anything else stays a failure.                                 *)
(***************************************************************************)
EXTENDS Resolve, AvroBinary, Known, Json, IOUtils

Rec == ndJsonDeserialize(IOEnv.TRACE)
VARIABLE l

KnownC08 == AllDevs \cap KnownIds
Xs == {"dr", "cr", "vr"}
XName(x) == CASE x = "dr" -> "datum" [] x = "cr" -> "container" [] OTHER -> "value"


(* the smallest sets of enabled deviations under which `pred` holds: singletons, then pairs, then all *)
Explain(pred(_)) ==
  LET one == {d \in KnownC08 : pred({d})} IN
  IF one # {} THEN {CHOOSE d \in one : TRUE}
  ELSE LET two == {D \in SUBSET KnownC08 : Cardinality(D) = 2 /\ pred(D)} IN
       IF two # {} THEN CHOOSE D \in two : TRUE
       ELSE IF KnownC08 # {} /\ pred(KnownC08) THEN KnownC08 ELSE {}

(* The container Reader hands the READER schema to the block decoder as "schemata": references inside the   *)
(* writer's schema are then decoded with the READER's definition of that name (inline definitions keep the *)
(* writer's).  The deviant outcome is computed exactly: decode the written bytes with that hybrid, resolve.  *)
DevContainer == "C08-container-decodes-refs-with-reader-defs"
\* a name the reader does not define is an unresolved reference there: modelled by a type no input can satisfy
Unresolvable(n) == [k |-> "fixed", name |-> n, size |-> 1000000]
Hybrid(ew, er) == [n \in DOMAIN ew |-> IF n \in DOMAIN er THEN er[n] ELSE Unresolvable(n)]
ContainerDeviant(e, pr, eh, er, D, p) ==          \* pr = the written bytes decoded with the hybrid environment eh
  IF ~pr.ok THEN Err ELSE Res(e.W, e.R, pr.v, eh, er, D, p)
(* with deviations enabled only the reading of union defaults is still open (first branch / first fitting branch) *)
DevPols == {StdPolicy, FitPolicy}

JudgeCase(e, c, ew, er) ==
  IF ~Conforms(c.v, e.W, ew) THEN [fail |-> {"TOOL:value-not-conforming"}, known |-> {}, drift |-> {}]
  ELSE IF ~c.enc_ok THEN [fail |-> {}, known |-> {}, drift |-> {"writer-refused-conforming-value"}]
  ELSE
  LET Out(o) == IF o.ok THEN c.terms[o.ti] ELSE Err          \* result terms are stored once each in c.terms
      Same(a, b) == a.ok = b.ok /\ a.ti = b.ti                 \* the very same recorded term (or both errors)
      std == Res(e.W, e.R, c.v, ew, er, {}, StdPolicy)
      Clean(out) == REq(out, std) \/ \E p \in Policies \ {StdPolicy} : REq(out, Res(e.W, e.R, c.v, ew, er, {}, p))
      \* explanation of an entry point's result by deviations ({} = none found)
      hyb == Hybrid(ew, er)
      pr == Parse(Enc(c.v, e.W, ew), 1, e.W, hyb)              \* evaluated at most once per case
      ContBy(out) ==                                            \* explanation through the container reader's deviation
        IF DevContainer \notin KnownIds \/ DOMAIN ew = {} THEN {}
        ELSE IF \E p \in DevPols : REq(out, ContainerDeviant(e, pr, hyb, er, {}, p)) THEN {DevContainer}
        ELSE IF ~pr.ok THEN {}
        ELSE LET more == Explain(LAMBDA D : \E p \in DevPols : REq(out, ContainerDeviant(e, pr, hyb, er, D, p))) IN
             IF more = {} THEN {} ELSE more \cup {DevContainer}
      Plain(out) == Explain(LAMBDA D : \E p \in DevPols : REq(out, Res(e.W, e.R, c.v, ew, er, D, p)))
      ResultBy(x, out) ==
        IF x # "cr" THEN Plain(out)
        ELSE \* the container reader: its own deviation alone is tried first (one decode), then the general ones
             IF DevContainer \in KnownIds /\ DOMAIN ew # {} /\ \E p \in DevPols : REq(out, ContainerDeviant(e, pr, hyb, er, {}, p))
             THEN {DevContainer}
             ELSE LET plain == Plain(out) IN IF plain # {} THEN plain ELSE ContBy(out)
      outDr == Out(c.dr)
      cleanDr == Clean(outDr)
      byDr == IF cleanDr THEN {} ELSE ResultBy("dr", outDr)
      PerX(x) ==
        LET o == c[x]  out == Out(o)
            asDr == x # "dr" /\ Same(o, c.dr)
            clean == IF asDr THEN cleanDr ELSE Clean(out)
            by == IF clean THEN {} ELSE IF asDr /\ byDr # {} THEN byDr ELSE ResultBy(x, out)
            ag == c[x \o "_again"]
            again == Out(ag)
            valid == c[x \o "_valid"]
            resFail == ~clean
            valFail == o.ok /\ ~valid
            idemFail == o.ok /\ ~(Same(ag, o) \/ REq(again, out))
            \* a second resolution that departs from the identity may itself be a named deviation at work
            idemBy == IF ~idemFail THEN {}
                      ELSE IF ~clean THEN by
                      ELSE Explain(LAMBDA D : \E p \in DevPols : REq(again, Res(e.R, e.R, out, er, er, D, p)))
            nm == XName(x)
            Attr(failed, clause, D) ==
              IF ~failed THEN [fail |-> {}, known |-> {}]
              ELSE IF D = {} THEN [fail |-> {clause}, known |-> {}]
              ELSE [fail |-> {}, known |-> {d \o "|" \o clause : d \in D}]
            r1 == Attr(resFail, "C08:result-" \o nm, by)
            r2 == Attr(valFail, "C08:validates-" \o nm, IF clean THEN {} ELSE by)
            r3 == Attr(idemFail, "C08:idempotent-" \o nm, idemBy)
        IN [fail |-> r1.fail \cup r2.fail \cup r3.fail \cup (IF o.panic \/ ag.panic THEN {"C08:panic"} ELSE {}),
            known |-> r1.known \cup r2.known \cup r3.known,
            by |-> by]
      px == TLCEval([x \in Xs |-> PerX(x)])
      agree == (Same(c.dr, c.cr) \/ REq(Out(c.dr), Out(c.cr))) /\ (Same(c.dr, c.vr) \/ REq(Out(c.dr), Out(c.vr)))
      \* each result may be acceptable in some reading while the three still differ: the container reader's own
      \* deviation is then looked for explicitly
      contBy == IF agree \/ ~Same(c.dr, c.vr) THEN {} ELSE ContBy(Out(c.cr))
      allBy == UNION {px[x].by : x \in Xs} \cup contBy
      ag == IF agree THEN [fail |-> {}, known |-> {}]
            ELSE IF allBy = {} THEN [fail |-> {"C08:entry-points-agree"}, known |-> {}]
            ELSE [fail |-> {}, known |-> {d \o "|C08:entry-points-agree" : d \in allBy}]
  IN [fail |-> UNION {px[x].fail : x \in Xs} \cup ag.fail,
      known |-> UNION {px[x].known : x \in Xs} \cup ag.known,
      drift |-> {}]

Judge(e) ==
  IF ~e.parse_ok THEN [fail |-> {}, known |-> {}, drift |-> {"schema-not-accepted"}, at |-> {}]
  ELSE
  LET ew == Defs(e.W)  er == Defs(e.R)
      js == TLCEval([i \in 1..Len(e.cases) |-> JudgeCase(e, e.cases[i], ew, er)])
  IN [fail |-> UNION {js[i].fail : i \in 1..Len(js)},
      known |-> UNION {js[i].known : i \in 1..Len(js)},
      drift |-> UNION {js[i].drift : i \in 1..Len(js)},
      at |-> {i - 1 : i \in {j \in 1..Len(js) : js[j].fail # {} \/ js[j].known # {}}}]

Init == l = 1
Next == /\ l <= Len(Rec)
        /\ LET e == Rec[l]  r == Judge(e) IN
             IF r.fail = {} /\ r.drift = {} /\ r.known = {} THEN TRUE
             ELSE PrintT("VERDICT " \o ToJson([id |-> e.id, fail |-> r.fail, known |-> r.known, drift |-> r.drift, at |-> r.at]))
        /\ l' = l + 1

Consumed == IF TLCGet("stats").diameter = Len(Rec) + 1 THEN PrintT("CONSUMED " \o ToString(Len(Rec)))
            ELSE PrintT("UNCONSUMED " \o ToString(TLCGet("stats").diameter)) /\ FALSE
=============================================================================
