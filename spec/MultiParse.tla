---------------------------- MODULE MultiParse ----------------------------
(***************************************************************************)
(* The multi-schema parser (Schema::parse_list, Schema::parse_str_with_list)*)
(* as a state machine, property C20.                                       *)
(*                                                                         *)
(* WRITTEN FORMS (what the user hands in; the harness renders them as Avro *)
(* schema JSON, one JSON document per input):                              *)
(*                                                                         *)
(*  header  [n |-> "A", how |-> "none" | "attr" | "dotted", ns |-> ""|"p"..]*)
(*            none   : {"name":"A"}               namespace inherited       *)
(*            attr   : {"name":"A","namespace":ns}  ("" = explicitly null)  *)
(*            dotted : {"name":"ns.A"}             the name is a full name  *)
(*  def     [k |-> "record", hdr, fields |-> <<type, ..>>]   fields f1, f2..*)
(*          [k |-> "enum",   hdr]                   symbols S0, S1         *)
(*          [k |-> "fixed",  hdr, size |-> z]                              *)
(*          [k |-> "wrap",   hdr, inner |-> def]                           *)
(*             {"name":..,"type":{..inner..}}: an input whose "type" is    *)
(*             itself a definition (the outer name defines nothing)        *)
(*  type    [k |-> "prim", p |-> "int"|..]                                 *)
(*          [k |-> "ref", form |-> "short"|"full"|"abs", ns, n]            *)
(*             "N" | "ns.N" | ".N" (null namespace from inside a namespace)*)
(*          [k |-> "def", d |-> def]               nested definition       *)
(*          [k |-> "array", items |-> type]   [k |-> "opt", t |-> type]    *)
(*                                                  opt = ["null", t]      *)
(*  scenario [form |-> "list" | "with", ins |-> <<def,..>>, main |-> type] *)
(*             list : parse_list(ins)        (main is ignored)             *)
(*             with : parse_str_with_list(main, ins)                       *)
(*                                                                         *)
(* RESULT TERMS are the schema terms of AvroSchema.tla with full names.    *)
(*                                                                         *)
(* The module has three layers:                                            *)
(*  1. the declarative reading (Avro specification, "Names"): Meaning,     *)
(*     definitions and references of an input set, Expect;                 *)
(*  2. the parser as the implementation is structured: pending / resolving *)
(*     / parsed, one PickStep per drained input (the pending set is a hash *)
(*     map: WHICH input is drained next is non-deterministic), the         *)
(*     deterministic descent as operators threading the parser state;      *)
(*     three modes: "faithful" = the implementation as it is now (only     *)
(*     parsed / resolving / pending names are visible to a reference, a    *)
(*     missing result = panic; since fix 59a830b a full name defined twice *)
(*     by one parse is a name collision), "pinned" = the pinned snapshot   *)
(*     494edea (Register overwrites silently, no collision check), and     *)
(*     "intended" (the documented contract: duplicate is an error, every   *)
(*     definition of the set is visible);                                  *)
(*  3. AllOutcomes: every terminal outcome over all pick orders.           *)
(***************************************************************************)
EXTENDS AvroSchema

(* ------------------------------------------------------------------ *)
(* 1. Names (Avro specification, section Names)                        *)
(* ------------------------------------------------------------------ *)
FullName(ns, n) == IF ns = "" THEN n ELSE ns \o "." \o n

(* namespace a definition lives in, given the namespace of the enclosing definition *)
NsOf(h, encl)   == IF h.how = "none" THEN encl ELSE h.ns
NameOf(h, encl) == FullName(NsOf(h, encl), h.n)

(* a reference without a dot is in the namespace of the enclosing definition *)
RefTarget(r, encl) == CASE r.form = "short" -> FullName(encl, r.n)
                        [] r.form = "full"  -> FullName(r.ns, r.n)
                        [] OTHER            -> r.n

(* the specification's own examples: fullname rules *)
ASSUME NameOf([n |-> "X", how |-> "attr", ns |-> "org.foo"], "") = "org.foo.X"
ASSUME NameOf([n |-> "X", how |-> "dotted", ns |-> "org.foo"], "bar") = "org.foo.X"
ASSUME NameOf([n |-> "X", how |-> "none", ns |-> ""], "org.foo") = "org.foo.X"
ASSUME NameOf([n |-> "X", how |-> "attr", ns |-> ""], "org.foo") = "X"
ASSUME RefTarget([k |-> "ref", form |-> "short", ns |-> "", n |-> "Y"], "org.foo") = "org.foo.Y"
ASSUME RefTarget([k |-> "ref", form |-> "full", ns |-> "a", n |-> "Y"], "org.foo") = "a.Y"
ASSUME RefTarget([k |-> "ref", form |-> "abs", ns |-> "", n |-> "Y"], "org.foo") = "Y"

Syms == <<"S0", "S1">>
FieldName(i) == "f" \o ToString(i)
NoTerm  == [k |-> "none"]
RefT(nm) == [k |-> "ref", name |-> nm]

(* ------------------------------------------------------------------ *)
(* Declarative meaning of a written definition / type                  *)
(* ------------------------------------------------------------------ *)
RECURSIVE MeaningDef(_, _), MeaningType(_, _), MeaningFields(_, _, _)
MeaningFields(fs, i, encl) ==
  IF i > Len(fs) THEN <<>>
  ELSE <<[name |-> FieldName(i), type |-> MeaningType(fs[i], encl)]>> \o MeaningFields(fs, i + 1, encl)
MeaningDef(d, encl) ==
  CASE d.k = "wrap"   -> MeaningDef(d.inner, encl)
    [] d.k = "fixed"  -> [k |-> "fixed", name |-> NameOf(d.hdr, encl), size |-> d.size]
    [] d.k = "enum"   -> [k |-> "enum", name |-> NameOf(d.hdr, encl), symbols |-> Syms]
    [] d.k = "record" -> [k |-> "record", name |-> NameOf(d.hdr, encl),
                          fields |-> MeaningFields(d.fields, 1, NsOf(d.hdr, encl))]
MeaningType(t, encl) ==
  CASE t.k = "prim"  -> [k |-> t.p]
    [] t.k = "ref"   -> RefT(RefTarget(t, encl))
    [] t.k = "def"   -> MeaningDef(t.d, encl)
    [] t.k = "array" -> [k |-> "array", items |-> MeaningType(t.items, encl)]
    [] t.k = "opt"   -> [k |-> "union", branches |-> <<[k |-> "null"], MeaningType(t.t, encl)>>]

(* definitions (in document order, with repetitions) and references of a RESULT term *)
RECURSIVE DefSeqOf(_), DefSeqOfFields(_, _), RefsOf(_)
DefSeqOfFields(fs, i) == IF i > Len(fs) THEN <<>> ELSE DefSeqOf(fs[i].type) \o DefSeqOfFields(fs, i + 1)
DefSeqOf(s) ==
  CASE s.k = "record" -> <<s>> \o DefSeqOfFields(s.fields, 1)
    [] s.k \in {"enum", "fixed"} -> <<s>>
    [] s.k = "array" -> DefSeqOf(s.items)
    [] s.k = "union" -> DefSeqOfFields([i \in 1..Len(s.branches) |-> [type |-> s.branches[i]]], 1)
    [] OTHER -> <<>>
RefsOf(s) ==
  CASE s.k = "record" -> UNION {RefsOf(s.fields[i].type) : i \in 1..Len(s.fields)}
    [] s.k = "array" -> RefsOf(s.items)
    [] s.k = "union" -> UNION {RefsOf(s.branches[i]) : i \in 1..Len(s.branches)}
    [] s.k = "ref" -> {s.name}
    [] OTHER -> {}
NamesOfSeq(ds) == TLCEval([i \in 1..Len(ds) |-> ds[i].name])
NoDupSeq(q) == \A i, j \in 1..Len(q) : q[i] = q[j] => i = j

RECURSIVE ConcatAll(_, _)
ConcatAll(qq, i) == IF i > Len(qq) THEN <<>> ELSE qq[i] \o ConcatAll(qq, i + 1)

(* the inputs of a scenario as the specification reads them *)
InMeaning(scn, i) == MeaningDef(scn.ins[i], "")
InDefs(scn, i)    == DefSeqOf(InMeaning(scn, i))          \* first = the input's own definition
InNested(scn, i)  == SeqRange(NamesOfSeq(Tail(InDefs(scn, i))))
MainMeaning(scn)  == IF scn.form = "with" THEN MeaningType(scn.main, "") ELSE NoTerm
MainDefs(scn)     == IF scn.form = "with" THEN DefSeqOf(MainMeaning(scn)) ELSE <<>>
MainRefs(scn)     == IF scn.form = "with" THEN RefsOf(MainMeaning(scn)) ELSE {}
ListDefs(scn)     == ConcatAll([i \in 1..Len(scn.ins) |-> InDefs(scn, i)], 1)
ListRefs(scn)     == UNION {RefsOf(InMeaning(scn, i)) : i \in 1..Len(scn.ins)}
SetDefs(scn)      == ListDefs(scn) \o MainDefs(scn)
SetDefNames(scn)  == NamesOfSeq(SetDefs(scn))

NoDuplicateFullNames(scn) == NoDupSeq(SetDefNames(scn))
AllRefsResolvable(scn)    == (ListRefs(scn) \cup MainRefs(scn)) \subseteq SeqRange(SetDefNames(scn))
ShouldSucceed(scn)        == AllRefsResolvable(scn) /\ NoDuplicateFullNames(scn)

(* ---- what the property leaves open (grey zones: either outcome, but always the same one) ---- *)
HasWrapper(scn) == \E i \in 1..Len(scn.ins) : scn.ins[i].k = "wrap"
(* parse_str_with_list: the list is documented as "additional schemas used to resolve cross-references" *)
(* of the main schema; whether the list may refer to the main schema is not stated                      *)
ListSelfContained(scn) == ListRefs(scn) \subseteq SeqRange(NamesOfSeq(ListDefs(scn)))
(* a name used before its definition INSIDE one document (the specification: defined before use) *)
RECURSIVE FwdIn(_, _), FwdInFields(_, _, _)
(* returns <<names defined so far, forward use seen>> *)
FwdInFields(fs, i, acc) ==
  IF i > Len(fs) THEN acc
  ELSE FwdInFields(fs, i + 1, FwdIn(fs[i].type, acc))
FwdIn(s, acc) ==
  CASE s.k = "record" -> FwdInFields(s.fields, 1, <<acc[1] \cup {s.name}, acc[2], acc[3]>>)
    [] s.k \in {"enum", "fixed"} -> <<acc[1] \cup {s.name}, acc[2], acc[3]>>
    [] s.k = "array" -> FwdIn(s.items, acc)
    [] s.k = "union" -> FwdInFields([i \in 1..Len(s.branches) |-> [type |-> s.branches[i]]], 1, acc)
    [] s.k = "ref" -> <<acc[1], acc[2] \/ (s.name \notin acc[1] /\ s.name \in acc[3]), acc[3]>>
    [] OTHER -> acc
ForwardInDoc(s) == FwdIn(s, <<{}, FALSE, SeqRange(NamesOfSeq(DefSeqOf(s)))>>)[2]
HasForwardInDoc(scn) ==
  \/ \E i \in 1..Len(scn.ins) : ForwardInDoc(InMeaning(scn, i))
  \/ scn.form = "with" /\ ForwardInDoc(MainMeaning(scn))

(* "ok" | "err" | "either" *)
Expect(scn) ==
  IF ~ShouldSucceed(scn) THEN "err"
  ELSE IF HasWrapper(scn) \/ ~ListSelfContained(scn) \/ HasForwardInDoc(scn) THEN "either"
  ELSE "ok"
ExpectedResult(scn) == [i \in 1..Len(scn.ins) |-> InMeaning(scn, i)]

(* ------------------------------------------------------------------ *)
(* 2. The parser                                                       *)
(*                                                                     *)
(* Parser state (one record threaded through the descent):             *)
(*   mode      "faithful" | "pinned" | "intended"                      *)
(*   ins       the inputs (constant)                                   *)
(*   pending   indices of inputs not yet parsed   (input_schemas)      *)
(*   resolving names of records being parsed      (resolving_schemas)  *)
(*   parsed    set of <<name, term>>              (parsed_schemas)     *)
(*   out       set of <<input index, term>>  (intended mode only: the  *)
(*             result is kept per input, not looked up by name)        *)
(*   defined   full names defined so far by this parse (defined_names)  *)
(*   form,main the rest of the scenario (constant)                     *)
(*   err       "" or the reason of the failure                         *)
(*   trace,log parser events (what the proposed hook would emit), kept  *)
(*             only when trace is set                                  *)
(* ------------------------------------------------------------------ *)
Impl(mode) == mode \in {"faithful", "pinned"}          \* structured like the implementation

Has(parsed, nm) == \E p \in parsed : p[1] = nm
Get(parsed, nm) == (CHOOSE p \in parsed : p[1] = nm)[2]
Put(parsed, nm, t) == {p \in parsed : p[1] # nm} \cup {<<nm, t>>}

Ev(e, nm, how) == [e |-> e, name |-> nm, how |-> how]
WithErr(st, why) == [st EXCEPT !.err = IF @ = "" THEN why ELSE @]
Logged(st, ev)   == IF st.trace THEN [st EXCEPT !.log = Append(@, ev)] ELSE st
BadTerm == [k |-> "null"]

(* the name an input is filed under in the pending map *)
InnerNameText(h) == IF h.how = "dotted" THEN FullName(h.ns, h.n) ELSE h.n
KeyOf(mode, d) ==
  IF Impl(mode) THEN NameOf(d.hdr, "")                 \* Name::parse(outer object, None)
  ELSE IF d.k = "wrap" THEN NameOf(d.inner.hdr, "")    \* the name the input defines
  ELSE NameOf(d.hdr, "")
(* the name the parsed input is stored under afterwards (get_schema_type_name): when "type" is an   *)
(* object with a "name", that name's TEXT (its namespace attribute is not consulted)                *)
StoreKeyOf(mode, d) ==
  IF Impl(mode) /\ d.k = "wrap" THEN InnerNameText(d.inner.hdr) ELSE KeyOf(mode, d)

(* Define: the name of a definition is met (before its fields are parsed).                    *)
(* faithful: a full name already defined by this parse is a name collision (fix 59a830b);     *)
(* pinned: nothing is checked; intended: the duplicate was found by the scan / by Register.   *)
Define(st, nm) ==
  IF st.mode = "faithful" /\ nm \in st.defined
  THEN WithErr(Logged(st, Ev("define", nm, "collision")), "name collision " \o nm)
  ELSE [st EXCEPT !.defined = @ \cup {nm}]

(* Register: a finished definition becomes visible under its full name.                        *)
(* faithful, pinned: insert, overwriting silently whatever was there (register_parsed_schema;  *)
(* in the pinned snapshot this is how a second definition of a name replaced the first);       *)
(* intended: defining a full name twice is an error.                                           *)
Register(st, nm, t) ==
  IF st.mode = "intended" /\ Has(st.parsed, nm)
  THEN WithErr(Logged(st, Ev("register", nm, "duplicate")), "duplicate definition of " \o nm)
  ELSE [Logged(st, Ev("register", nm, IF Has(st.parsed, nm) THEN "overwrite" ELSE "new"))
          EXCEPT !.parsed = Put(@, nm, t), !.resolving = @ \ {nm}]

(* what happens with the term of a completely parsed INPUT i *)
StoreInput(st, i, t) ==
  IF Impl(st.mode)
  THEN [st EXCEPT !.parsed = Put(@, StoreKeyOf(st.mode, st.ins[i]), t)]
  ELSE [st EXCEPT !.out = @ \cup {<<i, t>>}]

(* intended mode: every name defined anywhere in the set, nested definitions and the main schema included *)
DeclaredNames(st) == SeqRange(SetDefNames([form |-> st.form, ins |-> st.ins, main |-> st.main]))

RECURSIVE DescendDef(_, _, _), DescendType(_, _, _), DescendFields(_, _, _, _, _), FetchRef(_, _)

(* all return [st |-> parser state, t |-> result term]; once st.err # "" the term is meaningless *)
DescendFields(fs, i, encl, st, acc) ==
  IF i > Len(fs) \/ st.err # "" THEN [st |-> st, t |-> acc]
  ELSE LET r == DescendType(fs[i], encl, st) IN
       DescendFields(fs, i + 1, encl, r.st, acc \o <<[name |-> FieldName(i), type |-> r.t]>>)

DescendDef(d, encl, st) ==
  CASE d.k = "wrap" -> DescendDef(d.inner, encl, st)        \* "type" is an object: descend, same namespace
    [] d.k = "fixed" ->
         LET nm == NameOf(d.hdr, encl)  t == [k |-> "fixed", name |-> nm, size |-> d.size]
             st0 == Define(st, nm)
         IN IF st0.err # "" THEN [st |-> st0, t |-> BadTerm] ELSE [st |-> Register(st0, nm, t), t |-> t]
    [] d.k = "enum" ->
         LET nm == NameOf(d.hdr, encl)  t == [k |-> "enum", name |-> nm, symbols |-> Syms]
             st0 == Define(st, nm)
         IN IF st0.err # "" THEN [st |-> st0, t |-> BadTerm] ELSE [st |-> Register(st0, nm, t), t |-> t]
    [] d.k = "record" ->
         LET nm == NameOf(d.hdr, encl)
             st0 == Define(st, nm)
             st1 == [st0 EXCEPT !.resolving = @ \cup {nm}]         \* visible to its own fields
             r == DescendFields(d.fields, 1, NsOf(d.hdr, encl), st1, <<>>)
             t == [k |-> "record", name |-> nm, fields |-> r.t]
         IN IF st0.err # "" THEN [st |-> st0, t |-> BadTerm]
            ELSE IF r.st.err # "" THEN [st |-> r.st, t |-> BadTerm]
            ELSE [st |-> Register(r.st, nm, t), t |-> t]

DescendType(t, encl, st) ==
  CASE t.k = "prim"  -> [st |-> st, t |-> [k |-> t.p]]
    [] t.k = "def"   -> DescendDef(t.d, encl, st)
    [] t.k = "ref"   -> FetchRef(RefTarget(t, encl), st)
    [] t.k = "array" -> LET r == DescendType(t.items, encl, st) IN
                        [st |-> r.st, t |-> [k |-> "array", items |-> r.t]]
    [] t.k = "opt"   -> LET r == DescendType(t.t, encl, st) IN
                        [st |-> r.st, t |-> [k |-> "union", branches |-> <<[k |-> "null"], r.t>>]]

(* FetchRef: parsed?  resolving?  pending -> parse that input NOW, with NO enclosing namespace;     *)
(* (intended only: defined somewhere in the set -> it will be there at the end);  otherwise error.  *)
FetchRef(nm, st) ==
  IF Has(st.parsed, nm) THEN [st |-> Logged(st, Ev("fetch", nm, "parsed")), t |-> RefT(nm)]
  ELSE IF nm \in st.resolving THEN [st |-> Logged(st, Ev("fetch", nm, "resolving")), t |-> RefT(nm)]
  ELSE IF \E i \in st.pending : KeyOf(st.mode, st.ins[i]) = nm
  THEN LET i == CHOOSE j \in st.pending : KeyOf(st.mode, st.ins[j]) = nm
           st1 == [Logged(st, Ev("fetch", nm, "input")) EXCEPT !.pending = @ \ {i}]
           r == DescendDef(st.ins[i], "", st1)
       IN IF r.st.err # "" THEN [st |-> r.st, t |-> BadTerm]
          ELSE [st |-> StoreInput(r.st, i, r.t), t |-> RefT(r.t.name)]
  ELSE IF st.mode = "intended" /\ nm \in DeclaredNames(st)
  THEN [st |-> Logged(st, Ev("fetch", nm, "declared")), t |-> RefT(nm)]
  ELSE [st |-> WithErr(Logged(st, Ev("fetch", nm, "miss")), "unknown type " \o nm), t |-> BadTerm]

(* ---- the steps of the machine ---- *)
InitState(scn, mode) ==
  [mode |-> mode, ins |-> scn.ins, form |-> scn.form, main |-> scn.main,
   pending |-> 1..Len(scn.ins), resolving |-> {}, parsed |-> {}, out |-> {}, defined |-> {},
   err |-> "", trace |-> FALSE, log |-> <<>>]

(* before anything is parsed: two inputs filed under one name are rejected (parse_list, NameCollision); *)
(* the intended parser scans every definition of the set, nested ones included                          *)
PrecheckOk(scn, mode) ==
  IF Impl(mode)
  THEN NoDupSeq([i \in 1..Len(scn.ins) |-> KeyOf("faithful", scn.ins[i])])
  ELSE NoDupSeq(SetDefNames(scn))

(* one iteration of parse_input_schemas: drain input i (ANY pending one: hash order) *)
PickStep(st, i) ==
  LET st1 == [Logged(st, Ev("pick", KeyOf(st.mode, st.ins[i]), "")) EXCEPT !.pending = @ \ {i}]
      r == DescendDef(st.ins[i], "", st1)
  IN IF r.st.err # "" THEN r.st ELSE StoreInput(r.st, i, r.t)

(* parse_str_with_list: the main schema is parsed after the whole list *)
MainStep(st, scn) == DescendType(scn.main, "", st)

OutcomeErr   == [status |-> "err", res |-> <<>>, main |-> NoTerm]
OutcomePanic == [status |-> "panic", res |-> <<>>, main |-> NoTerm]

RECURSIVE CollectRes(_, _)
CollectRes(st, i) ==
  IF i > Len(st.ins) THEN <<>>
  ELSE <<IF Impl(st.mode) THEN Get(st.parsed, KeyOf("faithful", st.ins[i]))
         ELSE (CHOOSE p \in st.out : p[1] = i)[2]>> \o CollectRes(st, i + 1)

(* Finish: the results in INPUT order.  implementation: looked up by the name the input was filed under *)
(* `.expect("One of the input schemas was unexpectedly not parsed")` when it is not there            *)
FinishOutcome(st, mainterm) ==
  IF Impl(st.mode) /\ \E i \in 1..Len(st.ins) : ~Has(st.parsed, KeyOf("faithful", st.ins[i]))
  THEN OutcomePanic
  ELSE [status |-> "ok", res |-> CollectRes(st, 1), main |-> mainterm]

(* everything after the last pick *)
Complete(st, scn) ==
  IF scn.form = "with"
  THEN LET r == MainStep(st, scn) IN
       IF r.st.err # "" THEN OutcomeErr ELSE FinishOutcome(r.st, r.t)
  ELSE FinishOutcome(st, NoTerm)

(* ------------------------------------------------------------------ *)
(* 3. All terminal outcomes over all pick orders                       *)
(* ------------------------------------------------------------------ *)
RECURSIVE RunAll(_, _)
RunAll(st, scn) ==
  IF st.err # "" THEN {OutcomeErr}
  ELSE IF st.pending = {} THEN {Complete(st, scn)}
  ELSE UNION {RunAll(PickStep(st, i), scn) : i \in st.pending}

AllOutcomes(scn, mode) ==
  IF ~PrecheckOk(scn, mode) THEN {OutcomeErr} ELSE RunAll(InitState(scn, mode), scn)

(* the run that drains the inputs in input order *)
RECURSIVE RunInOrder(_, _)
RunInOrder(st, scn) ==
  IF st.err # "" THEN OutcomeErr
  ELSE IF st.pending = {} THEN Complete(st, scn)
  ELSE RunInOrder(PickStep(st, CHOOSE i \in st.pending : \A j \in st.pending : i <= j), scn)
CanonicalOutcome(scn, mode) ==
  IF ~PrecheckOk(scn, mode) THEN OutcomeErr ELSE RunInOrder(InitState(scn, mode), scn)

(* ------------------------------------------------------------------ *)
(* Shapes of input sets on which the implementation is (or, for        *)
(* NestedDupShape, was until fix 59a830b) known to deviate; used by the *)
(* trace specification's deviation predicates                          *)
(* ------------------------------------------------------------------ *)
TopKeys(scn) == {KeyOf("faithful", scn.ins[i]) : i \in 1..Len(scn.ins)}
(* some input references a name that is no input's own name and is defined nested inside ANOTHER input *)
NestedRefShape(scn) ==
  \E i \in 1..Len(scn.ins) : \E nm \in RefsOf(InMeaning(scn, i)) :
     /\ nm \notin TopKeys(scn)
     /\ \E j \in 1..Len(scn.ins) : j # i /\ nm \in InNested(scn, j)
(* a nested definition (or a definition in the main schema) has the full name of another definition of the set *)
TopDefNames(scn)    == [i \in 1..Len(scn.ins) |-> InMeaning(scn, i).name]
RECURSIVE NestedDefsFrom(_, _)
NestedDefsFrom(scn, i) == IF i > Len(scn.ins) THEN MainDefs(scn) ELSE Tail(InDefs(scn, i)) \o NestedDefsFrom(scn, i + 1)
NestedDefNames(scn) == NamesOfSeq(NestedDefsFrom(scn, 1))
NestedDupShape(scn) ==
  LET nn == NestedDefNames(scn) IN
  \E a \in 1..Len(nn) : \/ nn[a] \in SeqRange(TopDefNames(scn))
                        \/ \E b \in 1..Len(nn) : b # a /\ nn[b] = nn[a]
(* an input {"name":Y,"type":{.. "name":X ..}} whose outer name differs from the inner name as written *)
WrapperShape(scn) ==
  \E i \in 1..Len(scn.ins) :
     scn.ins[i].k = "wrap" /\ KeyOf("faithful", scn.ins[i]) # StoreKeyOf("faithful", scn.ins[i])
(* ... and some OTHER input refers to the outer or to the inner name of such an input: it is filed under *)
(* the outer name and stored under the inner one, so what the reference finds depends on whether the   *)
(* wrapper happened to be drained before                                                               *)
WrapperRefShape(scn) ==
  \E i \in 1..Len(scn.ins) : \E nm \in RefsOf(InMeaning(scn, i)) :
     \E j \in 1..Len(scn.ins) :
        /\ j # i /\ scn.ins[j].k = "wrap"
        /\ KeyOf("faithful", scn.ins[j]) # StoreKeyOf("faithful", scn.ins[j])
        /\ nm \in {KeyOf("faithful", scn.ins[j]), InMeaning(scn, j).name}
=============================================================================
