------------------------- MODULE MC_ContainerWriter -------------------------
(***************************************************************************)
(* Bounded instance of ContainerWriter.  Two configurations:               *)
(*  *_inv.cfg  all invariants + the NoTrace action property over every     *)
(*             history up to MaxOps operations (history hidden by a VIEW); *)
(*  *_scn.cfg  every operation history of exactly MaxOps operations is     *)
(*             printed as a scenario for the harness to replay on the real *)
(*             Writer (history kept in the state).                         *)
(***************************************************************************)
EXTENDS ContainerWriter, Json

VARIABLE hist
mcvars == <<vars, hist>>

MCIds == {"a", "b", "c"}
MCSize == [v \in MCIds |-> CASE v = "a" -> 4 [] v = "b" -> 5 [] v = "c" -> 9]
MCKeys == {"k1", "k2"}

MCInit == Init /\ hist = <<>>
(* fewer Extend combinations than the full product: enough to cross a block boundary *)
MCNext == /\ \/ \E v \in Ids : AppendOk(v)
             \/ AppendRejected \/ AppendEncodeFails \/ Flush
             \/ ExtendOk(<<"a", "c">>) \/ ExtendOk(<<"b", "b">>)
             \/ ExtendStopsAtBad(<<"c">>) \/ ExtendStopsAtBad(<<>>)
             \/ \E k \in Keys : AddUserMetadata(k)
             \/ Reset \/ Close("into_inner") \/ Close("drop") \/ Reopen
          /\ hist' = Append(hist, last')
MCSpec == MCInit /\ [][MCNext]_mcvars

View == vars

Emit == nops = MaxOps =>
          PrintT("SCN " \o ToJson([block_size |-> blockSize, ops |-> hist,
                                   appended |-> appended, meta |-> okMeta, open |-> open]))
MCNoTrace == [][ (last' \in {<<"append-rejected">>, <<"append-encode-fails">>})
                 => (BlockIds(sink') = BlockIds(sink) /\ buffer' = buffer /\ appended' = appended) ]_mcvars
=============================================================================
