---------------------------- MODULE Trace_Derive ----------------------------
(***************************************************************************)
(* Judges recorded executions of the generated corpus of derived types     *)
(* (harness/corpus_c17, command `derive-run`), property C17.  One ndjson   *)
(* line = one definition set with its root type: the schema get_schema()   *)
(* returned (twice), its JSON round trip, and for each TLC-chosen value of *)
(* the type the serde executions and a container-file round trip.          *)
(***************************************************************************)
EXTENDS DeriveModel, Known, Json, IOUtils

Rec == ndJsonDeserialize(IOEnv.TRACE)

VARIABLE l

If(c, name) == IF c THEN {} ELSE {name}

(***************************************************************************)
(* Named deviations of the pinned tree (known/C17.json).                   *)
(***************************************************************************)
RECURSIVE SchemaNodes(_)
RECURSIVE SchemaNodesSeq(_, _)
SchemaNodesSeq(q, i) == IF i > Len(q) THEN <<>> ELSE SchemaNodes(q[i]) \o SchemaNodesSeq(q, i + 1)
SchemaNodes(s) ==
  <<s>> \o
  CASE s.k = "array" -> SchemaNodes(s.items)
    [] s.k = "map" -> SchemaNodes(s.values)
    [] s.k = "union" -> SchemaNodesSeq(s.branches, 1)
    [] s.k = "record" -> SchemaNodesSeq([i \in 1..Len(s.fields) |-> s.fields[i].type], 1)
    [] OTHER -> <<>>

UsesKebab(defs) ==
  \E k \in 1..Len(defs) : LET d == defs[k] IN
    \/ d.rename_all \in {"kebab-case", "SCREAMING-KEBAB-CASE"}
       /\ (\E i \in 1..Len(d.fields) : Len(d.fields[i].ident) > 1 /\ d.fields[i].rename = "" /\ d.fields[i].skip # "skip")
    \/ d.rename_all \in {"kebab-case", "SCREAMING-KEBAB-CASE"}
       /\ (\E i \in 1..Len(d.variants) : Len(d.variants[i].ident) > 1 /\ d.variants[i].rename = "" /\ ~d.variants[i].skip)

(* a union-shaped enum reachable more than once from the root *)
DefsCount(s, name) == LET q == DocOrder(s) IN Cardinality({i \in 1..Len(q) : q[i] = <<"def", name>>})
DuplicateDefs(s) == LET q == DocOrder(s) IN {q[i][2] : i \in {j \in 1..Len(q) : q[j][1] = "def" /\ DefsCount(s, q[j][2]) > 1}}
DanglingRefs(s) == LET q == DocOrder(s) IN
  {q[j][2] : j \in {i \in 1..Len(q) : q[i][1] = "ref" /\ ~\E h \in 1..(i - 1) : q[h] = <<"def", q[i][2]>>}}

UnionEnumIds(defs) == {defs[k].id : k \in {i \in 1..Len(defs) : defs[i].kind = "enum" /\ EffRepr(defs[i]) # "enum"}}
VariantNames(defs) ==
  UNION {{VariantName(defs[k].variants[i], defs[k].rename_all) : i \in 1..Len(defs[k].variants)}
         : k \in {i \in 1..Len(defs) : defs[i].kind = "enum" /\ EffRepr(defs[i]) # "enum"}}
(* does name n end in one of the variant names (after its namespace)?  names are atoms: compare all spellings *)
IsVariantRecordName(defs, n, nss) == \E v \in VariantNames(defs) : \E ns \in nss : n = FullOf(v, ns)
AllNs(defs) == {""} \cup {defs[k].ns : k \in 1..Len(defs)}

(* C17-union-enum-twice: variant records of a union-shaped enum are not registered in the set of defined names,
   so a second occurrence of the enum defines them again; a bare_union enum is registered under its own name
   and its second occurrence is a reference to a name no schema defines *)
Dev_UnionEnumTwice(e, derived) ==
  "C17-union-enum-twice" \in KnownIds
  /\ UnionEnumIds(e.defs) # {}
  /\ (DuplicateDefs(derived) # {} \/ DanglingRefs(derived) # {})
  /\ (\A n \in DuplicateDefs(derived) : IsVariantRecordName(e.defs, n, AllNs(e.defs)))
  /\ (\A m \in DanglingRefs(derived) :
        \E k \in 1..Len(e.defs) : e.defs[k].kind = "enum" /\ EffRepr(e.defs[k]) = "bare_union"
                                  /\ \E ns \in AllNs(e.defs) : m = FullOf(TypeName(e.defs[k]), ns))

(* C17-kebab-case-names: rename_all = "kebab-case" / "SCREAMING-KEBAB-CASE" on a multi-word identifier gives a
   field name / symbol containing '-', which is not an Avro name: the schema does not survive a JSON round trip *)
Dev_Kebab(e) == "C17-kebab-case-names" \in KnownIds /\ UsesKebab(e.defs) /\ ~e.json.ok

(* C17-skipped-variant-shifts-union: see MC_DeriveModel!ShiftedUnionEnum *)
ShiftedUnionEnum(defs) ==
  \E k \in 1..Len(defs) : LET d == defs[k] IN
     d.kind = "enum" /\ EffRepr(d) # "enum"
     /\ \E i, j \in 1..Len(d.variants) : i < j /\ d.variants[i].skip /\ ~d.variants[j].skip
Dev_ShiftedVariant(e, v) ==
  "C17-skipped-variant-shifts-union" \in KnownIds /\ ShiftedUnionEnum(e.defs)

(* all field types occurring in the definitions (with their sub-terms) *)
RECURSIVE FTNodes(_)
FTNodes(ft) == <<ft>> \o (IF ft.f \in {"option", "vec", "map", "box", "array"} THEN FTNodes(ft.of) ELSE <<>>)
RECURSIVE FTOfFields(_, _)
FTOfFields(fs, i) == IF i > Len(fs) THEN <<>> ELSE FTNodes(fs[i].ty) \o FTOfFields(fs, i + 1)
RECURSIVE FTOfVariants(_, _)
FTOfVariants(vs, i) == IF i > Len(vs) THEN <<>> ELSE FTOfFields(vs[i].fields, 1) \o FTOfVariants(vs, i + 1)
RECURSIVE FTOfDefs(_, _)
FTOfDefs(defs, i) == IF i > Len(defs) THEN <<>>
                     ELSE FTOfFields(defs[i].fields, 1) \o FTOfVariants(defs[i].variants, 1) \o FTOfDefs(defs, i + 1)
HasFT(defs, P(_)) == LET q == FTOfDefs(defs, 1) IN \E i \in 1..Len(q) : P(q[i])

(* C17-empty-array-not-deserializable *)
IsEmptyArray(ft) == ft.f = "array" /\ ft.n = 0
Dev_EmptyArray(e, v) ==
  "C17-empty-array-not-deserializable" \in KnownIds /\ HasFT(e.defs, IsEmptyArray)
  /\ \A i \in 1..Len(v.runs) : v.runs[i].ser.ok /\ ~v.runs[i].de.ok /\ ~v.runs[i].de.panic
(* C17-one-array-of-option *)
RECURSIVE UnboxFT(_)
UnboxFT(ft) == IF ft.f = "box" THEN UnboxFT(ft.of) ELSE ft
IsOneArrayOfOption(ft) == ft.f = "array" /\ ft.n = 1 /\ UnboxFT(ft.of).f = "option"
Dev_OneArrayOption(e, v) ==
  "C17-one-array-of-option" \in KnownIds /\ HasFT(e.defs, IsOneArrayOfOption)
  /\ \A i \in 1..Len(v.runs) : ~v.runs[i].ser.ok /\ ~v.runs[i].ser.panic

(***************************************************************************)
(* One value of the type.                                                  *)
(***************************************************************************)
JudgeValue(e, v, s, same) ==
  IF ~v.build_ok THEN [fail |-> {"TOOL:value-not-built"}, known |-> {}, drift |-> {}]
  ELSE
  LET env == Defs(s)
      av == IF same THEN ToAvro(v.sv, s, env) ELSE Undef
      RunFails(r) ==
        LET P == ParseAll(r.ser.wire, s, env) IN
        If(r.ser.ok, "C17:value-does-not-serialize")
        \cup If(~(r.ser.panic \/ r.de.panic), "C17:panic")
        \cup (IF ~r.ser.ok THEN {} ELSE
              If(P.ok /\ Conforms(P.v, s, env), "C17:bytes-do-not-conform-to-the-derived-schema")
              \cup If(~same \/ ~P.ok \/ (IsDef(av) /\ VEq(P.v, av)), "C17:bytes-denote-another-value")
              \cup If(r.ser.n = Len(r.ser.wire), "C17:returned-count-differs")
              \cup If(r.de.ok, "C17:value-does-not-deserialize")
              \cup If(~r.de.ok \/ TermEq(r.de.back, v.sv), "C17:value-comes-back-different"))
      raw == UNION {RunFails(v.runs[i]) : i \in 1..Len(v.runs)}
             \cup If(~(\A i \in 1..Len(v.runs) : v.runs[i].ser.ok) \/ v.file.ok, "C17:container-file-round-trip-failed")
             \* (the file is read back shape-directed: fields the type does not serialize come back holding the default)
             \cup If(~v.file.ok \/ ~same \/ ~IsDef(av)
                     \/ (IsDef(ToAvro(v.file.back, s, env)) /\ TermEq(Norm(v.file.back, s, env), Norm(v.sv, s, env))),
                     "C17:container-file-value-differs")
             \cup If(~v.file.panic, "C17:panic")
      known ==
        (IF raw # {} /\ Dev_ShiftedVariant(e, v) THEN {"C17-skipped-variant-shifts-union|" \o c : c \in raw} ELSE {})
        \cup (IF Dev_EmptyArray(e, v)
              THEN {"C17-empty-array-not-deserializable|" \o c :
                      c \in raw \cap {"C17:value-does-not-deserialize", "C17:container-file-round-trip-failed"}} ELSE {})
        \cup (IF Dev_OneArrayOption(e, v)
              THEN {"C17-one-array-of-option|" \o c :
                      c \in raw \cap {"C17:value-does-not-serialize", "C17:container-file-round-trip-failed"}} ELSE {})
        \cup (IF Dev_Kebab(e) /\ (\A i \in 1..Len(v.runs) : v.runs[i].ser.ok /\ v.runs[i].de.ok)
              THEN {"C17-kebab-case-names|" \o c : c \in raw \cap {"C17:container-file-round-trip-failed"}} ELSE {})
      explained == {c \in raw : \E k \in known : \E id \in KnownIds : k = id \o "|" \o c}
  IN [fail |-> raw \ explained, known |-> known,
      drift |-> If(TermEq(v.model, v.sv) \/ ~same, "type-serializes-differently-from-the-model")]

RECURSIVE SchemaSameButAliases(_, _)
SchemaSameButAliases(a, b) ==
  IF a.k # b.k THEN FALSE
  ELSE CASE a.k = "array" -> SchemaSameButAliases(a.items, b.items)
         [] a.k = "map" -> SchemaSameButAliases(a.values, b.values)
         [] a.k = "union" -> Len(a.branches) = Len(b.branches)
                             /\ \A i \in 1..Len(a.branches) : SchemaSameButAliases(a.branches[i], b.branches[i])
         [] a.k = "record" ->
              /\ a.name = b.name /\ a.doc = b.doc /\ a.tuple = b.tuple /\ a.uor = b.uor /\ Len(a.fields) = Len(b.fields)
              /\ \A i \in 1..Len(a.fields) :
                    LET f == a.fields[i]  g == b.fields[i] IN
                    f.name = g.name /\ f.doc = g.doc /\ f.aliases = g.aliases /\ f.hasdef = g.hasdef
                    /\ (f.hasdef => f.defjson = g.defjson) /\ SchemaSameButAliases(f.type, g.type)
         [] a.k = "enum" -> a.name = b.name /\ a.doc = b.doc /\ a.symbols = b.symbols /\ a.edefault = b.edefault
         [] a.k \in {"fixed", "duration"} -> a.name = b.name /\ a.size = b.size
         [] a.k = "uuid" -> a.base = b.base /\ (a.base = "fixed" => a.name = b.name)
         [] a.k = "ref" -> a.name = b.name
         [] a.k = "none" -> FALSE
         [] OTHER -> TRUE

Judge(e) ==
  IF ~e.supported THEN [fail |-> {}, known |-> {}, drift |-> {"definition-rejected-by-the-macro"}]
  ELSE IF ~e.schema.ok THEN [fail |-> {"C17:get-schema-panicked"}, known |-> {}, drift |-> {}]
  ELSE
  LET exp == ExpectedSchema(e.defs, e.root)
      derived == e.schema.term
      same == SchemaSame(derived, exp)
      wf == NamesWellFormed(derived) /\ UnionsWellFormed(derived)
      raw ==
        If(same, "C17:derived-schema-differs-from-the-documented-one")
        \cup If(e.again.ok /\ e.again.term = derived, "C17:schema-differs-between-calls")
        \cup If(wf, "C17:derived-schema-not-well-formed")
        \cup If(e.json.ok, "C17:json-round-trip-failed")
        \* equal as the crate compares schemas, and equal as terms up to the spelling of type aliases (the parser
        \* qualifies them with the namespace of the type they belong to)
        \cup If(~e.json.ok \/ (e.json.same /\ SchemaSameButAliases(e.json.term, derived)), "C17:json-round-trip-differs")
      known ==
        (IF Dev_UnionEnumTwice(e, derived)
         THEN {"C17-union-enum-twice|" \o c : c \in raw \cap {"C17:derived-schema-differs-from-the-documented-one",
                                                            "C17:derived-schema-not-well-formed", "C17:json-round-trip-failed"}}
         ELSE {})
        \cup (IF Dev_Kebab(e) THEN {"C17-kebab-case-names|" \o c : c \in raw \cap {"C17:json-round-trip-failed"}} ELSE {})
      explained == {c \in raw : \E k \in known : \E id \in KnownIds : k = id \o "|" \o c}
      s == IF same THEN exp ELSE derived
      vs == [i \in 1..Len(e.vals) |-> IF wf THEN JudgeValue(e, e.vals[i], s, same)
                                      ELSE [fail |-> {}, known |-> {}, drift |-> {"values-not-judged-schema-ill-formed"}]]
  IN [fail  |-> (raw \ explained) \cup UNION {vs[i].fail : i \in 1..Len(vs)},
      known |-> known \cup UNION {vs[i].known : i \in 1..Len(vs)},
      drift |-> UNION {vs[i].drift : i \in 1..Len(vs)}
                \cup If(~e.json.ok \/ e.json.term = derived, "aliases-respelled-by-the-json-round-trip")]

Init == l = 1
Next == /\ l <= Len(Rec)
        /\ LET e == Rec[l]  r == Judge(e) IN
             IF r.fail = {} /\ r.drift = {} /\ r.known = {} THEN TRUE
             ELSE PrintT("VERDICT " \o ToJson([id |-> e.id, fail |-> r.fail, known |-> r.known, drift |-> r.drift]))
        /\ l' = l + 1

Consumed == IF TLCGet("stats").diameter = Len(Rec) + 1 THEN PrintT("CONSUMED " \o ToString(Len(Rec)))
            ELSE PrintT("UNCONSUMED " \o ToString(TLCGet("stats").diameter)) /\ FALSE
=============================================================================
