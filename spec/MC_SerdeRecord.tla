--------------------------- MODULE MC_SerdeRecord ---------------------------
(***************************************************************************)
(* The record serializer machine over a concrete three-field record, every *)
(* call order (all permutations, every subset skipped or left out, also    *)
(* illegal histories), every choice of which fields have defaults.  Binds  *)
(* the machine to the mapping: the bytes of a finished run are those of    *)
(* the Avro record SerdeModel!ToAvro assigns to the call sequence.  Emits  *)
(* every finished history as a scenario (struct-style and map-style).      *)
(***************************************************************************)
EXTENDS SerdeTypes, Json

VARIABLES hasdef, pos, cache, out, cnt, st, hist

NF == 3
(* the concrete record: a: int = 7 (default 42), b: string = "xy" (default "dflt"),
   c: ["null","long"] = some(-2) (default null) *)
FTypes == <<TS("i32"), TS("str"), TOpt(TS("i64"))>>
FNames == <<"a", "b", "c">>
FDefs  == <<"i42", "sdflt", "onull">>
FVals  == <<[c |-> "i32", n |-> NatToLE8(7)], [c |-> "str", b |-> <<120, 121>>],
            [c |-> "some", v |-> [c |-> "i64", n |-> NegNatToLE8(2)]]>>

RecTy(hd) == TStruct("R3", [i \in 1..NF |-> IF hd[i] THEN FD(FNames[i], FTypes[i], FDefs[i]) ELSE F(FNames[i], FTypes[i])])
R3S(hd) == SchemaOf(RecTy(hd))

VB == [i \in 1..NF |-> Enc(ToAvro(FVals[i], SchemaOf(FTypes[i]), EmptyFun), SchemaOf(FTypes[i]), EmptyFun)]
DB == [i \in 1..NF |-> Enc(DefMenu[FDefs[i]].v, SchemaOf(FTypes[i]), EmptyFun)]

M == INSTANCE SerdeRecord WITH N <- NF, ValB <- VB, DefB <- DB, MaxCalls <- 4

Init == M!Init
Next == M!Next
TypeOK == M!TypeOK
CountIsBytes == M!CountIsBytes
WrittenPrefix == M!WrittenPrefix
CacheAhead == M!CacheAhead
Complete == M!Complete
FailsOnlyFor == M!FailsOnlyFor
LegalCallsSucceed == M!LegalCallsSucceed

(* the call sequence as a serde term *)
Calls == [j \in 1..Len(hist) |-> <<FNames[hist[j][2]], IF hist[j][1] = "ser" THEN FVals[hist[j][2]] ELSE [c |-> "skip"]>>]
NSer == Cardinality({j \in 1..Len(hist) : hist[j][1] = "ser"})
AsStruct == [c |-> "struct", name |-> "R3", len |-> NSer, fields |-> Calls]
AsMap(h) == [c |-> "structmap", hint |-> h, fields |-> SelectSeq(Calls, LAMBDA e : e[2].c # "skip")]

(* ---- binding to the mapping ---- *)
MatchesMapping ==
  st \in {"ok", "err"} =>
    LET s == R3S(hasdef)  av == ToAvro(AsStruct, s, Defs(s)) IN
    /\ (st = "ok") = IsDef(av)
    /\ st = "ok" => out = Enc(av, s, Defs(s))
                    /\ LET r == ParseAll(out, s, Defs(s)) IN r.ok /\ VEq(r.v, av)

(* ---- scenario emission (from a CONSTRAINT-free invariant: prints once per finished state) ---- *)
HasSkip == \E j \in 1..Len(hist) : hist[j][1] = "skip"
EmitDone ==
  IF st \in {"ok", "err"} /\ (st = "ok" \/ Len(hist) <= 2)
  THEN /\ PrintT("SCN " \o ToJson([sv |-> AsStruct, s |-> R3S(hasdef), corpus |-> ""]))
       /\ (HasSkip \/ PrintT("SCN " \o ToJson([sv |-> AsMap(Len(hist) % 2 = 0), s |-> R3S(hasdef), corpus |-> ""])))
  ELSE TRUE
=============================================================================
