--------------------------- MODULE MC_SerdeRecord ---------------------------
(***************************************************************************)
(* The record serializer machine over a concrete three-field record, every *)
(* call order (all permutations, every subset skipped or left out, also    *)
(* illegal histories), every choice of which fields have defaults.  Binds  *)
(* the machine to the mapping: the bytes of a finished run are those of    *)
(* the Avro record SerdeModel!ToAvro assigns to the call sequence.  Emits  *)
(* every finished history as a scenario (struct-style and map-style).      *)
(***************************************************************************)
EXTENDS SerdeTypes, Json

VARIABLES hasdef, pos, cache, out, cnt, st, hist

CONSTANT NF      \* number of fields: 3 (every subset of defaults, skips, illegal histories) or 5 (orders only)
(* the concrete record: a: int = 7 (default 42), b: string = "xy" (default "dflt"),
   c: ["null","long"] = some(-2) (default null), d: string = "a longer text" (default "dflt"), e: int = 7 (default 42);
   with five fields several fields can wait in the cache at once WITHOUT being adjacent, and one of them can be
   released while another keeps waiting *)
FTypes == SubSeq(<<TS("i32"), TS("str"), TOpt(TS("i64")), TS("str"), TS("i32")>>, 1, NF)
FNames == SubSeq(<<"a", "b", "c", "d", "e">>, 1, NF)
FDefs  == SubSeq(<<"i42", "sdflt", "onull", "sdflt", "i42">>, 1, NF)
FVals  == SubSeq(<<[c |-> "i32", n |-> NatToLE8(7)], [c |-> "str", b |-> <<120, 121>>],
                   [c |-> "some", v |-> [c |-> "i64", n |-> NegNatToLE8(2)]],
                   [c |-> "str", b |-> <<97, 32, 108, 111, 110, 103, 101, 114, 32, 116, 101, 120, 116>>],
                   [c |-> "i32", n |-> NatToLE8(7)]>>, 1, NF)

RecTy(hd) == TStruct("R3", [i \in 1..NF |-> IF hd[i] THEN FD(FNames[i], FTypes[i], FDefs[i]) ELSE F(FNames[i], FTypes[i])])
R3S(hd) == SchemaOf(RecTy(hd))

VB == [i \in 1..NF |-> Enc(ToAvro(FVals[i], SchemaOf(FTypes[i]), EmptyFun), SchemaOf(FTypes[i]), EmptyFun)]
DB == [i \in 1..NF |-> Enc(DefMenu[FDefs[i]].v, SchemaOf(FTypes[i]), EmptyFun)]

M == INSTANCE SerdeRecord WITH N <- NF, ValB <- VB, DefB <- DB, MaxCalls <- NF + 1

(* five fields: no field or every field has a default (the 3-field instance explores every subset) *)
Init == M!Init /\ (NF > 3 => hasdef \in {[i \in 1..NF |-> FALSE], [i \in 1..NF |-> TRUE]})
Next == M!Next
TypeOK == M!TypeOK
CountIsBytes == M!CountIsBytes
WrittenPrefix == M!WrittenPrefix
CacheAhead == M!CacheAhead
Complete == M!Complete
FailsOnlyFor == M!FailsOnlyFor
LegalCallsSucceed == M!LegalCallsSucceed

(* the call sequence as a serde term *)
Calls == [j \in 1..Len(hist) |-> <<FNames[hist[j][2]], IF hist[j][1] = "ser" THEN FVals[hist[j][2]] ELSE [c |-> "skip"]>>]
NSer == Cardinality({j \in 1..Len(hist) : hist[j][1] = "ser"})
AsStruct == [c |-> "struct", name |-> "R3", len |-> NSer, fields |-> Calls]
AsMap(h) == [c |-> "structmap", hint |-> h, fields |-> SelectSeq(Calls, LAMBDA e : e[2].c # "skip")]

(* ---- binding to the mapping ---- *)
MatchesMapping ==
  st \in {"ok", "err"} =>
    LET s == R3S(hasdef)  av == ToAvro(AsStruct, s, Defs(s)) IN
    /\ (st = "ok") = IsDef(av)
    /\ st = "ok" => out = Enc(av, s, Defs(s))
                    /\ LET r == ParseAll(out, s, Defs(s)) IN r.ok /\ VEq(r.v, av)

(* ---- scenario emission (from a CONSTRAINT-free invariant: prints once per finished state) ---- *)
HasSkip == \E j \in 1..Len(hist) : hist[j][1] = "skip"
EmitDone ==
  IF st \in {"ok", "err"} /\ (st = "ok" \/ Len(hist) <= 2)
  THEN /\ PrintT("SCN " \o ToJson([sv |-> AsStruct, s |-> R3S(hasdef), corpus |-> ""]))
       /\ (HasSkip \/ PrintT("SCN " \o ToJson([sv |-> AsMap(Len(hist) % 2 = 0), s |-> R3S(hasdef), corpus |-> ""])))
  ELSE TRUE
=============================================================================
