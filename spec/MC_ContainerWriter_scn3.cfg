SPECIFICATION MCSpec
CONSTANTS
  Ids <- MCIds
  Size <- MCSize
  Keys <- MCKeys
  BlockSizes = {0, 5, 12, 1000}
  MaxOps = 3
INVARIANT Emit
CHECK_DEADLOCK FALSE
