------------------------------ MODULE SchemaWF ------------------------------
(***************************************************************************)
(* Well-formedness of an Avro schema given as a JSON document (JsonTree    *)
(* terms), transcribed from the Avro specification ("Schema Declaration",  *)
(* "Names", "Unions", "Enums", "Fixed", "Records": DESIGN Appendix B.3).   *)
(*                                                                         *)
(* The reader is written like a parser: one operator per production        *)
(* (WType / WRef / WUnion / WObj / WRecord / WField / WEnum / WFixed /     *)
(* WArray / WMap), threading a state                                       *)
(*     [defs, aliases, bad, grey]                                          *)
(* through the document in depth-first, left-to-right order ("a name must  *)
(* be defined before it is used").  `bad` collects the names of the rules  *)
(* the document violates, `grey` the names of the grey zones it touches    *)
(* (points the specification leaves open or that changed between versions; *)
(* every reading is accepted there, they are only counted).                *)
(*                                                                         *)
(*     WF(tree) = [verdict |-> "ok" | "bad" | "grey", bad, grey, names]    *)
(*                                                                         *)
(* All string content is examined on the UTF-8 code units `u` of a string  *)
(* term; the atom `s` is used only for equality with keywords.  Numbers    *)
(* that do not fit TLC's integers are `num` terms carrying their source    *)
(* characters in `u` (an extension of JsonTree!JNum made by the harness).  *)
(***************************************************************************)
EXTENDS JsonTree

(* ------------------------------------------------------------------------ *)
(* ASCII bridge: lets seeds be written as readable TLA+ strings             *)
(* ------------------------------------------------------------------------ *)
AsciiChars == " !\"#$%&'()*+,-./0123456789:;<=>?@ABCDEFGHIJKLMNOPQRSTUVWXYZ[\\]^_`abcdefghijklmnopqrstuvwxyz{|}~"
CharAt(i) == SubSeq(AsciiChars, i, i)
CodeTable == TLCEval([c \in {CharAt(i) : i \in 1..95} |-> 31 + (CHOOSE i \in 1..95 : CharAt(i) = c)])
U(s) == TLCEval([i \in 1..Len(s) |-> CodeTable[SubSeq(s, i, i)]])
RECURSIVE StrOfU(_)
StrOfU(u) == IF Len(u) = 0 THEN "" ELSE CharAt(u[1] - 31) \o StrOfU(Tail(u))

S(s) == JStr(s, U(s))
JNumU(text) == [j |-> "num", text |-> text, u |-> U(text)]
O(kv) == JObj(kv)
With(obj, k, v) == JObj(Append(obj.kv, <<k, v>>))

Range(f) == {f[i] : i \in DOMAIN f}

(* ------------------------------------------------------------------------ *)
(* duplicate JSON keys: the two usual readings (first wins / last wins)     *)
(* ------------------------------------------------------------------------ *)
RECURSIVE Dedup(_, _), DedupKV(_, _, _)
Dedup(t, last) ==
  CASE t.j = "obj" -> JObj(DedupKV(t.kv, 1, last))
    [] t.j = "arr" -> JArr([i \in 1..Len(t.items) |-> Dedup(t.items[i], last)])
    [] OTHER -> t
DedupKV(kv, i, last) ==
  IF i > Len(kv) THEN <<>>
  ELSE LET keep == IF last THEN \A m \in (i+1)..Len(kv) : kv[m][1] # kv[i][1]
                           ELSE \A m \in 1..(i-1) : kv[m][1] # kv[i][1]
       IN (IF keep THEN << <<kv[i][1], Dedup(kv[i][2], last)>> >> ELSE <<>>) \o DedupKV(kv, i + 1, last)

Get(t, k) == GetLast(t, k)          \* used on de-duplicated trees only
Has(t, k) == HasKey(t, k)

(* ------------------------------------------------------------------------ *)
(* numbers given by their source characters                                 *)
(* ------------------------------------------------------------------------ *)
IsDigit(c) == c \in 48..57
NumNeg(u) == Len(u) > 0 /\ u[1] = 45
NumBody(u) == IF NumNeg(u) THEN Tail(u) ELSE u
NumIntSyntax(u) == LET b == NumBody(u) IN Len(b) > 0 /\ \A i \in 1..Len(b) : IsDigit(b[i])
NumHasExp(u) == \E i \in 1..Len(u) : u[i] \in {69, 101}
ExpPos(u) == CHOOSE i \in 1..Len(u) : u[i] \in {69, 101}
MantissaEnd(u) == IF NumHasExp(u) THEN ExpPos(u) - 1 ELSE Len(u)
NumMantissaZero(u) == \A i \in 1..MantissaEnd(u) : IsDigit(u[i]) => u[i] = 48
NumHasDot(u) == \E i \in 1..Len(u) : u[i] = 46
NumFracNonZero(u) == NumHasDot(u) /\ LET p == CHOOSE i \in 1..Len(u) : u[i] = 46
                                     IN \E i \in (p+1)..MantissaEnd(u) : u[i] \in 49..57
ExpDigits(u) == IF NumHasExp(u) THEN Cardinality({i \in (ExpPos(u)+1)..Len(u) : IsDigit(u[i])}) ELSE 0
RECURSIVE StripZeros(_)
StripZeros(b) == IF Len(b) > 1 /\ b[1] = 48 THEN StripZeros(Tail(b)) ELSE b
(* a <= b for digit strings without leading zeros *)
DigLE(a, b) ==
  \/ Len(a) < Len(b)
  \/ /\ Len(a) = Len(b)
     /\ \/ \A i \in 1..Len(a) : a[i] = b[i]
        \/ LET k == CHOOSE k \in 1..Len(a) : a[k] # b[k] /\ \A m \in 1..(k-1) : a[m] = b[m] IN a[k] < b[k]
D2p31m1 == U("2147483647")
D2p31   == U("2147483648")
D2p63m1 == U("9223372036854775807")
D2p63   == U("9223372036854775808")
(* integer literal (source characters) within the two's-complement range of `bits` in {32, 64} *)
IntLitInRange(u, bits) ==
  LET d == StripZeros(NumBody(u)) IN
  IF NumNeg(u) THEN DigLE(d, IF bits = 32 THEN D2p31 ELSE D2p63)
               ELSE DigLE(d, IF bits = 32 THEN D2p31m1 ELSE D2p63m1)
(* numbers a JSON reader built on doubles / 64-bit integers may refuse although the text is JSON *)
NumExotic(u) == Len(u) > 300 \/ ExpDigits(u) >= 3

(* ------------------------------------------------------------------------ *)
(* strings as code points (on valid UTF-8)                                  *)
(* ------------------------------------------------------------------------ *)
AllCodePointsLE255(u) == \A i \in 1..Len(u) : u[i] < 128 \/ u[i] \in 128..191 \/ u[i] \in {194, 195}
CodePointCount(u) == Cardinality({i \in 1..Len(u) : u[i] \notin 128..191})

(* ------------------------------------------------------------------------ *)
(* names                                                                    *)
(* ------------------------------------------------------------------------ *)
NameStart(c) == c \in 65..90 \/ c \in 97..122 \/ c = 95
NameChar(c) == NameStart(c) \/ c \in 48..57
SimpleName(u) == Len(u) >= 1 /\ NameStart(u[1]) /\ \A i \in 2..Len(u) : NameChar(u[i])
HasDot(u) == \E i \in 1..Len(u) : u[i] = 46
LastDot(u) == CHOOSE i \in 1..Len(u) : u[i] = 46 /\ \A m \in (i+1)..Len(u) : u[m] # 46
RECURSIVE SplitDots(_)
SplitDots(u) ==
  IF ~HasDot(u) THEN <<u>>
  ELSE LET p == CHOOSE i \in 1..Len(u) : u[i] = 46 /\ \A m \in 1..(i-1) : u[m] # 46
       IN <<SubSeq(u, 1, p - 1)>> \o SplitDots(SubSeq(u, p + 1, Len(u)))
DottedName(u) == LET cs == SplitDots(u) IN \A i \in 1..Len(cs) : SimpleName(cs[i])
NamespaceOk(u) == Len(u) = 0 \/ DottedName(u)
LeadingDotName(u) == Len(u) >= 2 /\ u[1] = 46 /\ SimpleName(Tail(u))
Dot == <<46>>
Qualify(ns, name) == IF Len(ns) = 0 THEN name ELSE ns \o Dot \o name

Primitives == {"null", "boolean", "int", "long", "float", "double", "bytes", "string"}
PrimitivesU == TLCEval({U(p) : p \in Primitives})
KeywordsU == TLCEval({U(p) : p \in {"record", "enum", "fixed", "array", "map", "union", "error"}})

(* the name a named-type object declares: [ok, ns, name, full]; total on any object *)
NameParts(t, encl) ==
  IF ~(Has(t, "name") /\ Get(t, "name").j = "str") THEN [ok |-> FALSE, ns |-> encl, name |-> <<>>, full |-> <<>>]
  ELSE
  LET u == Get(t, "name").u
      nsAttr == IF Has(t, "namespace") /\ Get(t, "namespace").j = "str" THEN <<Get(t, "namespace").u>> ELSE <<>>
  IN IF LeadingDotName(u) THEN [ok |-> TRUE, ns |-> <<>>, name |-> Tail(u), full |-> Tail(u)]
     ELSE IF HasDot(u) THEN
          LET p == LastDot(u) IN [ok |-> DottedName(u), ns |-> SubSeq(u, 1, p - 1), name |-> SubSeq(u, p + 1, Len(u)), full |-> u]
     ELSE LET ns == IF Len(nsAttr) = 1 THEN nsAttr[1] ELSE encl
          IN [ok |-> SimpleName(u), ns |-> ns, name |-> u, full |-> Qualify(ns, u)]

(* ------------------------------------------------------------------------ *)
(* reader state                                                             *)
(* ------------------------------------------------------------------------ *)
(* `dev`: deviations switched on (ids of known findings, DESIGN A.1 "deviation-parameterised operators"): with dev = {}  *)
(* the reader is the specification; the trace specification re-reads a document with a deviation switched on to see  *)
(* whether exactly that deviation explains an acceptance.                                                            *)
St0 == [defs |-> <<>>, aliases |-> {}, bad |-> {}, grey |-> {}, dev |-> {}]
DevFixedLength == "C11-fixed-default-length-unchecked"
DevCodePoint == "C11-default-codepoint-above-255-accepted"
DevBytesArray == "C11-bytes-default-array-accepted"
AddBad(st, r) == [st EXCEPT !.bad = @ \cup {r}]
AddGrey(st, g) == [st EXCEPT !.grey = @ \cup {g}]
BadIf(st, c, r) == IF c THEN AddBad(st, r) ELSE st
GreyIf(st, c, g) == IF c THEN AddGrey(st, g) ELSE st
Defined(st, full) == \E i \in 1..Len(st.defs) : st.defs[i].full = full
DefOf(st, full) == st.defs[CHOOSE i \in 1..Len(st.defs) : st.defs[i].full = full]
Define(st, full, node, tns) == [st EXCEPT !.defs = Append(@, [full |-> full, node |-> node, tns |-> tns])]

(* how a type-name string that is not a primitive resolves in namespace ns:   *)
(*   "def" with the full name | "fallback" (only the null-namespace name     *)
(*   exists: Java resolves it, the specification is silent) | "alias" | "no" *)
RefFull(u, ns) == IF LeadingDotName(u) THEN Tail(u) ELSE IF HasDot(u) THEN u ELSE Qualify(ns, u)
RefHow(u, ns, st) ==
  LET full == RefFull(u, ns) IN
  IF Defined(st, full) THEN [how |-> "def", full |-> full]
  ELSE IF ~HasDot(u) /\ Len(ns) > 0 /\ Defined(st, u) THEN [how |-> "fallback", full |-> u]
  ELSE IF full \in st.aliases \/ u \in st.aliases THEN [how |-> "alias", full |-> full]
  ELSE [how |-> "no", full |-> full]

(* ------------------------------------------------------------------------ *)
(* conformance of a JSON default value to a schema (specification table     *)
(* "field default values"): result [bad, grey] (both empty = conforms)      *)
(* ------------------------------------------------------------------------ *)
CR(b, g) == [bad |-> b, grey |-> g]
COk == CR({}, {})
CBad(r) == CR({r}, {})
CGrey(g) == CR({}, {g})
CJoin(a, b) == CR(a.bad \cup b.bad, a.grey \cup b.grey)
CIsOk(c) == c.bad = {} /\ c.grey = {}
CIsBad(c) == c.bad # {}

ConfInt(d, bits, what) ==
  CASE d.j = "int" -> COk
    [] d.j = "num" ->
         IF NumIntSyntax(d.u) THEN IF IntLitInRange(d.u, bits) THEN COk ELSE CBad("default-" \o what \o "-out-of-range")
         ELSE IF NumFracNonZero(d.u) /\ ~NumHasExp(d.u) THEN CBad("default-" \o what \o "-not-integer")
         ELSE CGrey("default-integer-in-float-syntax")
    [] OTHER -> CBad("default-" \o what \o "-is-" \o d.j)

ConfPrim(d, p, dev) ==
  CASE p = "null" -> IF d.j = "null" THEN COk ELSE CBad("default-null-is-" \o d.j)
    [] p = "boolean" -> IF d.j = "bool" THEN COk ELSE CBad("default-boolean-is-" \o d.j)
    [] p = "int" -> ConfInt(d, 32, "int")
    [] p = "long" -> ConfInt(d, 64, "long")
    [] p \in {"float", "double"} ->
         IF d.j \in {"int", "num"} THEN COk
         ELSE IF d.j = "str" /\ d.s \in {"NaN", "Infinity", "-Infinity", "INF", "-INF"} THEN CGrey("default-float-special-as-string")
         ELSE CBad("default-" \o p \o "-is-" \o d.j)
    [] p = "string" -> IF d.j = "str" THEN COk ELSE CBad("default-string-is-" \o d.j)
    [] p = "bytes" -> IF d.j = "arr" /\ DevBytesArray \in dev /\ \A i \in 1..Len(d.items) : d.items[i].j = "int" /\ d.items[i].n \in 0..255
                      THEN COk
                      ELSE IF d.j # "str" THEN CBad("default-bytes-is-" \o d.j)
                      ELSE IF AllCodePointsLE255(d.u) \/ DevCodePoint \in dev THEN COk ELSE CBad("default-bytes-codepoint-above-255")
    [] OTHER -> COk

UnderLogical(ty, c) == IF Has(ty, "logicalType") /\ Get(ty, "logicalType").j = "str" /\ ~CIsBad(c)
                       THEN CJoin(c, CGrey("default-under-logical-type")) ELSE c

RECURSIVE Conf(_, _, _, _), ConfUnion(_, _, _, _), ConfRecord(_, _, _, _)
Conf(d, ty, ns, st) ==
  CASE ty.j = "str" ->
         IF ty.s \in Primitives THEN ConfPrim(d, ty.s, st.dev)
         ELSE LET r == RefHow(ty.u, ns, st) IN
              IF r.how \in {"def", "fallback"} THEN LET e == DefOf(st, r.full) IN Conf(d, e.node, e.tns, st)
              ELSE COk                                  \* unresolved: reported by the reference rule
    [] ty.j = "arr" -> ConfUnion(d, ty.items, ns, st)
    [] ty.j = "obj" ->
         IF ~Has(ty, "type") THEN COk
         ELSE LET tt == Get(ty, "type") IN
           \* value domains of logical types (uuid syntax, decimal precision ...) are not part of B.3: a default
           \* that conforms to the underlying type is judged "either" when a logicalType attribute is present
           UnderLogical(ty,
            CASE tt.j = "str" ->
                  CASE tt.s = "record" -> ConfRecord(d, ty, NameParts(ty, ns).ns, st)
                    [] tt.s = "enum" ->
                         IF d.j # "str" THEN CBad("default-enum-is-" \o d.j)
                         ELSE IF Has(ty, "symbols") /\ Get(ty, "symbols").j = "arr"
                                 /\ \E i \in 1..Len(Get(ty, "symbols").items) :
                                       LET y == Get(ty, "symbols").items[i] IN y.j = "str" /\ y.u = d.u
                              THEN COk ELSE CBad("default-enum-not-symbol")
                    [] tt.s = "fixed" ->
                         IF d.j # "str" THEN CBad("default-fixed-is-" \o d.j)
                         ELSE IF ~AllCodePointsLE255(d.u) /\ DevCodePoint \notin st.dev THEN CBad("default-fixed-codepoint-above-255")
                         ELSE IF ~(Has(ty, "size") /\ Get(ty, "size").j = "int") THEN CGrey("default-fixed-of-unusual-size")
                         ELSE IF CodePointCount(d.u) = Get(ty, "size").n \/ DevFixedLength \in st.dev THEN COk
                         ELSE CBad("default-fixed-wrong-length")
                    [] tt.s = "array" ->
                         IF d.j # "arr" THEN CBad("default-array-is-" \o d.j)
                         ELSE IF ~Has(ty, "items") THEN COk
                         ELSE LET cs == {Conf(d.items[i], Get(ty, "items"), ns, st) : i \in 1..Len(d.items)}
                              IN CR(UNION {c.bad : c \in cs}, UNION {c.grey : c \in cs})
                    [] tt.s = "map" ->
                         IF d.j # "obj" THEN CBad("default-map-is-" \o d.j)
                         ELSE IF ~Has(ty, "values") THEN COk
                         ELSE LET cs == {Conf(d.kv[i][2], Get(ty, "values"), ns, st) : i \in 1..Len(d.kv)}
                              IN CR(UNION {c.bad : c \in cs}, UNION {c.grey : c \in cs})
                    [] OTHER -> Conf(d, tt, ns, st)       \* {"type":"int", ...} / {"type":"Name"}: as the bare name
             [] tt.j \in {"obj", "arr"} -> Conf(d, tt, ns, st)
             [] OTHER -> COk)
    [] OTHER -> COk

(* union-typed field: first branch (<= 1.11) or first matching branch (1.12): grey where they differ *)
ConfUnion(d, items, ns, st) ==
  IF Len(items) = 0 THEN COk
  ELSE LET c1 == Conf(d, items[1], ns, st) IN
       IF CIsOk(c1) THEN COk
       ELSE IF \E i \in 2..Len(items) : ~CIsBad(Conf(d, items[i], ns, st)) THEN CGrey("default-matches-later-union-branch")
       ELSE IF ~CIsBad(c1) THEN c1
       ELSE CBad("default-matches-no-union-branch")

ConfRecord(d, rec, rns, st) ==
  IF d.j # "obj" THEN CBad("default-record-is-" \o d.j)
  ELSE IF ~(Has(rec, "fields") /\ Get(rec, "fields").j = "arr") THEN COk
  ELSE LET fs == Get(rec, "fields").items
           good == {i \in 1..Len(fs) : fs[i].j = "obj" /\ Has(fs[i], "name") /\ Get(fs[i], "name").j = "str" /\ Has(fs[i], "type")}
           one(i) == LET k == Get(fs[i], "name").s IN
                     IF Has(d, k) THEN Conf(Get(d, k), Get(fs[i], "type"), rns, st)
                     ELSE IF Has(fs[i], "default") THEN COk ELSE CBad("default-record-missing-field")
           cs == {one(i) : i \in good}
           extra == \E k \in KeySet(d) : \A i \in good : Get(fs[i], "name").s # k
       IN CR(UNION {c.bad : c \in cs}, UNION {c.grey : c \in cs} \cup (IF extra THEN {"default-record-extra-key"} ELSE {}))

(* ------------------------------------------------------------------------ *)
(* the schema reader                                                        *)
(* ------------------------------------------------------------------------ *)
(* union discriminator of a member: [kind, full]; kind = "named" for named types (full = full name) *)
RECURSIVE BranchKind(_, _, _)
BranchKind(m, ns, st) ==
  CASE m.j = "str" -> IF m.s \in Primitives THEN [kind |-> m.s, full |-> <<>>]
                      ELSE [kind |-> "named", full |-> RefHow(m.u, ns, st).full]
    [] m.j = "obj" ->
         IF ~Has(m, "type") THEN [kind |-> "invalid", full |-> <<>>]
         ELSE LET tt == Get(m, "type") IN
           CASE tt.j = "str" ->
                  IF tt.s \in {"record", "enum", "fixed"} THEN [kind |-> "named", full |-> NameParts(m, ns).full]
                  ELSE IF tt.s \in {"array", "map"} THEN [kind |-> tt.s, full |-> <<>>]
                  ELSE BranchKind(tt, ns, st)
             [] tt.j = "obj" -> BranchKind(tt, ns, st)
             [] tt.j = "arr" -> [kind |-> "union", full |-> <<>>]
             [] OTHER -> [kind |-> "invalid", full |-> <<>>]
    [] m.j = "arr" -> [kind |-> "union", full |-> <<>>]
    [] OTHER -> [kind |-> "invalid", full |-> <<>>]

(* attributes common to the three named types: name, namespace, aliases, doc; returns [st, np] *)
WName(t, ns, st) ==
  LET np == NameParts(t, ns)
      hasName == Has(t, "name")
      nameStr == hasName /\ Get(t, "name").j = "str"
      u == IF nameStr THEN Get(t, "name").u ELSE <<>>
      nsPresent == Has(t, "namespace")
      nsStr == nsPresent /\ Get(t, "namespace").j = "str"
      s1 == BadIf(BadIf(st, ~hasName, "missing-name"), hasName /\ ~nameStr, "name-wrong-json-kind")
      s2 == BadIf(s1, nameStr /\ ~np.ok, "bad-name")
      s3 == GreyIf(s2, nameStr /\ LeadingDotName(u), "leading-dot-name")
      s4 == GreyIf(s3, nsPresent /\ ~nsStr, "namespace-not-string")
      s5 == IF nsStr /\ ~NamespaceOk(Get(t, "namespace").u)
            THEN IF nameStr /\ HasDot(u) THEN AddGrey(s4, "invalid-namespace-shadowed-by-dotted-name") ELSE AddBad(s4, "bad-namespace")
            ELSE s4
      s6 == IF nameStr /\ np.ok /\ np.name \in PrimitivesU
            THEN IF Len(np.ns) = 0 THEN AddBad(s5, "primitive-name-redefined") ELSE AddGrey(s5, "primitive-name-in-namespace")
            ELSE s5
      s7 == GreyIf(s6, nameStr /\ np.ok /\ np.name \in KeywordsU, "complex-type-keyword-as-name")
      s8 == BadIf(s7, nameStr /\ np.ok /\ Defined(s7, np.full), "duplicate-fullname")
      s9 == GreyIf(s8, nameStr /\ np.ok /\ np.full \in s8.aliases, "name-collides-with-alias")
      al == IF Has(t, "aliases") THEN Get(t, "aliases") ELSE JArr(<<>>)
      alOk == al.j = "arr" /\ \A i \in 1..Len(al.items) : al.items[i].j = "str"
      s10 == GreyIf(s9, ~alOk, "aliases-wrong-json-kind")
      alU == IF alOk THEN {al.items[i].u : i \in 1..Len(al.items)} ELSE {}
      s11 == BadIf(s10, \E a \in alU : ~(DottedName(a) \/ LeadingDotName(a)), "bad-alias-name")
      s12 == [s11 EXCEPT !.aliases = @ \cup {RefFull(a, np.ns) : a \in alU}]
      s13 == GreyIf(s12, Has(t, "doc") /\ Get(t, "doc").j # "str", "doc-not-string")
  IN [st |-> s13, np |-> np]

RECURSIVE WType(_, _, _), WUnion(_, _, _, _, _), WObj(_, _, _), WFields(_, _, _, _, _)

WRef(t, ns, st) ==
  IF t.s \in Primitives THEN st
  ELSE IF ~(DottedName(t.u) \/ LeadingDotName(t.u)) THEN AddBad(st, "bad-reference-name")
  ELSE LET r == RefHow(t.u, ns, st)
           s1 == GreyIf(st, LeadingDotName(t.u), "leading-dot-name")
       IN CASE r.how = "def" -> s1
            [] r.how = "fallback" -> AddGrey(s1, "unqualified-reference-falls-back-to-null-namespace")
            [] r.how = "alias" -> AddGrey(s1, "reference-to-alias")
            [] OTHER -> AddBad(s1, "dangling-reference")

WType(t, ns, st) ==
  CASE t.j = "str" -> WRef(t, ns, st)
    [] t.j = "arr" -> GreyIf(WUnion(t.items, 1, ns, {}, st), Len(t.items) = 0, "empty-union")
    [] t.j = "obj" -> WObj(t, ns, st)
    [] OTHER -> AddBad(st, "schema-wrong-json-kind")

(* union: no immediate union member; at most one member per unnamed kind; named members pairwise different *)
WUnion(items, i, ns, seen, st) ==
  IF i > Len(items) THEN st
  ELSE LET m == items[i] IN
       IF m.j = "arr" THEN WUnion(items, i + 1, ns, seen, AddBad(st, "nested-union"))
       ELSE LET s1 == WType(m, ns, st)
                bk == BranchKind(m, ns, s1)
                dup == bk.kind # "invalid" /\ bk \in seen
                s2 == IF dup THEN AddBad(s1, IF bk.kind = "named" THEN "duplicate-union-named-branch" ELSE "duplicate-union-branch-kind")
                      ELSE s1
                s3 == GreyIf(s2, bk.kind = "union", "nested-union-through-type-attribute")
            IN WUnion(items, i + 1, ns, seen \cup {bk}, s3)

WFixedSize(t, st) ==
  IF ~Has(t, "size") THEN AddBad(st, "missing-size")
  ELSE LET z == Get(t, "size") IN
    CASE z.j = "int" -> BadIf(st, z.n < 0, "size-negative")
      [] z.j = "num" ->
           LET neg == NumNeg(z.u) /\ ~NumMantissaZero(z.u) IN
           IF neg THEN AddBad(st, "size-negative")
           ELSE IF NumIntSyntax(z.u) THEN GreyIf(st, ~IntLitInRange(z.u, 32), "size-beyond-int32")
           ELSE IF NumFracNonZero(z.u) /\ ~NumHasExp(z.u) THEN AddBad(st, "size-not-integer")
           ELSE AddGrey(st, "size-integer-in-float-syntax")
      [] OTHER -> AddBad(st, "size-wrong-json-kind")

WEnumBody(t, st) ==
  LET s1 == IF ~Has(t, "symbols") THEN AddBad(st, "missing-symbols")
            ELSE LET y == Get(t, "symbols") IN
              IF y.j # "arr" THEN AddBad(st, "symbols-wrong-json-kind")
              ELSE LET n == Len(y.items)
                       a == BadIf(st, \E i \in 1..n : y.items[i].j # "str", "symbol-not-string")
                       b == BadIf(a, \E i \in 1..n : y.items[i].j = "str" /\ ~SimpleName(y.items[i].u), "bad-symbol")
                       c == BadIf(b, \E i, k \in 1..n : i < k /\ y.items[i].j = "str" /\ y.items[k].j = "str"
                                                        /\ y.items[i].u = y.items[k].u, "duplicate-symbol")
                   IN GreyIf(c, n = 0, "empty-enum")
  IN IF ~Has(t, "default") THEN s1
     ELSE LET d == Get(t, "default") IN
       IF d.j # "str" THEN AddBad(s1, "enum-default-not-string")
       ELSE BadIf(s1, ~(Has(t, "symbols") /\ Get(t, "symbols").j = "arr"
                        /\ \E i \in 1..Len(Get(t, "symbols").items) :
                              LET y == Get(t, "symbols").items[i] IN y.j = "str" /\ y.u = d.u),
                  "enum-default-not-symbol")

WObj(t, ns, st) ==
  IF ~Has(t, "type") THEN AddBad(st, "missing-type")
  ELSE
  LET tt == Get(t, "type")
      s0 == GreyIf(st, Has(t, "logicalType") /\ Get(t, "logicalType").j # "str", "logicalType-not-string")
  IN CASE tt.j = "str" ->
       CASE tt.s = "record" ->
              LET w == WName(t, ns, s0)
                  s1 == IF w.np.ok THEN Define(w.st, w.np.full, t, w.np.ns) ELSE w.st
              IN IF ~Has(t, "fields") THEN AddBad(s1, "missing-fields")
                 ELSE IF Get(t, "fields").j # "arr" THEN AddBad(s1, "fields-wrong-json-kind")
                 ELSE WFields(Get(t, "fields").items, 1, w.np.ns, {}, s1)
         [] tt.s = "enum" ->
              LET w == WName(t, ns, s0)
                  s1 == IF w.np.ok THEN Define(w.st, w.np.full, t, w.np.ns) ELSE w.st
              IN WEnumBody(t, s1)
         [] tt.s = "fixed" ->
              LET w == WName(t, ns, s0)
                  s1 == IF w.np.ok THEN Define(w.st, w.np.full, t, w.np.ns) ELSE w.st
              IN WFixedSize(t, s1)
         [] tt.s = "array" -> IF Has(t, "items") THEN WType(Get(t, "items"), ns, s0) ELSE AddBad(s0, "missing-items")
         [] tt.s = "map" -> IF Has(t, "values") THEN WType(Get(t, "values"), ns, s0) ELSE AddBad(s0, "missing-values")
         [] OTHER -> WRef(tt, ns, s0)
     [] tt.j \in {"obj", "arr"} -> WType(tt, ns, AddGrey(s0, "type-attribute-is-a-schema"))
     [] OTHER -> AddBad(s0, "type-wrong-json-kind")

(* record fields, in order; `seen` = field names so far (code units) *)
WFields(fs, i, rns, seen, st) ==
  IF i > Len(fs) THEN st
  ELSE LET f == fs[i] IN
    IF f.j # "obj" THEN WFields(fs, i + 1, rns, seen, AddBad(st, "field-not-object"))
    ELSE
    LET hasName == Has(f, "name")
        nameStr == hasName /\ Get(f, "name").j = "str"
        u == IF nameStr THEN Get(f, "name").u ELSE <<>>
        s1 == BadIf(BadIf(st, ~hasName, "field-missing-name"), hasName /\ ~nameStr, "field-name-wrong-json-kind")
        s2 == BadIf(s1, nameStr /\ ~SimpleName(u), "bad-field-name")
        s3 == BadIf(s2, nameStr /\ u \in seen, "duplicate-field-name")
        s4 == IF Has(f, "type") THEN WType(Get(f, "type"), rns, s3) ELSE AddBad(s3, "field-missing-type")
        c  == IF Has(f, "type") /\ Has(f, "default") THEN Conf(Get(f, "default"), Get(f, "type"), rns, s4) ELSE COk
        s5 == [s4 EXCEPT !.bad = @ \cup c.bad, !.grey = @ \cup c.grey]
        s6 == GreyIf(s5, Has(f, "order") /\ ~(Get(f, "order").j = "str" /\ Get(f, "order").s \in {"ascending", "descending", "ignore"}),
                     "order-not-ascending-descending-ignore")
        al == IF Has(f, "aliases") THEN Get(f, "aliases") ELSE JArr(<<>>)
        s7 == GreyIf(s6, ~(al.j = "arr" /\ \A k \in 1..Len(al.items) : al.items[k].j = "str" /\ SimpleName(al.items[k].u)),
                     "field-aliases-invalid")
        s8 == GreyIf(s7, Has(f, "doc") /\ Get(f, "doc").j # "str", "doc-not-string")
    IN WFields(fs, i + 1, rns, IF nameStr THEN seen \cup {u} ELSE seen, s8)

(* ------------------------------------------------------------------------ *)
(* the verdict                                                              *)
(* ------------------------------------------------------------------------ *)
RECURSIVE ExoticNumber(_)
ExoticNumber(t) ==
  CASE t.j = "obj" -> \E i \in 1..Len(t.kv) : ExoticNumber(t.kv[i][2])
    [] t.j = "arr" -> \E i \in 1..Len(t.items) : ExoticNumber(t.items[i])
    [] t.j = "num" -> NumExotic(t.u)
    [] OTHER -> FALSE

WF1D(t, D) ==
  LET st == WType(t, <<>>, [St0 EXCEPT !.dev = D])
      g  == st.grey \cup (IF ExoticNumber(t) THEN {"number-beyond-common-json-readers"} ELSE {})
  IN [verdict |-> IF st.bad # {} THEN "bad" ELSE IF g # {} THEN "grey" ELSE "ok",
      bad |-> st.bad, grey |-> g, names |-> {st.defs[i].full : i \in 1..Len(st.defs)}]

(* duplicate keys: JSON leaves the meaning open; judged only where both usual readings agree *)
WFD(t, D) ==
  IF NoDupKeys(t) THEN WF1D(t, D)
  ELSE LET a == WF1D(Dedup(t, TRUE), D)   b == WF1D(Dedup(t, FALSE), D) IN
       IF a.verdict = b.verdict /\ a.verdict # "grey" THEN [a EXCEPT !.grey = @ \cup {"duplicate-json-key"}]
       ELSE [verdict |-> "grey", bad |-> {}, grey |-> a.grey \cup b.grey \cup {"duplicate-json-key"}, names |-> a.names]

WF(t) == WFD(t, {})
WellFormed(t) == WF(t).verdict = "ok"
=============================================================================
