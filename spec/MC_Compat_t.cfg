SPECIFICATION Spec
CONSTANT EnumTier = "thorough"
INVARIANT WellFormed
INVARIANT ValuesConform
INVARIANT ReadsItself
CHECK_DEADLOCK FALSE
