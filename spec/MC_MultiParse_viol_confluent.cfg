SPECIFICATION Spec
CONSTANT Mode = "faithful"
CONSTANT K = 2
CONSTANT KW = 0
CONSTANT KB = 0
CONSTANT EmitScn = FALSE
INVARIANT Confluent
CHECK_DEADLOCK FALSE
