SPECIFICATION Spec
CONSTANT Mode = "faithful"
CONSTANT K = 2
CONSTANT KW = 2
CONSTANT EmitScn = FALSE
INVARIANT Confluent
CHECK_DEADLOCK FALSE
