------------------------------ MODULE Resolve ------------------------------
(***************************************************************************)
(* Avro schema resolution, transcribed from the specification's "Schema    *)
(* Resolution" section (DESIGN Appendix B.5) -- NOT from the Rust.         *)
(*                                                                         *)
(*   Res(W, R, v, envW, envR, D, p)  the value a reader with schema R must *)
(*        deliver for the datum v written with schema W, or Err.           *)
(*        D  = set of enabled NAMED DEVIATIONS (ids of known findings);    *)
(*             D = {} is the specification.                                *)
(*        p  = a reading of the places the specification leaves open       *)
(*             (grey zones, see Policies); every reading is accepted.      *)
(*   SpecResolve(W, R, v, envW, envR) = Res(.., {}, StdPolicy)             *)
(*   SpecResults(W, R, v, envW, envR) = the results under all readings     *)
(*                                                                         *)
(*   DefaultVal(json, R, envR, D, p)  a field default (JSON tree, module   *)
(*        JsonTree) interpreted by the reader field's schema (B.3).        *)
(*                                                                         *)
(*   Rewrites(R, envR)  the evolution steps (one operator per step kind):  *)
(*        every schema obtainable from R by ONE step at ONE position,      *)
(*        with the step's descriptor [kind, safe].                         *)
(*                                                                         *)
(* Schema terms are those of AvroSchema.  Record fields may carry          *)
(*   aliases |-> <<"a", ..>>, hasdef |-> BOOLEAN, defjson |-> JsonTree     *)
(* and enums  hasdef |-> BOOLEAN, def |-> "SYM".                           *)
(* Names are atoms (full names).  The specification matches named types by *)
(* UNQUALIFIED name; the universes used with this module never contain two *)
(* different full names with the same unqualified name, so comparing full  *)
(* names is the same relation there (assumption recorded in evidence).     *)
(*                                                                         *)
(* Modelled fragment: primitives, the int- and long-based logical types,   *)
(* fixed, enum, array, map, union, record, references.  decimal, uuid,     *)
(* duration and big-decimal resolve only against the identical schema.     *)
(***************************************************************************)
EXTENDS AvroValue, Ieee, JsonTree

Err == [t |-> "err"]
IsErr(x) == x.t = "err"

FAliases(f) == IF "aliases" \in DOMAIN f THEN f.aliases ELSE <<>>
FHasDef(f)  == "hasdef" \in DOMAIN f /\ f.hasdef
EHasDef(s)  == "hasdef" \in DOMAIN s /\ s.hasdef

LeafKinds == PrimKinds \cup IntKinds \cup LongKinds
BaseKind(k) == IF k \in IntKinds THEN "int" ELSE IF k \in LongKinds THEN "long" ELSE k
IsLogicalNum(k) == k \in (IntKinds \cup LongKinds) \ {"int", "long"}

NumRank(b) == CASE b = "int" -> 1 [] b = "long" -> 2 [] b = "float" -> 3 [] b = "double" -> 4 [] OTHER -> 0

(* "the writer's schema may be promoted to the reader's": on base kinds *)
Promotable(wb, rb) ==
  \/ wb = rb
  \/ NumRank(wb) > 0 /\ NumRank(rb) > NumRank(wb)
  \/ wb = "string" /\ rb = "bytes"
  \/ wb = "bytes" /\ rb = "string"

(***************************************************************************)
(* Grey zones (Appendix B.3 / B.5): readings the oracle accepts.           *)
(*  order : reader-union branch = first branch that matches ("first") or   *)
(*          an exact kind/name match preferred over a promotion ("exact")  *)
(*  deep  : in branch selection, arrays/maps match iff their item/value    *)
(*          types match (TRUE, the specification's text) or by kind alone  *)
(*          (FALSE, what the reference implementation does)                *)
(*  udef  : a union-typed field's default belongs to the first branch      *)
(*          ("first", <= 1.11) or to the first branch it fits ("fit", 1.12)*)
(***************************************************************************)
Policies == [order : {"first", "exact"}, deep : BOOLEAN, udef : {"first", "fit"}]
StdPolicy == [order |-> "first", deep |-> TRUE, udef |-> "first"]
AltPolicy == [order |-> "exact", deep |-> FALSE, udef |-> "fit"]

(***************************************************************************)
(* Named deviations (known findings).  With D = {} none is taken.          *)
(***************************************************************************)
DevAlias     == "C08-alias-ignored"
DevLongInt   == "C08-long-to-int"
DevDblFlt    == "C08-double-to-float"
DevLogical   == "C08-logical-not-base"
DevFixedStr  == "C08-fixed-string-coercion"
DevStructure == "C08-named-by-structure"
DevUnionDef  == "C08-union-default-null-shortcut"
DevBytesDef  == "C08-bytes-default-utf8"
DevCoerce    == "C08-default-coercions-on-written-data"
DevUtf8      == "C09-bytes-to-string-unchecked"      \* used by Compat only: explains, never excuses a C08 result
AllDevs == {DevAlias, DevLongInt, DevDblFlt, DevLogical, DevFixedStr, DevStructure, DevUnionDef, DevBytesDef, DevCoerce}
FitPolicy == [order |-> "first", deep |-> TRUE, udef |-> "fit"]

(***************************************************************************)
(* Leaves: same primitive, or a promotion.  Logical int/long types resolve *)
(* as their base; the result carries the READER's kind.                    *)
(***************************************************************************)
NumTerm(k, n) == [t |-> k, n |-> n]

LeafConv(w, r, v, D) ==
  LET wb == BaseKind(w.k)  rb == BaseKind(r.k) IN
  IF DevLogical \in D /\ IsLogicalNum(w.k) /\ r.k # w.k THEN Err          \* a logical value is refused by any other schema
  ELSE IF DevLongInt \in D /\ w.k = "long" /\ r.k = "int"
       THEN (IF IsI32(v.n) THEN NumTerm("int", v.n) ELSE Err)              \* silently narrowed when it fits
  ELSE IF DevDblFlt \in D /\ w.k = "double" /\ r.k = "float"
       THEN [t |-> "float", bits |-> DoubleToFloat(v.bits)]                \* silently narrowed, always
  ELSE IF ~Promotable(wb, rb) THEN Err
  ELSE CASE rb \in {"int", "long"} -> NumTerm(r.k, v.n)                    \* int -> int/long, long -> long
         [] rb = "float" -> IF wb = "float" THEN v ELSE [t |-> "float", bits |-> IntToFloat(v.n)]
         [] rb = "double" -> IF wb = "double" THEN v
                             ELSE IF wb = "float" THEN [t |-> "double", bits |-> FloatToDouble(v.bits)]
                             ELSE [t |-> "double", bits |-> IntToDouble(v.n)]
         [] rb = "bytes" -> [t |-> "bytes", b |-> v.b]
         [] rb = "string" -> IF wb = "string" \/ IsUtf8(v.b) \/ DevUtf8 \in D
                             THEN [t |-> "string", b |-> v.b] ELSE Err     \* a string is UTF-8: no result otherwise
         [] OTHER -> v                                                     \* null, boolean

(***************************************************************************)
(* Enums: the writer's symbol by NAME; unknown => the reader's default.    *)
(***************************************************************************)
SymIndex(r, sym) == CHOOSE i \in 1..Len(r.symbols) : r.symbols[i] = sym
EnumTerm(r, sym) == [t |-> "enum", i |-> SymIndex(r, sym) - 1, sym |-> sym]

EnumConv(r, v) ==
  IF v.sym \in SeqRange(r.symbols) THEN EnumTerm(r, v.sym)
  ELSE IF EHasDef(r) /\ r.def \in SeqRange(r.symbols) THEN EnumTerm(r, r.def)
  ELSE Err

(***************************************************************************)
(* Does writer schema w match reader schema r (specification: "To match,   *)
(* one of the following must hold ...")?  Used for union branch selection. *)
(***************************************************************************)
RECURSIVE Match(_, _, _, _, _, _)
Match(w0, r0, ew, er, D, p) ==
  LET w == Deref(w0, ew)  r == Deref(r0, er) IN
  IF w.k = "union" \/ r.k = "union" THEN TRUE
  ELSE CASE w.k = "array" -> r.k = "array" /\ (~p.deep \/ Match(w.items, r.items, ew, er, D, p))
         [] w.k = "map" -> r.k = "map" /\ (~p.deep \/ Match(w.values, r.values, ew, er, D, p))
         [] w.k \in {"record", "enum"} -> r.k = w.k /\ r.name = w.name
         [] w.k = "fixed" -> r.k = "fixed" /\ r.name = w.name /\ r.size = w.size
         [] w.k \in LeafKinds -> r.k \in LeafKinds /\ Promotable(BaseKind(w.k), BaseKind(r.k))
         [] OTHER -> r = w

(* an exact match: same kind (logical types count as their base) / same name, no promotion *)
ExactMatch(w0, r0, ew, er, D, p) ==
  LET w == Deref(w0, ew)  r == Deref(r0, er) IN
  IF w.k \in LeafKinds THEN r.k \in LeafKinds /\ BaseKind(w.k) = BaseKind(r.k)
  ELSE Match(w, r, ew, er, D, p)

MinOf(S) == CHOOSE i \in S : \A j \in S : i <= j

(***************************************************************************)
(* Field defaults: a JSON tree interpreted by the reader field's schema.   *)
(***************************************************************************)
IntLE8(n) == IF n >= 0 THEN NatToLE8(n) ELSE NegNatToLE8(0 - n)

(* code points of a UTF-8 string, as far as bytes/fixed defaults need them (<= U+00FF); 999 = beyond *)
RECURSIVE CodePoints(_, _)
CodePoints(u, i) ==
  IF i > Len(u) THEN <<>>
  ELSE IF u[i] < 128 THEN <<u[i]>> \o CodePoints(u, i + 1)
  ELSE IF u[i] \in {194, 195} /\ i + 1 <= Len(u)
       THEN <<(u[i] - 192) * 64 + (u[i + 1] - 128)>> \o CodePoints(u, i + 2)
  ELSE <<999>>
BytesOfJStr(j) == CodePoints(j.u, 1)
AllBytes(b) == \A i \in 1..Len(b) : b[i] <= 255

(* map keys of the defaults used in the universes (JSON object keys are atomic strings) *)
KeyBytes(s) == CASE s = "k" -> <<107>> [] s = "a" -> <<97>> [] s = "b" -> <<98>> [] s = "" -> <<>> [] OTHER -> <<63>>

AnyErr(q) == \E i \in 1..Len(q) : IsErr(q[i])

RECURSIVE DefaultVal(_, _, _, _, _)
DefaultVal(j, r0, er, D, p) ==
  LET r == Deref(r0, er) IN
  CASE r.k = "null" -> IF j.j = "null" THEN [t |-> "null"] ELSE Err
    [] r.k = "boolean" -> IF j.j = "bool" THEN [t |-> "boolean", bool |-> j.bv] ELSE Err
    [] r.k \in IntKinds \cup LongKinds -> IF j.j = "int" THEN NumTerm(r.k, IntLE8(j.n)) ELSE Err
    [] r.k = "float" -> IF j.j = "int" THEN [t |-> "float", bits |-> IntToFloat(IntLE8(j.n))] ELSE Err
    [] r.k = "double" -> IF j.j = "int" THEN [t |-> "double", bits |-> IntToDouble(IntLE8(j.n))] ELSE Err
    [] r.k = "string" -> IF j.j = "str" THEN [t |-> "string", b |-> j.u] ELSE Err
    [] r.k = "bytes" ->
         IF j.j # "str" THEN Err
         ELSE IF DevBytesDef \in D THEN [t |-> "bytes", b |-> j.u]          \* UTF-8 bytes instead of code points
         ELSE LET b == BytesOfJStr(j) IN IF AllBytes(b) THEN [t |-> "bytes", b |-> b] ELSE Err
    [] r.k = "fixed" ->
         IF j.j # "str" THEN Err
         ELSE IF DevBytesDef \in D THEN [t |-> "fixed", b |-> j.u]          \* ... and the size is not checked
         ELSE LET b == BytesOfJStr(j) IN
              IF AllBytes(b) /\ Len(b) = r.size THEN [t |-> "fixed", b |-> b] ELSE Err
    [] r.k = "enum" -> IF j.j = "str" /\ j.s \in SeqRange(r.symbols) THEN EnumTerm(r, j.s) ELSE Err
    [] r.k = "array" ->
         IF j.j # "arr" THEN Err
         ELSE LET q == TLCEval([i \in 1..Len(j.items) |-> DefaultVal(j.items[i], r.items, er, D, p)]) IN
              IF AnyErr(q) THEN Err ELSE [t |-> "array", items |-> q]
    [] r.k = "map" ->
         IF j.j # "obj" \/ ~NoDupKeysHere(j) THEN Err
         ELSE LET q == TLCEval([i \in 1..Len(j.kv) |-> DefaultVal(j.kv[i][2], r.values, er, D, p)]) IN
              IF AnyErr(q) THEN Err
              ELSE [t |-> "map", entries |-> [i \in 1..Len(j.kv) |-> <<KeyBytes(j.kv[i][1]), q[i]>>]]
    [] r.k = "record" ->
         IF j.j # "obj" THEN Err
         ELSE LET q == TLCEval([i \in 1..Len(r.fields) |->
                          LET f == r.fields[i] IN
                          IF f.name \in KeySet(j) THEN DefaultVal(GetLast(j, f.name), f.type, er, D, p)
                          ELSE IF FHasDef(f) THEN DefaultVal(f.defjson, f.type, er, D, p)
                          ELSE Err]) IN
              IF AnyErr(q) THEN Err
              ELSE [t |-> "record", fields |-> [i \in 1..Len(r.fields) |-> <<r.fields[i].name, q[i]>>]]
    [] r.k = "union" ->
         IF DevUnionDef \in D /\ Deref(r.branches[1], er).k = "null"
         THEN [t |-> "union", i |-> 0, v |-> [t |-> "null"]]               \* whatever the declared default says
         ELSE LET fits == {i \in 1..Len(r.branches) : ~IsErr(DefaultVal(j, r.branches[i], er, D, p))}
                  pick == IF p.udef = "first" THEN (IF 1 \in fits THEN {1} ELSE {}) ELSE fits IN
              IF pick = {} THEN Err
              ELSE LET i == MinOf(pick)  x == DefaultVal(j, r.branches[i], er, D, p) IN
                   \* (deviation) the over-long fixed then fails the second pass against the union
                   IF DevBytesDef \in D /\ ~Conforms(x, r.branches[i], er) THEN Err
                   ELSE [t |-> "union", i |-> i - 1, v |-> x]
    [] OTHER -> Err

(***************************************************************************)
(* The resolution function.                                                *)
(***************************************************************************)
(* the writer field a reader field reads: by name, else by one of the READER field's aliases *)
WriterFieldFor(rf, w, D) ==
  LET byName == {i \in 1..Len(w.fields) : w.fields[i].name = rf.name}
      al == IF DevAlias \in D THEN <<>> ELSE FAliases(rf)
      hits == {a \in 1..Len(al) : \E i \in 1..Len(w.fields) : w.fields[i].name = al[a]} IN
  IF byName # {} THEN MinOf(byName)
  ELSE IF hits # {} THEN LET a == MinOf(hits) IN CHOOSE i \in 1..Len(w.fields) : w.fields[i].name = al[a]
  ELSE 0

(* (deviation DevCoerce) the conversions meant for JSON defaults, applied to WRITTEN data:                      *)
(*   a written string names an enum symbol (unknown => the enum default); an array of small ints is bytes;      *)
(*   a map is a record (assumption of the universes: no map key equals a reader field name, so every field of   *)
(*   that record comes from its default).                                                                        *)
SymBytes(sym) == CASE sym = "A" -> <<65>> [] sym = "B" -> <<66>> [] sym = "C" -> <<67>> [] sym = "D" -> <<68>>
                   [] sym = "Z" -> <<90>> [] OTHER -> <<0>>
EnumFromString(r, v) ==
  LET hit == {i \in 1..Len(r.symbols) : SymBytes(r.symbols[i]) = v.b} IN
  IF hit # {} THEN EnumTerm(r, r.symbols[MinOf(hit)])
  ELSE IF EHasDef(r) /\ r.def \in SeqRange(r.symbols) THEN EnumTerm(r, r.def) ELSE Err
IsU8(x) == x.t \in {"int", "long"} /\ x.n[2] = 0 /\ x.n[3] = 0 /\ x.n[4] = 0 /\ x.n[5] = 0 /\ x.n[6] = 0 /\ x.n[7] = 0 /\ x.n[8] = 0
ArrayToBytes(v) ==
  IF \A i \in 1..Len(v.items) : IsU8(v.items[i]) THEN [t |-> "bytes", b |-> [i \in 1..Len(v.items) |-> v.items[i].n[1]]] ELSE Err
EmptyRecSchema(n) == [k |-> "record", name |-> n, fields |-> <<>>]
EmptyRecValue == [t |-> "record", fields |-> <<>>]

RECURSIVE Res(_, _, _, _, _, _, _)
Res(w0, r0, v, ew, er, D, p) ==
  LET w == Deref(w0, ew)  r == Deref(r0, er) IN
  IF w.k = "union"
  THEN \* the writer's union: resolve the branch that was written
       Res(w.branches[v.i + 1], r, v.v, ew, er, D, p)
  ELSE IF r.k = "union"
  THEN \* the reader's union: the first branch matching the writer's schema
       LET n == Len(r.branches)
           m  == {i \in 1..n : Match(w, r.branches[i], ew, er, D, p)}
           ex == {i \in m : ExactMatch(w, r.branches[i], ew, er, D, p)}
           \* With a deviation enabled the selection is the one the deviations presuppose (value-driven):
           \* an unnamed branch of the written kind is taken untried; otherwise the first branch of the written
           \* kind the VALUE resolves against (names not consulted); otherwise the first branch it resolves against.
           \* every branch is tried ONCE (the results are kept): evaluating Res per test and again for the chosen
           \* branch would be exponential in the nesting depth of recursive values
           tried == IF D = {} THEN <<>> ELSE TLCEval([i \in 1..n |-> Res(w, r.branches[i], v, ew, er, D, p)])
           ok(i) == ~IsErr(tried[i])
           kind(i) == LET b == Deref(r.branches[i], er) IN
                      IF w.k \in LeafKinds THEN b.k \in LeafKinds /\ BaseKind(b.k) = BaseKind(w.k) ELSE b.k = w.k
           same == {i \in 1..n : kind(i)}
           sameOk == {i \in same : ok(i)}
           \* (DevCoerce) a written map is also tried as a record: the earlier of the map branch and the first record
           \* branch it "resolves" against wins
           recsOk == {i \in 1..n : Deref(r.branches[i], er).k = "record" /\ ok(i)}
           impl == IF w.k \in LeafKinds /\ same # {} THEN same
                   ELSE IF w.k = "map" /\ DevCoerce \in D /\ recsOk # {}
                        THEN (IF sameOk # {} /\ MinOf(sameOk) < MinOf(recsOk) THEN sameOk ELSE recsOk)
                   ELSE IF sameOk # {} THEN sameOk ELSE {i \in 1..n : ok(i)}
           pick == IF D # {} THEN impl
                   ELSE IF p.order = "exact" /\ ex # {} THEN ex ELSE m
       IN IF pick = {} THEN Err
          ELSE LET i == MinOf(pick)  x == IF D = {} THEN Res(w, r.branches[i], v, ew, er, D, p) ELSE tried[i] IN
               IF IsErr(x) THEN Err ELSE [t |-> "union", i |-> i - 1, v |-> x]
  ELSE CASE w.k \in LeafKinds ->
              IF r.k \in LeafKinds THEN LeafConv(w, r, v, D)
              ELSE IF DevFixedStr \in D /\ r.k = "fixed" /\ w.k = "string" THEN [t |-> "fixed", b |-> v.b]
              ELSE IF DevFixedStr \in D /\ r.k = "fixed" /\ w.k = "bytes" /\ Len(v.b) = r.size THEN [t |-> "fixed", b |-> v.b]
              ELSE IF DevCoerce \in D /\ r.k = "enum" /\ w.k = "string" THEN EnumFromString(r, v)
              ELSE Err
         [] w.k = "fixed" ->
              IF r.k = "fixed" /\ r.size = w.size /\ (r.name = w.name \/ DevStructure \in D) THEN v
              ELSE IF DevFixedStr \in D /\ r.k = "string" /\ IsUtf8(v.b) THEN [t |-> "string", b |-> v.b]
              ELSE Err
         [] w.k = "enum" ->
              IF r.k = "enum" /\ (r.name = w.name \/ DevStructure \in D) THEN EnumConv(r, v) ELSE Err
         [] w.k = "array" ->
              IF DevCoerce \in D /\ r.k = "bytes" /\ Deref(w.items, ew).k \in {"int", "long"} THEN ArrayToBytes(v)
              ELSE IF r.k # "array" THEN Err
              ELSE LET q == TLCEval([i \in 1..Len(v.items) |-> Res(w.items, r.items, v.items[i], ew, er, D, p)]) IN
                   IF AnyErr(q) THEN Err ELSE [t |-> "array", items |-> q]
         [] w.k = "map" ->
              IF DevCoerce \in D /\ r.k = "record"
              THEN Res(EmptyRecSchema(r.name), r, EmptyRecValue, ew, er, D, p)
              ELSE IF r.k # "map" THEN Err
              ELSE LET q == TLCEval([i \in 1..Len(v.entries) |->
                                       Res(w.values, r.values, v.entries[i][2], ew, er, D, p)]) IN
                   IF AnyErr(q) THEN Err
                   ELSE [t |-> "map", entries |-> [i \in 1..Len(v.entries) |-> <<v.entries[i][1], q[i]>>]]
         [] w.k = "record" ->
              IF r.k # "record" \/ (r.name # w.name /\ DevStructure \notin D) THEN Err
              ELSE LET q == TLCEval([i \in 1..Len(r.fields) |->
                               LET rf == r.fields[i]  wi == WriterFieldFor(rf, w, D) IN
                               IF wi > 0 THEN Res(w.fields[wi].type, rf.type, v.fields[wi][2], ew, er, D, p)
                               ELSE IF FHasDef(rf) THEN DefaultVal(rf.defjson, rf.type, er, D, p)
                               ELSE Err]) IN          \* writer-only fields are skipped: nothing refers to them
                   IF AnyErr(q) THEN Err
                   ELSE [t |-> "record", fields |-> [i \in 1..Len(r.fields) |-> <<r.fields[i].name, q[i]>>]]
         [] OTHER -> IF r = w THEN v ELSE Err          \* decimal, uuid, duration, big-decimal: identity only

SpecResolve(W, R, v, ew, er) == Res(W, R, v, ew, er, {}, StdPolicy)
SpecResults(W, R, v, ew, er) == {Res(W, R, v, ew, er, {}, p) : p \in Policies}

(***************************************************************************)
(* Equality of a delivered value with the prescribed one: C01's equality   *)
(* (floats bit for bit, maps as functions) except that any NaN equals any  *)
(* NaN (grey zone: NaN payloads after a promotion).                        *)
(***************************************************************************)
RECURSIVE REq(_, _)
REq(a, b) ==
  IF a.t # b.t THEN FALSE
  ELSE CASE a.t = "array" ->
              Len(a.items) = Len(b.items) /\ \A i \in 1..Len(a.items) : REq(a.items[i], b.items[i])
         [] a.t = "map" ->
              /\ Len(a.entries) = Len(b.entries)
              /\ \A i \in 1..Len(a.entries) : \E j \in 1..Len(b.entries) :
                    a.entries[i][1] = b.entries[j][1] /\ REq(a.entries[i][2], b.entries[j][2])
              /\ \A i, j \in 1..Len(b.entries) : b.entries[i][1] = b.entries[j][1] => i = j
         [] a.t = "record" ->
              Len(a.fields) = Len(b.fields)
              /\ \A i \in 1..Len(a.fields) :
                    a.fields[i][1] = b.fields[i][1] /\ REq(a.fields[i][2], b.fields[i][2])
         [] a.t = "union" -> a.i = b.i /\ REq(a.v, b.v)
         [] a.t = "double" -> a.bits = b.bits \/ (Len(a.bits) = 8 /\ Len(b.bits) = 8 /\ IsNaN64(a.bits) /\ IsNaN64(b.bits))
         [] a.t = "float" -> a.bits = b.bits \/ (Len(a.bits) = 4 /\ Len(b.bits) = 4 /\ IsNaN32(a.bits) /\ IsNaN32(b.bits))
         [] a.t \in {"err", "none"} -> a.t = "err" /\ b.t = "err"
         [] OTHER -> VEq(a, b)

(***************************************************************************)
(* EVOLUTION STEPS.  Each operator yields the schemas obtainable from the  *)
(* node s by one step of its kind, as [d |-> [kind, safe], s |-> s'].      *)
(* safe = TRUE exactly for the steps Appendix B.6 calls always safe:       *)
(* numeric promotion, adding a reader field with a default, removing a     *)
(* field, reordering fields, adding a reader union branch, adding a reader *)
(* enum symbol.                                                            *)
(***************************************************************************)
St(kind, safe, s) == [d |-> [kind |-> kind, safe |-> safe], s |-> s]
PrimS(k) == [k |-> k]
FldD(n, ty, al, hd, dj) == [name |-> n, type |-> ty, aliases |-> al, hasdef |-> hd, defjson |-> dj]
UnionOf(bs) == [k |-> "union", branches |-> bs]

UClass(s) == CASE s.k \in IntKinds -> "int" [] s.k \in LongKinds -> "long"
               [] s.k \in {"record", "enum", "fixed", "ref"} -> s.name
               [] OTHER -> s.k

DropAt(q, i) == [j \in 1..(Len(q) - 1) |-> IF j < i THEN q[j] ELSE q[j + 1]]
InsertFront(q, x) == <<x>> \o q
Rev(q) == [j \in 1..Len(q) |-> q[Len(q) + 1 - j]]
Rotate(q) == [j \in 1..Len(q) |-> IF j = Len(q) THEN q[1] ELSE q[j + 1]]

(* ---- pools used by the adding steps ---- *)
PoolFixed == [k |-> "fixed", name |-> "ns.FD", size |-> 2]
PoolEnum  == [k |-> "enum", name |-> "ns.ED", symbols |-> <<"A", "B", "C">>, hasdef |-> FALSE, def |-> ""]
PoolRec   == [k |-> "record", name |-> "ns.RD", fields |->
                <<FldD("p", PrimS("int"), <<>>, FALSE, JNull),
                  FldD("q", PrimS("string"), <<>>, TRUE, JStr("dq", <<100, 113>>))>>]
(* a record every record value "fits" structurally: all fields defaulted *)
PoolAnyRec == [k |-> "record", name |-> "ns.Z", fields |-> <<FldD("z", PrimS("int"), <<>>, TRUE, JInt(0))>>]

(* "defaults of every type": [tag, ty, dj, safe] *)
DefaultPool == <<
  [tag |-> "null",    ty |-> PrimS("null"),    dj |-> JNull, safe |-> TRUE],
  [tag |-> "boolean", ty |-> PrimS("boolean"), dj |-> JBool(TRUE), safe |-> TRUE],
  [tag |-> "int",     ty |-> PrimS("int"),     dj |-> JInt(-7), safe |-> TRUE],
  [tag |-> "long",    ty |-> PrimS("long"),    dj |-> JInt(1234567), safe |-> TRUE],
  [tag |-> "float",   ty |-> PrimS("float"),   dj |-> JInt(16777217), safe |-> TRUE],
  [tag |-> "double",  ty |-> PrimS("double"),  dj |-> JInt(-2), safe |-> TRUE],
  [tag |-> "bytes",   ty |-> PrimS("bytes"),   dj |-> JStr("AB", <<65, 66>>), safe |-> TRUE],
  [tag |-> "byteshi", ty |-> PrimS("bytes"),   dj |-> JStr("~", <<195, 191, 1>>), safe |-> TRUE],        \* "ÿ\u0001"
  [tag |-> "string",  ty |-> PrimS("string"),  dj |-> JStr("~", <<120, 226, 130, 172>>), safe |-> TRUE], \* "x" EURO SIGN
  [tag |-> "date",    ty |-> PrimS("date"),    dj |-> JInt(19000), safe |-> TRUE],
  [tag |-> "fixed",   ty |-> PoolFixed,       dj |-> JStr("AB", <<65, 66>>), safe |-> TRUE],
  [tag |-> "fixedhi", ty |-> PoolFixed,       dj |-> JStr("~", <<195, 191, 65>>), safe |-> TRUE],       \* "ÿA"
  [tag |-> "enum",    ty |-> PoolEnum,        dj |-> JStr("B", <<66>>), safe |-> TRUE],
  [tag |-> "array",   ty |-> [k |-> "array", items |-> PrimS("int")], dj |-> JArr(<<JInt(1), JInt(2)>>), safe |-> TRUE],
  [tag |-> "map",     ty |-> [k |-> "map", values |-> PrimS("long")], dj |-> JObj(<< <<"k", JInt(5)>> >>), safe |-> TRUE],
  [tag |-> "record",  ty |-> PoolRec,         dj |-> JObj(<< <<"p", JInt(1)>> >>), safe |-> TRUE],
  [tag |-> "unull",   ty |-> UnionOf(<<PrimS("null"), PrimS("int")>>), dj |-> JNull, safe |-> TRUE],
  [tag |-> "uint",    ty |-> UnionOf(<<PrimS("int"), PrimS("null")>>), dj |-> JInt(5), safe |-> TRUE],
  \* a default for the SECOND branch: valid from 1.12 on only (grey zone), so not claimed safe
  [tag |-> "usecond", ty |-> UnionOf(<<PrimS("null"), PrimS("int")>>), dj |-> JInt(5), safe |-> FALSE],
  [tag |-> "usecond2", ty |-> UnionOf(<<PrimS("string"), PrimS("int")>>), dj |-> JInt(5), safe |-> FALSE] >>

BranchPool == <<PrimS("null"), PrimS("long"), PrimS("string"), PoolEnum, PoolAnyRec>>

(* ---- leaves ---- *)
PromoteTargets(k) ==
  CASE k \in IntKinds -> {"long", "float", "double"}
    [] k \in LongKinds -> {"float", "double"}
    [] k = "float" -> {"double"}
    [] OTHER -> {}
StepPromote(s) == {St("Promote", TRUE, PrimS(t)) : t \in PromoteTargets(s.k)}
StepPromoteStrBytes(s) ==
  IF s.k = "string" THEN {St("PromoteStrBytes", FALSE, PrimS("bytes"))}
  ELSE IF s.k = "bytes" THEN {St("PromoteStrBytes", FALSE, PrimS("string"))} ELSE {}
StepAnnotate(s) ==
  IF s.k = "int" THEN {St("AnnotateLogical", FALSE, PrimS("date"))}
  ELSE IF s.k = "long" THEN {St("AnnotateLogical", FALSE, PrimS("timestamp-millis"))}
  ELSE IF s.k = "timestamp-millis" THEN {St("AnnotateLogical", FALSE, PrimS("timestamp-micros"))} ELSE {}
StepDemote(s) ==
  CASE s.k = "long" -> {St("Demote", FALSE, PrimS("int"))}
    [] s.k = "double" -> {St("Demote", FALSE, PrimS("float")), St("Demote", FALSE, PrimS("long"))}
    [] s.k = "float" -> {St("Demote", FALSE, PrimS("int"))}
    [] OTHER -> {}
StepChangeType(s) ==
  CASE s.k = "string" -> {St("ChangeType", FALSE, [k |-> "fixed", name |-> "ns.FX", size |-> 3]),
                          St("ChangeType", FALSE, PrimS("int"))}
    [] s.k = "bytes" -> {St("ChangeType", FALSE, [k |-> "fixed", name |-> "ns.FX", size |-> 4])}
    [] s.k = "fixed" -> {St("ChangeType", FALSE, PrimS("string")), St("ChangeType", FALSE, PrimS("bytes"))}
    [] s.k = "int" -> {St("ChangeType", FALSE, PrimS("string"))}
    [] OTHER -> {}
StepChangeFixedSize(s) == IF s.k = "fixed" THEN {St("ChangeFixedSize", FALSE, [s EXCEPT !.size = @ + 1])} ELSE {}

(* ---- enums ---- *)
EnumWith(s, syms, hd, d) == [k |-> "enum", name |-> s.name, symbols |-> syms, hasdef |-> hd, def |-> d]
EDefOf(s) == IF EHasDef(s) THEN s.def ELSE ""
StepAddSymbol(s) ==
  IF s.k # "enum" \/ "Z" \in SeqRange(s.symbols) THEN {}
  ELSE {St("AddSymbol", TRUE, EnumWith(s, Append(s.symbols, "Z"), EHasDef(s), EDefOf(s))),
        St("AddSymbol", TRUE, EnumWith(s, InsertFront(s.symbols, "Z"), EHasDef(s), EDefOf(s)))}
StepRemoveSymbol(s) ==
  IF s.k # "enum" \/ Len(s.symbols) < 2 THEN {}
  ELSE LET keep == {i \in {1, Len(s.symbols)} : ~(EHasDef(s) /\ s.def = s.symbols[i])} IN
       {St("RemoveSymbol", FALSE, EnumWith(s, DropAt(s.symbols, i), EHasDef(s), EDefOf(s))) : i \in keep}
       \cup {St("RemoveSymbolWithDefault", FALSE,
                LET q == DropAt(s.symbols, 1) IN EnumWith(s, q, TRUE, q[Len(q)]))}
StepReorderSymbols(s) ==
  IF s.k # "enum" \/ Len(s.symbols) < 2 THEN {}
  ELSE {St("ReorderSymbols", FALSE, EnumWith(s, Rev(s.symbols), EHasDef(s), EDefOf(s)))}
StepSetEnumDefault(s) ==
  IF s.k # "enum" \/ EHasDef(s) THEN {} ELSE {St("SetEnumDefault", FALSE, EnumWith(s, s.symbols, TRUE, s.symbols[1]))}

(* ---- unions ---- *)
StepAddBranch(s) ==
  IF s.k # "union" THEN {}
  ELSE LET used == {UClass(s.branches[i]) : i \in 1..Len(s.branches)}
           cand == {i \in 1..Len(BranchPool) : UClass(BranchPool[i]) \notin used} IN
       {St("AddBranch", TRUE, UnionOf(Append(s.branches, BranchPool[i]))) : i \in cand}
       \* A branch put in FRONT of the others is not claimed safe (both found by TLC): under the first-match
       \* reading a leading string branch captures written bytes that need not be UTF-8
       \* ([bytes,null] -> [string,bytes,null]), and under the first-branch reading of union defaults the
       \* default of a union-typed field no longer belongs to the (new) first branch.
       \cup {St("AddBranch", FALSE, UnionOf(InsertFront(s.branches, BranchPool[i]))) : i \in cand}
StepRemoveBranch(s) ==
  IF s.k # "union" \/ Len(s.branches) < 2 THEN {}
  ELSE {St("RemoveBranch", FALSE, UnionOf(DropAt(s.branches, i))) : i \in 1..Len(s.branches)}
StepReorderBranches(s) ==
  IF s.k # "union" \/ Len(s.branches) < 2 THEN {} ELSE {St("ReorderBranches", FALSE, UnionOf(Rev(s.branches)))}
StepUnwrap(s) ==
  IF s.k # "union" THEN {} ELSE {St("UnwrapFromUnion", FALSE, s.branches[i]) : i \in 1..Len(s.branches)}
StepWrap(s, inUnion) ==
  IF s.k = "union" \/ inUnion THEN {}
  ELSE {St("WrapInUnion", FALSE, UnionOf(<<s, PrimS("null")>>)) : x \in IF s.k = "null" THEN {} ELSE {1}}
       \cup {St("WrapInUnion", FALSE, UnionOf(<<PrimS("null"), s>>)) : x \in IF s.k = "null" THEN {} ELSE {1}}
       \cup {St("WrapInUnion", FALSE, UnionOf(<<s>>))}

(* ---- arrays / maps: a different element type altogether (promotions of the element type arise by descent) ---- *)
OtherType(t) == IF t.k = "string" THEN PrimS("long") ELSE PrimS("string")
StepChangeItems(s) == IF s.k = "array" THEN {St("ChangeItems", FALSE, [s EXCEPT !.items = OtherType(@)])} ELSE {}
StepChangeValues(s) == IF s.k = "map" THEN {St("ChangeValues", FALSE, [s EXCEPT !.values = OtherType(@)])} ELSE {}

(* ---- records ---- *)
FieldNames(s) == {s.fields[i].name : i \in 1..Len(s.fields)}
FreshName(s) == IF "n1" \notin FieldNames(s) THEN "n1" ELSE IF "n2" \notin FieldNames(s) THEN "n2" ELSE "n3"
FullFld(f) == FldD(f.name, f.type, FAliases(f), FHasDef(f), IF FHasDef(f) THEN f.defjson ELSE JNull)
WithFields(s, fs) == [k |-> "record", name |-> s.name, fields |-> fs]

StepAddFieldWithDefault(s, pool) ==
  IF s.k # "record" \/ "n3" \in FieldNames(s) THEN {}
  ELSE {St("AddFieldWithDefault:" \o DefaultPool[i].tag, DefaultPool[i].safe,
           WithFields(s, Append(s.fields, FldD(FreshName(s), DefaultPool[i].ty, <<>>, TRUE, DefaultPool[i].dj)))) : i \in pool}
       \cup {St("AddFieldWithDefault:front", TRUE,
                WithFields(s, InsertFront(s.fields, FldD(FreshName(s), PrimS("long"), <<>>, TRUE, JInt(1234567)))))}
StepAddFieldNoDefault(s) ==
  IF s.k # "record" \/ "n3" \in FieldNames(s) THEN {}
  ELSE {St("AddFieldNoDefault", FALSE, WithFields(s, Append(s.fields, FldD(FreshName(s), PrimS("int"), <<>>, FALSE, JNull))))}
StepRemoveField(s) ==
  IF s.k # "record" THEN {} ELSE {St("RemoveField", TRUE, WithFields(s, DropAt(s.fields, i))) : i \in 1..Len(s.fields)}
StepReorder(s) ==
  IF s.k # "record" \/ Len(s.fields) < 2 THEN {}
  ELSE {St("Reorder", TRUE, WithFields(s, Rev(s.fields)))}
       \cup (IF Len(s.fields) >= 3 THEN {St("Reorder", TRUE, WithFields(s, Rotate(s.fields)))} ELSE {})
Renamed(f) == "r_" \o f.name
StepRenameWithAlias(s) ==
  IF s.k # "record" THEN {}
  ELSE UNION {{St("RenameWithAlias", FALSE,
                  WithFields(s, [s.fields EXCEPT ![i] = FldD(Renamed(@), @.type, al, FHasDef(@), FullFld(@).defjson)]))
               : al \in {<<s.fields[i].name>>, <<"zz", s.fields[i].name>>}}
              : i \in {j \in 1..Len(s.fields) : Renamed(s.fields[j]) \notin FieldNames(s) /\ FAliases(s.fields[j]) = <<>>}}
StepRenameWithoutAlias(s) ==
  IF s.k # "record" THEN {}
  ELSE {St("RenameWithoutAlias", FALSE,
           WithFields(s, [s.fields EXCEPT ![i] = FldD(Renamed(@), @.type, <<>>, FHasDef(@), FullFld(@).defjson)]))
        : i \in {j \in 1..Len(s.fields) : Renamed(s.fields[j]) \notin FieldNames(s) /\ FAliases(s.fields[j]) = <<>>}}
StepRemoveDefault(s) ==
  IF s.k # "record" THEN {}
  ELSE {St("RemoveDefault", FALSE,
           WithFields(s, [s.fields EXCEPT ![i] = FldD(@.name, @.type, FAliases(@), FALSE, JNull)]))
        : i \in {j \in 1..Len(s.fields) : FHasDef(s.fields[j])}}

StepKinds == {"Promote", "PromoteStrBytes", "AnnotateLogical", "Demote", "ChangeType", "ChangeFixedSize",
              "AddSymbol", "RemoveSymbol", "ReorderSymbols", "SetEnumDefault",
              "AddBranch", "RemoveBranch", "ReorderBranches", "UnwrapFromUnion", "WrapInUnion",
              "ChangeItems", "ChangeValues",
              "AddFieldWithDefault", "AddFieldNoDefault", "RemoveField", "Reorder",
              "RenameWithAlias", "RenameWithoutAlias", "RemoveDefault"}

(* the steps of the kinds in K applicable AT node s (pool = indices of DefaultPool offered to AddFieldWithDefault) *)
AtNode(s, inUnion, K, pool) ==
     (IF "Promote" \in K THEN StepPromote(s) ELSE {})
  \cup (IF "PromoteStrBytes" \in K THEN StepPromoteStrBytes(s) ELSE {})
  \cup (IF "AnnotateLogical" \in K THEN StepAnnotate(s) ELSE {})
  \cup (IF "Demote" \in K THEN StepDemote(s) ELSE {})
  \cup (IF "ChangeType" \in K THEN StepChangeType(s) ELSE {})
  \cup (IF "ChangeFixedSize" \in K THEN StepChangeFixedSize(s) ELSE {})
  \cup (IF "AddSymbol" \in K THEN StepAddSymbol(s) ELSE {})
  \cup (IF "RemoveSymbol" \in K THEN StepRemoveSymbol(s) ELSE {})
  \cup (IF "ReorderSymbols" \in K THEN StepReorderSymbols(s) ELSE {})
  \cup (IF "SetEnumDefault" \in K THEN StepSetEnumDefault(s) ELSE {})
  \cup (IF "AddBranch" \in K THEN StepAddBranch(s) ELSE {})
  \cup (IF "RemoveBranch" \in K THEN StepRemoveBranch(s) ELSE {})
  \cup (IF "ReorderBranches" \in K THEN StepReorderBranches(s) ELSE {})
  \cup (IF "UnwrapFromUnion" \in K THEN StepUnwrap(s) ELSE {})
  \cup (IF "WrapInUnion" \in K THEN StepWrap(s, inUnion) ELSE {})
  \cup (IF "ChangeItems" \in K THEN StepChangeItems(s) ELSE {})
  \cup (IF "ChangeValues" \in K THEN StepChangeValues(s) ELSE {})
  \cup (IF "AddFieldWithDefault" \in K THEN StepAddFieldWithDefault(s, pool) ELSE {})
  \cup (IF "AddFieldNoDefault" \in K THEN StepAddFieldNoDefault(s) ELSE {})
  \cup (IF "RemoveField" \in K THEN StepRemoveField(s) ELSE {})
  \cup (IF "Reorder" \in K THEN StepReorder(s) ELSE {})
  \cup (IF "RenameWithAlias" \in K THEN StepRenameWithAlias(s) ELSE {})
  \cup (IF "RenameWithoutAlias" \in K THEN StepRenameWithoutAlias(s) ELSE {})
  \cup (IF "RemoveDefault" \in K THEN StepRemoveDefault(s) ELSE {})

(* one step of a kind in K at ANY position of s *)
RECURSIVE Rewrites(_, _, _, _)
Rewrites(s, inUnion, K, pool) ==
  AtNode(s, inUnion, K, pool) \cup
  (CASE s.k = "array" -> {[d |-> x.d, s |-> [s EXCEPT !.items = x.s]] : x \in Rewrites(s.items, FALSE, K, pool)}
     [] s.k = "map" -> {[d |-> x.d, s |-> [s EXCEPT !.values = x.s]] : x \in Rewrites(s.values, FALSE, K, pool)}
     [] s.k = "union" ->
          UNION {{[d |-> x.d, s |-> [s EXCEPT !.branches[i] = x.s]]
                    : x \in {y \in Rewrites(s.branches[i], TRUE, K, pool) : y.s.k # "union"}}
                 : i \in 1..Len(s.branches)}
     [] s.k = "record" ->
          UNION {{[d |-> x.d, s |-> [s EXCEPT !.fields[i].type = x.s]] : x \in Rewrites(s.fields[i].type, FALSE, K, pool)}
                 : i \in 1..Len(s.fields)}
     [] OTHER -> {})

(* ---- well-formedness of the result ---- *)
RECURSIVE RefsOf(_)
RefsOf(s) ==
  CASE s.k = "ref" -> {s.name}
    [] s.k = "array" -> RefsOf(s.items)
    [] s.k = "map" -> RefsOf(s.values)
    [] s.k = "union" -> UNION {RefsOf(s.branches[i]) : i \in 1..Len(s.branches)}
    [] s.k = "record" -> UNION {RefsOf(s.fields[i].type) : i \in 1..Len(s.fields)}
    [] OTHER -> {}
RECURSIVE DefOccs(_)
DefOccs(s) ==
  CASE s.k = "array" -> DefOccs(s.items)
    [] s.k = "map" -> DefOccs(s.values)
    [] s.k = "union" -> UNION {DefOccs(s.branches[i]) : i \in 1..Len(s.branches)}
    [] s.k = "record" -> {s} \cup UNION {DefOccs(s.fields[i].type) : i \in 1..Len(s.fields)}
    [] s.k \in {"enum", "fixed"} -> {s}
    [] OTHER -> {}
UnionOk(u) == \A i, j \in 1..Len(u.branches) : i # j => UClass(u.branches[i]) # UClass(u.branches[j])
RECURSIVE UnionsOk(_)
UnionsOk(s) ==
  CASE s.k = "array" -> UnionsOk(s.items)
    [] s.k = "map" -> UnionsOk(s.values)
    [] s.k = "union" -> UnionOk(s) /\ \A i \in 1..Len(s.branches) : s.branches[i].k # "union" /\ UnionsOk(s.branches[i])
    [] s.k = "record" -> \A i \in 1..Len(s.fields) : UnionsOk(s.fields[i].type)
    [] OTHER -> TRUE
(* every declared default fits its field's type (in some reading); aliases do not collide with field names *)
FieldsOk(rec, env) ==
  /\ \A i \in 1..Len(rec.fields) :
        FHasDef(rec.fields[i]) => \E p \in {StdPolicy, AltPolicy} :
                                      ~IsErr(DefaultVal(rec.fields[i].defjson, rec.fields[i].type, env, {}, p))
  /\ \A i, k \in 1..Len(rec.fields) : i # k => rec.fields[k].name \notin SeqRange(FAliases(rec.fields[i]))
(* the schema has at least one finite value: no record contains itself unconditionally (such a reader schema is  *)
(* uninhabited, and decoding with it never terminates)                                                           *)
RECURSIVE Productive(_, _, _)
Productive(s, env, seen) ==
  CASE s.k = "ref" -> s.name \notin seen /\ s.name \in DOMAIN env /\ Productive(env[s.name], env, seen)
    [] s.k = "record" -> \A i \in 1..Len(s.fields) : Productive(s.fields[i].type, env, seen \cup {s.name})
    [] s.k = "union" -> \E i \in 1..Len(s.branches) : Productive(s.branches[i], env, seen)
    [] OTHER -> TRUE
(* no dangling reference; one definition per name (copies must be identical); unions well-formed; defaults valid *)
WellFormedR(s) ==
  /\ Productive(s, Defs(s), {}) /\ \A d \in DefOccs(s) : Productive(d, Defs(s), {})
  /\ RefsOf(s) \subseteq {d.name : d \in DefOccs(s)}
  /\ \A a, b \in DefOccs(s) : a.name = b.name => a = b
  /\ UnionsOk(s)
  /\ \A d \in DefOccs(s) : d.k = "record" => FieldsOk(d, Defs(s))

SafeHistory(h) == \A i \in 1..Len(h) : h[i].safe

(* The specification's literal cases are ASSUMEd in module ResolveExamples, which every model run extends. *)
=============================================================================
