----------------------------- MODULE MC_Resolve -----------------------------
(***************************************************************************)
(* Schema evolution as a state machine: W (the writer's schema, fixed), R  *)
(* (the reader's schema, evolving), hist (the steps taken).  One action    *)
(* per evolution step kind.  TLC explores every step sequence up to        *)
(* MaxSteps from every seed, checks the design-level laws of resolution on *)
(* every (W, R, value), and prints each (W, R, hist, values) as a scenario *)
(* that the harness replays on the real readers.                           *)
(***************************************************************************)
EXTENDS ResolveUniverse, IeeeVectors, ResolveExamples, Json

CONSTANTS MaxSteps,      \* length bound of step sequences
          DeepSeeds,     \* "quick" | "thorough" | "all": which seeds are explored to MaxSteps (the others to 1 step)
          PolicySet      \* "two" | "all": grey-zone readings the laws are checked under

VARIABLES W, R, hist
vars == <<W, R, hist>>

Pols == IF PolicySet = "all" THEN Policies ELSE {StdPolicy, AltPolicy}
Bound == IF DeepSeeds = "thorough" /\ W \in ThreeStepSeeds THEN MaxSteps + 1
         ELSE IF DeepSeeds = "all" \/ (DeepSeeds = "quick" /\ W \in QuickDeepSeeds)
                 \/ (DeepSeeds = "thorough" /\ W \in ThoroughDeepSeeds) THEN MaxSteps
         ELSE 1
(* after the first step only a representative part of the default pool is offered *)
Pool == IF hist = <<>> THEN 1..Len(DefaultPool) ELSE {1, 4, 8, 13, 16, 18}

Init == W \in Seeds /\ R = W /\ hist = <<>>

Step(K) == /\ Len(hist) < Bound
           /\ \E x \in Rewrites(R, FALSE, K, Pool) :
                 /\ WellFormedR(x.s)
                 /\ R' = x.s /\ hist' = Append(hist, x.d)
           /\ UNCHANGED W

Promote            == Step({"Promote"})
PromoteStrBytes    == Step({"PromoteStrBytes"})
AnnotateLogical    == Step({"AnnotateLogical"})
Demote             == Step({"Demote"})
ChangeType         == Step({"ChangeType"})
ChangeFixedSize    == Step({"ChangeFixedSize"})
AddSymbol          == Step({"AddSymbol"})
RemoveSymbol       == Step({"RemoveSymbol"})
ReorderSymbols     == Step({"ReorderSymbols"})
SetEnumDefault     == Step({"SetEnumDefault"})
AddBranch          == Step({"AddBranch"})
RemoveBranch       == Step({"RemoveBranch"})
ReorderBranches    == Step({"ReorderBranches"})
UnwrapFromUnion    == Step({"UnwrapFromUnion"})
WrapInUnion        == Step({"WrapInUnion"})
ChangeItems        == Step({"ChangeItems"})
ChangeValues       == Step({"ChangeValues"})
AddFieldWithDefault == Step({"AddFieldWithDefault"})
AddFieldNoDefault  == Step({"AddFieldNoDefault"})
RemoveField        == Step({"RemoveField"})
Reorder            == Step({"Reorder"})
RenameWithAlias    == Step({"RenameWithAlias"})
RenameWithoutAlias == Step({"RenameWithoutAlias"})
RemoveDefault      == Step({"RemoveDefault"})

Next == \/ Promote \/ PromoteStrBytes \/ AnnotateLogical \/ Demote \/ ChangeType \/ ChangeFixedSize
        \/ AddSymbol \/ RemoveSymbol \/ ReorderSymbols \/ SetEnumDefault
        \/ AddBranch \/ RemoveBranch \/ ReorderBranches \/ UnwrapFromUnion \/ WrapInUnion
        \/ ChangeItems \/ ChangeValues
        \/ AddFieldWithDefault \/ AddFieldNoDefault \/ RemoveField \/ Reorder
        \/ RenameWithAlias \/ RenameWithoutAlias \/ RemoveDefault
Spec == Init /\ [][Next]_vars

EW == Defs(W)
ER == Defs(R)
Results == {[v |-> v, p |-> p, x |-> Res(W, R, v, EW, ER, {}, p)] : v \in ValsOf(W), p \in Pols}

(* ---- laws of the design ---- *)
ValuesConform == \A v \in ValsOf(W) : Conforms(v, W, EW)
ResultConforms == \A c \in Results : ~IsErr(c.x) => Conforms(c.x, R, ER)
Idempotent == \A c \in Results : ~IsErr(c.x) => REq(Res(R, R, c.x, ER, ER, {}, c.p), c.x)
IdentityOnSelf == hist = <<>> => \A c \in Results : REq(c.x, c.v)
SafeStepsAlwaysReadable == SafeHistory(hist) => \A c \in Results : ~IsErr(c.x)

(* ---- scenario emission (one line per explored state) ---- *)
(* the laws above are checked on the full boundary sets; beyond one step the replayed values are the thin sets *)
EmitVals == IF Len(hist) <= 1 THEN ValsOf(W) ELSE RVals(W, Defs(W), 2, FALSE)
EmitScn == PrintT("SCN " \o ToJson([W |-> W, R |-> R, hist |-> hist, vals |-> SetToSeq(EmitVals)]))
=============================================================================
