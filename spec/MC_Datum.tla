------------------------------ MODULE MC_Datum ------------------------------
(***************************************************************************)
(* Datum life-cycle over the bounded universe: Encode, Append (a second    *)
(* datum behind the first), Decode, DecodeSecond.  TLC checks that the     *)
(* transcription is a consistent encoder/decoder pair for every spec-legal *)
(* layout (this is what licenses using Enc/Parse as the oracle), and emits *)
(* every explored (schema, value, layouts) as a scenario for the harness.  *)
(***************************************************************************)
EXTENDS Universe, Json

CONSTANT Tier            \* "d1" | "d2"

VARIABLES s, v, wire, out1, out2, phase
vars == <<s, v, wire, out1, out2, phase>>

Schemas == IF Tier = "d1" THEN Leaves \cup Depth1 \cup Special
           ELSE Leaves \cup Depth1 \cup Special \cup Depth2Sample

ValsOf(x) == IF x \in Special THEN ValsFuel(x, Defs(x), TRUE, 2) ELSE Vals(x, Defs(x), TRUE)

Init == /\ s \in Schemas
        /\ v \in ValsOf(s)
        /\ wire = <<>> /\ out1 = Fail("", 0) /\ out2 = Fail("", 0) /\ phase = "start"

Encode == /\ phase = "start"
          /\ wire' = Enc(v, s, Defs(s))
          /\ phase' = "encoded" /\ UNCHANGED <<s, v, out1, out2>>

AppendDatum == /\ phase = "encoded"
          /\ wire' = wire \o Enc(v, s, Defs(s))
          /\ phase' = "appended" /\ UNCHANGED <<s, v, out1, out2>>

Decode == /\ phase = "appended"
          /\ out1' = Parse(wire, 1, s, Defs(s))
          /\ phase' = "decoded1" /\ UNCHANGED <<s, v, wire, out2>>

DecodeSecond == /\ phase = "decoded1"
                /\ out2' = Parse(wire, out1.pos, s, Defs(s))
                /\ phase' = "decoded2" /\ UNCHANGED <<s, v, wire, out1>>

Layouts == [i \in 1..Len(Modes) |-> EncM(v, s, Defs(s), Modes[i])]

Emit == /\ phase = "decoded2"
        /\ PrintT("SCN " \o ToJson([s |-> s, v |-> v, layouts |-> Layouts]))
        /\ phase' = "done" /\ UNCHANGED <<s, v, wire, out1, out2>>

Next == Encode \/ AppendDatum \/ Decode \/ DecodeSecond \/ Emit
Spec == Init /\ [][Next]_vars

(* ---- properties of the design ---- *)
ValuesConform == Conforms(v, s, Defs(s))
RoundTrip == phase \in {"decoded1", "decoded2", "done"} => out1.ok /\ VEq(out1.v, v)
ExactConsumption ==
  /\ phase \in {"decoded1", "decoded2", "done"} => 2 * (out1.pos - 1) = Len(wire)
  /\ phase \in {"decoded2", "done"} => out2.ok /\ VEq(out2.v, v) /\ out2.pos = Len(wire) + 1
EveryLayoutDecodes ==
  phase = "start" =>
    \A i \in 1..Len(Modes) :
       LET r == ParseAll(EncM(v, s, Defs(s), Modes[i]), s, Defs(s)) IN r.ok /\ VEq(r.v, v)
TruncationIsError ==
  phase = "encoded" =>
    \A n \in 0..(Len(wire) - 1) : ~ParseAll(SubSeq(wire, 1, n), s, Defs(s)).ok
=============================================================================
