\* small instance run with -coverage 1: every action must be taken (vacuity guard)
SPECIFICATION Spec
CONSTANT Model = "nn"
CONSTANT Threads <- MCThreads
CONSTANT Cells <- MCCells
CONSTANT MaxOps = 1
CONSTANT KeepHistory = TRUE
CONSTANT OpsOf <- MCOpsOf
INVARIANT TypeOK
INVARIANT Agreement
INVARIANT ExactlyOneSetSucceeds
PROPERTY WriteOnce
PROPERTY Linearizable
CHECK_DEADLOCK TRUE
