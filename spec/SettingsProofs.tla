--------------------------- MODULE SettingsProofs ---------------------------
(***************************************************************************)
(* TLAPS-checked theorems about Settings.tla for ANY set of threads, ANY   *)
(* set of cells, ANY bound on the number of calls and ANY offered calls    *)
(* (TLC checks the same properties only for 3 threads x 2 calls):          *)
(*   WriteOnceThm   a published value never changes                        *)
(*   RunnerOwnsThm  a running cell is only ended by being published        *)
(***************************************************************************)
EXTENDS Settings, TLAPS

DomOK == DOMAIN cell = Cells

THEOREM DomInit == Init => DomOK
  BY DEF Init, DomOK

THEOREM DomStep == DomOK /\ [Next]_vars => DomOK'
<1> SUFFICES ASSUME DomOK, [Next]_vars PROVE DomOK'
    OBVIOUS
<1>1. CASE UNCHANGED vars
      BY <1>1 DEF vars, DomOK
<1>2. CASE Done
      BY <1>2 DEF Done, vars, DomOK
<1>3. ASSUME NEW t \in Threads, NEW o \in OpsOf(t), Call(t, o) PROVE DomOK'
      BY <1>3 DEF Call, DomOK
<1>4. ASSUME NEW t \in Threads, Return(t) PROVE DomOK'
      BY <1>4 DEF Return, DomOK
<1>5. ASSUME NEW t \in Threads, NEW d \in Cells, Observe(t, d) PROVE DomOK'
      BY <1>5 DEF Observe, DomOK
<1>6. ASSUME NEW t \in Threads, NEW d \in Cells, Begin(t, d) PROVE DomOK'
      BY <1>6 DEF Begin, DomOK
<1>7. ASSUME NEW t \in Threads, NEW d \in Cells, Finish(t, d) PROVE DomOK'
      BY <1>7 DEF Finish, DomOK
<1> QED BY <1>1, <1>2, <1>3, <1>4, <1>5, <1>6, <1>7 DEF Next, Step

THEOREM DomInv == Spec => []DomOK
  BY DomInit, DomStep, PTL DEF Spec

LEMMA SetIsNotUnsetOrRunning ==
  ASSUME NEW v, NEW t
  PROVE  /\ IsSet(v).st = "set" /\ Unset.st = "unset" /\ Running(t).st = "running"
  BY DEF IsSet, Unset, Running

THEOREM WriteOnceStep ==
  ASSUME DomOK, [Next]_vars
  PROVE  \A c \in Cells : cell[c].st = "set" => cell'[c] = cell[c]
<1> SUFFICES ASSUME NEW c \in Cells, cell[c].st = "set"
             PROVE  cell'[c] = cell[c]
    OBVIOUS
<1>1. CASE UNCHANGED vars
      BY <1>1 DEF vars
<1>2. CASE Done
      BY <1>2 DEF Done, vars
<1>3. ASSUME NEW t \in Threads, NEW o \in OpsOf(t), Call(t, o)
      PROVE  cell'[c] = cell[c]
      BY <1>3 DEF Call
<1>4. ASSUME NEW t \in Threads, Return(t)
      PROVE  cell'[c] = cell[c]
      BY <1>4 DEF Return
<1>5. ASSUME NEW t \in Threads, NEW d \in Cells, Observe(t, d)
      PROVE  cell'[c] = cell[c]
      BY <1>5 DEF Observe
<1>6. ASSUME NEW t \in Threads, NEW d \in Cells, Begin(t, d)
      PROVE  cell'[c] = cell[c]
  <2>1. cell[d] = Unset /\ cell' = [cell EXCEPT ![d] = Running(t)]
        BY <1>6 DEF Begin
  <2>2. d # c
        BY <2>1 DEF Unset
  <2> QED BY <2>1, <2>2 DEF DomOK
<1>7. ASSUME NEW t \in Threads, NEW d \in Cells, Finish(t, d)
      PROVE  cell'[c] = cell[c]
  <2>1. cell[d] = Running(t) /\ cell' = [cell EXCEPT ![d] = IsSet(InitValue(th[t].op, d))]
        BY <1>7 DEF Finish
  <2>2. d # c
        BY <2>1 DEF Running
  <2> QED BY <2>1, <2>2 DEF DomOK
<1> QED BY <1>1, <1>2, <1>3, <1>4, <1>5, <1>6, <1>7 DEF Next, Step

THEOREM WriteOnceThm == Spec => WriteOnce
<1>1. DomOK /\ [Next]_vars => (\A c \in Cells : cell[c].st = "set" => cell'[c] = cell[c])
      BY WriteOnceStep
<1> QED BY <1>1, DomInv, PTL DEF Spec, WriteOnce

(* a running cell is only ended by its runner, and only by publishing a value *)
THEOREM RunnerOwnsStep ==
  ASSUME DomOK, [Next]_vars
  PROVE  \A c \in Cells : cell[c].st = "running" /\ cell'[c] # cell[c]
                            => cell'[c].st = "set" /\ th[cell[c].x].run = c
<1> SUFFICES ASSUME NEW c \in Cells, cell[c].st = "running", cell'[c] # cell[c]
             PROVE  cell'[c].st = "set" /\ th[cell[c].x].run = c
    OBVIOUS
<1>1. CASE UNCHANGED vars
      BY <1>1 DEF vars
<1>2. CASE Done
      BY <1>2 DEF Done, vars
<1>3. ASSUME NEW t \in Threads, NEW o \in OpsOf(t), Call(t, o)
      PROVE  FALSE
      BY <1>3 DEF Call
<1>4. ASSUME NEW t \in Threads, Return(t)
      PROVE  FALSE
      BY <1>4 DEF Return
<1>5. ASSUME NEW t \in Threads, NEW d \in Cells, Observe(t, d)
      PROVE  FALSE
      BY <1>5 DEF Observe
<1>6. ASSUME NEW t \in Threads, NEW d \in Cells, Begin(t, d)
      PROVE  FALSE
  <2>1. cell[d] = Unset /\ cell' = [cell EXCEPT ![d] = Running(t)]
        BY <1>6 DEF Begin
  <2>2. d # c
        BY <2>1 DEF Unset
  <2> QED BY <2>1, <2>2 DEF DomOK
<1>7. ASSUME NEW t \in Threads, NEW d \in Cells, Finish(t, d)
      PROVE  cell'[c].st = "set" /\ th[cell[c].x].run = c
  <2>1. /\ cell[d] = Running(t) /\ th[t].run = d
        /\ cell' = [cell EXCEPT ![d] = IsSet(InitValue(th[t].op, d))]
        BY <1>7 DEF Finish
  <2>2. d = c
        BY <2>1 DEF DomOK
  <2>3. cell[c].x = t
        BY <2>1, <2>2 DEF Running
  <2> QED BY <2>1, <2>2, <2>3 DEF DomOK, IsSet
<1> QED BY <1>1, <1>2, <1>3, <1>4, <1>5, <1>6, <1>7 DEF Next, Step

THEOREM RunnerOwnsThm == Spec => RunnerOwnsCell
<1>1. DomOK /\ [Next]_vars => (\A c \in Cells : cell[c].st = "running" /\ cell'[c] # cell[c]
                                                   => cell'[c].st = "set" /\ th[cell[c].x].run = c)
      BY RunnerOwnsStep
<1> QED BY <1>1, DomInv, PTL DEF Spec, RunnerOwnsCell
=============================================================================
