----------------------------- MODULE SchemaJson -----------------------------
(***************************************************************************)
(* Avro schemas as JSON documents (terms of JsonTree):                     *)
(*                                                                         *)
(*   - the specification's name rules (fullname = namespace + name; a      *)
(*     dotted name is a fullname; "namespace" attribute; else the          *)
(*     namespace of the enclosing definition; "" = null namespace),        *)
(*   - which logicalType annotations are in force (allowed base, valid     *)
(*     parameters; everything else is ignored = the base type),            *)
(*   - PCF(tree): "Transforming into Parsing Canonical Form"               *)
(*     [PRIMITIVES] [FULLNAMES] [STRIP] [ORDER] [STRINGS] [INTEGERS]       *)
(*     [WHITESPACE] as a tree -> tree function (the result is an ordered   *)
(*     tree; its compact rendering is the canonical text),                 *)
(*   - the edits the specification makes irrelevant for the canonical form *)
(*     as ACTIONS on trees (ReorderKeys, AddDoc, AddAliases, AddDefault,   *)
(*     AddAttribute, AddOrder, AddLogical, WrapPrimitive, RespellNamespace,*)
(*     RespellReference),                                                  *)
(*   - Meaning(tree): the reference schema reader (see second half).       *)
(*                                                                         *)
(* Written from the Avro specification (sections Names, Aliases, Logical   *)
(* Types, Parsing Canonical Form), not from the Rust.  Strings are atomic  *)
(* in TLA+, but TLC evaluates Len, \o and SubSeq on them; a name is        *)
(* carried as a pair [s |-> STRING, u |-> UTF-8 bytes] (names are ASCII so *)
(* both have the same indices).                                            *)
(***************************************************************************)
EXTENDS JsonTree

PrimNames == {"null", "boolean", "int", "long", "float", "double", "bytes", "string"}
NamedKinds == {"record", "enum", "fixed"}

Get(o, k) == GetLast(o, k)
KeyIndex(o, k) == CHOOSE i \in 1..Len(o.kv) : o.kv[i][1] = k /\ \A m \in (i+1)..Len(o.kv) : o.kv[m][1] # k
HasStr(o, k) == HasKey(o, k) /\ Get(o, k).j = "str"
HasInt(o, k) == HasKey(o, k) /\ Get(o, k).j = "int"

(***************************************************************************)
(* Names                                                                   *)
(***************************************************************************)
N(s, u) == [s |-> s, u |-> u]
NoNs == N("", <<>>)
DotN == N(".", <<46>>)
NOf(t) == N(t.s, t.u)                       \* of a "str" tree
NTree(n) == JStr(n.s, n.u)
NCat(a, b) == N(a.s \o b.s, a.u \o b.u)
(* names are ASCII; if the atom is absent or not ASCII only the bytes are kept *)
NSub(n, i, j) == N(IF Len(n.s) = Len(n.u) THEN SubSeq(n.s, i, j) ELSE "", SubSeq(n.u, i, j))
NLen(n) == Len(n.u)
Dots(n) == {i \in 1..NLen(n) : n.u[i] = 46}
HasDot(n) == Dots(n) # {}
LastDot(n) == CHOOSE i \in Dots(n) : \A k \in Dots(n) : k <= i
NsPart(n) == IF HasDot(n) THEN NSub(n, 1, LastDot(n) - 1) ELSE NoNs
ShortPart(n) == IF HasDot(n) THEN NSub(n, LastDot(n) + 1, NLen(n)) ELSE n
IsNullNs(ns) == ns.u = <<>>
Qualify(ns, short) == IF IsNullNs(ns) THEN short ELSE NCat(NCat(ns, DotN), short)

(* "if the name specified contains a dot, then it is assumed to be a fullname, and any
   namespace also specified is ignored"; "a name and namespace are both specified";
   "a name only is specified: the namespace is taken from the most tightly enclosing
   named schema".  A leading dot (".F") has an empty namespace part = null namespace. *)
DefFull(o, ens) ==
  LET nm == NOf(Get(o, "name")) IN
  IF HasDot(nm) THEN Qualify(NsPart(nm), ShortPart(nm))
  ELSE IF HasStr(o, "namespace") THEN Qualify(NOf(Get(o, "namespace")), nm)
  ELSE Qualify(ens, nm)

(* "References to previously defined names are as in the latter two cases above" *)
RefFull(t, ens) ==
  LET nm == NOf(t) IN
  IF HasDot(nm) THEN Qualify(NsPart(nm), ShortPart(nm)) ELSE Qualify(ens, nm)

(***************************************************************************)
(* Logical types ("Logical Types": an implementation must ignore unknown   *)
(* logical types and invalid ones and use the underlying type).            *)
(***************************************************************************)
IntLogicals == {"date", "time-millis"}
LongLogicals == {"time-micros", "timestamp-millis", "timestamp-micros", "timestamp-nanos",
                 "local-timestamp-millis", "local-timestamp-micros", "local-timestamp-nanos"}

(* decimal digits a fixed of n bytes can hold: floor(log10(2^(8n-1) - 1)) *)
MaxPrecision(n) ==
  CASE n = 0 -> 0 [] n = 1 -> 2 [] n = 2 -> 4 [] n = 3 -> 6 [] n = 4 -> 9 [] n = 5 -> 11 [] n = 6 -> 14
    [] n = 7 -> 16 [] n = 8 -> 18 [] n = 9 -> 21 [] n = 10 -> 23 [] n = 11 -> 26 [] n = 12 -> 28
    [] n = 13 -> 31 [] n = 14 -> 33 [] n = 15 -> 35 [] n = 16 -> 38 [] OTHER -> 1000

DecimalScale(o) == IF HasKey(o, "scale") THEN Get(o, "scale") ELSE JInt(0)
ValidDecimal(o) ==
  /\ HasInt(o, "precision") /\ Get(o, "precision").n >= 1
  /\ DecimalScale(o).j = "int" /\ DecimalScale(o).n >= 0 /\ DecimalScale(o).n <= Get(o, "precision").n

(* the logical type in force at object o whose "type" is the string base, or "" *)
LogicalOf(o, base) ==
  IF ~HasStr(o, "logicalType") THEN ""
  ELSE LET lt == Get(o, "logicalType").s IN
       CASE base = "int" /\ lt \in IntLogicals -> lt
         [] base = "long" /\ lt \in LongLogicals -> lt
         [] base = "bytes" /\ lt = "big-decimal" -> lt
         [] base = "bytes" /\ lt = "decimal" /\ ValidDecimal(o) -> lt
         [] base = "string" /\ lt = "uuid" -> lt
         [] base = "fixed" /\ lt = "decimal" /\ ValidDecimal(o) /\ HasInt(o, "size")
              /\ Get(o, "precision").n <= MaxPrecision(Get(o, "size").n) -> lt
         [] base = "fixed" /\ lt = "uuid" /\ HasInt(o, "size") /\ Get(o, "size").n = 16 -> lt
         [] base = "fixed" /\ lt = "duration" /\ HasInt(o, "size") /\ Get(o, "size").n = 12 -> lt
         [] OTHER -> ""

(***************************************************************************)
(* Parsing Canonical Form.                                                 *)
(*                                                                         *)
(* PCFd(t, ens, D): D is the set of enabled *named deviations* (known      *)
(* findings); PCF(t) == PCFd(t, NoNs, {}) is the specification.            *)
(*   "C12-extra-keys-kept": the keys order, precision, scale are not       *)
(*       stripped at non-primitive object nodes and at fields (emitted     *)
(*       behind the specification's keys, in this order; a decimal in      *)
(*       force reports its scale, 0 when absent).                          *)
(*   "C12-logical-primitive-object": a primitive carrying a logical type   *)
(*       in force is emitted as {"type": base} (plus the extra keys above) *)
(*       instead of the simple form.                                       *)
(***************************************************************************)
(*   "C12-foreign-structural-key-kept": a custom attribute whose key is     *)
(*       structural for ANOTHER kind of node (size on an array or a field,  *)
(*       symbols on a fixed, items on a record, ...) is not stripped: it is *)
(*       emitted at that key's place in the fixed key order.                *)
ExtraKeys == <<"order", "precision", "scale">>
StructKeys == <<"name", "type", "fields", "symbols", "items", "values", "size">>
KeyPos(k) == CHOOSE i \in 1..Len(StructKeys) : StructKeys[i] = k
(* own = the node's own structural key/value pairs (already canonical); the foreign ones are merged in by position *)
WithForeign(o, own, D) ==
  IF "C12-foreign-structural-key-kept" \notin D THEN own
  ELSE LET ownKeys == {own[i][1] : i \in 1..Len(own)}
           fk == SelectSeq(StructKeys, LAMBDA k : HasKey(o, k) /\ k \notin ownKeys /\ Get(o, k).j = "int")
           foreign == [i \in 1..Len(fk) |-> <<fk[i], Get(o, fk[i])>>]
       IN SortSeq(own \o foreign, LAMBDA a, b : KeyPos(a[1]) < KeyPos(b[1]))

ExtraKV(o, D, dec) ==
  IF "C12-extra-keys-kept" \notin D THEN <<>>
  ELSE LET ks == SelectSeq(ExtraKeys, LAMBDA k : HasKey(o, k) \/ (dec /\ k = "scale")) IN
       [i \in 1..Len(ks) |-> <<ks[i], IF HasKey(o, ks[i]) THEN Get(o, ks[i]) ELSE JInt(0)>>]

TypeStr(s) == JStr(s, CASE s = "record" -> <<114, 101, 99, 111, 114, 100>>
                        [] s = "enum" -> <<101, 110, 117, 109>>
                        [] s = "fixed" -> <<102, 105, 120, 101, 100>>
                        [] s = "array" -> <<97, 114, 114, 97, 121>>
                        [] s = "map" -> <<109, 97, 112>>
                        [] s = "null" -> <<110, 117, 108, 108>>
                        [] s = "boolean" -> <<98, 111, 111, 108, 101, 97, 110>>
                        [] s = "int" -> <<105, 110, 116>>
                        [] s = "long" -> <<108, 111, 110, 103>>
                        [] s = "float" -> <<102, 108, 111, 97, 116>>
                        [] s = "double" -> <<100, 111, 117, 98, 108, 101>>
                        [] s = "bytes" -> <<98, 121, 116, 101, 115>>
                        [] s = "string" -> <<115, 116, 114, 105, 110, 103>>)

ObjKind0(o) ==
  LET ty == Get(o, "type") IN
  IF ty.j # "str" THEN "nested"
  ELSE IF ty.s \in {"record", "enum", "fixed", "array", "map"} THEN ty.s
  ELSE IF ty.s \in PrimNames THEN "primobj" ELSE "refobj"

RECURSIVE PCFd(_, _, _), PCFObj(_, _, _)

(* a field of a record: only name and type are relevant to parsing data *)
PCFField(f, ns, D) ==
  JObj(WithForeign(f, << <<"name", Get(f, "name")>>, <<"type", PCFd(Get(f, "type"), ns, D)>> >>, D) \o ExtraKV(f, D, FALSE))

PCFObj(o, ens, D) ==
  LET ty == Get(o, "type") IN
  IF ty.j # "str" THEN PCFd(ty, ens, D)                      \* {"type": {...}} / {"type": [...]}
  ELSE
  CASE ty.s = "record" ->
         LET full == DefFull(o, ens)
             ns == NsPart(full)
             fs == Get(o, "fields").items
         IN JObj(WithForeign(o, << <<"name", NTree(full)>>, <<"type", TypeStr("record")>>,
                    <<"fields", JArr([i \in 1..Len(fs) |-> PCFField(fs[i], ns, D)])>> >>, D) \o ExtraKV(o, D, FALSE))
    [] ty.s = "enum" ->
         JObj(WithForeign(o, << <<"name", NTree(DefFull(o, ens))>>, <<"type", TypeStr("enum")>>,
                 <<"symbols", Get(o, "symbols")>> >>, D) \o ExtraKV(o, D, FALSE))
    [] ty.s = "fixed" ->
         JObj(WithForeign(o, << <<"name", NTree(DefFull(o, ens))>>, <<"type", TypeStr("fixed")>>,
                 <<"size", Get(o, "size")>> >>, D) \o ExtraKV(o, D, LogicalOf(o, "fixed") = "decimal"))
    [] ty.s = "array" ->
         JObj(WithForeign(o, << <<"type", TypeStr("array")>>, <<"items", PCFd(Get(o, "items"), ens, D)>> >>, D) \o ExtraKV(o, D, FALSE))
    [] ty.s = "map" ->
         JObj(WithForeign(o, << <<"type", TypeStr("map")>>, <<"values", PCFd(Get(o, "values"), ens, D)>> >>, D) \o ExtraKV(o, D, FALSE))
    [] ty.s \in PrimNames ->
         IF "C12-logical-primitive-object" \in D /\ LogicalOf(o, ty.s) # ""
         THEN JObj(<< <<"type", TypeStr(ty.s)>> >> \o ExtraKV(o, D, LogicalOf(o, ty.s) = "decimal"))
         ELSE TypeStr(ty.s)                                                  \* [PRIMITIVES]
    [] OTHER -> NTree(RefFull(ty, ens))                                      \* {"type": "Name"}

PCFd(t, ens, D) ==
  CASE t.j = "str" -> IF t.s \in PrimNames THEN TypeStr(t.s) ELSE NTree(RefFull(t, ens))   \* [FULLNAMES]
    [] t.j = "arr" -> JArr([i \in 1..Len(t.items) |-> PCFd(t.items[i], ens, D)])
    [] t.j = "obj" -> PCFObj(t, ens, D)
    [] OTHER -> t

PCF(t) == PCFd(t, NoNs, {})


(***************************************************************************)
(* [WHITESPACE] / [STRINGS] / [INTEGERS]: the canonical TEXT of a          *)
(* canonical tree, as UTF-8 bytes -- no whitespace, keys and strings in    *)
(* quotes without escapes (names and symbols need none; CanonTextOk says   *)
(* so), integers in decimal without sign padding or leading zeros.         *)
(***************************************************************************)
KeyU(k) == CASE k = "name" -> <<110, 97, 109, 101>>
             [] k = "type" -> <<116, 121, 112, 101>>
             [] k = "fields" -> <<102, 105, 101, 108, 100, 115>>
             [] k = "symbols" -> <<115, 121, 109, 98, 111, 108, 115>>
             [] k = "items" -> <<105, 116, 101, 109, 115>>
             [] k = "values" -> <<118, 97, 108, 117, 101, 115>>
             [] k = "size" -> <<115, 105, 122, 101>>
             [] k = "order" -> <<111, 114, 100, 101, 114>>
             [] k = "precision" -> <<112, 114, 101, 99, 105, 115, 105, 111, 110>>
             [] k = "scale" -> <<115, 99, 97, 108, 101>>

RECURSIVE DigitsOf(_)
DigitsOf(n) == IF n < 10 THEN <<48 + n>> ELSE DigitsOf(n \div 10) \o <<48 + (n % 10)>>
IntText(n) == IF n < 0 THEN <<45>> \o DigitsOf(0 - n) ELSE DigitsOf(n)

Quoted(u) == <<34>> \o u \o <<34>>
NeedsNoEscape(u) == \A i \in 1..Len(u) : u[i] >= 32 /\ u[i] # 34 /\ u[i] # 92 /\ u[i] # 127

RECURSIVE JoinWithCommas(_)
JoinWithCommas(parts) ==
  IF Len(parts) = 0 THEN <<>>
  ELSE IF Len(parts) = 1 THEN parts[1]
  ELSE parts[1] \o <<44>> \o JoinWithCommas(Tail(parts))

RECURSIVE TextBytes(_), CanonTextOk(_)
TextBytes(c) ==
  CASE c.j = "str" -> Quoted(c.u)
    [] c.j = "int" -> IntText(c.n)
    [] c.j = "arr" -> <<91>> \o JoinWithCommas([i \in 1..Len(c.items) |-> TextBytes(c.items[i])]) \o <<93>>
    [] c.j = "obj" -> <<123>> \o JoinWithCommas([i \in 1..Len(c.kv) |-> Quoted(KeyU(c.kv[i][1])) \o <<58>> \o TextBytes(c.kv[i][2])]) \o <<125>>

(* TextBytes is defined on canonical trees whose strings need no JSON escape and whose numbers are small integers *)
CanonTextOk(c) ==
  CASE c.j = "str" -> NeedsNoEscape(c.u)
    [] c.j = "int" -> TRUE
    [] c.j = "arr" -> \A i \in 1..Len(c.items) : CanonTextOk(c.items[i])
    [] c.j = "obj" -> \A i \in 1..Len(c.kv) : c.kv[i][1] \in {"name", "type", "fields", "symbols", "items", "values", "size"} /\ CanonTextOk(c.kv[i][2])
    [] OTHER -> FALSE

(* Under "C12-extra-keys-kept" a precision/scale value that is not an integer makes the
   implementation panic instead of producing text ("C12-precision-scale-attr-panic"). *)
BadExtraHere(o) == \E k \in {"precision", "scale"} : HasKey(o, k) /\ Get(o, k).j # "int"

RECURSIVE NonIntExtra(_)
NonIntExtra(t) ==
  CASE t.j = "arr" -> \E i \in 1..Len(t.items) : NonIntExtra(t.items[i])
    [] t.j = "obj" ->
         LET k == ObjKind0(t) IN
         CASE k = "record" ->
                \/ BadExtraHere(t)
                \/ LET fs == Get(t, "fields").items IN
                     \E i \in 1..Len(fs) : BadExtraHere(fs[i]) \/ NonIntExtra(Get(fs[i], "type"))
           [] k = "array" -> BadExtraHere(t) \/ NonIntExtra(Get(t, "items"))
           [] k = "map" -> BadExtraHere(t) \/ NonIntExtra(Get(t, "values"))
           [] k \in {"enum", "fixed"} -> BadExtraHere(t)
           [] k = "nested" -> NonIntExtra(Get(t, "type"))
           [] OTHER -> FALSE
    [] OTHER -> FALSE

(***************************************************************************)
(* Sites: the schema positions of a tree, with the namespace in force.     *)
(* kind: "prim" | "ref" (strings), "union" (array), "field" (a field       *)
(* object), "record" | "enum" | "fixed" | "array" | "map" | "primobj"      *)
(* ({"type": primitive, ...}) | "nested" ({"type": non-string}).           *)
(***************************************************************************)
ObjKind(o) == ObjKind0(o)

Site(p, kind, ens) == [p |-> p, kind |-> kind, ens |-> ens]

RECURSIVE Sites(_, _, _)
FieldSites(f, ns, p) ==
  {Site(p, "field", ns)} \cup Sites(Get(f, "type"), ns, p \o <<KeyIndex(f, "type")>>)

Sites(t, ens, p) ==
  CASE t.j = "str" -> {Site(p, IF t.s \in PrimNames THEN "prim" ELSE "ref", ens)}
    [] t.j = "arr" -> {Site(p, "union", ens)} \cup UNION {Sites(t.items[i], ens, p \o <<i>>) : i \in 1..Len(t.items)}
    [] t.j = "obj" ->
         LET k == ObjKind(t) IN
         {Site(p, k, ens)} \cup
         CASE k = "record" ->
                LET ns == NsPart(DefFull(t, ens))
                    fi == KeyIndex(t, "fields")
                    fs == t.kv[fi][2].items
                IN UNION {FieldSites(fs[i], ns, p \o <<fi, i>>) : i \in 1..Len(fs)}
           [] k = "array" -> Sites(Get(t, "items"), ens, p \o <<KeyIndex(t, "items")>>)
           [] k = "map" -> Sites(Get(t, "values"), ens, p \o <<KeyIndex(t, "values")>>)
           [] k = "nested" -> Sites(Get(t, "type"), ens, p \o <<KeyIndex(t, "type")>>)
           [] OTHER -> {}
    [] OTHER -> {}

RECURSIVE At(_, _)
At(t, p) == IF p = <<>> THEN t
            ELSE IF t.j = "obj" THEN At(t.kv[p[1]][2], Tail(p)) ELSE At(t.items[p[1]], Tail(p))

RECURSIVE Replace(_, _, _)
Replace(t, p, x) ==
  IF p = <<>> THEN x
  ELSE IF t.j = "obj" THEN [t EXCEPT !.kv[p[1]][2] = Replace(@, Tail(p), x)]
  ELSE [t EXCEPT !.items[p[1]] = Replace(@, Tail(p), x)]

AllSites(t) == Sites(t, NoNs, <<>>)

(* the set of full names (byte strings) a tree defines, and whether a null-namespace name is
   defined inside a namespaced definition: the canonical form writes such a name as a bare
   short name, which a reader of the canonical form places in the enclosing namespace --
   there the specification's own rules are not idempotent. *)
DefSites(t) == {s \in AllSites(t) : s.kind \in NamedKinds}
DefinedNames(t) == {DefFull(At(t, s.p), s.ens).u : s \in DefSites(t)}
NullNsNested(t) ==
  \/ \E s \in DefSites(t) : ~IsNullNs(s.ens) /\ ~HasDot(DefFull(At(t, s.p), s.ens))
  \/ \E s \in AllSites(t) : s.kind = "ref" /\ ~IsNullNs(s.ens) /\ ~HasDot(RefFull(At(t, s.p), s.ens))

(***************************************************************************)
(* Irrelevant edits.  Each operator returns the set of edited trees.       *)
(***************************************************************************)
Reverse(q) == [i \in 1..Len(q) |-> q[Len(q) + 1 - i]]
Rotate(q) == IF Len(q) = 0 THEN q ELSE Tail(q) \o <<Head(q)>>
InsertAt(q, i, x) == SubSeq(q, 1, i - 1) \o <<x>> \o SubSeq(q, i, Len(q))     \* x becomes element i

ObjKinds == {"record", "enum", "fixed", "array", "map", "primobj", "field"}
DocKinds == {"record", "enum", "fixed", "field"}

Edit(name, t) == [name |-> name, t |-> t]

(* A JSON value a field of this type may have as default (simple types only; "" = none offered) *)
Str_a == JStr("a", <<97>>)
SimpleDefault(ty) ==
  IF ty.j = "str" THEN
    CASE ty.s = "null" -> <<JNull>>
      [] ty.s = "boolean" -> <<JBool(TRUE)>>
      [] ty.s \in {"int", "long"} -> <<JInt(7)>>
      [] ty.s \in {"float", "double"} -> <<JNum("1.5")>>
      [] ty.s \in {"bytes", "string"} -> <<Str_a>>
      [] OTHER -> <<>>
  ELSE IF ty.j = "obj" /\ HasStr(ty, "type") THEN
    LET k == Get(ty, "type").s IN
    CASE k = "array" -> <<JArr(<<>>)>>
      [] k = "map" -> <<JObj(<<>>)>>
      [] k = "enum" /\ Get(ty, "symbols").items # <<>> -> <<Get(ty, "symbols").items[1]>>
      [] k \in {"int", "long"} -> <<JInt(7)>>
      [] k = "string" /\ LogicalOf(ty, "string") = "" -> <<Str_a>>
      [] OTHER -> <<>>
  ELSE <<>>

DocStr == JStr("a doc", <<97, 32, 100, 111, 99>>)
AliasArr == JArr(<<JStr("Old", <<79, 108, 100>>), JStr("x.y.Old2", <<120, 46, 121, 46, 79, 108, 100, 50>>)>>)
FieldAliasArr == JArr(<<JStr("old_f", <<111, 108, 100, 95, 102>>)>>)
AttrVal == JObj(<< <<"k", JArr(<<JInt(1), JNull>>)>>, <<"doc", JStr("x", <<120>>)>> >>)
Str_desc == JStr("descending", <<100, 101, 115, 99, 101, 110, 100, 105, 110, 103>>)

LogicalStr(s) ==
  JStr(s, CASE s = "date" -> <<100, 97, 116, 101>>
            [] s = "time-micros" -> <<116, 105, 109, 101, 45, 109, 105, 99, 114, 111, 115>>
            [] s = "uuid" -> <<117, 117, 105, 100>>
            [] s = "big-decimal" -> <<98, 105, 103, 45, 100, 101, 99, 105, 109, 97, 108>>
            [] s = "decimal" -> <<100, 101, 99, 105, 109, 97, 108>>)

(* spellings of a definition's name keys with the same full name, inside namespace ens *)
Respellings(o, ens) ==
  LET full == DefFull(o, ens)
      ns == NsPart(full)
      short == ShortPart(full)
      rest == SelectSeq(o.kv, LAMBDA e : e[1] \notin {"name", "namespace"})
      withName(nm) == JObj(<< <<"name", NTree(nm)>> >> \o rest)
      withBoth(nm, nsv) == JObj(<< <<"namespace", NTree(nsv)>>, <<"name", NTree(nm)>> >> \o rest)
  IN  {withBoth(short, ns)}                                                   \* explicit namespace ("" = null)
      \cup (IF ns.u = ens.u THEN {withName(short)} ELSE {})                  \* inherited
      \cup (IF ~IsNullNs(ns) THEN {withName(full), withBoth(full, N("ignored", <<105, 103, 110, 111, 114, 101, 100>>))} ELSE {})  \* dotted full name; namespace then ignored

ForeignVal == JInt(7)
ForeignKeys(kind) ==
  CASE kind = "array" -> {"size", "symbols"}
    [] kind = "map" -> {"fields"}
    [] kind = "record" -> {"items"}
    [] kind = "enum" -> {"values"}
    [] kind = "fixed" -> {"symbols"}
    [] kind = "field" -> {"size"}
    [] OTHER -> {}

EditsAt(t, s) ==
  LET x == At(t, s.p)
      put(name, y) == Edit(name, Replace(t, s.p, y))
      addKey(name, k, v) ==
        IF HasKey(x, k) THEN {}
        ELSE {put(name, [x EXCEPT !.kv = Append(@, <<k, v>>)]), put(name, [x EXCEPT !.kv = InsertAt(@, 1, <<k, v>>)])}
  IN
  IF s.kind \in ObjKinds THEN
       (IF Len(x.kv) >= 2 THEN {put("ReorderKeys", [x EXCEPT !.kv = Reverse(@)]), put("ReorderKeys", [x EXCEPT !.kv = Rotate(@)])} ELSE {})
       \cup (IF s.kind \in DocKinds THEN addKey("AddDoc", "doc", DocStr) ELSE {})
       \cup (IF s.kind \in NamedKinds THEN addKey("AddAliases", "aliases", AliasArr) ELSE {})
       \* an alias that is the full name of ANOTHER type defined in the same document (a rename in progress): aliases
       \* are stripped, references keep denoting what they name
       \cup (IF s.kind \in NamedKinds /\ ~HasKey(x, "aliases")
             THEN {put("AddAliasOfOtherType", [x EXCEPT !.kv = Append(@, <<"aliases", JArr(<<NTree(DefFull(At(t, o.p), o.ens))>>)>>)])
                     : o \in {d \in DefSites(t) : d.p # s.p /\ HasDot(DefFull(At(t, d.p), d.ens))}}
             ELSE {})
       \cup (IF s.kind = "field" THEN addKey("AddAliases", "aliases", FieldAliasArr) ELSE {})
       \cup (IF s.kind = "field" /\ SimpleDefault(Get(x, "type")) # <<>> THEN addKey("AddDefault", "default", SimpleDefault(Get(x, "type"))[1]) ELSE {})
       \cup (IF s.kind = "field" THEN addKey("AddOrder", "order", Str_desc) ELSE {})
       \cup addKey("AddAttribute", "foo", AttrVal)
       \* an attribute whose key is structural for ANOTHER kind of node is an attribute like any other here
       \cup UNION {IF HasKey(x, k) THEN {} ELSE {put("AddForeignKeyAttribute", [x EXCEPT !.kv = Append(@, <<k, ForeignVal>>)])}
                   : k \in ForeignKeys(s.kind)}
       \cup (IF s.kind \in NamedKinds THEN {put("RespellNamespace", y) : y \in Respellings(x, s.ens) \ {x}} ELSE {})
  ELSE IF s.kind = "prim" THEN
       {put("WrapPrimitive", JObj(<< <<"type", x>> >>))}
       \cup (CASE x.s = "int" -> {put("AddLogical", JObj(<< <<"type", x>>, <<"logicalType", LogicalStr("date")>> >>))}
               [] x.s = "long" -> {put("AddLogical", JObj(<< <<"logicalType", LogicalStr("time-micros")>>, <<"type", x>> >>))}
               [] x.s = "string" -> {put("AddLogical", JObj(<< <<"type", x>>, <<"logicalType", LogicalStr("uuid")>> >>)),
                                     put("AddLogical", JObj(<< <<"type", x>>, <<"logicalType", LogicalStr("date")>> >>))}   \* not allowed on string: ignored
               [] x.s = "bytes" -> {put("AddLogical", JObj(<< <<"type", x>>, <<"logicalType", LogicalStr("decimal")>>, <<"precision", JInt(4)>>, <<"scale", JInt(2)>> >>)),
                                    put("AddLogical", JObj(<< <<"type", x>>, <<"logicalType", LogicalStr("decimal")>>, <<"precision", JInt(5)>> >>)),
                                    put("AddLogical", JObj(<< <<"type", x>>, <<"logicalType", LogicalStr("big-decimal")>> >>))}
               [] OTHER -> {})
  ELSE IF s.kind = "ref" THEN
       LET full == RefFull(x, s.ens) IN
       {put("RespellReference", NTree(y)) :
          y \in ((IF ~IsNullNs(NsPart(full)) THEN {full} ELSE {})
                 \cup (IF NsPart(full).u = s.ens.u THEN {ShortPart(full)} ELSE {})) \ {NOf(x)}}
  ELSE {}

EditResults(t) == UNION {EditsAt(t, s) : s \in AllSites(t)}

(***************************************************************************)
(*                                                                         *)
(*                  Meaning: the reference schema reader                   *)
(*                                                                         *)
(* Meaning(tree) is a structural term ("M-term") that keeps everything the *)
(* specification gives a schema: full names (namespace rules above),       *)
(* structure, logical types in force, field defaults (as JSON trees),      *)
(* docs, aliases (type aliases fully qualified relative to the type's      *)
(* namespace; field aliases verbatim) and custom attributes (every key     *)
(* that is not structurally consumed at that node kind).                   *)
(*                                                                         *)
(*   [m |-> "prim", k]                          k \in PrimNames            *)
(*   [m |-> "logical", k, base]                 date, time-*, timestamp-*, *)
(*                                              big-decimal, uuid (string) *)
(*   [m |-> "decimal", precision, scale, inner] inner = prim bytes | fixed *)
(*   [m |-> "uuid-fixed", inner], [m |-> "duration", inner]                *)
(*   [m |-> "array", items, attrs], [m |-> "map", values, attrs]           *)
(*   [m |-> "union", branches], [m |-> "ref", name]                        *)
(*   [m |-> "record", name, aliases, doc, fields, attrs]                   *)
(*        field = [name, doc, aliases, dflt, type, attrs]                  *)
(*   [m |-> "enum", name, aliases, doc, symbols, edefault, attrs]          *)
(*   [m |-> "fixed", name, aliases, doc, size, attrs]                      *)
(*                                                                         *)
(* names, docs, symbols are UTF-8 byte strings; optional parts are         *)
(* sequences of length 0 or 1; attrs is a sequence of <<key, tree>>        *)
(* compared as a finite map (MEq); defaults and attribute values are       *)
(* compared as JSON values (JEq: object member order is irrelevant).       *)
(*                                                                         *)
(* Grey zones fixed here (see DESIGN B.3): attributes written on the       *)
(* object form of a primitive have no place in the term (the crate's data  *)
(* model has none; they are not compared); a "logicalType" key is always   *)
(* structurally consumed, in force or not; the `order` of a field is an    *)
(* attribute like any other.                                               *)
(***************************************************************************)
MPrim(k) == [m |-> "prim", k |-> k]
MRef(name) == [m |-> "ref", name |-> name]

Opt(o, k) == IF HasStr(o, k) THEN <<Get(o, k).u>> ELSE <<>>

StrItems(o, k) ==
  IF HasKey(o, k) /\ Get(o, k).j = "arr"
  THEN SelectSeq(Get(o, k).items, LAMBDA x : x.j = "str") ELSE <<>>

(* "Aliases ... may be specified either as fully namespace-qualified, or relative to the
   namespace of the name it is an alias for" *)
TypeAliases(o, full) ==
  LET xs == StrItems(o, "aliases") IN
  [i \in 1..Len(xs) |-> RefFull(xs[i], NsPart(full)).u]
FieldAliases(f) == LET xs == StrItems(f, "aliases") IN [i \in 1..Len(xs) |-> xs[i].u]

AttrsOf(o, consumed) == SelectSeq(o.kv, LAMBDA e : e[1] \notin consumed)

RecordKeys == {"type", "name", "namespace", "doc", "aliases", "fields", "logicalType"}
EnumKeys == {"type", "name", "namespace", "doc", "aliases", "symbols", "default", "logicalType"}
FixedKeys == {"type", "name", "namespace", "doc", "aliases", "size", "logicalType"}
ArrayKeys == {"type", "items", "logicalType"}
MapKeys == {"type", "values", "logicalType"}
FieldKeys == {"name", "type", "doc", "default", "aliases"}

RECURSIVE Mean(_, _)

MeanField(f, ns) ==
  [name |-> Get(f, "name").u, doc |-> Opt(f, "doc"), aliases |-> FieldAliases(f),
   dflt |-> IF HasKey(f, "default") THEN <<Get(f, "default")>> ELSE <<>>,
   type |-> Mean(Get(f, "type"), ns), attrs |-> AttrsOf(f, FieldKeys)]

MeanFixed(o, ens, consumed) ==
  LET full == DefFull(o, ens) IN
  [m |-> "fixed", name |-> full.u, aliases |-> TypeAliases(o, full), doc |-> Opt(o, "doc"),
   size |-> Get(o, "size"), attrs |-> AttrsOf(o, consumed)]

MeanObj(o, ens) ==
  LET ty == Get(o, "type") IN
  IF ty.j # "str" THEN Mean(ty, ens)
  ELSE
  CASE ty.s = "record" ->
         LET full == DefFull(o, ens)
             ns == NsPart(full)
             fs == Get(o, "fields").items
         IN [m |-> "record", name |-> full.u, aliases |-> TypeAliases(o, full), doc |-> Opt(o, "doc"),
             fields |-> [i \in 1..Len(fs) |-> MeanField(fs[i], ns)], attrs |-> AttrsOf(o, RecordKeys)]
    [] ty.s = "enum" ->
         LET full == DefFull(o, ens)
             syms == Get(o, "symbols").items
         IN [m |-> "enum", name |-> full.u, aliases |-> TypeAliases(o, full), doc |-> Opt(o, "doc"),
             symbols |-> [i \in 1..Len(syms) |-> syms[i].u], edefault |-> Opt(o, "default"),
             attrs |-> AttrsOf(o, EnumKeys)]
    [] ty.s = "fixed" ->
         LET lt == LogicalOf(o, "fixed") IN
         CASE lt = "decimal" -> [m |-> "decimal", precision |-> Get(o, "precision").n, scale |-> DecimalScale(o).n,
                                 inner |-> MeanFixed(o, ens, FixedKeys \cup {"precision", "scale"})]
           [] lt = "uuid" -> [m |-> "uuid-fixed", inner |-> MeanFixed(o, ens, FixedKeys)]
           [] lt = "duration" -> [m |-> "duration", inner |-> MeanFixed(o, ens, FixedKeys)]
           [] OTHER -> MeanFixed(o, ens, FixedKeys)
    [] ty.s = "array" -> [m |-> "array", items |-> Mean(Get(o, "items"), ens), attrs |-> AttrsOf(o, ArrayKeys)]
    [] ty.s = "map" -> [m |-> "map", values |-> Mean(Get(o, "values"), ens), attrs |-> AttrsOf(o, MapKeys)]
    [] ty.s \in PrimNames ->
         LET lt == LogicalOf(o, ty.s) IN
         CASE lt = "" -> MPrim(ty.s)
           [] lt = "decimal" -> [m |-> "decimal", precision |-> Get(o, "precision").n, scale |-> DecimalScale(o).n,
                                 inner |-> MPrim("bytes")]
           [] OTHER -> [m |-> "logical", k |-> lt, base |-> ty.s]
    [] OTHER -> MRef(RefFull(ty, ens).u)

Mean(t, ens) ==
  CASE t.j = "str" -> IF t.s \in PrimNames THEN MPrim(t.s) ELSE MRef(RefFull(t, ens).u)
    [] t.j = "arr" -> [m |-> "union", branches |-> [i \in 1..Len(t.items) |-> Mean(t.items[i], ens)]]
    [] t.j = "obj" -> MeanObj(t, ens)
    [] OTHER -> [m |-> "invalid"]

Meaning(t) == Mean(t, NoNs)

(***************************************************************************)
(* Equality of M-terms: attributes as finite maps, JSON values by JEq.     *)
(***************************************************************************)
AttrKeys(a) == {a[i][1] : i \in 1..Len(a)}
AttrAt(a, k) == a[CHOOSE i \in 1..Len(a) : a[i][1] = k /\ \A n \in (i+1)..Len(a) : a[n][1] # k][2]
AttrsEq(a, b) == /\ AttrKeys(a) = AttrKeys(b) /\ Len(a) = Len(b)
                 /\ \A k \in AttrKeys(a) : JEq(AttrAt(a, k), AttrAt(b, k))
OptTreeEq(a, b) == Len(a) = Len(b) /\ (Len(a) = 0 \/ JEq(a[1], b[1]))

RECURSIVE MEq(_, _)
FieldEq(f, g) ==
  /\ f.name = g.name /\ f.doc = g.doc /\ f.aliases = g.aliases /\ OptTreeEq(f.dflt, g.dflt)
  /\ MEq(f.type, g.type) /\ AttrsEq(f.attrs, g.attrs)

MEq(a, b) ==
  IF a.m # b.m THEN FALSE
  ELSE CASE a.m = "prim" -> a.k = b.k
         [] a.m = "logical" -> a.k = b.k /\ a.base = b.base
         [] a.m = "decimal" -> a.precision = b.precision /\ a.scale = b.scale /\ MEq(a.inner, b.inner)
         [] a.m \in {"uuid-fixed", "duration"} -> MEq(a.inner, b.inner)
         [] a.m = "array" -> MEq(a.items, b.items) /\ AttrsEq(a.attrs, b.attrs)
         [] a.m = "map" -> MEq(a.values, b.values) /\ AttrsEq(a.attrs, b.attrs)
         [] a.m = "union" -> Len(a.branches) = Len(b.branches) /\ \A i \in 1..Len(a.branches) : MEq(a.branches[i], b.branches[i])
         [] a.m = "ref" -> a.name = b.name
         [] a.m = "record" -> /\ a.name = b.name /\ a.aliases = b.aliases /\ a.doc = b.doc /\ AttrsEq(a.attrs, b.attrs)
                              /\ Len(a.fields) = Len(b.fields) /\ \A i \in 1..Len(a.fields) : FieldEq(a.fields[i], b.fields[i])
         [] a.m = "enum" -> /\ a.name = b.name /\ a.aliases = b.aliases /\ a.doc = b.doc /\ a.symbols = b.symbols
                            /\ a.edefault = b.edefault /\ AttrsEq(a.attrs, b.attrs)
         [] a.m = "fixed" -> /\ a.name = b.name /\ a.aliases = b.aliases /\ a.doc = b.doc /\ a.size = b.size
                             /\ AttrsEq(a.attrs, b.attrs)
         [] OTHER -> FALSE

(* does a tree carry attributes (or an ignored logicalType) on the object form of a primitive,
   or an ignored logical type on a complex node?  Those have no place in the M-term (grey). *)
RECURSIVE HasGreyAttrs(_)
HasGreyAttrs(t) ==
  CASE t.j = "arr" -> \E i \in 1..Len(t.items) : HasGreyAttrs(t.items[i])
    [] t.j = "obj" ->
         LET k == ObjKind0(t) IN
         CASE k = "primobj" -> \E i \in 1..Len(t.kv) : t.kv[i][1] \notin {"type", "logicalType", "precision", "scale"}
           [] k = "record" -> \/ HasKey(t, "logicalType")
                              \/ LET fs == Get(t, "fields").items IN \E i \in 1..Len(fs) : HasGreyAttrs(Get(fs[i], "type"))
           [] k = "array" -> HasKey(t, "logicalType") \/ HasGreyAttrs(Get(t, "items"))
           [] k = "map" -> HasKey(t, "logicalType") \/ HasGreyAttrs(Get(t, "values"))
           [] k = "enum" -> HasKey(t, "logicalType")
           [] k = "fixed" -> HasKey(t, "logicalType") /\ LogicalOf(t, "fixed") = ""
           [] k = "nested" -> TRUE
           [] OTHER -> FALSE
    [] OTHER -> FALSE

(***************************************************************************)
(* Render: a reference writer  M-term -> tree.  Every definition is        *)
(* written with its short name and an explicit "namespace" ("" = null), so *)
(* nothing depends on inheritance; references are full names, a null-      *)
(* namespace name referenced from inside a namespace gets a leading dot.   *)
(* Model invariants: Meaning(Render(x)) = x up to MEq, NoDupKeys(Render(x)).*)
(***************************************************************************)
(* TLC cannot build a STRING from bytes; the rendered tree therefore carries names with the atom
   left empty and the bytes filled in.  Meaning and PCF read names through .u only, except for the
   primitive-name test and the dot search, which use .u as well (Dots) / .s (PrimNames).  A name is
   never a primitive name when it is a defined full name, so s = "" is safe for definitions and
   references to named types. *)
RName(u) == JStr("", u)

SplitU(u) ==
  LET n == N("", u) IN [ns |-> NsPart(n).u, short |-> ShortPart(n).u]

RefSpelling(u, ens) ==
  LET sp == SplitU(u) IN
  IF sp.ns = <<>> /\ ens # <<>> THEN <<46>> \o u ELSE u

StrArr(us) == JArr([i \in 1..Len(us) |-> RName(us[i])])
OptKV(k, o) == IF o = <<>> THEN <<>> ELSE << <<k, RName(o[1])>> >>

RECURSIVE Render(_, _)
RenderNamed(x, ens, kind) ==
  LET sp == SplitU(x.name) IN
  << <<"type", TypeStr(kind)>>, <<"name", RName(sp.short)>>, <<"namespace", RName(sp.ns)>> >>
  \o OptKV("doc", x.doc)
  \o (IF x.aliases = <<>> THEN <<>> ELSE << <<"aliases", StrArr([i \in 1..Len(x.aliases) |-> RefSpelling(x.aliases[i], sp.ns)])>> >>)

RenderField(f, ns) ==
  JObj(<< <<"name", RName(f.name)>>, <<"type", Render(f.type, ns)>> >>
       \o (IF f.dflt = <<>> THEN <<>> ELSE << <<"default", f.dflt[1]>> >>)
       \o OptKV("doc", f.doc)
       \o (IF f.aliases = <<>> THEN <<>> ELSE << <<"aliases", StrArr(f.aliases)>> >>)
       \o f.attrs)

RenderFixedKV(x, ens) == RenderNamed(x, ens, "fixed") \o << <<"size", x.size>> >>

LogicalU(k) ==
  CASE k = "date" -> <<100, 97, 116, 101>>
    [] k = "time-millis" -> <<116, 105, 109, 101, 45, 109, 105, 108, 108, 105, 115>>
    [] k = "time-micros" -> <<116, 105, 109, 101, 45, 109, 105, 99, 114, 111, 115>>
    [] k = "timestamp-millis" -> <<116, 105, 109, 101, 115, 116, 97, 109, 112, 45, 109, 105, 108, 108, 105, 115>>
    [] k = "timestamp-micros" -> <<116, 105, 109, 101, 115, 116, 97, 109, 112, 45, 109, 105, 99, 114, 111, 115>>
    [] k = "timestamp-nanos" -> <<116, 105, 109, 101, 115, 116, 97, 109, 112, 45, 110, 97, 110, 111, 115>>
    [] k = "local-timestamp-millis" -> <<108, 111, 99, 97, 108, 45, 116, 105, 109, 101, 115, 116, 97, 109, 112, 45, 109, 105, 108, 108, 105, 115>>
    [] k = "local-timestamp-micros" -> <<108, 111, 99, 97, 108, 45, 116, 105, 109, 101, 115, 116, 97, 109, 112, 45, 109, 105, 99, 114, 111, 115>>
    [] k = "local-timestamp-nanos" -> <<108, 111, 99, 97, 108, 45, 116, 105, 109, 101, 115, 116, 97, 109, 112, 45, 110, 97, 110, 111, 115>>
    [] k = "big-decimal" -> <<98, 105, 103, 45, 100, 101, 99, 105, 109, 97, 108>>
    [] k = "uuid" -> <<117, 117, 105, 100>>
    [] k = "decimal" -> <<100, 101, 99, 105, 109, 97, 108>>
    [] k = "duration" -> <<100, 117, 114, 97, 116, 105, 111, 110>>

LT(k) == <<"logicalType", JStr(k, LogicalU(k))>>

Render(x, ens) ==
  CASE x.m = "prim" -> TypeStr(x.k)
    [] x.m = "logical" -> JObj(<< <<"type", TypeStr(x.base)>>, LT(x.k) >>)
    [] x.m = "decimal" ->
         IF x.inner.m = "prim"
         THEN JObj(<< <<"type", TypeStr("bytes")>>, LT("decimal"), <<"precision", JInt(x.precision)>>, <<"scale", JInt(x.scale)>> >>)
         ELSE JObj(RenderFixedKV(x.inner, ens) \o << LT("decimal"), <<"precision", JInt(x.precision)>>, <<"scale", JInt(x.scale)>> >> \o x.inner.attrs)
    [] x.m = "uuid-fixed" -> JObj(RenderFixedKV(x.inner, ens) \o << LT("uuid") >> \o x.inner.attrs)
    [] x.m = "duration" -> JObj(RenderFixedKV(x.inner, ens) \o << LT("duration") >> \o x.inner.attrs)
    [] x.m = "fixed" -> JObj(RenderFixedKV(x, ens) \o x.attrs)
    [] x.m = "enum" -> JObj(RenderNamed(x, ens, "enum") \o << <<"symbols", StrArr(x.symbols)>> >> \o OptKV("default", x.edefault) \o x.attrs)
    [] x.m = "record" ->
         LET ns == SplitU(x.name).ns IN
         JObj(RenderNamed(x, ens, "record")
              \o << <<"fields", JArr([i \in 1..Len(x.fields) |-> RenderField(x.fields[i], ns)])>> >> \o x.attrs)
    [] x.m = "array" -> JObj(<< <<"type", TypeStr("array")>>, <<"items", Render(x.items, ens)>> >> \o x.attrs)
    [] x.m = "map" -> JObj(<< <<"type", TypeStr("map")>>, <<"values", Render(x.values, ens)>> >> \o x.attrs)
    [] x.m = "union" -> JArr([i \in 1..Len(x.branches) |-> Render(x.branches[i], ens)])
    [] x.m = "ref" -> RName(RefSpelling(x.name, ens))

RenderSchema(x) == Render(x, <<>>)

(***************************************************************************)
(* Named deviations of the crate's writer (known findings of C10).         *)
(*                                                                         *)
(* LoseNullNs: "C10-null-namespace-lost" -- the writer emits no namespace  *)
(* key for a name without namespace and writes references as bare full     *)
(* names, so a null-namespace name inside a namespaced definition is read  *)
(* back in the enclosing namespace.  This operator is the exact effect on  *)
(* the M-term (definitions, references and aliases).                       *)
(*                                                                         *)
(* DropDecimalAttrs: "C10-decimal-fixed-duplicate-keys" -- a decimal on a  *)
(* fixed keeps precision/scale ALSO as attributes of the fixed, and writes *)
(* both; the operator removes them from the fixed inside a decimal.        *)
(***************************************************************************)
Requal(u, ens) == IF SplitU(u).ns = <<>> /\ ens # <<>> THEN ens \o <<46>> \o u ELSE u

RECURSIVE LoseNullNs(_, _)
LoseNamed(x, ens) ==
  LET nm == Requal(x.name, ens)
      ns == SplitU(nm).ns
  IN [x EXCEPT !.name = nm, !.aliases = [i \in 1..Len(x.aliases) |-> Requal(x.aliases[i], ns)]]

LoseNullNs(x, ens) ==
  CASE x.m \in {"prim", "logical"} -> x
    [] x.m = "decimal" -> IF x.inner.m = "prim" THEN x ELSE [x EXCEPT !.inner = LoseNamed(x.inner, ens)]
    [] x.m \in {"uuid-fixed", "duration"} -> [x EXCEPT !.inner = LoseNamed(x.inner, ens)]
    [] x.m \in {"fixed", "enum"} -> LoseNamed(x, ens)
    [] x.m = "record" ->
         LET y == LoseNamed(x, ens)
             ns == SplitU(y.name).ns
         IN [y EXCEPT !.fields = [i \in 1..Len(x.fields) |-> [x.fields[i] EXCEPT !.type = LoseNullNs(x.fields[i].type, ns)]]]
    [] x.m = "array" -> [x EXCEPT !.items = LoseNullNs(x.items, ens)]
    [] x.m = "map" -> [x EXCEPT !.values = LoseNullNs(x.values, ens)]
    [] x.m = "union" -> [x EXCEPT !.branches = [i \in 1..Len(x.branches) |-> LoseNullNs(x.branches[i], ens)]]
    [] x.m = "ref" -> [x EXCEPT !.name = Requal(x.name, ens)]
    [] OTHER -> x

NotDecAttr(e) == e[1] \notin {"precision", "scale"}
RECURSIVE DropDecimalAttrs(_)
DropDecimalAttrs(x) ==
  CASE x.m = "decimal" -> IF x.inner.m = "prim" THEN x ELSE [x EXCEPT !.inner.attrs = SelectSeq(@, NotDecAttr)]
    [] x.m = "record" -> [x EXCEPT !.fields = [i \in 1..Len(x.fields) |-> [x.fields[i] EXCEPT !.type = DropDecimalAttrs(x.fields[i].type)]]]
    [] x.m = "array" -> [x EXCEPT !.items = DropDecimalAttrs(x.items)]
    [] x.m = "map" -> [x EXCEPT !.values = DropDecimalAttrs(x.values)]
    [] x.m = "union" -> [x EXCEPT !.branches = [i \in 1..Len(x.branches) |-> DropDecimalAttrs(x.branches[i])]]
    [] OTHER -> x

(* duplicate keys that the decimal-on-fixed deviation explains: only precision/scale, only at an
   object whose type is fixed with a decimal in force, and both occurrences carry the same value *)
RECURSIVE OnlyDecimalDups(_)
OnlyDecimalDups(t) ==
  CASE t.j = "arr" -> \A i \in 1..Len(t.items) : OnlyDecimalDups(t.items[i])
    [] t.j = "obj" ->
         /\ \A a, b \in 1..Len(t.kv) :
              (a < b /\ t.kv[a][1] = t.kv[b][1]) =>
                 /\ t.kv[a][1] \in {"precision", "scale"} /\ JEq(t.kv[a][2], t.kv[b][2])
                 /\ HasStr(t, "type") /\ Get(t, "type").s = "fixed" /\ LogicalOf(t, "fixed") = "decimal"
                 /\ Cardinality({c \in 1..Len(t.kv) : t.kv[c][1] = t.kv[a][1]}) = 2
         /\ \A i \in 1..Len(t.kv) : OnlyDecimalDups(t.kv[i][2])
    [] OTHER -> TRUE

(* ... and the one shape in which those duplicates make the text unstable: the scale was defaulted, so the
   written object has "precision" twice but "scale" once; the re-read keeps that "scale": 0 as one more attribute *)
KeyCount(o, k) == Cardinality({c \in 1..Len(o.kv) : o.kv[c][1] = k})
RECURSIVE DefaultedScaleDup(_)
DefaultedScaleDup(t) ==
  CASE t.j = "arr" -> \E i \in 1..Len(t.items) : DefaultedScaleDup(t.items[i])
    [] t.j = "obj" ->
         \/ /\ HasStr(t, "type") /\ Get(t, "type").s = "fixed" /\ LogicalOf(t, "fixed") = "decimal"
            /\ KeyCount(t, "precision") = 2 /\ KeyCount(t, "scale") = 1
         \/ \E i \in 1..Len(t.kv) : DefaultedScaleDup(t.kv[i][2])
    [] OTHER -> FALSE
=============================================================================
