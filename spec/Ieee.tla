-------------------------------- MODULE Ieee --------------------------------
(***************************************************************************)
(* IEEE-754 binary32 / binary64 conversions on bit lists, in the style of  *)
(* module Bits (TLC integers are 32-bit, so nothing here does arithmetic   *)
(* on the numbers themselves):                                             *)
(*                                                                         *)
(*   IntToFloat(le8), IntToDouble(le8)   a 64-bit two's-complement integer *)
(*        (8 little-endian bytes) converted with round-to-nearest-even:    *)
(*        the Avro promotions int/long -> float/double                     *)
(*   FloatToDouble(le4)                  exact widening (float -> double)  *)
(*   DoubleToFloat(le8)                  narrowing with round-to-nearest-  *)
(*        even, overflow to infinity, gradual underflow.  NOT an Avro      *)
(*        promotion; used only to describe a named deviation exactly.      *)
(*                                                                         *)
(* Bit tuples have index 1 = least significant bit.                        *)
(***************************************************************************)
EXTENDS Bits

BitAt(m, i) == IF i >= 1 /\ i <= Len(m) THEN m[i] ELSE 0
AnyBelow(m, i) == \E j \in 1..(IF i - 1 <= Len(m) THEN i - 1 ELSE Len(m)) : m[j] = 1     \* any of m[1..i-1] set
TopBit(m) == LET S == {i \in 1..Len(m) : m[i] = 1} IN
             IF S = {} THEN 0 ELSE CHOOSE i \in S : \A j \in S : j <= i

Bits64(le) == TLCEval([i \in 1..64 |-> BitLE(le, i - 1)])
Bits32(le) == TLCEval([i \in 1..32 |-> BitLE(le, i - 1)])

(* two's-complement negation of an n-bit tuple: invert, add one *)
NegBits(b) == TLCEval([i \in 1..Len(b) |->
                 Xor1(1 - b[i], IF \A j \in 1..(i - 1) : b[j] = 0 THEN 1 ELSE 0)])

(* add one to a bit tuple (same length; the overflow carry is reported separately) *)
IncBits(b) == TLCEval([i \in 1..Len(b) |-> Xor1(b[i], IF \A j \in 1..(i - 1) : b[j] = 1 THEN 1 ELSE 0)])
AllOnes(b) == \A i \in 1..Len(b) : b[i] = 1

(* small natural -> n-bit tuple *)
RECURSIVE Pow2N(_)
Pow2N(k) == IF k = 0 THEN 1 ELSE 2 * Pow2N(k - 1)          \* k <= 30
NatBits(x, n) == TLCEval([i \in 1..n |-> (x \div Pow2N(i - 1)) % 2])

(***************************************************************************)
(* Round the magnitude m (highest set bit h >= 1) to a significand of      *)
(* 1 + p bits, ties to even.  Returns the p fraction bits (index 1 = lsb)  *)
(* and whether the rounding carried into the next binade.                  *)
(***************************************************************************)
RoundSig(m, h, p) ==
  LET drop  == h - 1 - p                                  \* low bits that do not fit
      frac  == TLCEval([j \in 1..p |-> BitAt(m, drop + j)])
      guard == BitAt(m, drop)
      stick == drop >= 2 /\ AnyBelow(m, drop)
      up    == guard = 1 /\ (stick \/ frac[1] = 1)
  IN IF ~up THEN [frac |-> frac, carry |-> 0]
     ELSE IF AllOnes(frac) THEN [frac |-> [j \in 1..p |-> 0], carry |-> 1]
     ELSE [frac |-> IncBits(frac), carry |-> 0]

Pack(sign, expField, ebits, frac, nbytes) ==
  BitsToLE(frac \o NatBits(expField, ebits) \o <<sign>>, nbytes)

IntToIeee(le, ebits, p, bias, nbytes) ==
  LET b    == Bits64(le)
      sign == b[64]
      mag  == IF sign = 1 THEN NegBits(b) ELSE b          \* |i64::MIN| = 2^63 fits 64 unsigned bits
      h    == TopBit(mag)
  IN IF h = 0 THEN [i \in 1..nbytes |-> 0]
     ELSE LET r == RoundSig(mag, h, p) IN
          Pack(sign, (h - 1) + r.carry + bias, ebits, r.frac, nbytes)

IntToFloat(le)  == IntToIeee(le, 8, 23, 127, 4)
IntToDouble(le) == IntToIeee(le, 11, 52, 1023, 8)

(***************************************************************************)
(* float -> double: exact.                                                 *)
(***************************************************************************)
FieldVal(b, lo, n) == LET RECURSIVE S(_)
                          S(i) == IF i > n THEN 0 ELSE b[lo + i - 1] * Pow2N(i - 1) + S(i + 1)
                      IN S(1)

IsNaN32(le) == LET b == Bits32(le) IN FieldVal(b, 24, 8) = 255 /\ \E i \in 1..23 : b[i] = 1
IsNaN64(le) == LET b == Bits64(le) IN FieldVal(b, 53, 11) = 2047 /\ \E i \in 1..52 : b[i] = 1

FloatToDouble(le) ==
  LET b == Bits32(le)
      sign == b[32]
      E == FieldVal(b, 24, 8)
      M == TLCEval([i \in 1..23 |-> b[i]])
      wide == TLCEval([i \in 1..52 |-> IF i >= 30 THEN M[i - 29] ELSE 0])      \* M << 29
  IN IF E = 255 THEN Pack(sign, 2047, 11, wide, 8)                            \* inf / NaN (payload kept)
     ELSE IF E = 0
     THEN LET h == TopBit(M) IN
          IF h = 0 THEN Pack(sign, 0, 11, [i \in 1..52 |-> 0], 8)
          ELSE \* subnormal: M * 2^-149 = 1.xxx * 2^(h-1-149)
               Pack(sign, (h - 1) - 149 + 1023, 11,
                    [i \in 1..52 |-> BitAt(M, i - 52 + (h - 1))], 8)
     ELSE Pack(sign, E - 127 + 1023, 11, wide, 8)

(***************************************************************************)
(* double -> float: round to nearest even, overflow -> infinity, gradual   *)
(* underflow.  (What a C-style cast does; not part of Avro resolution.)    *)
(***************************************************************************)
DoubleToFloat(le) ==
  LET b == Bits64(le)
      sign == b[64]
      E == FieldVal(b, 53, 11)
      M == TLCEval([i \in 1..52 |-> b[i]])
      zero23 == [i \in 1..23 |-> 0]
      Inf == Pack(sign, 255, 8, zero23, 4)
  IN IF E = 2047
     THEN IF \A i \in 1..52 : M[i] = 0 THEN Inf
          ELSE Pack(sign, 255, 8, [i \in 1..23 |-> IF i = 23 THEN 1 ELSE M[i + 29]], 4)   \* quiet NaN, top payload bits
     ELSE IF E = 0 THEN Pack(sign, 0, 8, zero23, 4)            \* zero / double subnormal: far below 2^-149
     ELSE LET e == E - 1023
              mag == TLCEval(M \o <<1>>)                       \* 53-bit significand 1.M
          IN IF e >= -126
             THEN LET r == RoundSig(mag, 53, 23)  e2 == e + r.carry IN
                  IF e2 > 127 THEN Inf ELSE Pack(sign, e2 + 127, 8, r.frac, 4)
             ELSE \* subnormal target: q = RNE(mag * 2^(e-52+149)) = RNE(mag >> s), s = -97 - e >= 30
                  LET s == (-97) - e
                      q == TLCEval([j \in 1..24 |-> BitAt(mag, s + j)])
                      guard == BitAt(mag, s)
                      stick == AnyBelow(mag, s)
                      up == guard = 1 /\ (stick \/ q[1] = 1)
                      q2 == IF up THEN IncBits(q) ELSE q           \* q <= 2^23 - 1 + 1: no overflow of 24 bits
                  IN BitsToLE(q2 \o [i \in 1..7 |-> 0] \o <<sign>>, 4)   \* bit 24 set = exponent field 1

(***************************************************************************)
(* Vectors computed independently (exact integer arithmetic / C casts).    *)
(***************************************************************************)
ASSUME IntToFloat(<<0,0,0,0,0,0,0,0>>) = <<0,0,0,0>> /\ IntToDouble(<<0,0,0,0,0,0,0,0>>) = <<0,0,0,0,0,0,0,0>>  \* 0
ASSUME IntToFloat(<<1,0,0,0,0,0,0,0>>) = <<0,0,128,63>> /\ IntToDouble(<<1,0,0,0,0,0,0,0>>) = <<0,0,0,0,0,0,240,63>>  \* 1
ASSUME IntToFloat(<<255,255,255,255,255,255,255,255>>) = <<0,0,128,191>> /\ IntToDouble(<<255,255,255,255,255,255,255,255>>) = <<0,0,0,0,0,0,240,191>>  \* -1
ASSUME IntToFloat(<<2,0,0,0,0,0,0,0>>) = <<0,0,0,64>> /\ IntToDouble(<<2,0,0,0,0,0,0,0>>) = <<0,0,0,0,0,0,0,64>>  \* 2
ASSUME IntToFloat(<<3,0,0,0,0,0,0,0>>) = <<0,0,64,64>> /\ IntToDouble(<<3,0,0,0,0,0,0,0>>) = <<0,0,0,0,0,0,8,64>>  \* 3
ASSUME IntToFloat(<<0,0,0,1,0,0,0,0>>) = <<0,0,128,75>> /\ IntToDouble(<<0,0,0,1,0,0,0,0>>) = <<0,0,0,0,0,0,112,65>>  \* 16777216
ASSUME IntToFloat(<<1,0,0,1,0,0,0,0>>) = <<0,0,128,75>> /\ IntToDouble(<<1,0,0,1,0,0,0,0>>) = <<0,0,0,16,0,0,112,65>>  \* 16777217
ASSUME IntToFloat(<<2,0,0,1,0,0,0,0>>) = <<1,0,128,75>> /\ IntToDouble(<<2,0,0,1,0,0,0,0>>) = <<0,0,0,32,0,0,112,65>>  \* 16777218
ASSUME IntToFloat(<<3,0,0,1,0,0,0,0>>) = <<2,0,128,75>> /\ IntToDouble(<<3,0,0,1,0,0,0,0>>) = <<0,0,0,48,0,0,112,65>>  \* 16777219
ASSUME IntToFloat(<<255,255,255,254,255,255,255,255>>) = <<0,0,128,203>> /\ IntToDouble(<<255,255,255,254,255,255,255,255>>) = <<0,0,0,16,0,0,112,193>>  \* -16777217
ASSUME IntToFloat(<<0,0,0,0,0,0,32,0>>) = <<0,0,0,90>> /\ IntToDouble(<<0,0,0,0,0,0,32,0>>) = <<0,0,0,0,0,0,64,67>>  \* 9007199254740992
ASSUME IntToFloat(<<1,0,0,0,0,0,32,0>>) = <<0,0,0,90>> /\ IntToDouble(<<1,0,0,0,0,0,32,0>>) = <<0,0,0,0,0,0,64,67>>  \* 9007199254740993
ASSUME IntToFloat(<<2,0,0,0,0,0,32,0>>) = <<0,0,0,90>> /\ IntToDouble(<<2,0,0,0,0,0,32,0>>) = <<1,0,0,0,0,0,64,67>>  \* 9007199254740994
ASSUME IntToFloat(<<3,0,0,0,0,0,32,0>>) = <<0,0,0,90>> /\ IntToDouble(<<3,0,0,0,0,0,32,0>>) = <<2,0,0,0,0,0,64,67>>  \* 9007199254740995
ASSUME IntToFloat(<<255,255,255,255,255,255,255,127>>) = <<0,0,0,95>> /\ IntToDouble(<<255,255,255,255,255,255,255,127>>) = <<0,0,0,0,0,0,224,67>>  \* 9223372036854775807
ASSUME IntToFloat(<<0,0,0,0,0,0,0,128>>) = <<0,0,0,223>> /\ IntToDouble(<<0,0,0,0,0,0,0,128>>) = <<0,0,0,0,0,0,224,195>>  \* -9223372036854775808
ASSUME IntToFloat(<<255,255,255,127,0,0,0,0>>) = <<0,0,0,79>> /\ IntToDouble(<<255,255,255,127,0,0,0,0>>) = <<0,0,192,255,255,255,223,65>>  \* 2147483647
ASSUME IntToFloat(<<0,0,0,128,255,255,255,255>>) = <<0,0,0,207>> /\ IntToDouble(<<0,0,0,128,255,255,255,255>>) = <<0,0,0,0,0,0,224,193>>  \* -2147483648
ASSUME IntToFloat(<<255,255,255,7,0,0,0,0>>) = <<0,0,0,77>> /\ IntToDouble(<<255,255,255,7,0,0,0,0>>) = <<0,0,0,252,255,255,159,65>>  \* 134217727
ASSUME IntToFloat(<<255,255,255,255,251,255,255,255>>) = <<0,0,128,208>> /\ IntToDouble(<<255,255,255,255,251,255,255,255>>) = <<0,0,4,0,0,0,16,194>>  \* -17179869185
ASSUME IntToFloat(<<255,255,255,255,255,255,127,0>>) = <<0,0,0,91>> /\ IntToDouble(<<255,255,255,255,255,255,127,0>>) = <<0,0,0,0,0,0,96,67>>  \* 36028797018963967
ASSUME IntToFloat(<<255,255,255,255,255,255,127,255>>) = <<0,0,0,219>> /\ IntToDouble(<<255,255,255,255,255,255,127,255>>) = <<0,0,0,0,0,0,96,195>>  \* -36028797018963969
ASSUME IntToFloat(<<0,0,0,0,0,0,0,64>>) = <<0,0,128,94>> /\ IntToDouble(<<0,0,0,0,0,0,0,64>>) = <<0,0,0,0,0,0,208,67>>  \* 4611686018427387904
ASSUME IntToFloat(<<255,255,255,255,255,255,255,63>>) = <<0,0,128,94>> /\ IntToDouble(<<255,255,255,255,255,255,255,63>>) = <<0,0,0,0,0,0,208,67>>  \* 4611686018427387903
ASSUME IntToFloat(<<255,255,255,1,0,0,0,0>>) = <<0,0,0,76>> /\ IntToDouble(<<255,255,255,1,0,0,0,0>>) = <<0,0,0,240,255,255,127,65>>  \* 33554431
ASSUME IntToFloat(<<0,0,0,0,128,255,255,127>>) = <<255,255,255,94>> /\ IntToDouble(<<0,0,0,0,128,255,255,127>>) = <<0,0,0,224,255,255,223,67>>  \* 9223371487098961920
ASSUME IntToFloat(<<255,255,255,255,127,255,255,127>>) = <<255,255,255,94>> /\ IntToDouble(<<255,255,255,255,127,255,255,127>>) = <<0,0,0,224,255,255,223,67>>  \* 9223371487098961919
ASSUME IntToFloat(<<255,255,255,0,0,0,0,0>>) = <<255,255,127,75>> /\ IntToDouble(<<255,255,255,0,0,0,0,0>>) = <<0,0,0,224,255,255,111,65>>  \* 16777215
ASSUME IntToFloat(<<2,0,0,2,0,0,0,0>>) = <<0,0,0,76>> /\ IntToDouble(<<2,0,0,2,0,0,0,0>>) = <<0,0,0,16,0,0,128,65>>  \* 33554434
ASSUME IntToFloat(<<6,0,0,2,0,0,0,0>>) = <<2,0,0,76>> /\ IntToDouble(<<6,0,0,2,0,0,0,0>>) = <<0,0,0,48,0,0,128,65>>  \* 33554438
ASSUME IntToFloat(<<21,205,91,7,0,0,0,0>>) = <<163,121,235,76>> /\ IntToDouble(<<21,205,91,7,0,0,0,0>>) = <<0,0,0,84,52,111,157,65>>  \* 123456789
ASSUME IntToFloat(<<192,255,255,255,255,255,255,255>>) = <<0,0,128,194>> /\ IntToDouble(<<192,255,255,255,255,255,255,255>>) = <<0,0,0,0,0,0,80,192>>  \* -64
ASSUME IntToFloat(<<64,0,0,0,0,0,0,0>>) = <<0,0,128,66>> /\ IntToDouble(<<64,0,0,0,0,0,0,0>>) = <<0,0,0,0,0,0,80,64>>  \* 64
ASSUME FloatToDouble(<<0,0,0,0>>) = <<0,0,0,0,0,0,0,0>>
ASSUME FloatToDouble(<<0,0,0,128>>) = <<0,0,0,0,0,0,0,128>>
ASSUME FloatToDouble(<<0,0,128,127>>) = <<0,0,0,0,0,0,240,127>>
ASSUME FloatToDouble(<<0,0,128,255>>) = <<0,0,0,0,0,0,240,255>>
ASSUME FloatToDouble(<<1,0,0,0>>) = <<0,0,0,0,0,0,160,54>>
ASSUME FloatToDouble(<<255,255,127,0>>) = <<0,0,0,192,255,255,15,56>>
ASSUME FloatToDouble(<<0,0,128,0>>) = <<0,0,0,0,0,0,16,56>>
ASSUME FloatToDouble(<<0,0,128,63>>) = <<0,0,0,0,0,0,240,63>>
ASSUME FloatToDouble(<<255,255,127,127>>) = <<0,0,0,224,255,255,239,71>>
ASSUME FloatToDouble(<<0,0,247,194>>) = <<0,0,0,0,0,224,94,192>>
ASSUME FloatToDouble(<<3,0,0,0>>) = <<0,0,0,0,0,0,184,54>>
ASSUME FloatToDouble(<<0,1,0,128>>) = <<0,0,0,0,0,0,32,183>>
ASSUME DoubleToFloat(<<0,0,0,0,0,0,0,0>>) = <<0,0,0,0>>  \* 0.0
ASSUME DoubleToFloat(<<0,0,0,0,0,0,0,128>>) = <<0,0,0,128>>  \* -0.0
ASSUME DoubleToFloat(<<0,0,0,0,0,0,240,127>>) = <<0,0,128,127>>  \* inf
ASSUME DoubleToFloat(<<0,0,0,0,0,0,240,255>>) = <<0,0,128,255>>  \* -inf
ASSUME DoubleToFloat(<<1,0,0,0,0,0,0,0>>) = <<0,0,0,0>>  \* 5e-324
ASSUME DoubleToFloat(<<0,0,0,0,0,0,240,63>>) = <<0,0,128,63>>  \* 1.0
ASSUME DoubleToFloat(<<255,255,255,255,255,255,239,127>>) = <<0,0,128,127>>  \* 1.7976931348623157e+308
ASSUME DoubleToFloat(<<0,0,0,224,255,255,239,71>>) = <<255,255,127,127>>  \* 3.4028234663852886e+38
ASSUME DoubleToFloat(<<0,0,0,240,255,255,239,71>>) = <<0,0,128,127>>  \* 3.4028235677973366e+38
ASSUME DoubleToFloat(<<255,255,255,239,255,255,239,71>>) = <<255,255,127,127>>  \* 3.4028235677973362e+38
ASSUME DoubleToFloat(<<0,0,0,0,0,0,160,54>>) = <<1,0,0,0>>  \* 1.401298464324817e-45
ASSUME DoubleToFloat(<<1,0,0,0,0,0,160,54>>) = <<1,0,0,0>>  \* 1.4012984643248174e-45
ASSUME DoubleToFloat(<<255,255,255,255,255,255,159,54>>) = <<1,0,0,0>>  \* 1.4012984643248169e-45
ASSUME DoubleToFloat(<<0,0,0,0,0,0,144,54>>) = <<0,0,0,0>>  \* 7.006492321624085e-46
ASSUME DoubleToFloat(<<255,255,255,255,255,255,15,56>>) = <<0,0,128,0>>  \* 1.1754943508222874e-38
ASSUME DoubleToFloat(<<0,0,0,0,0,0,16,56>>) = <<0,0,128,0>>  \* 1.1754943508222875e-38
ASSUME DoubleToFloat(<<0,0,0,240,255,255,15,56>>) = <<0,0,128,0>>  \* 1.1754943157898259e-38
ASSUME DoubleToFloat(<<0,0,0,16,0,0,240,63>>) = <<0,0,128,63>>  \* 1.0000000596046448
ASSUME DoubleToFloat(<<0,0,0,48,0,0,240,63>>) = <<2,0,128,63>>  \* 1.0000001788139343
ASSUME DoubleToFloat(<<1,0,0,16,0,0,240,63>>) = <<1,0,128,63>>  \* 1.000000059604645
ASSUME DoubleToFloat(<<119,190,159,26,47,221,94,192>>) = <<121,233,246,194>>  \* -123.456
ASSUME DoubleToFloat(<<0,0,0,0,0,0,184,54>>) = <<3,0,0,0>>  \* 4.203895392974451e-45
ASSUME DoubleToFloat(<<1,0,0,0,0,0,240,55>>) = <<0,0,32,0>>  \* 2.9387358770557194e-39
=============================================================================
