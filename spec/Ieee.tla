-------------------------------- MODULE Ieee --------------------------------
(***************************************************************************)
(* IEEE-754 binary32 / binary64 conversions on bit lists, in the style of  *)
(* module Bits (TLC integers are 32-bit, so nothing here does arithmetic   *)
(* on the numbers themselves):                                             *)
(*                                                                         *)
(*   IntToFloat(le8), IntToDouble(le8)   a 64-bit two's-complement integer *)
(*        (8 little-endian bytes) converted with round-to-nearest-even:    *)
(*        the Avro promotions int/long -> float/double                     *)
(*   FloatToDouble(le4)                  exact widening (float -> double)  *)
(*   DoubleToFloat(le8)                  narrowing with round-to-nearest-  *)
(*        even, overflow to infinity, gradual underflow.  NOT an Avro      *)
(*        promotion; used only to describe a named deviation exactly.      *)
(*                                                                         *)
(* Bit tuples have index 1 = least significant bit.                        *)
(***************************************************************************)
EXTENDS Bits

BitAt(m, i) == IF i >= 1 /\ i <= Len(m) THEN m[i] ELSE 0
AnyBelow(m, i) == \E j \in 1..(IF i - 1 <= Len(m) THEN i - 1 ELSE Len(m)) : m[j] = 1     \* any of m[1..i-1] set
TopBit(m) == LET S == {i \in 1..Len(m) : m[i] = 1} IN
             IF S = {} THEN 0 ELSE CHOOSE i \in S : \A j \in S : j <= i

Bits64(le) == TLCEval([i \in 1..64 |-> BitLE(le, i - 1)])
Bits32(le) == TLCEval([i \in 1..32 |-> BitLE(le, i - 1)])

(* two's-complement negation of an n-bit tuple: invert, add one *)
NegBits(b) == TLCEval([i \in 1..Len(b) |->
                 Xor1(1 - b[i], IF \A j \in 1..(i - 1) : b[j] = 0 THEN 1 ELSE 0)])

(* add one to a bit tuple (same length; the overflow carry is reported separately) *)
IncBits(b) == TLCEval([i \in 1..Len(b) |-> Xor1(b[i], IF \A j \in 1..(i - 1) : b[j] = 1 THEN 1 ELSE 0)])
AllOnes(b) == \A i \in 1..Len(b) : b[i] = 1

(* small natural -> n-bit tuple *)
RECURSIVE Pow2N(_)
Pow2N(k) == IF k = 0 THEN 1 ELSE 2 * Pow2N(k - 1)          \* k <= 30
NatBits(x, n) == TLCEval([i \in 1..n |-> (x \div Pow2N(i - 1)) % 2])

(***************************************************************************)
(* Round the magnitude m (highest set bit h >= 1) to a significand of      *)
(* 1 + p bits, ties to even.  Returns the p fraction bits (index 1 = lsb)  *)
(* and whether the rounding carried into the next binade.                  *)
(***************************************************************************)
RoundSig(m, h, p) ==
  LET drop  == h - 1 - p                                  \* low bits that do not fit
      frac  == TLCEval([j \in 1..p |-> BitAt(m, drop + j)])
      guard == BitAt(m, drop)
      stick == drop >= 2 /\ AnyBelow(m, drop)
      up    == guard = 1 /\ (stick \/ frac[1] = 1)
  IN IF ~up THEN [frac |-> frac, carry |-> 0]
     ELSE IF AllOnes(frac) THEN [frac |-> [j \in 1..p |-> 0], carry |-> 1]
     ELSE [frac |-> IncBits(frac), carry |-> 0]

Pack(sign, expField, ebits, frac, nbytes) ==
  BitsToLE(frac \o NatBits(expField, ebits) \o <<sign>>, nbytes)

IntToIeee(le, ebits, p, bias, nbytes) ==
  LET b    == Bits64(le)
      sign == b[64]
      mag  == IF sign = 1 THEN NegBits(b) ELSE b          \* |i64::MIN| = 2^63 fits 64 unsigned bits
      h    == TopBit(mag)
  IN IF h = 0 THEN [i \in 1..nbytes |-> 0]
     ELSE LET r == RoundSig(mag, h, p) IN
          Pack(sign, (h - 1) + r.carry + bias, ebits, r.frac, nbytes)

IntToFloat(le)  == IntToIeee(le, 8, 23, 127, 4)
IntToDouble(le) == IntToIeee(le, 11, 52, 1023, 8)

(***************************************************************************)
(* float -> double: exact.                                                 *)
(***************************************************************************)
FieldVal(b, lo, n) == LET RECURSIVE S(_)
                          S(i) == IF i > n THEN 0 ELSE b[lo + i - 1] * Pow2N(i - 1) + S(i + 1)
                      IN S(1)

IsNaN32(le) == LET b == Bits32(le) IN FieldVal(b, 24, 8) = 255 /\ \E i \in 1..23 : b[i] = 1
IsNaN64(le) == LET b == Bits64(le) IN FieldVal(b, 53, 11) = 2047 /\ \E i \in 1..52 : b[i] = 1

FloatToDouble(le) ==
  LET b == Bits32(le)
      sign == b[32]
      E == FieldVal(b, 24, 8)
      M == TLCEval([i \in 1..23 |-> b[i]])
      wide == TLCEval([i \in 1..52 |-> IF i >= 30 THEN M[i - 29] ELSE 0])      \* M << 29
  IN IF E = 255 THEN Pack(sign, 2047, 11, wide, 8)                            \* inf / NaN (payload kept)
     ELSE IF E = 0
     THEN LET h == TopBit(M) IN
          IF h = 0 THEN Pack(sign, 0, 11, [i \in 1..52 |-> 0], 8)
          ELSE \* subnormal: M * 2^-149 = 1.xxx * 2^(h-1-149)
               Pack(sign, (h - 1) - 149 + 1023, 11,
                    [i \in 1..52 |-> BitAt(M, i - 52 + (h - 1))], 8)
     ELSE Pack(sign, E - 127 + 1023, 11, wide, 8)

(***************************************************************************)
(* double -> float: round to nearest even, overflow -> infinity, gradual   *)
(* underflow.  (What a C-style cast does; not part of Avro resolution.)    *)
(***************************************************************************)
DoubleToFloat(le) ==
  LET b == Bits64(le)
      sign == b[64]
      E == FieldVal(b, 53, 11)
      M == TLCEval([i \in 1..52 |-> b[i]])
      zero23 == [i \in 1..23 |-> 0]
      Inf == Pack(sign, 255, 8, zero23, 4)
  IN IF E = 2047
     THEN IF \A i \in 1..52 : M[i] = 0 THEN Inf
          ELSE Pack(sign, 255, 8, [i \in 1..23 |-> IF i = 23 THEN 1 ELSE M[i + 29]], 4)   \* quiet NaN, top payload bits
     ELSE IF E = 0 THEN Pack(sign, 0, 8, zero23, 4)            \* zero / double subnormal: far below 2^-149
     ELSE LET e == E - 1023
              mag == TLCEval(M \o <<1>>)                       \* 53-bit significand 1.M
          IN IF e >= -126
             THEN LET r == RoundSig(mag, 53, 23)  e2 == e + r.carry IN
                  IF e2 > 127 THEN Inf ELSE Pack(sign, e2 + 127, 8, r.frac, 4)
             ELSE \* subnormal target: q = RNE(mag * 2^(e-52+149)) = RNE(mag >> s), s = -97 - e >= 30
                  LET s == (-97) - e
                      q == TLCEval([j \in 1..24 |-> BitAt(mag, s + j)])
                      guard == BitAt(mag, s)
                      stick == AnyBelow(mag, s)
                      up == guard = 1 /\ (stick \/ q[1] = 1)
                      q2 == IF up THEN IncBits(q) ELSE q           \* q <= 2^23 - 1 + 1: no overflow of 24 bits
                  IN BitsToLE(q2 \o [i \in 1..7 |-> 0] \o <<sign>>, 4)   \* bit 24 set = exponent field 1

(* The independently computed test vectors are ASSUMEd in module IeeeVectors, which every model run extends. *)
=============================================================================
