---------------------------- MODULE Trace_Canon ----------------------------
(***************************************************************************)
(* Judges recorded executions of Schema::canonical_form and                *)
(* Schema::fingerprint (harness `avh_c12 run`) and of the Rabin digest on  *)
(* raw byte strings (`avh_c12 hash`).  One ndjson line = one event.        *)
(*                                                                         *)
(* ev = "canon":  base, t   JSON schema trees; t is base after irrelevant  *)
(*                          edits (t = base when edits = <<>>)             *)
(*                ctree     canonical_form() of parse_str(text of t),      *)
(*                          tokenised keeping key order and duplicates     *)
(*                compact   text = compact rendering of ctree              *)
(*                cbytes    UTF-8 bytes of the canonical text              *)
(*                rabin / md5 / sha256   fingerprint::<D>() bytes          *)
(*                spy       bytes fed to a recording Digest                *)
(*                ref_md5 / ref_sha256   Python hashlib over cbytes        *)
(*                p2        the same measured in a second process          *)
(*                re_*      canonical form of the parsed canonical form    *)
(* ev = "rabin":  bytes, one (single update), split (two updates),         *)
(*                after_reset, oneshot (Digest::digest)                    *)
(***************************************************************************)
EXTENDS SchemaJson, Crc64, Known, Json, IOUtils

Rec == ndJsonDeserialize(IOEnv.TRACE)

VARIABLE l

If(c, name) == IF c THEN {} ELSE {name}

(* deviations of the canonical-form function that are recorded as known findings *)
CanonDevIds == {"C12-extra-keys-kept", "C12-logical-primitive-object", "C12-foreign-structural-key-kept"} \cap KnownIds
DevSets == (SUBSET CanonDevIds) \ {{}}

(* the smallest deviation set under which the deviant function maps input `inp` to `obs` *)
Explaining(inp, obs) == {D \in DevSets : PCFd(inp, NoNs, D) = obs}
Smallest(Ds) == CHOOSE D \in Ds : \A X \in Ds : Cardinality(D) <= Cardinality(X)
KnownTags(Ds, clause) == IF Ds = {} THEN {} ELSE {d \o "|" \o clause : d \in Smallest(Ds)}

JudgeCanon(e) ==
  LET toolfail ==
        If(NoDupKeys(e.base) /\ NoDupKeys(e.t), "TOOL:scenario-has-duplicate-keys")
        \cup If(PCF(e.t) = PCF(e.base), "TOOL:edit-not-irrelevant")
  IN
  IF toolfail # {} THEN [fail |-> toolfail, known |-> {}, drift |-> {}]
  ELSE IF ~e.parse_ok THEN [fail |-> {}, known |-> {}, drift |-> {"schema-not-accepted"}]
  ELSE IF e.panic THEN
       IF "C12-precision-scale-attr-panic" \in KnownIds /\ NonIntExtra(e.t)
       THEN [fail |-> {}, known |-> {"C12-precision-scale-attr-panic|C12:panic"}, drift |-> {}]
       ELSE [fail |-> {"C12:panic"}, known |-> {}, drift |-> {}]
  ELSE
  LET want == PCF(e.base)
      canonOk == e.scan_ok /\ e.ctree = want
      canonDs == IF canonOk \/ ~e.scan_ok THEN {} ELSE Explaining(e.t, e.ctree)
      grey == NullNsNested(e.base)
      idemOk == e.re_ok /\ e.re_cbytes = e.cbytes
      \* an idempotence failure is explained only as the consequence of a known deviation of the FIRST
      \* canonicalisation whose output the (possibly deviant) function then maps to what was observed
      idemDs == IF idemOk \/ grey \/ ~e.re_ok \/ ~e.scan_ok \/ canonDs = {} THEN {}
                ELSE IF \E D \in SUBSET CanonDevIds : PCFd(e.ctree, NoNs, D) = e.re_ctree THEN canonDs ELSE {}
      p == e.p2
      fail ==
        If(e.scan_ok, "C12:canonical-form-not-json")
        \cup If(~e.scan_ok \/ canonOk \/ canonDs # {}, "C12:canonical-form")
        \cup If(~e.scan_ok \/ e.compact, "C12:whitespace-or-escapes")
        \* the text itself, rendered by the specification (independent of the harness' renderer)
        \cup If(~canonOk \/ ~CanonTextOk(want) \/ e.cbytes = TextBytes(want), "C12:canonical-text")
        \cup If(e.again_same, "C12:not-deterministic-in-process")
        \cup If(e.rabin = RabinBytes(e.cbytes), "C12:rabin")
        \cup If(e.spy = e.cbytes, "C12:digest-input")
        \cup If(Len(e.md5) = 16 /\ e.md5 = e.ref_md5, "C12:md5")
        \cup If(Len(e.sha256) = 32 /\ e.sha256 = e.ref_sha256, "C12:sha256")
        \cup If(p.ok /\ ~p.panic /\ p.cbytes = e.cbytes /\ p.rabin = e.rabin /\ p.md5 = e.md5 /\ p.sha256 = e.sha256,
                "C12:differs-between-processes")
        \cup If(grey \/ idemOk \/ idemDs # {}, "C12:not-idempotent")
      known == KnownTags(canonDs, "C12:canonical-form") \cup KnownTags(idemDs, "C12:not-idempotent")
      drift == If(e.spy_calls = 1, "digest-fed-in-several-updates")
               \cup (IF grey THEN {"grey:null-namespace-inside-namespace"} ELSE {})
  IN [fail |-> fail, known |-> known, drift |-> drift]

JudgeRabin(e) ==
  LET want == RabinBytes(e.bytes) IN
  [fail |-> If(~e.panic, "C12:panic")
            \cup If(e.panic \/ e.one = want, "C12:rabin")
            \cup If(e.panic \/ e.oneshot = want, "C12:rabin-oneshot")
            \cup If(e.panic \/ e.split = want, "C12:rabin-split-update")
            \cup If(e.panic \/ e.after_reset = want, "C12:rabin-after-reset"),
   known |-> {}, drift |-> {}]

Judge(e) == CASE e.ev = "canon" -> JudgeCanon(e)
              [] e.ev = "rabin" -> JudgeRabin(e)
              [] OTHER -> [fail |-> {"TOOL:unknown-event"}, known |-> {}, drift |-> {}]

Init == l = 1
Next == /\ l <= Len(Rec)
        /\ LET e == Rec[l]  r == Judge(e) IN
             IF r.fail = {} /\ r.drift = {} /\ r.known = {} THEN TRUE
             ELSE PrintT("VERDICT " \o ToJson([id |-> e.id, fail |-> r.fail, known |-> r.known, drift |-> r.drift]))
        /\ l' = l + 1

Consumed == IF TLCGet("stats").diameter = Len(Rec) + 1 THEN PrintT("CONSUMED " \o ToString(Len(Rec)))
            ELSE PrintT("UNCONSUMED " \o ToString(TLCGet("stats").diameter)) /\ FALSE
=============================================================================
