SPECIFICATION Spec
CONSTANT Tier = "big"
INVARIANT Emit
INVARIANT RoundTrip
INVARIANT StreamDenotes
INVARIANT SnappyTrailer
INVARIANT Cap
INVARIANT OverLimitIsError
CHECK_DEADLOCK FALSE
