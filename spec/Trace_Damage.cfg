SPECIFICATION TraceSpec
POSTCONDITION Consumed
CHECK_DEADLOCK FALSE
