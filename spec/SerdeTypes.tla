----------------------------- MODULE SerdeTypes -----------------------------
(***************************************************************************)
(* Rust types as seen by serde (a small type AST), the Avro schema the     *)
(* documented mapping assigns to each (SchemaOf), and boundary values of   *)
(* each type as serde terms (TermsOf).  Used to enumerate the universe of  *)
(* MC_SerdeModel (C16) and as the target language of DeriveModel (C17).    *)
(*                                                                         *)
(*  [y|->scalar]  scalar in ScalarCalls or "unit"                          *)
(*  [y|->"fixedbytes", name, size]      bytes written against a fixed      *)
(*  [y|->"option", of, nullfirst]       ["null", T] or [T, "null"]         *)
(*  [y|->"seq", of]  [y|->"map", of]                                       *)
(*  [y|->"unit_struct", name]  [y|->"newtype_struct", name, of]            *)
(*  [y|->"tuple", name, elems]          record `name` carrying the tuple   *)
(*                                      attribute when Len(elems) >= 2     *)
(*  [y|->"tuple_struct", name, elems]                                      *)
(*  [y|->"struct", name, asmap, flds|-><<[fname, fty, dflt, alias, ser]>>] *)
(*        dflt = "" or a key of DefMenu; alias = "" or an alias name;      *)
(*        ser = "yes" | "no" (never serialized) | "ifsome" (skipped when   *)
(*        None); asmap: the struct is written through serialize_map        *)
(*        (serde's flatten)                                                *)
(*  [y|->"enum", name, repr|->"enum"|"uor"|"bare", vars|-><<[vname, vk,..]>>]*)
(*        vk = "unit" | "newtype" (of) | "tuple" (elems) | "struct" (flds) *)
(* Names are unqualified; `ns` (possibly "") gives the namespace.          *)
(***************************************************************************)
EXTENDS SerdeModel, Universe

TS(y) == [y |-> y]
TFixedBytes(n, z) == [y |-> "fixedbytes", name |-> n, ns |-> "", size |-> z]
TOpt(t) == [y |-> "option", of |-> t, nullfirst |-> TRUE]
TOptLast(t) == [y |-> "option", of |-> t, nullfirst |-> FALSE]
TSeq(t) == [y |-> "seq", of |-> t]
TMap(t) == [y |-> "map", of |-> t]
TUnitStruct(n) == [y |-> "unit_struct", name |-> n, ns |-> ""]
TNewtype(n, t) == [y |-> "newtype_struct", name |-> n, ns |-> "", of |-> t]
TTuple(n, ts) == [y |-> "tuple", name |-> n, ns |-> "", elems |-> ts]
TTupleStruct(n, ts) == [y |-> "tuple_struct", name |-> n, ns |-> "", elems |-> ts]
F(n, t) == [fname |-> n, fty |-> t, dflt |-> "", alias |-> "", ser |-> "yes"]
FD(n, t, d) == [fname |-> n, fty |-> t, dflt |-> d, alias |-> "", ser |-> "yes"]
FA(n, t, a) == [fname |-> n, fty |-> t, dflt |-> "", alias |-> a, ser |-> "yes"]
FIfSome(n, t, d) == [fname |-> n, fty |-> t, dflt |-> d, alias |-> "", ser |-> "ifsome"]  \* skip_serializing_if = "Option::is_none"
FNever(n, t, d) == [fname |-> n, fty |-> t, dflt |-> d, alias |-> "", ser |-> "no"]       \* #[serde(skip_serializing)]
TStruct(n, fs) == [y |-> "struct", name |-> n, ns |-> "", flds |-> fs, asmap |-> FALSE]
TStructNs(ns, n, fs) == [y |-> "struct", name |-> n, ns |-> ns, flds |-> fs, asmap |-> FALSE]
TStructMap(n, fs) == [y |-> "struct", name |-> n, ns |-> "", flds |-> fs, asmap |-> TRUE]   \* #[serde(flatten)] inside
VUnit(n) == [vname |-> n, vk |-> "unit"]
VNewtype(n, t) == [vname |-> n, vk |-> "newtype", of |-> t]
VTuple(n, ts) == [vname |-> n, vk |-> "tuple", elems |-> ts]
VStruct(n, fs) == [vname |-> n, vk |-> "struct", flds |-> fs]
TEnum(n, repr, vs) == [y |-> "enum", name |-> n, ns |-> "", repr |-> repr, vars |-> vs]

FullName(ty) == IF ty.ns = "" THEN ty.name ELSE ty.ns \o "." \o ty.name

(***************************************************************************)
(* Field defaults: a fixed menu of (JSON default, the Avro value it        *)
(* denotes under the field's schema).  JSON that TLA+ cannot spell is      *)
(* carried as a marker string the harness expands when it renders the      *)
(* schema: "@null" = null, "@f:1.5" = the number 1.5, "@b:ff01" = the      *)
(* string of code points U+00FF U+0001 (a bytes default: code point =      *)
(* byte), "@obj" = {}.                                                     *)
(***************************************************************************)
DefMenu ==
  [ i42   |-> [json |-> 42,       v |-> [t |-> "int", n |-> NatToLE8(42)]],
    lm7   |-> [json |-> -7,       v |-> [t |-> "long", n |-> NegNatToLE8(7)]],
    sdflt |-> [json |-> "dflt",   v |-> [t |-> "string", b |-> <<100, 102, 108, 116>>]],
    btrue |-> [json |-> TRUE,     v |-> [t |-> "boolean", bool |-> TRUE]],
    d15   |-> [json |-> "@f:1.5", v |-> [t |-> "double", bits |-> <<0, 0, 0, 0, 0, 0, 248, 63>>]],
    f025  |-> [json |-> "@f:0.25", v |-> [t |-> "float", bits |-> <<0, 0, 128, 62>>]],
    bab   |-> [json |-> "ab",     v |-> [t |-> "bytes", b |-> <<97, 98>>]],
    bhigh |-> [json |-> "@b:ff01", v |-> [t |-> "bytes", b |-> <<255, 1>>]],
    onull |-> [json |-> "@null",  v |-> [t |-> "union", i |-> 0, v |-> [t |-> "null"]]],
    o5    |-> [json |-> 5,        v |-> [t |-> "union", i |-> 0, v |-> [t |-> "int", n |-> NatToLE8(5)]]],
    symB  |-> [json |-> "B",      v |-> [t |-> "enum", i |-> 1, sym |-> "B"]],
    a12   |-> [json |-> <<1, 2>>, v |-> [t |-> "array", items |-> <<[t |-> "int", n |-> NatToLE8(1)],
                                                                   [t |-> "int", n |-> NatToLE8(2)]>>]],
    aempty |-> [json |-> <<>>,    v |-> [t |-> "array", items |-> <<>>]],
    mempty |-> [json |-> "@obj", v |-> [t |-> "map", entries |-> <<>>]],
    rx5   |-> [json |-> [x |-> 5], v |-> [t |-> "record", fields |-> << <<"x", [t |-> "int", n |-> NatToLE8(5)]>> >>]] ]

(***************************************************************************)
(* SchemaOf: the documented serde -> Avro mapping on types.                *)
(***************************************************************************)
Named(k, ty, rest) == [k |-> k, name |-> FullName(ty), short |-> ty.name] @@ rest
RecNamed(full, short, fs) == [k |-> "record", name |-> full, short |-> short, fields |-> fs]

RECURSIVE SchemaOf(_)

FieldsOf(fs) ==
  [i \in 1..Len(fs) |->
     LET base == [name |-> fs[i].fname, type |-> SchemaOf(fs[i].fty)]
         a == IF fs[i].alias = "" THEN base ELSE base @@ [aliases |-> <<fs[i].alias>>]
     IN IF fs[i].dflt = "" THEN a
        ELSE a @@ [hasdef |-> TRUE, defjson |-> DefMenu[fs[i].dflt].json, def |-> DefMenu[fs[i].dflt].v]]

PosFields(ts) == [i \in 1..Len(ts) |-> [name |-> "field_" \o ToString(i - 1), type |-> SchemaOf(ts[i])]]

VariantSchema(v, repr) ==
  CASE v.vk = "unit" -> IF repr = "bare" THEN [k |-> "null"] ELSE RecNamed(v.vname, v.vname, <<>>)
    [] v.vk = "newtype" -> IF repr = "bare" THEN SchemaOf(v.of)
                           ELSE RecNamed(v.vname, v.vname, PosFields(<<v.of>>)) @@ [uor |-> TRUE]
    [] v.vk = "tuple" -> RecNamed(v.vname, v.vname, PosFields(v.elems))
    [] v.vk = "struct" -> RecNamed(v.vname, v.vname, FieldsOf(v.flds))

SchemaOf(ty) ==
  CASE ty.y \in {"bool"} -> [k |-> "boolean"]
    [] ty.y \in IntCalls -> [k |-> "int"]
    [] ty.y \in LongCalls -> [k |-> "long"]
    [] ty.y \in BigCalls -> [k |-> "fixed", name |-> BigName(ty.y), short |-> ty.y, size |-> BigSize(ty.y)]
    [] ty.y = "f32" -> [k |-> "float"]
    [] ty.y = "f64" -> [k |-> "double"]
    [] ty.y \in {"char", "str"} -> [k |-> "string"]
    [] ty.y = "bytes" -> [k |-> "bytes"]
    [] ty.y = "unit" -> [k |-> "null"]
    [] ty.y = "fixedbytes" -> Named("fixed", ty, [size |-> ty.size])
    [] ty.y = "option" -> [k |-> "union", branches |-> IF ty.nullfirst THEN <<[k |-> "null"], SchemaOf(ty.of)>>
                                                      ELSE <<SchemaOf(ty.of), [k |-> "null"]>>]
    [] ty.y = "seq" -> [k |-> "array", items |-> SchemaOf(ty.of)]
    [] ty.y = "map" -> [k |-> "map", values |-> SchemaOf(ty.of)]
    [] ty.y = "unit_struct" -> RecNamed(FullName(ty), ty.name, <<>>)
    [] ty.y = "newtype_struct" -> RecNamed(FullName(ty), ty.name, PosFields(<<ty.of>>))
    [] ty.y = "tuple" ->
         IF Len(ty.elems) = 0 THEN [k |-> "null"]
         ELSE IF Len(ty.elems) = 1 THEN SchemaOf(ty.elems[1])
         ELSE RecNamed(FullName(ty), ty.name, PosFields(ty.elems)) @@ [tuple |-> TRUE]
    [] ty.y = "tuple_struct" -> RecNamed(FullName(ty), ty.name, PosFields(ty.elems))
    [] ty.y = "struct" -> RecNamed(FullName(ty), ty.name, FieldsOf(ty.flds))
    [] ty.y = "enum" ->
         IF ty.repr = "enum"
         THEN Named("enum", ty, [symbols |-> [i \in 1..Len(ty.vars) |-> ty.vars[i].vname]])
         ELSE [k |-> "union", branches |-> [i \in 1..Len(ty.vars) |-> VariantSchema(ty.vars[i], ty.repr)]]

(***************************************************************************)
(* Boundary values.                                                        *)
(***************************************************************************)
I8s  == {NatToLE8(0), NatToLE8(127), NegNatToLE8(1), NegNatToLE8(128)}
I16s == {NatToLE8(255), NatToLE8(32767), NegNatToLE8(32768), NegNatToLE8(129)}
I32s == {NatToLE8(0), NatToLE8(64), NegNatToLE8(65), I32Max, I32Min}
I64s == {NatToLE8(1), I32Max, I64Max, I64Min, NegPow2M1LE8(34)}
U8s  == {NatToLE8(0), NatToLE8(128), NatToLE8(255)}
U16s == {NatToLE8(256), NatToLE8(65535)}
U32Max == <<255, 255, 255, 255, 0, 0, 0, 0>>
U32s == {NatToLE8(0), I32Max, Pow2LE8(31), U32Max}
B8s  == {<<0,0,0,0,0,0,0,0>>, <<255,255,255,255,255,255,255,255>>, <<1,2,3,4,5,6,7,128>>}
B16s == {[i \in 1..16 |-> 0], [i \in 1..16 |-> 255], [i \in 1..16 |-> IF i = 16 THEN 128 ELSE i]}
Chars == {<<97>>, <<195, 169>>, <<226, 130, 172>>, <<240, 159, 152, 128>>, <<0>>}

Pick2(S) == IF Cardinality(S) <= 2 THEN S
            ELSE LET a == CHOOSE x \in S : TRUE  b == CHOOSE x \in S \ {a} : TRUE IN {a, b}
Sized(S, full) == IF full THEN S ELSE Pick2(S)

ScalarTerms(y, full) ==
  CASE y = "bool" -> {[c |-> "bool", bool |-> TRUE], [c |-> "bool", bool |-> FALSE]}
    [] y = "i8" -> {[c |-> y, n |-> x] : x \in Sized(I8s, full)}
    [] y = "i16" -> {[c |-> y, n |-> x] : x \in Sized(I16s, full)}
    [] y = "i32" -> {[c |-> y, n |-> x] : x \in Sized(I32s, full)}
    [] y = "i64" -> {[c |-> y, n |-> x] : x \in Sized(I64s, full)}
    [] y = "u8" -> {[c |-> y, n |-> x] : x \in Sized(U8s, full)}
    [] y = "u16" -> {[c |-> y, n |-> x] : x \in Sized(U16s, full)}
    [] y = "u32" -> {[c |-> y, n |-> x] : x \in IF full THEN U32s ELSE {I32Max, U32Max}}
    [] y = "u64" -> {[c |-> y, b |-> x] : x \in Sized(B8s, full)}
    [] y \in {"i128", "u128"} -> {[c |-> y, b |-> x] : x \in Sized(B16s, full)}
    [] y = "f32" -> {[c |-> y, bits |-> x] : x \in Sized(FloatFull, full)}
    [] y = "f64" -> {[c |-> y, bits |-> x] : x \in Sized(DoubleFull, full)}
    [] y = "char" -> {[c |-> y, b |-> x] : x \in Sized(Chars, full)}
    [] y = "str" -> {[c |-> y, b |-> x] : x \in IF full THEN StrFull ELSE {<<>>, <<226, 130, 172>>}}
    [] y = "bytes" -> {[c |-> y, b |-> x] : x \in IF full THEN BytesFull ELSE {<<>>, <<128, 0, 255, 127>>}}
    [] y = "unit" -> {[c |-> "unit"]}

RECURSIVE TermsOf(_, _)

(* all in-order call sequences for a field list: every field serialized (values thinned);
   beyond three fields only the two "diagonals" (first choice everywhere / second choice everywhere) *)
First(S) == CHOOSE x \in S : TRUE
Second(S) == IF Cardinality(S) = 1 THEN First(S) ELSE CHOOSE x \in S \ {First(S)} : TRUE
FieldTuples(fs) ==
  IF Len(fs) = 0 THEN {<<>>}
  ELSE IF Len(fs) = 1 THEN {<< <<fs[1].fname, x>> >> : x \in TermsOf(fs[1].fty, FALSE)}
  ELSE IF Len(fs) = 2
  THEN {<< <<fs[1].fname, x>>, <<fs[2].fname, y>> >> :
           x \in Pick2(TermsOf(fs[1].fty, FALSE)), y \in Pick2(TermsOf(fs[2].fty, FALSE))}
  ELSE IF Len(fs) = 3
  THEN {<< <<fs[1].fname, x>>, <<fs[2].fname, y>>, <<fs[3].fname, z>> >> :
           x \in Pick2(TermsOf(fs[1].fty, FALSE)), y \in Pick2(TermsOf(fs[2].fty, FALSE)),
           z \in Pick2(TermsOf(fs[3].fty, FALSE))}
  ELSE {[i \in 1..Len(fs) |-> <<fs[i].fname, First(TermsOf(fs[i].fty, FALSE))>>],
        [i \in 1..Len(fs) |-> <<fs[i].fname, Second(TermsOf(fs[i].fty, FALSE))>>]}

ElemTuples(ts) ==
  IF Len(ts) = 0 THEN {<<>>}
  ELSE IF Len(ts) = 1 THEN {<<x>> : x \in TermsOf(ts[1], FALSE)}
  ELSE IF Len(ts) = 2 THEN {<<x, y>> : x \in Pick2(TermsOf(ts[1], FALSE)), y \in Pick2(TermsOf(ts[2], FALSE))}
  ELSE {[i \in 1..Len(ts) |-> First(TermsOf(ts[i], FALSE))], [i \in 1..Len(ts) |-> Second(TermsOf(ts[i], FALSE))]}

(* variants of a call sequence: defaulted fields replaced by skip_field, or left out altogether;
   fields that are never serialized are always left out *)
SkipVariants(fs, calls00) ==
  LET calls0 == [i \in 1..Len(fs) |-> IF fs[i].ser = "ifsome" /\ calls00[i][2].c = "none"
                                       THEN <<fs[i].fname, [c |-> "skip"]>> ELSE calls00[i]]
      Ser(e) == \A i \in 1..Len(fs) : fs[i].fname = e[1] => fs[i].ser # "no"
      calls == SelectSeq(calls0, Ser)
      D == {i \in 1..Len(fs) : fs[i].dflt # "" /\ fs[i].ser # "no"} IN
  IF D = {} THEN {calls}
  ELSE {calls,
        SelectSeq([i \in 1..Len(fs) |-> IF i \in D THEN <<fs[i].fname, [c |-> "skip"]>> ELSE calls0[i]], Ser),
        SelectSeq(calls, LAMBDA e : \A i \in D : fs[i].fname # e[1])}

NonSkip(calls) == Len(SelectSeq(calls, LAMBDA e : e[2].c # "skip"))

VariantTerms(ty, i) ==
  LET v == ty.vars[i]
      hd == [name |-> ty.name, idx |-> IF "ridx" \in DOMAIN v THEN v.ridx ELSE i - 1, variant |-> v.vname] IN
  CASE v.vk = "unit" -> {[c |-> "unit_variant"] @@ hd}
    [] v.vk = "newtype" -> {[c |-> "newtype_variant", v |-> x] @@ hd : x \in TermsOf(v.of, FALSE)}
    [] v.vk = "tuple" -> {[c |-> "tuple_variant", items |-> q] @@ hd : q \in ElemTuples(v.elems)}
    [] v.vk = "struct" ->
         UNION {{[c |-> "struct_variant", len |-> NonSkip(q), fields |-> q] @@ hd : q \in SkipVariants(v.flds, q0)}
                : q0 \in FieldTuples(v.flds)}

TermsOf(ty, full) ==
  CASE ty.y \in ScalarCalls \cup {"unit"} -> ScalarTerms(ty.y, full)
    [] ty.y = "fixedbytes" -> {[c |-> "bytes", b |-> [i \in 1..ty.size |-> 255]],
                               [c |-> "bytes", b |-> [i \in 1..ty.size |-> i]]}
    [] ty.y = "option" -> {[c |-> "none"]} \cup {[c |-> "some", v |-> x] : x \in TermsOf(ty.of, FALSE)}
    [] ty.y = "seq" ->
         LET iv == Pick2(TermsOf(ty.of, FALSE)) IN
         {[c |-> "seq", hint |-> TRUE, items |-> q] : q \in SeqsUpTo(iv, 2)}
         \cup (IF full THEN {[c |-> "seq", hint |-> TRUE, items |-> [i \in 1..3 |-> CHOOSE x \in iv : TRUE]]} ELSE {})
    [] ty.y = "map" ->
         LET iv == Pick2(TermsOf(ty.of, FALSE)) IN
         {[c |-> "map", hint |-> TRUE, entries |-> <<>>]}
         \cup {[c |-> "map", hint |-> TRUE, entries |-> << <<K1, x>> >>] : x \in iv}
         \cup {[c |-> "map", hint |-> TRUE, entries |-> << <<K2, x>>, <<K1, y>> >>] : x \in iv, y \in iv}
    [] ty.y = "unit_struct" -> {[c |-> "unit_struct", name |-> ty.name]}
    [] ty.y = "newtype_struct" -> {[c |-> "newtype_struct", name |-> ty.name, v |-> x] : x \in TermsOf(ty.of, full)}
    [] ty.y = "tuple" -> {[c |-> "tuple", items |-> q] : q \in ElemTuples(ty.elems)}
    [] ty.y = "tuple_struct" -> {[c |-> "tuple_struct", name |-> ty.name, items |-> q] : q \in ElemTuples(ty.elems)}
    [] ty.y = "struct" ->
         IF ty.asmap
         THEN {[c |-> "structmap", hint |-> FALSE, fields |-> q] : q \in FieldTuples(ty.flds)}
         ELSE UNION {{[c |-> "struct", name |-> ty.name, len |-> NonSkip(q), fields |-> q] : q \in SkipVariants(ty.flds, q0)}
                     : q0 \in FieldTuples(ty.flds)}
    [] ty.y = "enum" -> UNION {VariantTerms(ty, i) : i \in 1..Len(ty.vars)}
    [] ty.y = "rec" -> {}        \* a recursive occurrence below the unrolling depth: no values

(***************************************************************************)
(* The universe of types explored for C16.                                 *)
(***************************************************************************)
Scalars == {TS(y) : y \in ScalarCalls \cup {"unit"}}
CoreScalars == {TS("bool"), TS("i32"), TS("i64"), TS("u32"), TS("f64"), TS("str"), TS("bytes"), TS("u64"), TS("char")}

E3 == TEnum("E3", "enum", <<VUnit("A"), VUnit("B"), VUnit("C")>>)
Inner == TStruct("Inner", <<F("x", TS("i32"))>>)
UorE == TEnum("UorE", "uor", <<VUnit("U0"), VNewtype("N1", TS("i32")), VTuple("T2", <<TS("i32"), TS("str")>>),
                               VStruct("S3", <<F("a", TS("i64")), F("b", TOpt(TS("str")))>>)>>)
BareE == TEnum("BareE", "bare", <<VUnit("U0"), VNewtype("N1", TS("i32")), VNewtype("N2", TS("str")),
                                  VTuple("T3", <<TS("i8"), TS("f64")>>),
                                  VStruct("S4", <<F("a", TS("bool"))>>)>>)
BareSeq == TEnum("BareSeq", "bare", <<VNewtype("N0", TSeq(TS("i32"))), VUnit("U1"), VNewtype("N2", TMap(TS("str")))>>)

Composite ==
     {TOpt(t) : t \in CoreScalars} \cup {TOptLast(t) : t \in {TS("i32"), TS("str"), TSeq(TS("i64"))}}
  \cup {TSeq(t) : t \in Scalars} \cup {TMap(t) : t \in CoreScalars}
  \cup {TSeq(TOpt(TS("i32"))), TSeq(TSeq(TS("i32"))), TSeq(TMap(TS("str"))), TMap(TSeq(TS("i64"))),
        TOpt(TSeq(TS("str"))), TOpt(TMap(TS("i32"))), TSeq(Inner), TMap(Inner), TOpt(Inner), TSeq(E3), TOpt(E3),
        TSeq(UorE), TMap(BareE)}
  \cup {TUnitStruct("Unit0"), TNewtype("Nt", TS("i32")), TNewtype("Nt", TS("str")), TNewtype("Nt", TSeq(TS("u8"))),
        TNewtype("Nt", TOpt(TS("i64"))), TNewtype("Nt", Inner)}
  \cup {TTuple("Tup", <<>>), TTuple("Tup", <<TS("i32")>>), TTuple("Tup", <<TS("i32"), TS("str")>>),
        TTuple("Tup", <<TS("i8"), TS("f64"), TS("bytes")>>), TTuple("Tup", <<TSeq(TS("i32")), TOpt(TS("str"))>>),
        TTuple("Tup", <<TOpt(TS("i32"))>>), TTuple("Tup", <<Inner, TS("u16")>>)}
  \cup {TTupleStruct("Ts", <<>>), TTupleStruct("Ts", <<TS("i64")>>), TTupleStruct("Ts", <<TS("u16"), TS("char")>>),
        TTupleStruct("Ts", <<TS("str"), TOpt(TS("i32")), TSeq(TS("bool"))>>)}
  \cup {TStruct("R", <<>>)} \cup {TStruct("R", <<F("a", t)>>) : t \in Scalars}
  \cup {TStruct("R", <<F("a", t), F("b", u)>>) : t \in {TS("i32"), TS("str"), TS("u64")}, u \in {TS("i64"), TS("bytes"), TS("f32")}}
  \cup {TStructNs("ns.sub", "R", <<F("a", TS("i16")), F("b", TS("str")), F("c", TOpt(TS("f64")))>>),
        TStruct("R", <<F("a", TSeq(TS("i32"))), F("m", TMap(TS("str")))>>),
        TStruct("R", <<F("i", Inner), F("o", TOpt(TS("i32")))>>),
        TStruct("R", <<F("e", E3), F("n", TNewtype("Nt", TS("u8")))>>),
        TStruct("R", <<F("t", TTuple("Tup", <<TS("i32"), TS("i64")>>)), F("u", TS("unit"))>>),
        TStruct("R", <<FA("a", TS("i32"), "old_a"), F("b", TS("str"))>>),
        TStruct("R", <<F("f", TFixedBytes("Fx4", 4)), F("g", TS("i128"))>>)}
  \* defaults (skipped / omitted fields take them)
  \cup {TStruct("R", <<FD("a", TS("i32"), "i42"), F("b", TS("str"))>>),
        TStruct("R", <<F("a", TS("i64")), FD("b", TS("str"), "sdflt")>>),
        TStruct("R", <<FD("a", TS("i64"), "lm7"), FD("b", TS("bool"), "btrue"), F("c", TS("u8"))>>),
        TStruct("R", <<FD("a", TS("f64"), "d15"), FD("b", TS("f32"), "f025")>>),
        TStruct("R", <<FD("a", TS("bytes"), "bab"), F("z", TS("i32"))>>),
        TStruct("R", <<FD("a", TOpt(TS("i32")), "onull"), FD("b", TOptLast(TS("i32")), "o5")>>),
        TStruct("R", <<FD("a", E3, "symB"), FD("b", TSeq(TS("i32")), "a12")>>),
        TStruct("R", <<FD("a", TSeq(TS("str")), "aempty"), FD("b", TMap(TS("i32")), "mempty"), FD("c", Inner, "rx5")>>)}
  \cup {E3, UorE, BareE, BareSeq, TFixedBytes("Fx2", 2), TFixedBytes("Fx0", 0)}

(***************************************************************************)
(* The corpus of real Rust types of the harness (harness/src/c16.rs): the  *)
(* key is the registry name there, the value the type as the model sees    *)
(* it.  The harness builds values of the real type from TermsOf, so that   *)
(* serde's own derive is checked against the representation assumed here.  *)
(***************************************************************************)
CInner == TStruct("Inner", <<F("x", TS("i32"))>>)
CInner2 == TStruct("Inner2", <<F("y", TS("str"))>>)
CInner3 == TStruct("Inner3", <<F("z", TS("bool"))>>)
CE3 == TEnum("E3", "enum", <<VUnit("A"), VUnit("B"), VUnit("C")>>)
CVars == <<VUnit("U0"), VNewtype("N1", TS("i32")), VTuple("T2", <<TS("i32"), TS("str")>>),
           VStruct("S3", <<F("a", TS("i64")), F("b", TOpt(TS("str")))>>)>>
Corpus ==
  [ Ints   |-> TStruct("Ints", <<F("a", TS("i8")), F("b", TS("i16")), F("c", TS("i32")), F("d", TS("i64"))>>),
    Uints  |-> TStruct("Uints", <<F("a", TS("u8")), F("b", TS("u16")), F("c", TS("u32"))>>),
    Bigs   |-> TStruct("Bigs", <<F("a", TS("u64")), F("b", TS("i128")), F("c", TS("u128"))>>),
    Floats |-> TStruct("Floats", <<F("a", TS("f32")), F("b", TS("f64"))>>),
    Texts  |-> TStruct("Texts", <<F("a", TS("char")), F("b", TS("str")), F("c", TS("bool"))>>),
    BytesS |-> TStruct("BytesS", <<F("a", TS("bytes")), F("z", TS("i32"))>>),
    Opts   |-> TStruct("Opts", <<F("a", TOpt(TS("i32"))), F("b", TOpt(TS("str")))>>),
    OptLast |-> TStruct("OptLast", <<F("a", TOptLast(TS("i32")))>>),
    UnitS  |-> TUnitStruct("UnitS"),
    Nt     |-> TNewtype("Nt", TS("i32")),
    NtStr  |-> TNewtype("NtStr", TS("str")),
    Ts2    |-> TTupleStruct("Ts2", <<TS("u16"), TS("char")>>),
    Ts0    |-> TTupleStruct("Ts0", <<>>),
    Seqs   |-> TStruct("Seqs", <<F("a", TSeq(TS("i32"))), F("b", TSeq(TS("str")))>>),
    Nest   |-> TStruct("Nest", <<F("i", CInner), F("v", TSeq(CInner2)), F("o", TOpt(CInner3))>>),
    Maps   |-> TStruct("Maps", <<F("a", TMap(TS("i32"))), F("b", TMap(TS("str")))>>),
    Tup    |-> TStruct("Tup", <<F("t", TTuple("Tup2", <<TS("i32"), TS("str")>>)), F("u", TS("unit"))>>),
    Arr    |-> TStruct("Arr", <<F("a", TTuple("Arr3", <<TS("u8"), TS("u8"), TS("u8")>>))>>),
    E3     |-> CE3,
    WithEnum |-> TStruct("WithEnum", <<F("e", CE3), F("n", TS("i32"))>>),
    UorE   |-> TEnum("UorE", "uor", CVars),
    BareE  |-> TEnum("BareE", "bare", CVars),
    SkipIf |-> TStruct("SkipIf", <<F("a", TS("i32")), FIfSome("b", TOpt(TS("i32")), "onull"), F("c", TS("str"))>>),
    SkipSer |-> TStruct("SkipSer", <<FNever("a", TS("i32"), "i42"), F("b", TS("str"))>>),
    SkipBoth |-> TStruct("SkipBoth", <<F("b", TS("i64"))>>),
    Renamed |-> TStruct("Renamed", <<F("x", TS("i32")), F("type", TS("str"))>>),
    Aliased |-> TStruct("Aliased", <<FA("a", TS("i32"), "old_a"), F("b", TS("str"))>>),
    Flat   |-> TStructMap("Flat", <<F("a", TS("i32")), F("b", TS("str")), F("c", TS("i64"))>>),
    SvE    |-> TEnum("SvE", "uor", <<VStruct("S", <<F("a", TS("i32")), FIfSome("b", TOpt(TS("i32")), "onull")>>), VUnit("U")>>),
    Deep   |-> TStruct("Deep", <<F("v", TSeq(TSeq(TOpt(TS("i64"))))), F("m", TMap(TSeq(TS("str"))))>>),
    VecI32 |-> TSeq(TS("i32")),
    OptString |-> TOpt(TS("str")),
    MapI64 |-> TMap(TS("i64")),
    PairIS |-> TTuple("PairIS", <<TS("i32"), TS("str")>>),
    I64    |-> TS("i64"),
    StringT |-> TS("str"),
    UnitT  |-> TS("unit"),
    VecE3  |-> TSeq(CE3),
    ArrI16 |-> TTuple("ArrI16", <<TS("i16"), TS("i16")>>),
    OptInner |-> TOpt(CInner) ]

(* the Aliased corpus type spells its field by the alias when writing: terms use the alias *)
UseAlias(sv, from, to) ==
  [sv EXCEPT !.fields = [i \in 1..Len(sv.fields) |-> IF sv.fields[i][1] = from THEN <<to, sv.fields[i][2]>> ELSE sv.fields[i]]]
CorpusTerms(name, full) ==
  IF name = "Aliased" THEN {UseAlias(x, "a", "old_a") : x \in TermsOf(Corpus[name], full)}
  ELSE TermsOf(Corpus[name], full)

(* a bytes default above 0x7F: code point = byte (Avro specification, "Complex Types / Records") *)
HighBytesDefault == TStruct("R", <<FD("a", TS("bytes"), "bhigh"), F("z", TS("i32"))>>)

(***************************************************************************)
(* Hand-written (term, schema) pairs the type grammar does not produce:    *)
(* scalars placed in a general union by base kind, logical types carried   *)
(* by their base, bytes choosing between bytes and fixed by position.      *)
(***************************************************************************)
Un(bs) == [k |-> "union", branches |-> bs]
FxS(n, z) == [k |-> "fixed", name |-> n, short |-> n, size |-> z]
Extra ==
  LET u1 == Un(<<[k |-> "null"], [k |-> "int"], [k |-> "string"], [k |-> "double"]>>)
      u2 == Un(<<[k |-> "string"], [k |-> "date"], [k |-> "timestamp-millis"], [k |-> "boolean"]>>)
      u3 == Un(<<FxS("F2", 2), [k |-> "bytes"], FxS("F3", 3)>>)
      u4 == Un(<<[k |-> "bytes"], FxS("F2", 2)>>)
      u5 == Un(<<[k |-> "array", items |-> [k |-> "int"]], [k |-> "map", values |-> [k |-> "long"]],
                 RecNamed("P", "P", <<[name |-> "x", type |-> [k |-> "int"]]>>), [k |-> "null"],
                 [k |-> "enum", name |-> "E3", short |-> "E3", symbols |-> <<"A", "B", "C">>],
                 RecNamed("Unit0", "Unit0", <<>>),
                 FxS("org.apache.avro.rust.u64", 8)>>)
      Iv(n) == [c |-> "i32", n |-> NatToLE8(n)]
  IN
  { <<[c |-> "unit"], u1>>, <<Iv(7), u1>>, <<[c |-> "u8", n |-> NatToLE8(200)], u1>>,
    <<[c |-> "str", b |-> <<104, 105>>], u1>>, <<[c |-> "char", b |-> <<195, 169>>], u1>>,
    <<[c |-> "f64", bits |-> <<0, 0, 0, 0, 0, 0, 240, 63>>], u1>>,
    <<Iv(19000), u2>>, <<[c |-> "i64", n |-> I64Max], u2>>, <<[c |-> "u32", n |-> U32Max], u2>>,
    <<[c |-> "bool", bool |-> TRUE], u2>>, <<[c |-> "str", b |-> <<>>], u2>>,
    <<Iv(19000), [k |-> "date"]>>, <<[c |-> "i16", n |-> NegNatToLE8(5)], [k |-> "time-millis"]>>,
    <<[c |-> "i64", n |-> I64Min], [k |-> "timestamp-micros"]>>,
    <<[c |-> "bytes", b |-> <<1, 2>>], u3>>, <<[c |-> "bytes", b |-> <<1, 2, 3>>], u3>>,
    <<[c |-> "bytes", b |-> <<1>>], u3>>, <<[c |-> "bytes", b |-> <<1, 2>>], u4>>, <<[c |-> "bytes", b |-> <<>>], u4>>,
    <<[c |-> "seq", hint |-> TRUE, items |-> <<Iv(1), Iv(2)>>], u5>>,
    <<[c |-> "map", hint |-> TRUE, entries |-> << <<K1, [c |-> "i64", n |-> NatToLE8(9)]>> >>], u5>>,
    <<[c |-> "struct", name |-> "P", len |-> 1, fields |-> << <<"x", Iv(3)>> >>], u5>>,
    <<[c |-> "newtype_struct", name |-> "P", v |-> Iv(3)], u5>>,
    <<[c |-> "unit"], u5>>, <<[c |-> "tuple", items |-> <<>>], u5>>, <<[c |-> "tuple", items |-> <<Iv(4)>>], u1>>,
    <<[c |-> "unit_struct", name |-> "Unit0"], u5>>,
    <<[c |-> "u64", b |-> <<1, 2, 3, 4, 5, 6, 7, 8>>], u5>>,
    \* seq / map whose length is not known up front (serialize_seq(None)): always buffered
    <<[c |-> "seq", hint |-> FALSE, items |-> <<Iv(1), Iv(2), Iv(3)>>], [k |-> "array", items |-> [k |-> "int"]]>>,
    <<[c |-> "map", hint |-> FALSE, entries |-> << <<K1, Iv(1)>>, <<K2, Iv(2)>> >>], [k |-> "map", values |-> [k |-> "int"]]>>,
    \* a struct written map-style (what #[serde(flatten)] generates), in and out of order
    <<[c |-> "structmap", hint |-> FALSE, fields |-> << <<"b", [c |-> "str", b |-> <<120>>]>>, <<"a", Iv(1)>> >>],
      RecNamed("R", "R", <<[name |-> "a", type |-> [k |-> "int"]], [name |-> "b", type |-> [k |-> "string"]]>>)>> }
  \* a unit-only enum whose schema lists the symbols in ANOTHER order than the Rust type declares the variants
  \* (the mapping is by symbol): every variant, plain and inside an option / array / record field
  \cup LET ES == [k |-> "enum", name |-> "Suit", short |-> "Suit", symbols |-> <<"Clubs", "Diamonds", "Hearts", "Spades">>]
           UV(i, v) == [c |-> "unit_variant", name |-> "Suit", idx |-> i, variant |-> v]
           Rust == <<"Spades", "Hearts", "Diamonds", "Clubs">>
       IN UNION { { <<UV(i - 1, Rust[i]), ES>>,
                    <<[c |-> "some", v |-> UV(i - 1, Rust[i])], Un(<<[k |-> "null"], ES>>)>>,
                    <<[c |-> "seq", hint |-> TRUE, items |-> <<UV(i - 1, Rust[i]), UV(0, Rust[1])>>], [k |-> "array", items |-> ES]>>,
                    <<[c |-> "struct", name |-> "Card", len |-> 1, fields |-> << <<"suit", UV(i - 1, Rust[i])>> >>],
                      RecNamed("Card", "Card", <<[name |-> "suit", type |-> ES]>>)>> } : i \in 1..4 }
=============================================================================
