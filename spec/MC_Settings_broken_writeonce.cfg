\* the named deviation check-then-set (SpecBroken): TLC must find the counterexample to WriteOnce
SPECIFICATION SpecBroken
CONSTANT Model = "mv"
CONSTANT Threads <- MCThreads
CONSTANT Cells <- MCCells
CONSTANT MaxOps = 1
CONSTANT KeepHistory = TRUE
CONSTANT OpsOf <- MCOpsOf
PROPERTY WriteOnce
CHECK_DEADLOCK FALSE
