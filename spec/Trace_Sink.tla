------------------------------ MODULE Trace_Sink ------------------------------
(***************************************************************************)
(* Judges recorded runs of the write paths on a faulting sink (C13).       *)
(* One event = one run: the list of sink calls (offered length, accepted   *)
(* length, kind, first bytes offered), the caller-visible result, the      *)
(* bytes the sink accepted and the reference bytes of the same scenario.   *)
(*                                                                         *)
(* The calls are replayed on the Sink model with the writer seen as one    *)
(* write_all site holding the reference bytes: every offered buffer must   *)
(* start where the delivered bytes stopped (coverage layer), and           *)
(*   result = ok  =>  delivered = reference        (NoSilentLoss)          *)
(*   a returned count equals the bytes delivered                           *)
(*   nothing panics, also when the writer is dropped after an error        *)
(* (verdict layer).                                                        *)
(***************************************************************************)
EXTENDS Naturals, Sequences, TLC, SequencesExt, Json, IOUtils, Known

Rec == ndJsonDeserialize(IOEnv.TRACE)
VARIABLE l

If(c, name) == IF c THEN {} ELSE {name}
MinOf(a, b) == IF a < b THEN a ELSE b

(* replay: position in the reference after the accepted bytes of calls 1..i; -1 once an offered
   buffer does not continue the reference at the current position *)
RECURSIVE Replay(_, _, _, _)
Replay(calls, i, pos, ref) ==
  IF i > Len(calls) THEN pos
  ELSE LET c == calls[i] IN
       IF c[1] = "flush" THEN Replay(calls, i + 1, pos, ref)
       ELSE LET offered == c[2]  accepted == c[3]  head == c[5]
                fits == pos + offered <= Len(ref) /\ head = SubSeq(ref, pos + 1, pos + MinOf(Len(head), offered))
            IN IF ~fits THEN 0 - 1
               ELSE Replay(calls, i + 1, pos + accepted, ref)

OnlyInterrupted(calls) == \A i \in 1..Len(calls) : calls[i][4] \in {"ok", "interrupted"}

Judge(e) ==
  LET end == Replay(e.calls, 1, 0, e.reference)
      fail ==
        If(~e.panic, "C13:panic")
        \cup If(e.result # "ok" \/ e.delivered = e.reference, "C13:silent-data-loss")
        \cup If(~(e.result = "ok" /\ e.counted) \/ e.returned = Len(e.delivered), "C13:returned-count-differs-from-bytes-accepted")
        \cup If(~OnlyInterrupted(e.calls) \/ e.result = "ok" \/ e.delivered # e.reference, "C13:error-although-everything-was-delivered")
      drift ==
        If(end >= 0, "offered-buffer-does-not-continue-at-the-delivered-position")
        \cup If(end < 0 \/ end = Len(e.delivered), "replayed-position-differs-from-delivered-length")
        \cup If(~(OnlyInterrupted(e.calls) /\ e.result # "ok"), "interrupted-not-retried")
  IN [fail |-> fail, known |-> {}, drift |-> drift]

Init == l = 1
Next == /\ l <= Len(Rec)
        /\ LET e == Rec[l]  r == Judge(e) IN
             IF r.fail = {} /\ r.drift = {} THEN TRUE
             ELSE PrintT("VERDICT " \o ToJson([id |-> e.id, fail |-> r.fail, known |-> r.known, drift |-> r.drift]))
        /\ l' = l + 1
Consumed == IF TLCGet("stats").diameter = Len(Rec) + 1 THEN PrintT("CONSUMED " \o ToString(Len(Rec)))
            ELSE PrintT("UNCONSUMED " \o ToString(TLCGet("stats").diameter)) /\ FALSE
=============================================================================
