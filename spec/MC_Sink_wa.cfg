SPECIFICATION Spec
CONSTANT Sites <- AllWA
CONSTRAINT Bounded
INVARIANT NoSilentLoss
INVARIANT DeliveredIsPrefixWhileWA
CHECK_DEADLOCK FALSE
