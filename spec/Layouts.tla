------------------------------ MODULE Layouts ------------------------------
(***************************************************************************)
(* Spec -> implementation helper: for (schema, value) scenarios produced   *)
(* by the harness' seeded generator, compute the alternative spec-legal    *)
(* layouts (EncM under every mode) that the real decoder is then fed.      *)
(***************************************************************************)
EXTENDS Universe, Json, IOUtils

Rec == ndJsonDeserialize(IOEnv.TRACE)
VARIABLE l
Init == l = 1
Next == /\ l <= Len(Rec)
        /\ LET e == Rec[l]  env == Defs(e.s) IN
             PrintT("LAY " \o ToJson([id |-> l - 1,
                                      layouts |-> [i \in 1..Len(Modes) |-> EncM(e.v, e.s, env, Modes[i])]]))
        /\ l' = l + 1
Consumed == IF TLCGet("stats").diameter = Len(Rec) + 1 THEN PrintT("CONSUMED " \o ToString(Len(Rec)))
            ELSE PrintT("UNCONSUMED " \o ToString(TLCGet("stats").diameter)) /\ FALSE
=============================================================================
