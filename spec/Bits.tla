------------------------------- MODULE Bits -------------------------------
(***************************************************************************)
(* Byte strings as the carrier of everything wider than TLC's 32-bit       *)
(* integers.  A 64-bit two's-complement integer is a tuple of 8 bytes,     *)
(* least significant first ("LE8").  Only bit tests, comparisons and small *)
(* arithmetic are ever performed on the bytes.                             *)
(*                                                                         *)
(* Rule of the house (measured, see DESIGN §4): anything that is carried   *)
(* through a recursion is forced with TLCEval so that TLC's lazy function  *)
(* values are not re-evaluated on every access.                            *)
(***************************************************************************)
EXTENDS Naturals, Integers, Sequences, FiniteSets, TLC

Byte == 0..255

IsByteSeq(b) == \A i \in DOMAIN b : b[i] \in Byte

P2(k) == CASE k = 0 -> 1 [] k = 1 -> 2 [] k = 2 -> 4 [] k = 3 -> 8
           [] k = 4 -> 16 [] k = 5 -> 32 [] k = 6 -> 64 [] k = 7 -> 128

Xor1(a, b) == (a + b) % 2

(* bit i (0 = least significant) of a little-endian byte string *)
BitLE(le, i) == (le[(i \div 8) + 1] \div P2(i % 8)) % 2

(* 0/1 tuple (index 1 = bit 0) -> little-endian bytes *)
BitsToLE(bits, nbytes) ==
  TLCEval([j \in 1..nbytes |->
      LET o == 8 * (j - 1) IN
        bits[o+1] + 2*bits[o+2] + 4*bits[o+3] + 8*bits[o+4]
        + 16*bits[o+5] + 32*bits[o+6] + 64*bits[o+7] + 128*bits[o+8]])

Zero8 == <<0,0,0,0,0,0,0,0>>

IsLE8(x) == Len(x) = 8 /\ IsByteSeq(x)
IsNeg8(le) == le[8] >= 128

(* the value fits a signed 32-bit integer: bytes 5..8 are the sign extension of bit 31 *)
IsI32(le) == LET e == IF le[4] >= 128 THEN 255 ELSE 0 IN
             le[5] = e /\ le[6] = e /\ le[7] = e /\ le[8] = e

(* a non-negative value < 2^31: usable as a TLC integer *)
IsSmallNat(le) == le[4] < 128 /\ le[5] = 0 /\ le[6] = 0 /\ le[7] = 0 /\ le[8] = 0
ToNat(le) == le[1] + 256 * le[2] + 65536 * le[3] + 16777216 * le[4]
NatToLE8(n) == <<n % 256, (n \div 256) % 256, (n \div 65536) % 256, (n \div 16777216) % 256, 0, 0, 0, 0>>
NatToLE4(n) == <<n % 256, (n \div 256) % 256, (n \div 65536) % 256, (n \div 16777216) % 256>>
LE4ToNatLow(le) == le[1] + 256 * le[2] + 65536 * le[3]   \* low 24 bits only (32-bit safe)

(* two's-complement negation of a small natural, as LE8 *)
NegNatToLE8(n) ==
  IF n = 0 THEN Zero8
  ELSE LET m == n - 1 IN    \* -n = ~(n-1)
       <<255 - (m % 256), 255 - ((m \div 256) % 256), 255 - ((m \div 65536) % 256),
         255 - ((m \div 16777216) % 256), 255, 255, 255, 255>>

(***************************************************************************)
(* Zig-zag and base-128 variable-length integers (Avro spec, "Primitive    *)
(* types": int and long are written using variable-length zig-zag coding). *)
(***************************************************************************)
ZZBits(le) == LET s == BitLE(le, 63) IN
  TLCEval([i \in 1..64 |-> IF i = 1 THEN s ELSE Xor1(BitLE(le, i - 2), s)])

HiBit(bits) == LET S == {i \in 1..64 : bits[i] = 1} IN
               IF S = {} THEN 0 ELSE CHOOSE i \in S : \A j \in S : j <= i

GroupBit(bits, g, k) == LET i == 7 * (g - 1) + k IN IF i <= 64 THEN bits[i] ELSE 0
GroupVal(bits, g) == GroupBit(bits,g,1) + 2*GroupBit(bits,g,2) + 4*GroupBit(bits,g,3)
                   + 8*GroupBit(bits,g,4) + 16*GroupBit(bits,g,5) + 32*GroupBit(bits,g,6)
                   + 64*GroupBit(bits,g,7)

VarintOfBits(bits) ==
  LET hi == HiBit(bits)
      n  == IF hi = 0 THEN 1 ELSE (hi + 6) \div 7
  IN TLCEval([g \in 1..n |-> GroupVal(bits, g) + (IF g < n THEN 128 ELSE 0)])

(* the bytes an Avro writer emits for the 64-bit integer le *)
ZigZagVarint(le) == VarintOfBits(ZZBits(le))

(* base-128 varint of a small natural (no zig-zag) *)
RECURSIVE VarintNat(_)
VarintNat(u) == IF u < 128 THEN <<u>> ELSE <<128 + (u % 128)>> \o VarintNat(u \div 128)

(* Avro long encoding of a small natural n >= 0 and of -n *)
LongOfNat(n) == VarintNat(2 * n)
LongOfNegNat(n) == IF n = 0 THEN <<0>> ELSE VarintNat(2 * n - 1)

(***************************************************************************)
(* Reading a varint at position pos of w.  At most 10 bytes; the 10th      *)
(* byte contributes one bit.  Result: [ok, why, bits, pos].                *)
(***************************************************************************)
ContRun(w, pos, k) == \A j \in 0..(k-1) : pos + j <= Len(w) /\ w[pos + j] >= 128

NoBits == [i \in 1..64 |-> 0]

ReadVarint(w, pos) ==
  LET ends == {k \in 0..9 : ContRun(w, pos, k) /\ pos + k <= Len(w) /\ w[pos + k] < 128} IN
  IF ends = {}
  THEN IF ContRun(w, pos, 10)
       THEN [ok |-> FALSE, why |-> "overflow", bits |-> NoBits, pos |-> pos]
       ELSE [ok |-> FALSE, why |-> "eof", bits |-> NoBits, pos |-> pos]
  ELSE LET k == CHOOSE x \in ends : TRUE
           n == k + 1
           bits == TLCEval([b \in 1..64 |->
                     LET g == (b - 1) \div 7  within == (b - 1) % 7 IN
                     IF g < n THEN ((w[pos + g] % 128) \div P2(within)) % 2 ELSE 0])
       IN [ok |-> TRUE, why |-> "", bits |-> bits, pos |-> pos + n]

(* inverse zig-zag: 64 zz bits -> LE8 two's complement *)
UnZZ(zz) == LET s == zz[1] IN
  BitsToLE([i \in 1..64 |-> IF i = 64 THEN s ELSE Xor1(zz[i + 1], s)], 8)

(* Read an Avro long: [ok, why, n (LE8), pos] *)
ReadLong(w, pos) ==
  LET r == ReadVarint(w, pos) IN
  IF r.ok THEN [ok |-> TRUE, why |-> "", n |-> UnZZ(r.bits), pos |-> r.pos]
  ELSE [ok |-> FALSE, why |-> r.why, n |-> Zero8, pos |-> pos]

(***************************************************************************)
(* Big-endian two's complement of arbitrary width (decimals).              *)
(***************************************************************************)
BENeg(b) == Len(b) > 0 /\ b[1] >= 128

(* numeric normal form: strip redundant sign bytes; zero is <<>> *)
RECURSIVE BENorm(_)
BENorm(b) ==
  IF Len(b) = 0 THEN <<>>
  ELSE IF Len(b) = 1 THEN (IF b[1] = 0 THEN <<>> ELSE b)
  ELSE IF b[1] = 0 /\ b[2] < 128 THEN BENorm(Tail(b))
  ELSE IF b[1] = 255 /\ b[2] >= 128 THEN BENorm(Tail(b))
  ELSE b

BENumEq(a, b) == BENorm(a) = BENorm(b)

(* sign-extend (or leave) to exactly n bytes; only defined when it fits *)
BEFits(b, n) == Len(BENorm(b)) <= n
BESignExtend(b, n) ==
  LET nb == BENorm(b)
      fill == IF BENeg(nb) THEN 255 ELSE 0
  IN [i \in 1..(n - Len(nb)) |-> fill] \o nb

(***************************************************************************)
(* UTF-8 well-formedness (Unicode 15 table 3-7): no overlongs, no          *)
(* surrogates, nothing above U+10FFFF.                                     *)
(***************************************************************************)
IsCont(x) == x >= 128 /\ x <= 191
RECURSIVE Utf8From(_, _)
Utf8From(b, i) ==
  IF i > Len(b) THEN TRUE
  ELSE LET c == b[i]  n == Len(b) IN
    IF c <= 127 THEN Utf8From(b, i + 1)
    ELSE IF c >= 194 /\ c <= 223
      THEN i + 1 <= n /\ IsCont(b[i+1]) /\ Utf8From(b, i + 2)
    ELSE IF c = 224
      THEN i + 2 <= n /\ b[i+1] >= 160 /\ b[i+1] <= 191 /\ IsCont(b[i+2]) /\ Utf8From(b, i + 3)
    ELSE IF (c >= 225 /\ c <= 236) \/ c = 238 \/ c = 239
      THEN i + 2 <= n /\ IsCont(b[i+1]) /\ IsCont(b[i+2]) /\ Utf8From(b, i + 3)
    ELSE IF c = 237
      THEN i + 2 <= n /\ b[i+1] >= 128 /\ b[i+1] <= 159 /\ IsCont(b[i+2]) /\ Utf8From(b, i + 3)
    ELSE IF c = 240
      THEN i + 3 <= n /\ b[i+1] >= 144 /\ b[i+1] <= 191 /\ IsCont(b[i+2]) /\ IsCont(b[i+3]) /\ Utf8From(b, i + 4)
    ELSE IF c >= 241 /\ c <= 243
      THEN i + 3 <= n /\ IsCont(b[i+1]) /\ IsCont(b[i+2]) /\ IsCont(b[i+3]) /\ Utf8From(b, i + 4)
    ELSE IF c = 244
      THEN i + 3 <= n /\ b[i+1] >= 128 /\ b[i+1] <= 143 /\ IsCont(b[i+2]) /\ IsCont(b[i+3]) /\ Utf8From(b, i + 4)
    ELSE FALSE
IsUtf8(b) == Utf8From(b, 1)

(***************************************************************************)
(* Lower-case hyphenated text of a 16-byte UUID, as UTF-8 bytes.           *)
(***************************************************************************)
HexDigit(n) == IF n < 10 THEN 48 + n ELSE 87 + n        \* '0'..'9', 'a'..'f'
HexByte(x) == <<HexDigit(x \div 16), HexDigit(x % 16)>>
RECURSIVE HexOf(_)
HexOf(b) == IF Len(b) = 0 THEN <<>> ELSE HexByte(b[1]) \o HexOf(Tail(b))
UuidText(b) == HexOf(SubSeq(b, 1, 4)) \o <<45>> \o HexOf(SubSeq(b, 5, 6)) \o <<45>>
            \o HexOf(SubSeq(b, 7, 8)) \o <<45>> \o HexOf(SubSeq(b, 9, 10)) \o <<45>>
            \o HexOf(SubSeq(b, 11, 16))

(* inverse, lenient in the way the grey zone of DESIGN B.1 allows: accepts upper case *)
HexVal(c) == IF c >= 48 /\ c <= 57 THEN c - 48
             ELSE IF c >= 97 /\ c <= 102 THEN c - 87
             ELSE IF c >= 65 /\ c <= 70 THEN c - 55 ELSE 99
IsCanonUuidText(t) == Len(t) = 36 /\ t[9] = 45 /\ t[14] = 45 /\ t[19] = 45 /\ t[24] = 45
                      /\ \A i \in (1..36) \ {9, 14, 19, 24} : HexVal(t[i]) < 16
UuidOfText(t) == LET h == SelectSeq(t, LAMBDA c : c # 45) IN
                 [i \in 1..16 |-> 16 * HexVal(h[2*i - 1]) + HexVal(h[2*i])]

(***************************************************************************)
(* Sanity: the specification's own examples.  TLC refuses to start if the  *)
(* transcription drifts.                                                   *)
(***************************************************************************)
ASSUME ZigZagVarint(NatToLE8(0)) = <<0>>
ASSUME ZigZagVarint(NegNatToLE8(1)) = <<1>>
ASSUME ZigZagVarint(NatToLE8(1)) = <<2>>
ASSUME ZigZagVarint(NegNatToLE8(2)) = <<3>>
ASSUME ZigZagVarint(NatToLE8(2)) = <<4>>
ASSUME ZigZagVarint(NegNatToLE8(64)) = <<127>>
ASSUME ZigZagVarint(NatToLE8(64)) = <<128, 1>>
ASSUME ZigZagVarint(NatToLE8(8192)) = <<128, 128, 1>>
ASSUME ZigZagVarint(NegNatToLE8(8193)) = <<129, 128, 1>>
ASSUME ZigZagVarint(<<255,255,255,255,255,255,255,127>>)
          = <<254,255,255,255,255,255,255,255,255,1>>           \* i64::MAX
ASSUME ZigZagVarint(<<0,0,0,0,0,0,0,128>>)
          = <<255,255,255,255,255,255,255,255,255,1>>           \* i64::MIN
ASSUME LongOfNat(3) = <<6>> /\ LongOfNat(27) = <<54>> /\ LongOfNegNat(3) = <<5>>
ASSUME ReadLong(<<128, 1>>, 1).n = NatToLE8(64)
ASSUME ReadLong(<<127>>, 1).n = NegNatToLE8(64)
ASSUME ReadLong(<<255,255,255,255,255,255,255,255,255,1>>, 1).n = <<0,0,0,0,0,0,0,128>>
ASSUME ReadLong(<<128>>, 1).why = "eof"
ASSUME BENorm(<<255, 255, 128>>) = <<128>> /\ BENorm(<<0, 128>>) = <<0, 128>> /\ BENorm(<<0,0>>) = <<>>
ASSUME BESignExtend(<<133>>, 3) = <<255, 255, 133>>
ASSUME IsUtf8(<<226, 130, 172>>) /\ ~IsUtf8(<<192, 128>>) /\ ~IsUtf8(<<237, 160, 128>>) /\ ~IsUtf8(<<255>>)
ASSUME UuidText(<<85,14,132,0,226,155,65,212,167,22,68,102,85,68,0,0>>)
       = <<53,53,48,101,56,52,48,48,45,101,50,57,98,45,52,49,100,52,45,97,55,49,54,45,52,52,54,54,53,53,52,52,48,48,48,48>>
=============================================================================
