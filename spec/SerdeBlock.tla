------------------------------ MODULE SerdeBlock ------------------------------
(***************************************************************************)
(* The array/map block writer of the schema-aware serde writer             *)
(* (avro/src/serde/ser_schema/block.rs), one action per call.              *)
(*                                                                         *)
(*   Start        serialize_seq / serialize_map: direct mode iff the       *)
(*                length is announced AND no target block size is set;     *)
(*                direct mode writes the (positive) count at once          *)
(*   Element      one item (for maps: key and value) whose encoding is     *)
(*                Items[k]: direct mode writes it through; buffered mode   *)
(*                appends it to the buffer and writes a block as soon as   *)
(*                the buffer holds >= target bytes                         *)
(*   Finish       end(): buffered mode flushes what is left; the zero      *)
(*                terminator is written                                    *)
(* A buffered block is  -(items)  (byte size)  bytes.                      *)
(***************************************************************************)
EXTENDS Naturals, Sequences, TLC, Bits

CONSTANTS DefaultT     \* block size used when the length is unknown and no target is set

VARIABLES Items,       \* the encodings of the items, in order          } the configuration of one run:
          Target,      \* target_block_size; 0 = None                   } chosen initially by the
          Hint,        \* is the length announced up front?             } instantiating model, then fixed
          mode,        \* "new" | "direct" | "buffered" | "done"
          k,           \* items consumed
          buf, nbuf,   \* buffer and items_in_buffer
          out, cnt,    \* bytes that reached the writer, bytes_written
          blocks       \* history: <<[n, size, neg]>> of the blocks written
vars == <<Items, Target, Hint, mode, k, buf, nbuf, out, cnt, blocks>>
cfgvars == <<Items, Target, Hint>>

T == IF Target = 0 THEN DefaultT ELSE Target

Init == mode = "new" /\ k = 0 /\ buf = <<>> /\ nbuf = 0 /\ out = <<>> /\ cnt = 0 /\ blocks = <<>>

Start ==
  /\ mode = "new"
  /\ IF Hint /\ Target = 0
     THEN /\ mode' = "direct"
          /\ IF Len(Items) # 0
             THEN LET h == LongOfNat(Len(Items)) IN
                  out' = out \o h /\ cnt' = cnt + Len(h)
                  /\ blocks' = <<[n |-> Len(Items), size |-> 0, neg |-> FALSE]>>
             ELSE UNCHANGED <<out, cnt, blocks>>
     ELSE mode' = "buffered" /\ UNCHANGED <<out, cnt, blocks>>
  /\ UNCHANGED <<k, buf, nbuf>>

(* write_block(): header = negative count, byte size; then the data; reset the buffer *)
WriteBlock(b, n) ==
  LET h == LongOfNegNat(n) \o LongOfNat(Len(b)) IN
  /\ out' = out \o h \o b
  /\ cnt' = cnt + Len(h) + Len(b)
  /\ blocks' = Append(blocks, [n |-> n, size |-> Len(b), neg |-> TRUE])
  /\ buf' = <<>> /\ nbuf' = 0

Element ==
  /\ k < Len(Items)
  /\ k' = k + 1
  /\ \/ /\ mode = "direct"
        /\ out' = out \o Items[k + 1] /\ cnt' = cnt + Len(Items[k + 1])
        /\ UNCHANGED <<mode, buf, nbuf, blocks>>
     \/ /\ mode = "buffered"
        /\ LET b2 == buf \o Items[k + 1] IN
           IF Len(b2) >= T THEN WriteBlock(b2, nbuf + 1)
           ELSE buf' = b2 /\ nbuf' = nbuf + 1 /\ UNCHANGED <<out, cnt, blocks>>
        /\ UNCHANGED mode

Finish ==
  /\ k = Len(Items) /\ mode \in {"direct", "buffered"}
  /\ mode' = "done" /\ UNCHANGED k
  /\ IF mode = "buffered" /\ nbuf > 0
     THEN LET h == LongOfNegNat(nbuf) \o LongOfNat(Len(buf)) IN
          /\ out' = out \o h \o buf \o <<0>>
          /\ cnt' = cnt + Len(h) + Len(buf) + 1
          /\ blocks' = Append(blocks, [n |-> nbuf, size |-> Len(buf), neg |-> TRUE])
          /\ buf' = <<>> /\ nbuf' = 0
     ELSE out' = out \o <<0>> /\ cnt' = cnt + 1 /\ UNCHANGED <<buf, nbuf, blocks>>

Next == (Start \/ Element \/ Finish) /\ UNCHANGED cfgvars
Spec == Init /\ [][Next]_vars

(* ---- invariants ---- *)
SumN(bs) == LET RECURSIVE S(_) S(i) == IF i = 0 THEN 0 ELSE bs[i].n + S(i - 1) IN S(Len(bs))
CountIsBytes == cnt = Len(out)
(* nothing is lost or duplicated: written + buffered = consumed *)
Conservation == mode = "buffered" => SumN(blocks) + nbuf = k
BufferBelowTarget == mode = "buffered" => Len(buf) < T \/ nbuf = 0
Done ==
  mode = "done" =>
    /\ SumN(blocks) = Len(Items) /\ buf = <<>>
    /\ \A i \in 1..Len(blocks) : blocks[i].n >= 1
    \* the documented contract of target_block_size: a minimum, except for the last block
    /\ \A i \in 1..(Len(blocks) - 1) : blocks[i].neg => blocks[i].size >= T
    \* direct = one positive block; buffered = negative counts followed by the byte size
    /\ (Hint /\ Target = 0) => Len(blocks) <= 1 /\ \A i \in 1..Len(blocks) : ~blocks[i].neg
    /\ ~(Hint /\ Target = 0) => \A i \in 1..Len(blocks) : blocks[i].neg
=============================================================================
