----------------------------- MODULE DeriveModel -----------------------------
(***************************************************************************)
(* #[derive(AvroSchema)] as documented (avro/src/serde/derive.rs, trait    *)
(* AvroSchema: "Deriving AvroSchema", "Changing the generated schema") and *)
(* serde's own attribute semantics: from a set of Rust type DEFINITIONS    *)
(* with container / variant / field attributes to                          *)
(*   ExpectedSchema   the schema term get_schema() must return, and        *)
(*   TyOf             the type as serde sees it (SerdeTypes AST), whose    *)
(*                    values (TermsOf) must all serialise under that       *)
(*                    schema and come back equal (property C17).           *)
(*                                                                         *)
(* Definition:                                                             *)
(*  [id, kind|->"struct"|"tuple"|"unit"|"enum", rename, ns, doc, aliases,  *)
(*   rename_all, rename_all_fields, transparent, repr, fields, variants]   *)
(* Field:   [ident|->words, ty, rename, aliases, doc, default, skip,       *)
(*           flatten]   default: "" (the type's own) | "false" | DefMenu id *)
(*           skip: "" | "skip" | "ser" (skip_serializing) | "ifnone"       *)
(* Variant: [ident|->words, vk|->"unit"|"newtype"|"tuple"|"struct",        *)
(*           fields, rename, aliases, skip|->BOOLEAN, rename_all]          *)
(* Field type: [f|->scalar] | [f|->"option"|"vec"|"map"|"box", of]         *)
(*           | [f|->"array", n, of] | [f|->"named", id] | [f|->"uuid"]     *)
(*           | [f|->"stdduration"]   (std::time::Duration)                 *)
(* Identifiers are word lists over Vocab so that serde's eight rename      *)
(* rules are computable.                                                   *)
(***************************************************************************)
EXTENDS SerdeTypes

(***************************************************************************)
(* Words and the eight case conventions (serde: "rename_all").             *)
(***************************************************************************)
Vocab == [ very |-> <<"very", "Very", "VERY">>, tasty |-> <<"tasty", "Tasty", "TASTY">>,
           id |-> <<"id", "Id", "ID">>, kind |-> <<"kind", "Kind", "KIND">>,
           my |-> <<"my", "My", "MY">>, field |-> <<"field", "Field", "FIELD">>,
           a |-> <<"a", "A", "A">>, b |-> <<"b", "B", "B">>, c |-> <<"c", "C", "C">>,
           x |-> <<"x", "X", "X">>, y |-> <<"y", "Y", "Y">>, z42 |-> <<"z42", "Z42", "Z42">>,
           red |-> <<"red", "Red", "RED">>, dark |-> <<"dark", "Dark", "DARK">>, blue |-> <<"blue", "Blue", "BLUE">>,
           one |-> <<"one", "One", "ONE">>, two |-> <<"two", "Two", "TWO">>, item |-> <<"item", "Item", "ITEM">>,
           next |-> <<"next", "Next", "NEXT">>, kids |-> <<"kids", "Kids", "KIDS">>, inner |-> <<"inner", "Inner", "INNER">>,
           left |-> <<"left", "Left", "LEFT">>, right |-> <<"right", "Right", "RIGHT">>, rest |-> <<"rest", "Rest", "REST">> ]
Lo(w) == Vocab[w][1]
Cap(w) == Vocab[w][2]
Up(w) == Vocab[w][3]

RECURSIVE JoinWith(_, _)
JoinWith(q, sep) == IF Len(q) = 0 THEN "" ELSE IF Len(q) = 1 THEN q[1] ELSE q[1] \o sep \o JoinWith(Tail(q), sep)
MapW(ws, Op(_)) == [i \in 1..Len(ws) |-> Op(ws[i])]

FieldIdent(ws) == JoinWith(MapW(ws, Lo), "_")          \* my_field
VariantIdent(ws) == JoinWith(MapW(ws, Cap), "")        \* MyVariant
Camel(ws) == Lo(ws[1]) \o JoinWith(MapW(Tail(ws), Cap), "")

Rules == {"lowercase", "UPPERCASE", "PascalCase", "camelCase", "snake_case", "SCREAMING_SNAKE_CASE",
          "kebab-case", "SCREAMING-KEBAB-CASE"}

ApplyToField(rule, ws) ==
  CASE rule \in {"", "lowercase", "snake_case"} -> FieldIdent(ws)
    [] rule \in {"UPPERCASE", "SCREAMING_SNAKE_CASE"} -> JoinWith(MapW(ws, Up), "_")
    [] rule = "PascalCase" -> JoinWith(MapW(ws, Cap), "")
    [] rule = "camelCase" -> Camel(ws)
    [] rule = "kebab-case" -> JoinWith(MapW(ws, Lo), "-")
    [] rule = "SCREAMING-KEBAB-CASE" -> JoinWith(MapW(ws, Up), "-")

ApplyToVariant(rule, ws) ==
  CASE rule \in {"", "PascalCase"} -> VariantIdent(ws)
    [] rule = "lowercase" -> JoinWith(MapW(ws, Lo), "")
    [] rule = "UPPERCASE" -> JoinWith(MapW(ws, Up), "")
    [] rule = "camelCase" -> Camel(ws)
    [] rule = "snake_case" -> JoinWith(MapW(ws, Lo), "_")
    [] rule = "SCREAMING_SNAKE_CASE" -> JoinWith(MapW(ws, Up), "_")
    [] rule = "kebab-case" -> JoinWith(MapW(ws, Lo), "-")
    [] rule = "SCREAMING-KEBAB-CASE" -> JoinWith(MapW(ws, Up), "-")

(* serde's own examples (serde_derive internals/case.rs, copied into avro_derive/src/case.rs) *)
VT == <<"very", "tasty">>
ASSUME ApplyToField("UPPERCASE", VT) = "VERY_TASTY" /\ ApplyToField("PascalCase", VT) = "VeryTasty"
ASSUME ApplyToField("camelCase", VT) = "veryTasty" /\ ApplyToField("SCREAMING_SNAKE_CASE", VT) = "VERY_TASTY"
ASSUME ApplyToField("kebab-case", VT) = "very-tasty" /\ ApplyToField("SCREAMING-KEBAB-CASE", VT) = "VERY-TASTY"
ASSUME ApplyToField("snake_case", VT) = "very_tasty" /\ ApplyToField("lowercase", VT) = "very_tasty"
ASSUME ApplyToVariant("lowercase", VT) = "verytasty" /\ ApplyToVariant("UPPERCASE", VT) = "VERYTASTY"
ASSUME ApplyToVariant("camelCase", VT) = "veryTasty" /\ ApplyToVariant("snake_case", VT) = "very_tasty"
ASSUME ApplyToVariant("SCREAMING_SNAKE_CASE", VT) = "VERY_TASTY" /\ ApplyToVariant("kebab-case", VT) = "very-tasty"
ASSUME ApplyToVariant("SCREAMING-KEBAB-CASE", VT) = "VERY-TASTY" /\ ApplyToVariant("PascalCase", VT) = "VeryTasty"
ASSUME ApplyToVariant("snake_case", <<"z42">>) = "z42" /\ ApplyToField("PascalCase", <<"a">>) = "A"

(* a name produced by a kebab rule from more than one word contains '-' : not an Avro name *)
ValidRenamed(rule, ws) == ~(rule \in {"kebab-case", "SCREAMING-KEBAB-CASE"} /\ Len(ws) > 1)

(***************************************************************************)
(* Constructors with defaults (scenarios override with EXCEPT / @@).       *)
(***************************************************************************)
Fld0(ws, ty) == [ident |-> ws, ty |-> ty, rename |-> "", aliases |-> <<>>, doc |-> "", default |-> "",
                 skip |-> "", flatten |-> FALSE]
Var0(ws, vk, fs) == [ident |-> ws, vk |-> vk, fields |-> fs, rename |-> "", aliases |-> <<>>, skip |-> FALSE,
                     rename_all |-> ""]
Def0(id, kind, fs, vs) == [id |-> id, kind |-> kind, rename |-> "", ns |-> "", doc |-> "", aliases |-> <<>>,
                           rename_all |-> "", rename_all_fields |-> "", transparent |-> FALSE, repr |-> "",
                           fields |-> fs, variants |-> vs]
StructD(id, fs) == Def0(id, "struct", fs, <<>>)
TupleD(id, tys) == Def0(id, "tuple", [i \in 1..Len(tys) |-> Fld0(<<>>, tys[i])], <<>>)
UnitD(id) == Def0(id, "unit", <<>>, <<>>)
EnumD(id, vs) == Def0(id, "enum", <<>>, vs)
FS(y) == [f |-> y]
FOpt(t) == [f |-> "option", of |-> t]
FVec(t) == [f |-> "vec", of |-> t]
FMap(t) == [f |-> "map", of |-> t]
FBox(t) == [f |-> "box", of |-> t]
FArr(n, t) == [f |-> "array", n |-> n, of |-> t]
FNamed(id) == [f |-> "named", id |-> id]

DefOf(defs, id) == defs[FirstIdx(defs, LAMBDA d : d.id = id)]
TypeName(d) == IF d.rename = "" THEN d.id ELSE d.rename
(* the namespace attribute, else the enclosing one *)
NsOf(d, encns) == IF d.ns # "" THEN d.ns ELSE encns
FullOf(name, ns) == IF ns = "" THEN name ELSE ns \o "." \o name

FieldName(fd, rule) == IF fd.rename # "" THEN fd.rename ELSE ApplyToField(rule, fd.ident)
VariantName(v, rule) == IF v.rename # "" THEN v.rename ELSE ApplyToVariant(rule, v.ident)
LiveFields(fs) == SelectSeq(fs, LAMBDA fd : fd.skip # "skip")
LiveVariants(vs) == SelectSeq(vs, LAMBDA v : ~v.skip)
(* the index serde gives a variant = its position among ALL variants *)
RustIdx(vs, v) == FirstIdx(vs, LAMBDA w : w.ident = v.ident) - 1

EffRepr(d) == IF d.repr # "" THEN d.repr
              ELSE IF \A i \in 1..Len(d.variants) : d.variants[i].skip \/ d.variants[i].vk = "unit" THEN "enum"
              ELSE "union_of_records"

(***************************************************************************)
(* The type as serde sees it.  `stack` = definitions being expanded; a     *)
(* definition is unrolled at most twice, then stands as "rec" (no values). *)
(***************************************************************************)
Count(q, x) == Cardinality({i \in 1..Len(q) : q[i] = x})

RECURSIVE TyOf(_, _, _)
RECURSIVE TyFields(_, _, _, _)

(* fields of a struct-like thing as SerdeTypes fields; flattened fields are spliced in *)
TyFields(defs, fs, rule, stack) ==
  IF Len(fs) = 0 THEN <<>>
  ELSE LET fd == fs[1]  rest == TyFields(defs, Tail(fs), rule, stack) IN
       IF fd.skip = "skip" THEN rest
       ELSE IF fd.flatten
       THEN LET inner == TyOf(defs, fd.ty, stack) IN inner.flds \o rest
       ELSE <<[fname |-> FieldName(fd, rule), fty |-> TyOf(defs, fd.ty, stack),
               dflt |-> "", alias |-> "",
               ser |-> IF fd.skip = "ser" THEN "no" ELSE IF fd.skip = "ifnone" THEN "ifsome" ELSE "yes"]>> \o rest

HasFlatten(fs) == \E i \in 1..Len(fs) : fs[i].flatten /\ fs[i].skip # "skip"

TyOf(defs, ft, stack) ==
  CASE ft.f \in ScalarCalls \cup {"unit"} -> TS(ft.f)
    [] ft.f = "option" -> TOpt(TyOf(defs, ft.of, stack))
    [] ft.f = "vec" -> TSeq(TyOf(defs, ft.of, stack))
    [] ft.f = "map" -> TMap(TyOf(defs, ft.of, stack))
    [] ft.f = "box" -> TyOf(defs, ft.of, stack)
    [] ft.f = "array" -> IF ft.n = 0 THEN TTuple("", <<>>)
                         ELSE TTuple("", [i \in 1..ft.n |-> TyOf(defs, ft.of, stack)])
    [] ft.f = "uuid" -> TFixedBytes("org.apache.avro.rust.Uuid", 16)
    [] ft.f = "stdduration" ->          \* std::time::Duration: serde writes struct Duration { secs: u64, nanos: u32 }
         [y |-> "struct", name |-> "Duration", ns |-> "", asmap |-> FALSE,
          flds |-> <<[fname |-> "secs", fty |-> TS("u64"), dflt |-> "", alias |-> "", ser |-> "yes"],
                     [fname |-> "nanos", fty |-> TS("u32"), dflt |-> "", alias |-> "", ser |-> "yes"]>>]
    [] ft.f = "named" ->
         IF Count(stack, ft.id) >= 2 THEN [y |-> "rec"]
         ELSE
         LET d == DefOf(defs, ft.id)  st == Append(stack, ft.id)  nm == TypeName(d) IN
         IF d.transparent THEN TyOf(defs, LiveFields(d.fields)[1].ty, st)
         ELSE CASE d.kind = "struct" ->
                     [y |-> "struct", name |-> nm, ns |-> "", asmap |-> HasFlatten(d.fields),
                      flds |-> TyFields(defs, d.fields, d.rename_all, st)]
                [] d.kind = "tuple" ->
                     LET live == LiveFields(d.fields) IN
                     IF Len(live) = 1 /\ Len(d.fields) = 1 THEN TNewtype(nm, TyOf(defs, live[1].ty, st))
                     ELSE TTupleStruct(nm, [i \in 1..Len(live) |-> TyOf(defs, live[i].ty, st)])
                [] d.kind = "unit" -> TUnitStruct(nm)
                [] d.kind = "enum" ->
                     LET live == LiveVariants(d.variants)
                         r == EffRepr(d)
                         V(v) == LET base == [vname |-> VariantName(v, d.rename_all), ridx |-> RustIdx(d.variants, v)] IN
                                 CASE v.vk = "unit" -> base @@ [vk |-> "unit"]
                                   [] v.vk = "newtype" -> base @@ [vk |-> "newtype", of |-> TyOf(defs, v.fields[1].ty, st)]
                                   [] v.vk = "tuple" -> base @@ [vk |-> "tuple",
                                                                 elems |-> [i \in 1..Len(v.fields) |-> TyOf(defs, v.fields[i].ty, st)]]
                                   [] v.vk = "struct" ->
                                        base @@ [vk |-> "struct",
                                                 flds |-> TyFields(defs, v.fields,
                                                                   IF v.rename_all # "" THEN v.rename_all ELSE d.rename_all_fields, st)]
                     IN TEnum(nm, IF r = "enum" THEN "enum" ELSE IF r = "bare_union" THEN "bare" ELSE "uor",
                              [i \in 1..Len(live) |-> V(live[i])])

(***************************************************************************)
(* The expected schema.  A walk in document order threading `named`, the   *)
(* set of full names already defined: "If the fully qualified name already *)
(* exists, return a Schema::Ref".  Returns [s |-> schema, named |-> set].  *)
(* encns = the enclosing namespace ("" = none).                            *)
(***************************************************************************)
FixedT(full, short, size) == [k |-> "fixed", name |-> full, short |-> short, doc |-> "", aliases |-> <<>>, size |-> size]
RecT(full, short, doc, aliases, fs, tup, uor) ==
  [k |-> "record", name |-> full, short |-> short, doc |-> doc, aliases |-> aliases, fields |-> fs,
   tuple |-> tup, uor |-> uor]
FieldT(name, ty, doc, aliases, dflt) ==
  IF dflt = "" THEN [name |-> name, type |-> ty, doc |-> doc, aliases |-> aliases, hasdef |-> FALSE, defjson |-> 0]
  ELSE [name |-> name, type |-> ty, doc |-> doc, aliases |-> aliases, hasdef |-> TRUE,
        defjson |-> DefMenu[dflt].json, def |-> DefMenu[dflt].v]

(* the default a field gets when it has no #[avro(default)]: AvroSchemaComponent::field_default of its type *)
RECURSIVE TraitDefault(_, _)
TraitDefault(defs, ft) ==
  CASE ft.f = "option" -> "onull"
    [] ft.f = "box" -> TraitDefault(defs, ft.of)
    [] ft.f = "array" -> IF ft.n = 1 THEN TraitDefault(defs, ft.of) ELSE ""
    [] ft.f = "named" -> LET d == DefOf(defs, ft.id) IN
                         IF d.transparent THEN TraitDefault(defs, LiveFields(d.fields)[1].ty) ELSE ""
    [] OTHER -> ""
FieldDefault(defs, fd) == IF fd.default = "false" THEN "" ELSE IF fd.default # "" THEN fd.default
                          ELSE TraitDefault(defs, fd.ty)

(* the crate's code letter for an unnamed schema (used in the generated names of array records) *)
UnnamedCode(s) == CASE s.k = "null" -> "n" [] s.k = "boolean" -> "B" [] s.k = "int" -> "i" [] s.k = "long" -> "l"
                    [] s.k = "float" -> "f" [] s.k = "double" -> "d" [] s.k = "bytes" -> "b" [] s.k = "string" -> "s"
                    [] OTHER -> "?"

(* Schema::unique_normalized_name: the code of a schema inside generated record names.  Named types contribute
   r<length>_<name with every non-alphanumeric character replaced by '_'>; the names used by the scenarios are tabulated *)
NormNamed(full) == CASE full = "Inner" -> "r5_Inner" [] full = "ns.Inner" -> "r8_ns_Inner" [] OTHER -> "r?_" \o full
RECURSIVE UniqueName(_)
UniqueName(s) ==
  CASE s.k = "array" -> "a_" \o UniqueName(s.items)
    [] s.k = "map" -> "m_" \o UniqueName(s.values)
    [] s.k = "union" -> "u" \o ToString(Len(s.branches)) \o "_" \o UniqueName(s.branches[1])
                        \o (IF Len(s.branches) >= 2 THEN "_" \o UniqueName(s.branches[2]) ELSE "")
    [] s.k \in {"record", "enum", "fixed", "ref", "duration"} -> NormNamed(s.name)
    [] OTHER -> UnnamedCode(s)

Once(full, named, Build(_)) ==
  IF full \in named THEN [s |-> [k |-> "ref", name |-> full], named |-> named]
  ELSE Build(named \cup {full})

RECURSIVE SchemaCtx(_, _, _, _)
RECURSIVE FieldsCtx(_, _, _, _, _)
RECURSIVE PosFieldsCtx(_, _, _, _, _)
RECURSIVE BranchesCtx(_, _, _, _, _, _)

(* named fields -> [fs |-> <<field terms>>, named]; flattened fields are replaced by the fields of their type *)
FieldsCtx(defs, fs, rule, named, encns) ==
  IF Len(fs) = 0 THEN [fs |-> <<>>, named |-> named]
  ELSE LET fd == fs[1] IN
       IF fd.skip = "skip" THEN FieldsCtx(defs, Tail(fs), rule, named, encns)
       ELSE IF fd.flatten
       THEN LET d == DefOf(defs, fd.ty.id)
                inner == FieldsCtx(defs, d.fields, d.rename_all, named, encns)
                rest == FieldsCtx(defs, Tail(fs), rule, inner.named, encns)
            IN [fs |-> inner.fs \o rest.fs, named |-> rest.named]
       ELSE LET t == SchemaCtx(defs, fd.ty, named, encns)
                rest == FieldsCtx(defs, Tail(fs), rule, t.named, encns)
            IN [fs |-> <<FieldT(FieldName(fd, rule), t.s, fd.doc, fd.aliases, FieldDefault(defs, fd))>> \o rest.fs,
                named |-> rest.named]

(* positional fields field_0, field_1, ... (skipped ones do not count) *)
PosFieldsCtx(defs, fs, i, named, encns) ==
  IF Len(fs) = 0 THEN [fs |-> <<>>, named |-> named]
  ELSE LET fd == fs[1] IN
       IF fd.skip = "skip" THEN PosFieldsCtx(defs, Tail(fs), i, named, encns)
       ELSE LET t == SchemaCtx(defs, fd.ty, named, encns)
                rest == PosFieldsCtx(defs, Tail(fs), i + 1, t.named, encns)
                nm == IF fd.rename # "" THEN fd.rename ELSE "field_" \o ToString(i)
            IN [fs |-> <<FieldT(nm, t.s, fd.doc, fd.aliases, FieldDefault(defs, fd))>> \o rest.fs, named |-> rest.named]

(* the branches of a union-shaped enum; variant records live in the enclosing namespace *)
BranchesCtx(defs, d, vs, bare, named, encns) ==
  IF Len(vs) = 0 THEN [bs |-> <<>>, named |-> named]
  ELSE
  LET v == vs[1]
      nm == VariantName(v, d.rename_all)
      full == FullOf(nm, encns)
      frule == IF v.rename_all # "" THEN v.rename_all ELSE d.rename_all_fields
      one ==
        CASE v.vk = "unit" ->
               IF bare THEN [s |-> [k |-> "null"], named |-> named]
               ELSE Once(full, named, LAMBDA nn : [s |-> RecT(full, nm, "", v.aliases, <<>>, FALSE, FALSE), named |-> nn])
          [] v.vk = "newtype" ->
               IF bare THEN SchemaCtx(defs, v.fields[1].ty, named, encns)
               ELSE Once(full, named, LAMBDA nn :
                      LET r == PosFieldsCtx(defs, v.fields, 0, nn, encns) IN
                      [s |-> RecT(full, nm, "", v.aliases, r.fs, TRUE, TRUE), named |-> r.named])
          [] v.vk = "tuple" ->
               Once(full, named, LAMBDA nn :
                      LET r == PosFieldsCtx(defs, v.fields, 0, nn, encns) IN
                      [s |-> RecT(full, nm, "", v.aliases, r.fs, TRUE, Len(v.fields) = 1), named |-> r.named])
          [] v.vk = "struct" ->
               Once(full, named, LAMBDA nn :
                      LET r == FieldsCtx(defs, v.fields, frule, nn, encns) IN
                      [s |-> RecT(full, nm, "", v.aliases, r.fs, FALSE, FALSE), named |-> r.named])
      rest == BranchesCtx(defs, d, Tail(vs), bare, one.named, encns)
  IN [bs |-> <<one.s>> \o rest.bs, named |-> rest.named]

SchemaCtx(defs, ft, named, encns) ==
  CASE ft.f = "bool" -> [s |-> [k |-> "boolean"], named |-> named]
    [] ft.f \in IntCalls -> [s |-> [k |-> "int"], named |-> named]
    [] ft.f \in LongCalls -> [s |-> [k |-> "long"], named |-> named]
    [] ft.f \in BigCalls -> Once(BigName(ft.f), named, LAMBDA nn : [s |-> FixedT(BigName(ft.f), ft.f, BigSize(ft.f)), named |-> nn])
    [] ft.f = "f32" -> [s |-> [k |-> "float"], named |-> named]
    [] ft.f = "f64" -> [s |-> [k |-> "double"], named |-> named]
    [] ft.f \in {"char", "str"} -> [s |-> [k |-> "string"], named |-> named]
    [] ft.f = "unit" -> [s |-> [k |-> "null"], named |-> named]
    [] ft.f = "uuid" ->
         Once("org.apache.avro.rust.Uuid", named, LAMBDA nn :
              [s |-> [k |-> "uuid", base |-> "fixed", name |-> "org.apache.avro.rust.Uuid", short |-> "Uuid",
                      doc |-> "", aliases |-> <<>>, size |-> 16], named |-> nn])
    [] ft.f = "stdduration" ->
         \* documented: record org.apache.avro.rust.Duration { secs: fixed org.apache.avro.rust.u64 (a reference when
         \* that name is already defined), nanos: long }
         Once("org.apache.avro.rust.Duration", named, LAMBDA nn :
              LET t == SchemaCtx(defs, [f |-> "u64"], nn, encns) IN
              [s |-> RecT("org.apache.avro.rust.Duration", "Duration", "", <<>>,
                          <<FieldT("secs", t.s, "", <<>>, ""), FieldT("nanos", [k |-> "long"], "", <<>>, "")>>, FALSE, FALSE),
               named |-> t.named])
    [] ft.f = "option" ->
         LET t == SchemaCtx(defs, ft.of, named, encns) IN
         [s |-> [k |-> "union", branches |-> <<[k |-> "null"], t.s>>], named |-> t.named]
    [] ft.f = "vec" -> LET t == SchemaCtx(defs, ft.of, named, encns) IN [s |-> [k |-> "array", items |-> t.s], named |-> t.named]
    [] ft.f = "map" -> LET t == SchemaCtx(defs, ft.of, named, encns) IN [s |-> [k |-> "map", values |-> t.s], named |-> t.named]
    [] ft.f = "box" -> SchemaCtx(defs, ft.of, named, encns)
    [] ft.f = "array" ->        \* [T; N]: null / T / a record A<N>_<normalized name of T's schema> with fields field_0..
         IF ft.n = 0 THEN [s |-> [k |-> "null"], named |-> named]
         ELSE IF ft.n = 1 THEN SchemaCtx(defs, ft.of, named, encns)
         ELSE LET t == SchemaCtx(defs, ft.of, named, encns)
                  nm == "A" \o ToString(ft.n) \o "_" \o UniqueName(t.s)
                  full == FullOf(nm, encns)
              IN Once(full, t.named, LAMBDA nn :
                   \* field_0 carries T's schema as first derived; the other fields what T derives to NOW (named types,
                   \* wherever they sit inside T - option, vec, map - are references by then)
                   LET t2 == SchemaCtx(defs, ft.of, nn, encns) IN
                   [s |-> RecT(full, nm, "", <<>>,
                               [i \in 1..ft.n |-> FieldT("field_" \o ToString(i - 1), IF i = 1 THEN t.s ELSE t2.s, "", <<>>,
                                                          TraitDefault(defs, ft.of))],
                               FALSE, FALSE),
                    named |-> t2.named])
    [] ft.f = "named" ->
         LET d == DefOf(defs, ft.id)
             nm == TypeName(d)
             ns == NsOf(d, encns)
             full == FullOf(nm, ns)
         IN
         IF d.transparent THEN SchemaCtx(defs, LiveFields(d.fields)[1].ty, named, encns)
         ELSE
         CASE d.kind = "struct" ->
                Once(full, named, LAMBDA nn :
                     LET r == FieldsCtx(defs, d.fields, d.rename_all, nn, ns) IN
                     [s |-> RecT(full, nm, d.doc, d.aliases, r.fs, FALSE, FALSE), named |-> r.named])
           [] d.kind = "tuple" ->
                Once(full, named, LAMBDA nn :
                     LET r == PosFieldsCtx(defs, d.fields, 0, nn, ns) IN
                     [s |-> RecT(full, nm, d.doc, d.aliases, r.fs, FALSE, FALSE), named |-> r.named])
           [] d.kind = "unit" ->
                Once(full, named, LAMBDA nn : [s |-> RecT(full, nm, d.doc, d.aliases, <<>>, FALSE, FALSE), named |-> nn])
           [] d.kind = "enum" ->
                LET live == LiveVariants(d.variants) r == EffRepr(d) IN
                IF r = "enum"
                THEN Once(full, named, LAMBDA nn :
                          [s |-> [k |-> "enum", name |-> full, short |-> nm, doc |-> d.doc, aliases |-> d.aliases,
                                  symbols |-> [i \in 1..Len(live) |-> VariantName(live[i], d.rename_all)], edefault |-> ""],
                           named |-> nn])
                ELSE LET b == BranchesCtx(defs, d, live, r = "bare_union", named, encns) IN
                     [s |-> [k |-> "union", branches |-> b.bs], named |-> b.named]

ExpectedSchema(defs, root) == SchemaCtx(defs, FNamed(root), {}, "").s

(***************************************************************************)
(* Well-formedness of a schema term as far as names go (DESIGN B.3): every *)
(* full name is defined at most once and before its first use in document  *)
(* order; every reference resolves.                                        *)
(***************************************************************************)
RECURSIVE DocOrder(_)
RECURSIVE DocOrderSeq(_, _)
DocOrderSeq(q, i) == IF i > Len(q) THEN <<>> ELSE DocOrder(q[i]) \o DocOrderSeq(q, i + 1)
(* the sequence of <<"def"|"ref", full name>> events of a schema in document order *)
DocOrder(s) ==
  CASE s.k = "array" -> DocOrder(s.items)
    [] s.k = "map" -> DocOrder(s.values)
    [] s.k = "union" -> DocOrderSeq(s.branches, 1)
    [] s.k = "record" -> << <<"def", s.name>> >> \o DocOrderSeq([i \in 1..Len(s.fields) |-> s.fields[i].type], 1)
    [] s.k \in {"enum", "fixed", "duration"} -> << <<"def", s.name>> >>
    [] s.k \in {"uuid", "decimal"} -> IF s.base = "fixed" THEN << <<"def", s.name>> >> ELSE <<>>
    [] s.k = "ref" -> << <<"ref", s.name>> >>
    [] OTHER -> <<>>

DefinedOnce(s) == LET q == DocOrder(s) IN
  \A i, j \in 1..Len(q) : q[i][1] = "def" /\ q[j][1] = "def" /\ q[i][2] = q[j][2] => i = j
RefsResolveBackwards(s) == LET q == DocOrder(s) IN
  \A j \in 1..Len(q) : q[j][1] = "ref" => \E i \in 1..(j - 1) : q[i] = <<"def", q[j][2]>>
NamesWellFormed(s) == DefinedOnce(s) /\ RefsResolveBackwards(s)

(* unions: no union directly inside a union, at most one branch per unnamed kind *)
RECURSIVE UnionsWellFormed(_)
UnionsWellFormed(s) ==
  CASE s.k = "array" -> UnionsWellFormed(s.items)
    [] s.k = "map" -> UnionsWellFormed(s.values)
    [] s.k = "record" -> \A i \in 1..Len(s.fields) : UnionsWellFormed(s.fields[i].type)
    [] s.k = "union" ->
         /\ \A i \in 1..Len(s.branches) : s.branches[i].k # "union" /\ UnionsWellFormed(s.branches[i])
         /\ \A i, j \in 1..Len(s.branches) :
               (i # j /\ s.branches[i].k = s.branches[j].k) => s.branches[i].k \in {"record", "enum", "fixed", "ref"}
    [] OTHER -> TRUE

(***************************************************************************)
(* Equality of schema terms as far as the derive contract fixes them       *)
(* (everything but the carried default VALUE `def`, which only the         *)
(* expected side has).                                                     *)
(***************************************************************************)
RECURSIVE SchemaSame(_, _)
FieldSame(a, b) == /\ a.name = b.name /\ a.doc = b.doc /\ a.aliases = b.aliases /\ a.hasdef = b.hasdef
                   /\ (a.hasdef => a.defjson = b.defjson) /\ SchemaSame(a.type, b.type)
NamedSame(a, b) == a.name = b.name /\ a.doc = b.doc /\ a.aliases = b.aliases
SchemaSame(a, b) ==
  IF a.k # b.k THEN FALSE
  ELSE CASE a.k = "array" -> SchemaSame(a.items, b.items)
         [] a.k = "map" -> SchemaSame(a.values, b.values)
         [] a.k = "union" -> Len(a.branches) = Len(b.branches)
                             /\ \A i \in 1..Len(a.branches) : SchemaSame(a.branches[i], b.branches[i])
         [] a.k = "record" -> /\ NamedSame(a, b) /\ a.tuple = b.tuple /\ a.uor = b.uor
                              /\ Len(a.fields) = Len(b.fields)
                              /\ \A i \in 1..Len(a.fields) : FieldSame(a.fields[i], b.fields[i])
         [] a.k = "enum" -> NamedSame(a, b) /\ a.symbols = b.symbols /\ a.edefault = b.edefault
         [] a.k \in {"fixed", "duration"} -> NamedSame(a, b) /\ a.size = b.size
         [] a.k = "uuid" -> a.base = b.base /\ (a.base = "fixed" => NamedSame(a, b))
         [] a.k = "ref" -> a.name = b.name
         [] a.k = "none" -> FALSE
         [] OTHER -> TRUE
=============================================================================
