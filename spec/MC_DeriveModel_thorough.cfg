SPECIFICATION Spec
CONSTANT Tier = "thorough"
INVARIANT ExpectedNamesWellFormed
INVARIANT ExpectedUnionsWellFormed
INVARIANT Deterministic
INVARIANT SecondUseIsRef
INVARIANT HasValues
INVARIANT ValuesDenote
CHECK_DEADLOCK FALSE
