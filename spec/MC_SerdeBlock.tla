---------------------------- MODULE MC_SerdeBlock ----------------------------
(***************************************************************************)
(* The block writer machine over arrays of null / int / string items       *)
(* (0..4 items), every target block size in {None, 1, 2, 3, 8} and both    *)
(* hint settings.  Binds the machine to the oracle: the finished output is *)
(* a spec-legal layout of the array (AvroBinary!ParseAll gives the items   *)
(* back) and equals the function form SerdeModel!BlocksFor; the returned   *)
(* count is the number of bytes.                                           *)
(***************************************************************************)
EXTENDS SerdeModel, Universe, Json

VARIABLES its, isch, encs, tgt, hnt, mode, k, buf, nbuf, out, cnt, blocks

ItemSchemas == {Prim("null"), Prim("int"), Prim("string")}
ItemVals(s) == CASE s.k = "null" -> {[t |-> "null"]}
                 [] s.k = "int" -> {[t |-> "int", n |-> NatToLE8(1)], [t |-> "int", n |-> NatToLE8(64)]}
                 [] s.k = "string" -> {[t |-> "string", b |-> <<>>], [t |-> "string", b |-> <<97, 98, 99>>]}
EncItems == TLCEval([i \in 1..Len(its) |-> Enc(its[i], isch, EmptyFun)])

M == INSTANCE SerdeBlock WITH Items <- encs, Target <- tgt, Hint <- hnt, DefaultT <- DefaultTarget

Init == /\ isch \in ItemSchemas
        /\ its \in SeqsUpTo(ItemVals(isch), 4)
        /\ encs = EncItems
        /\ tgt \in {0, 1, 2, 3, 8} /\ hnt \in BOOLEAN
        /\ M!Init
Next == M!Next /\ UNCHANGED <<its, isch>>

CountIsBytes == M!CountIsBytes
Conservation == M!Conservation
BufferBelowTarget == M!BufferBelowTarget
Done == M!Done

ArrS == [k |-> "array", items |-> isch]
ArrV == [t |-> "array", items |-> its]
IsLegalLayout ==
  mode = "done" =>
    /\ LET r == ParseAll(out, ArrS, EmptyFun) IN r.ok /\ VEq(r.v, ArrV)
    /\ out = BlocksFor(EncItems, [t |-> tgt, hint |-> hnt])
    /\ cnt = Len(out)
=============================================================================
