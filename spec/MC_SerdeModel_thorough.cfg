SPECIFICATION Spec
CONSTANT Tier = "thorough"
INVARIANT Denotes
INVARIANT EveryBlockSizeParsesBack
INVARIANT DirectIsCanonical
INVARIANT NormRetracts
INVARIANT AnyReadDenotes
INVARIANT NamesOnce
CHECK_DEADLOCK FALSE
