SPECIFICATION Spec
CONSTANT Tier = "quick"
INVARIANT Denotes
INVARIANT EveryBlockSizeParsesBack
INVARIANT DirectIsCanonical
INVARIANT NormRetracts
INVARIANT AnyReadDenotes
INVARIANT NamesOnce
CHECK_DEADLOCK FALSE
