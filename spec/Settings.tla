------------------------------ MODULE Settings ------------------------------
(***************************************************************************)
(* Process-wide settings of apache-avro as write-once cells shared by N    *)
(* threads (property C19).                                                 *)
(*                                                                         *)
(* Written from the documented contract of the crate:                      *)
(*  - util::max_allocation_bytes / util::set_serde_human_readable:         *)
(*    "This function only changes the setting once.  On subsequent calls   *)
(*    the value will stay the same as the first time it is called.  It is  *)
(*    automatically called on first allocation and defaults to DEFAULT_…"  *)
(*    "Returns the configured [value], which might be different from what  *)
(*    the function was called with if the value was already set before."   *)
(*  - validator::set_*_validator / set_schemata_equality_comparator:       *)
(*    "Returns Err(validator) if a validator is already configured.  This  *)
(*    function must be called before parsing any schema because this will  *)
(*    register the default validator and the registration is one time      *)
(*    only!"                                                               *)
(*                                                                         *)
(* Cells.  Seven once-cells.  A cell is  Unset | Running(t) | Set(v):      *)
(* "Running(t)" = thread t won the right to initialise the cell and is     *)
(* executing its initialiser; everybody else who needs the cell waits.     *)
(* Get-or-init therefore is TWO steps (Begin, Finish), or one (Observe)    *)
(* when the cell is already set; the gap between Begin and Finish is where *)
(* setter/user races live.                                                 *)
(*                                                                         *)
(* Values.  All values are naturals so that every return value has one     *)
(* type:                                                                   *)
(*   maxAlloc       number of bytes                                        *)
(*   humanReadable  0 / 1                                                  *)
(*   the four validators and the comparator ("registry cells"):            *)
(*                  0 = the built-in object the documentation names as the *)
(*                  default (SpecificationValidator / StructFieldEq),      *)
(*                  k >= 1 = the custom object with identity k handed to   *)
(*                  a setter.  A registered object is known to the outside *)
(*                  by its behaviour only: the set of "markers" it says    *)
(*                  yes to (operator Obeys below).                         *)
(*                                                                         *)
(* API calls.   [op |-> "set", c, arg]   the setter of cell c with arg     *)
(*              [op |-> "use", c, arg]   a library operation that needs    *)
(*                                       the value of c (decode a declared *)
(*                                       length `arg`, serialise, validate *)
(*                                       marker name `arg`, compare marker *)
(*                                       pair `arg`)                       *)
(* A call touches its main cell c and, for some uses, other cells as well  *)
(* (validating a namespace / an enum symbol / a field name happens while a *)
(* named schema is built, so the schema's own name is validated too):      *)
(* operator Touches.  The order in which one call touches several cells is *)
(* left open.                                                              *)
(*                                                                         *)
(* Related modules: AtomicSettings (the contract as one atomic step per     *)
(* access; MC_Settings checks that this module refines it), MC_Settings    *)
(* (bounded instances, scenario emission), Trace_Settings (judging the     *)
(* recorded executions of the real crate).                                 *)
(***************************************************************************)
EXTENDS Naturals, Sequences, FiniteSets, TLC

CONSTANTS Threads,       \* set of thread ids (naturals)
          Cells,         \* the cells in play (a subset of AllCells)
          MaxOps,        \* calls per thread (bound of the model)
          KeepHistory    \* BOOLEAN: keep the set of completed calls (needed by Agreement/ExactlyOneSetSucceeds)

VARIABLES cell,          \* cell[c] = [st |-> "unset"|"running"|"set", x |-> 0 | runner | value]
          th,            \* th[t]   = thread state, see Idle / Call
          first,         \* history: first[c] = the call whose access won the initialisation of c (NoOp before)
          hist           \* history: completed calls [t, n, op, ret]

vars == <<cell, th, first, hist>>

AllCells == {"maxAlloc", "humanReadable", "nameValidator", "namespaceValidator",
             "enumSymbolValidator", "fieldNameValidator", "comparator"}
ValueCells     == {"maxAlloc", "humanReadable"}
RegistryCells  == AllCells \ ValueCells
ValidatorCells == RegistryCells \ {"comparator"}

ASSUME Cells \subseteq AllCells /\ MaxOps \in Nat /\ KeepHistory \in BOOLEAN /\ Threads \subseteq Nat

(***************************************************************************)
(* Documented defaults.                                                    *)
(***************************************************************************)
DefaultMaxAllocationBytes == 512 * 1024 * 1024
DefaultSerdeHumanReadable == 0                      \* false
Default(c) == CASE c = "maxAlloc"      -> DefaultMaxAllocationBytes
                [] c = "humanReadable" -> DefaultSerdeHumanReadable
                [] OTHER               -> 0         \* the built-in validator / comparator

ASSUME DefaultMaxAllocationBytes = 536870912

(***************************************************************************)
(* The decoders' limit check: a declared length is accepted iff it does    *)
(* not exceed the limit in force.                                          *)
(***************************************************************************)
Accept(len, limit) == len <= limit

\* the crate's own examples (util.rs test_safe_len): 42 is fine, 1 GiB is not, under the default
ASSUME Accept(42, DefaultMaxAllocationBytes)
ASSUME ~Accept(1024 * 1024 * 1024, DefaultMaxAllocationBytes)
ASSUME Accept(DefaultMaxAllocationBytes, DefaultMaxAllocationBytes)
ASSUME ~Accept(DefaultMaxAllocationBytes + 1, DefaultMaxAllocationBytes)
ASSUME Accept(0, 0) /\ ~Accept(1, 0)

(***************************************************************************)
(* 64-bit carrier for limits beyond TLC's 32-bit integers (usize::MAX):    *)
(* 8 little-endian bytes, compared as unsigned numbers.                    *)
(***************************************************************************)
IsU64(a) == Len(a) = 8 /\ \A i \in 1..8 : a[i] \in 0..255
U64OfNat(n) == <<n % 256, (n \div 256) % 256, (n \div 65536) % 256, (n \div 16777216) % 256, 0, 0, 0, 0>>
U64Leq(a, b) == a = b \/ \E i \in 1..8 : a[i] < b[i] /\ \A j \in (i + 1)..8 : a[j] = b[j]
AcceptU64(len, limit) == U64Leq(len, limit)
U64Max == <<255, 255, 255, 255, 255, 255, 255, 255>>

ASSUME \A a, b \in {0, 1, 255, 256, 4095, 4096, 4097, 65535, 65536, 1048576, 16777216, 536870911, 536870912, 536870913, 2147483647} :
          AcceptU64(U64OfNat(a), U64OfNat(b)) <=> Accept(a, b)
ASSUME \A a \in {0, 1, 536870913, 2147483647} : AcceptU64(U64OfNat(a), U64Max) /\ ~AcceptU64(U64Max, U64OfNat(a))
ASSUME AcceptU64(U64Max, U64Max)
ASSUME ~AcceptU64(<<0, 0, 0, 0, 1, 0, 0, 0>>, <<255, 255, 255, 255, 0, 0, 0, 0>>)   \* 2^32 > 2^32 - 1

(***************************************************************************)
(* Behaviour of a registered object: does the object with identity v say   *)
(* yes to marker m?  The built-in validators accept every marker (markers  *)
(* are names that are legal by the Avro specification); custom validator k *)
(* accepts marker k only.  The built-in comparator calls the two schemas   *)
(* of every marker pair different; custom comparator k calls exactly       *)
(* marker pair k equal.                                                    *)
(***************************************************************************)
Obeys(c, v, m) == IF c = "comparator" THEN v = m /\ m # 0
                  ELSE v = 0 \/ v = m

B01(b) == IF b THEN 1 ELSE 0

(***************************************************************************)
(* Calls.                                                                  *)
(***************************************************************************)
NoOp == [op |-> "none", c |-> "none", arg |-> 0]
IsOp(o) == /\ o.op \in {"set", "use"}
           /\ o.c \in Cells
           /\ o.arg \in Nat
           /\ (o.c = "humanReadable" => o.arg \in {0, 1})
           /\ (o.op = "set" /\ o.c \in RegistryCells => o.arg >= 1)

\* cells a call needs besides its main cell
Aux(o) == IF o.op = "use" /\ o.c \in {"namespaceValidator", "enumSymbolValidator", "fieldNameValidator"}
          THEN {"nameValidator"} \cap Cells ELSE {}
Touches(o) == {o.c} \cup Aux(o)

\* the value thread t's initialiser would publish into cell c during call o
InitValue(o, c) == IF o.op = "set" /\ o.c = c THEN o.arg ELSE Default(c)

\* what the call returns, given the value `seen` in its main cell and whether its own initialiser was the one that ran
Result(o, seen, won) ==
  CASE o.op = "set" /\ o.c \in ValueCells       -> seen                          \* "returns the configured value"
    [] o.op = "set" /\ o.c \in RegistryCells    -> won                           \* Ok(()) = 1 / Err(own object) = 0
    [] o.op = "use" /\ o.c = "maxAlloc"         -> B01(Accept(o.arg, seen))      \* decode a declared length
    [] o.op = "use" /\ o.c = "humanReadable"    -> seen                          \* is_human_readable()
    [] o.op = "use" /\ o.c \in RegistryCells    -> B01(Obeys(o.c, seen, o.arg))  \* validate / compare a marker

(***************************************************************************)
(* State.                                                                  *)
(***************************************************************************)
Unset      == [st |-> "unset",   x |-> 0]
Running(t) == [st |-> "running", x |-> t]
IsSet(v)   == [st |-> "set",     x |-> v]

Idle(n) == [st |-> "idle", op |-> NoOp, todo |-> {}, run |-> "none", seen |-> 0, won |-> 0, n |-> n]

Init == /\ cell  = [c \in Cells |-> Unset]
        /\ th    = [t \in Threads |-> Idle(0)]
        /\ first = [c \in Cells |-> NoOp]
        /\ hist  = {}

(***************************************************************************)
(* Actions: one per critical section.                                      *)
(***************************************************************************)
\* thread t enters API call o
Call(t, o) ==
  /\ th[t].st = "idle" /\ th[t].n < MaxOps /\ IsOp(o)
  /\ th' = [th EXCEPT ![t] = [st |-> "busy", op |-> o, todo |-> Touches(o), run |-> "none",
                              seen |-> 0, won |-> 0, n |-> th[t].n]]
  /\ UNCHANGED <<cell, first, hist>>

\* t finds c unset and wins the right to initialise it (its closure will run)
Begin(t, c) ==
  /\ th[t].st = "busy" /\ th[t].run = "none" /\ c \in th[t].todo
  /\ cell[c] = Unset
  /\ cell'  = [cell EXCEPT ![c] = Running(t)]
  /\ th'    = [th EXCEPT ![t].run = c]
  /\ first' = [first EXCEPT ![c] = th[t].op]
  /\ UNCHANGED hist

\* t's initialiser has produced the value: publish it
Finish(t, c) ==
  /\ th[t].st = "busy" /\ th[t].run = c
  /\ cell[c] = Running(t)
  /\ LET v == InitValue(th[t].op, c) IN
       /\ cell' = [cell EXCEPT ![c] = IsSet(v)]
       /\ th'   = [th EXCEPT ![t].run = "none", ![t].todo = @ \ {c},
                             ![t].seen = IF c = th[t].op.c THEN v ELSE @,
                             ![t].won  = IF c = th[t].op.c THEN 1 ELSE @]
  /\ UNCHANGED <<first, hist>>

\* the cell is already set: read it (blocked while somebody else is running the initialiser)
Observe(t, c) ==
  /\ th[t].st = "busy" /\ th[t].run = "none" /\ c \in th[t].todo
  /\ cell[c].st = "set"
  /\ th' = [th EXCEPT ![t].todo = @ \ {c},
                      ![t].seen = IF c = th[t].op.c THEN cell[c].x ELSE @]
  /\ UNCHANGED <<cell, first, hist>>

RetVal(t) == Result(th[t].op, th[t].seen, th[t].won)

\* the call returns
Return(t) ==
  /\ th[t].st = "busy" /\ th[t].todo = {} /\ th[t].run = "none"
  /\ th'   = [th EXCEPT ![t] = Idle(th[t].n + 1)]
  /\ hist' = IF KeepHistory THEN hist \cup {[t |-> t, n |-> th[t].n, op |-> th[t].op, ret |-> RetVal(t)]} ELSE hist
  /\ UNCHANGED <<cell, first>>

AllDone == \A t \in Threads : th[t].st = "idle" /\ th[t].n = MaxOps
Done == AllDone /\ UNCHANGED vars          \* so that a deadlock is a thread that can never return

\* the calls offered to thread t in the bounded model (the trace specification takes them from the recording)
CONSTANT OpsOf(_)

Step(t) == \/ \E o \in OpsOf(t) : Call(t, o)
           \/ \E c \in Cells : Begin(t, c) \/ Finish(t, c) \/ Observe(t, c)
           \/ Return(t)

Next == (\E t \in Threads : Step(t)) \/ Done

Spec == Init /\ [][Next]_vars

(***************************************************************************)
(* The named deviation "check-then-set": get-or-init that is not atomic    *)
(* (look, release, later write unconditionally), e.g. an                   *)
(* RwLock<Option<T>> read followed by a separate write.  NOT part of Next. *)
(* SpecBroken replaces Begin/Finish by it; TLC then finds the              *)
(* counterexamples to WriteOnce / Agreement / ExactlyOneSetSucceeds, which *)
(* (a) states the defect class at design level and (b) shows that these    *)
(* properties are not vacuous.                                             *)
(***************************************************************************)
CheckUnset(t, c) ==
  /\ th[t].st = "busy" /\ th[t].run = "none" /\ c \in th[t].todo
  /\ cell[c] = Unset
  /\ th'    = [th EXCEPT ![t].run = c]              \* remembers "it was unset"; the cell is NOT claimed
  /\ first' = [first EXCEPT ![c] = IF @ = NoOp THEN th[t].op ELSE @]
  /\ UNCHANGED <<cell, hist>>

BlindWrite(t, c) ==
  /\ th[t].st = "busy" /\ th[t].run = c
  /\ LET v == InitValue(th[t].op, c) IN
       /\ cell' = [cell EXCEPT ![c] = IsSet(v)]     \* whatever is there now
       /\ th'   = [th EXCEPT ![t].run = "none", ![t].todo = @ \ {c},
                             ![t].seen = IF c = th[t].op.c THEN v ELSE @,
                             ![t].won  = IF c = th[t].op.c THEN 1 ELSE @]
  /\ UNCHANGED <<first, hist>>

StepBroken(t) == \/ \E o \in OpsOf(t) : Call(t, o)
                 \/ \E c \in Cells : CheckUnset(t, c) \/ BlindWrite(t, c) \/ Observe(t, c)
                 \/ Return(t)
NextBroken == (\E t \in Threads : StepBroken(t)) \/ Done
SpecBroken == Init /\ [][NextBroken]_vars

(***************************************************************************)
(* Properties.                                                             *)
(***************************************************************************)
TypeOK ==
  /\ \A c \in Cells : cell[c].st \in {"unset", "running", "set"} /\ cell[c].x \in Nat
  /\ \A t \in Threads : /\ th[t].st \in {"idle", "busy"}
                        /\ th[t].todo \subseteq Cells
                        /\ th[t].run \in Cells \cup {"none"}
                        /\ (th[t].st = "idle" => th[t] = Idle(th[t].n))

\* a value, once published, never changes                                    (action property)
WriteOnce == [][\A c \in Cells : cell[c].st = "set" => cell'[c] = cell[c]]_vars

\* only the thread that is running an initialiser ends it, and it ends it by publishing
RunnerOwnsCell == [][\A c \in Cells : cell[c].st = "running" /\ cell'[c] # cell[c]
                        => cell'[c].st = "set" /\ th[cell[c].x].run = c]_vars

\* at most one initialiser per cell is running, and a running cell has exactly its runner
OneRunner == \A c \in Cells :
               /\ Cardinality({t \in Threads : th[t].run = c}) <= 1
               /\ cell[c].st = "running" <=> \E t \in Threads : th[t].run = c /\ cell[c].x = t

\* first-set-wins / first use installs the documented default
FirstWins == \A c \in Cells : cell[c].st = "set" =>
               /\ first[c] # NoOp
               /\ cell[c].x = InitValue(first[c], c)
FirstUseInstallsDefault == \A c \in Cells :
               cell[c].st = "set" /\ ~(first[c].op = "set" /\ first[c].c = c) => cell[c].x = Default(c)

\* what a completed call must have returned if v is the value in force
Expected(h, v) == Result(h.op, v, IF v = h.op.arg THEN 1 ELSE 0)

\* every value returned so far is the one in force now (and, by WriteOnce, for ever)
Agreement == \A h \in hist :
               /\ cell[h.op.c].st = "set"
               /\ IF h.op.op = "set" /\ h.op.c \in RegistryCells
                  THEN h.ret = 1 => cell[h.op.c].x = h.op.arg
                  ELSE h.ret = Expected(h, cell[h.op.c].x)

\* the setters of a registry cell answer Ok to exactly one caller, the one whose object is in force;
\* to none iff the default was installed by an earlier use
OkSets(c) == {h \in hist : h.op.op = "set" /\ h.op.c = c /\ h.ret = 1}
Quiescent == \A t \in Threads : th[t].st = "idle"
ExactlyOneSetSucceeds == \A c \in Cells \cap RegistryCells :
   /\ Cardinality(OkSets(c)) <= 1
   \* Ok means: the caller's own object is the one in force
   /\ \A g \in OkSets(c) : cell[c] = IsSet(g.op.arg)
   \* with no call in progress: a custom object in force was acknowledged with Ok (exactly once, by the above),
   \* and if the cell was initialised by a setter (no use came first) some setter got Ok
   /\ Quiescent /\ cell[c].st = "set" /\ cell[c].x # 0 => Cardinality(OkSets(c)) = 1
   /\ Quiescent /\ first[c].op = "set" => Cardinality(OkSets(c)) = 1
   \* ... and to nobody if a use installed the default first
   /\ cell[c].st = "set" /\ first[c].op = "use" => OkSets(c) = {}

\* every call can complete: checked as deadlock freedom (Done is the only stuttering) and as this liveness property
Progress == \A t \in Threads : (th[t].st = "busy") ~> (th[t].st = "idle")
Fairness == \A t \in Threads : WF_vars(\E c \in Cells : Begin(t, c) \/ Finish(t, c) \/ Observe(t, c)) /\ WF_vars(Return(t))
FairSpec == Spec /\ Fairness
=============================================================================
