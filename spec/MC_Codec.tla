------------------------------ MODULE MC_Codec ------------------------------
(***************************************************************************)
(* The codec contract machine over a bounded universe, driven by the       *)
(* SPEC's own encoders and decoders for the fully specified codecs (null,  *)
(* deflate, snappy).  TLC checks that the transcription is a consistent    *)
(* encoder/decoder family (this licenses using SnappyDecode / Inflate /    *)
(* Crc32 as oracle in Trace_Codec), that a flipped trailer bit is always   *)
(* rejected, that the cap is honoured -- and emits every explored stream   *)
(* as a scenario: the spec-made streams are fed to the real library.       *)
(***************************************************************************)
EXTENDS Codec, Json

CONSTANT Tier            \* "quick" | "thorough" | "big"

VARIABLE cs

Alpha == {0, 97, 255}
RECURSIVE Strings(_)
Strings(n) == IF n = 0 THEN {<<>>} ELSE LET S == Strings(n - 1) IN S \cup {Append(s, a) : s \in {t \in S : Len(t) = n - 1}, a \in Alpha}

Rep(x, n) == [i \in 1..(n * Len(x)) |-> x[((i - 1) % Len(x)) + 1]]
Ramp(n) == [i \in 1..n |-> (i * 7) % 256]

Structured ==
  { Rep(<<97>>, 12), Rep(<<97, 98>>, 6), Rep(<<1, 2, 3>>, 5) \o <<9>>,      \* overlapping copies, offsets 1..3
    Ramp(59), Ramp(60), Ramp(61), Ramp(62),                                  \* inline / extended literal length boundary
    Ramp(20) \o Ramp(20), <<0>> \o Ramp(11) \o <<0>> \o Ramp(11),            \* non-overlapping copies
    Rep(<<255>>, 70), Ramp(5) \o Rep(<<0>>, 9) \o Ramp(5) }

Run70000 == Rep(<<65>>, 70000)          \* > 64 KiB snappy block, > 32 KiB deflate window, > 65535 stored block
Ramp66000 == Ramp(66000)

Payloads == IF Tier = "quick" THEN Strings(3) \cup Structured
            ELSE Strings(4) \cup Structured \cup {Ramp(257), Rep(<<7>>, 300), Rep(Ramp(9), 40)}

(* encoders: name -> stream *)
SnappyModes ==
  [ n \in {"lit60", "lit1", "lit2-ext1", "lit-ext2", "lit-ext3", "lit-ext4", "copy1", "copy2", "copy4", "copy2-far",
           "lit65536", "lit-one-ext4", "copy2-off1"} |->
      CASE n = "lit60" -> SnLitMode(60, 0) [] n = "lit1" -> SnLitMode(1, 0) [] n = "lit2-ext1" -> SnLitMode(2, 1)
        [] n = "lit-ext2" -> SnLitMode(300, 2) [] n = "lit-ext3" -> SnLitMode(300, 3) [] n = "lit-ext4" -> SnLitMode(300, 4)
        [] n = "copy1" -> SnCopyMode(1, 1..4) [] n = "copy2" -> SnCopyMode(2, 1..4) [] n = "copy4" -> SnCopyMode(3, 1..4)
        [] n = "copy2-far" -> SnCopyMode(2, {12, 20})
        [] n = "lit65536" -> SnLitMode(65536, 0) [] n = "lit-one-ext4" -> SnLitMode(16777216, 4)
        [] n = "copy2-off1" -> SnCopyMode(2, {1}) ]
SmallSnappy == {"lit60", "lit1", "lit2-ext1", "lit-ext2", "lit-ext3", "lit-ext4", "copy1", "copy2", "copy4", "copy2-far"}

SmallDeflate == {"stored65535", "stored1", "stored2", "fixed-lit", "fixed-match"}
DeflateStream(n, x) ==
  CASE n = "stored65535" -> StoredDeflate(x, 65535) [] n = "stored40000" -> StoredDeflate(x, 40000)
    [] n = "stored1" -> StoredDeflate(x, 1) [] n = "stored2" -> StoredDeflate(x, 2)
    [] n = "fixed-lit" -> FixedDeflate(x, {}) [] n = "fixed-match" -> FixedDeflate(x, {1, 2, 3, 12, 20})
    [] n = "fixed-off1" -> FixedDeflate(x, {1})

Encoders(c) == CASE c = "null" -> {"identity"} [] c = "snappy" -> SmallSnappy [] c = "deflate" -> SmallDeflate
Stream(c, n, x) == CASE c = "null" -> x [] c = "snappy" -> AvroSnappy(x, SnappyModes[n]) [] c = "deflate" -> DeflateStream(n, x)

(* <<codec, encoder, payload>> *)
Cases == IF Tier = "big"
         THEN { <<"snappy", "copy2-off1", Run70000>>, <<"snappy", "lit65536", Run70000>>, <<"snappy", "lit-one-ext4", Ramp66000>>,
                <<"deflate", "stored65535", Run70000>>, <<"deflate", "stored40000", Ramp66000>>, <<"deflate", "fixed-off1", Run70000>> }
         ELSE UNION { { <<c, n, x>> : n \in Encoders(c), x \in Payloads } : c \in SpecifiedCodecs }

Limit == IF Tier = "big" THEN 69000 ELSE 64      \* some payloads are longer than the limit: the cap is exercised

Init == cs = [st |-> Fresh(Limit), enc |-> ""]

Compress == /\ cs.st.phase = "idle"
            /\ \E t \in Cases :
                 cs' = [st |-> CompressStep(cs.st, t[1], 0, D(t[3]), D(Stream(t[1], t[2], t[3])), "spec"), enc |-> t[2]]

(* the quick tier damages the streams of a few encoders only (the trailer does not depend on the encoder) *)
Damageable == Tier = "thorough" \/ (Tier = "quick" /\ cs.enc \in {"lit60", "copy2", "stored2", "fixed-match"})

FlipTrailerBit == /\ cs.st.phase = "compressed" /\ cs.st.damage = "none" /\ cs.st.codec = "snappy" /\ Damageable
                  /\ \E k \in 1..4 : \E bit \in 0..7 : cs' = [cs EXCEPT !.st = FlipTrailerBitStep(cs.st, k, bit)]

Truncate == /\ cs.st.phase = "compressed" /\ cs.st.damage = "none" /\ cs.st.codec # "null" /\ Damageable
            /\ cs.st.stored.len <= 24
            /\ \E n \in 0..(cs.st.stored.len - 1) : cs' = [cs EXCEPT !.st = TruncateStep(cs.st, n)]

Decompress == /\ cs.st.phase = "compressed"
              /\ LET r == SpecDecompress(cs.st.codec, cs.st.stored.bytes, cs.st.limit) IN
                 cs' = [cs EXCEPT !.st = DecompressStep(cs.st, [ok |-> r.ok, out |-> D(r.out)])]

Next == Compress \/ FlipTrailerBit \/ Truncate \/ Decompress
Spec == Init /\ [][Next]_cs

(* one scenario per undamaged stream, printed when it is first reached *)
Emit == cs.st.phase = "compressed" /\ cs.st.damage = "none"
          => PrintT("SCN " \o ToJson([codec |-> cs.st.codec, enc |-> cs.enc,
                                      plain |-> cs.st.plain.bytes, stream |-> cs.st.stored.bytes]))

(* ---- the property's clauses hold of the specification itself ---- *)
S == cs.st
RoundTrip == RoundTripInv(S)
StreamDenotes == StreamInv(S) /\ NullInv(S)
SnappyTrailer == TrailerInv(S)
Checksum == ChecksumInv(S)
DamagedTrailerRejected == DamagedTrailerInv(S)
Cap == CapInv(S)
FormatAgreement == AgreesWithFormat(S)
(* StreamInv and TrailerInv together say: the framed block denotes the payload *)
FramedDenotes == S.phase # "idle" /\ S.damage = "none" /\ S.codec = "snappy" => Denotes("snappy", S.stored.bytes) = SOk(S.plain.bytes)
(* over the limit is an error (for a producing codec) *)
OverLimitIsError == Done(S) /\ S.codec # "null" /\ S.damage = "none" /\ S.plain.len > S.limit => ~S.res.ok
(* a proper prefix of a deflate stream made by the spec's encoders is not a deflate stream *)
TruncatedDeflateRejected == Done(S) /\ S.codec = "deflate" /\ S.damage = "truncated" => ~S.res.ok
(* the decoders are total: they always return a result record *)
Total == Done(S) => S.res.ok \in BOOLEAN
=============================================================================
