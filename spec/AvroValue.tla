---------------------------- MODULE AvroValue ----------------------------
(***************************************************************************)
(* Value terms (tag t, fixed key set per tag):                             *)
(*  [t|->"null"]  [t|->"boolean", bool|->BOOLEAN]                             *)
(*  [t|-> an IntKind or LongKind, n|->LE8]      (32-bit ones sign-extended) *)
(*  [t|->"float", bits|->4 bytes LE]  [t|->"double", bits|->8 bytes LE]     *)
(*  [t|->"bytes"|"string"|"fixed", b|->bytes]                              *)
(*  [t|->"enum", i|->Nat, sym|->STRING]  [t|->"union", i|->Nat, v|->value]  *)
(*  [t|->"array", items|-><<v..>>]  [t|->"map", entries|-><< <<key,v>>..>>] *)
(*  [t|->"record", fields|-><< <<name,v>>..>>]                             *)
(*  [t|->"decimal", b|->big-endian two's complement]                       *)
(*  [t|->"big-decimal", unscaled|->BE bytes, scale|->LE8]                  *)
(*  [t|->"duration", b|->12 bytes]  [t|->"uuid", b|->16 bytes]             *)
(***************************************************************************)
EXTENDS Bits, AvroSchema

NoValue == [t |-> "none"]

(***************************************************************************)
(* Equality as property C01 states it: floats bit for bit (they are bit    *)
(* patterns here), decimals numerically, maps as functions.                *)
(***************************************************************************)
RECURSIVE VEq(_, _)
VEq(a, b) ==
  IF a.t # b.t THEN FALSE
  ELSE CASE a.t = "array" ->
              Len(a.items) = Len(b.items) /\ \A i \in 1..Len(a.items) : VEq(a.items[i], b.items[i])
         [] a.t = "map" ->
              /\ Len(a.entries) = Len(b.entries)
              /\ \A i \in 1..Len(a.entries) : \E j \in 1..Len(b.entries) :
                    a.entries[i][1] = b.entries[j][1] /\ VEq(a.entries[i][2], b.entries[j][2])
              /\ \A i, j \in 1..Len(b.entries) : b.entries[i][1] = b.entries[j][1] => i = j
         [] a.t = "record" ->
              Len(a.fields) = Len(b.fields)
              /\ \A i \in 1..Len(a.fields) :
                    a.fields[i][1] = b.fields[i][1] /\ VEq(a.fields[i][2], b.fields[i][2])
         [] a.t = "union" -> a.i = b.i /\ VEq(a.v, b.v)
         [] a.t = "decimal" -> BENumEq(a.b, b.b)
         [] a.t = "big-decimal" -> BENumEq(a.unscaled, b.unscaled) /\ a.scale = b.scale
         [] a.t = "none" -> FALSE
         [] OTHER -> a = b

(***************************************************************************)
(* Strict conformance: v is a canonical value of schema s.                 *)
(***************************************************************************)
RECURSIVE Conforms(_, _, _)
Conforms(v, s0, env) ==
  LET s == Deref(s0, env) IN
  CASE s.k = "null" -> v.t = "null"
    [] s.k = "boolean" -> v.t = "boolean"
    [] s.k \in IntKinds -> v.t = s.k /\ IsLE8(v.n) /\ IsI32(v.n)
    [] s.k \in LongKinds -> v.t = s.k /\ IsLE8(v.n)
    [] s.k = "float" -> v.t = "float" /\ Len(v.bits) = 4
    [] s.k = "double" -> v.t = "double" /\ Len(v.bits) = 8
    [] s.k = "bytes" -> v.t = "bytes"
    [] s.k = "string" -> v.t = "string" /\ IsUtf8(v.b)
    [] s.k = "fixed" -> v.t = "fixed" /\ Len(v.b) = s.size
    [] s.k = "enum" -> v.t = "enum" /\ v.i < Len(s.symbols) /\ s.symbols[v.i + 1] = v.sym
    [] s.k = "union" -> v.t = "union" /\ v.i < Len(s.branches)
                        /\ Conforms(v.v, s.branches[v.i + 1], env)
    [] s.k = "array" -> v.t = "array" /\ \A i \in 1..Len(v.items) : Conforms(v.items[i], s.items, env)
    [] s.k = "map" ->
         /\ v.t = "map"
         /\ \A i \in 1..Len(v.entries) :
               IsUtf8(v.entries[i][1]) /\ Conforms(v.entries[i][2], s.values, env)
         /\ \A p, q \in 1..Len(v.entries) : v.entries[p][1] = v.entries[q][1] => p = q
    [] s.k = "record" ->
         /\ v.t = "record"
         /\ Len(v.fields) = Len(s.fields)
         /\ \A i \in 1..Len(s.fields) :
               v.fields[i][1] = s.fields[i].name /\ Conforms(v.fields[i][2], s.fields[i].type, env)
    [] s.k = "decimal" -> v.t = "decimal" /\ (s.base = "fixed" => BEFits(v.b, s.size))
    [] s.k = "uuid" -> v.t = "uuid" /\ Len(v.b) = 16
    [] s.k = "duration" -> v.t = "duration" /\ Len(v.b) = 12
    [] s.k = "big-decimal" -> v.t = "big-decimal" /\ IsLE8(v.scale)
    [] OTHER -> FALSE
=============================================================================
