-------------------------- MODULE Trace_MultiParse --------------------------
(***************************************************************************)
(* Judges recorded executions of Schema::parse_list /                      *)
(* Schema::parse_str_with_list (harness command `avh_c20 run`).            *)
(* One ndjson line = one input set = one step:                             *)
(*                                                                         *)
(*  {ev:"mp", id, form, ins, main,           the scenario (written forms)  *)
(*   texts, maintext, runs,                  what was handed to the crate  *)
(*   obs: [{perm, n, status, res, main, dbg, dbgmain, resolved, err}],     *)
(*        per permutation of the input list (perm[j] = index of the j-th   *)
(*        input handed in) every DISTINCT outcome with its count n;        *)
(*        res = the returned schemas, in the order returned, as terms;     *)
(*        dbg = fingerprints of their complete Debug rendering             *)
(*   dat: [{i, pa, pb, v, enc_ok, wire, dec_ok, dec, panic}]}              *)
(*        value v encoded with schema i of ordering pa, decoded with       *)
(*        schema i of ordering pb (i = 0: the main schema)                 *)
(*                                                                         *)
(* VERDICT LAYER (property C20, literal consequences of the statement):    *)
(*   C20:panic                    no call panics                           *)
(*   C20:outcome-vs-declarative   success <=> all references resolvable and*)
(*                                no full name defined twice, for every    *)
(*                                permutation and every run                *)
(*   C20:result-differs           the schemas come back in input order with*)
(*                                the definitions and references of their  *)
(*                                inputs                                   *)
(*   C20:order-dependent          identical outcome for all permutations   *)
(*                                and all runs                             *)
(*   C20:cross-order-decode       encode with one ordering's schema, decode*)
(*                                with another ordering's: same value      *)
(* A failed clause is KNOWN only if a deviation predicate Dev_* explains   *)
(* that very observation (shape of the input set + the exact deviant       *)
(* outcome); the same failure on any other shape stays a violation, and so *)
(* does any difference between two observations that are both free of      *)
(* deviations.                                                             *)
(*                                                                         *)
(* COVERAGE LAYER (drift): every observed outcome is one of the outcomes   *)
(* reachable in the faithful MultiParse model; new_with_schemata behaves   *)
(* like in-order resolution.                                               *)
(*                                                                         *)
(* WITH THE PROPOSED HOOK (proposed/C20-parser-hook.patch, cargo feature   *)
(* verif-hooks; not needed by this check): the crate reports Pick(name),   *)
(* FetchRef(name, hit) and Register(name, overwrote) to a thread-local sink*)
(* and asks a thread-local oracle which pending input to drain next.  The  *)
(* harness would then (1) replay every pick order TLC explored (the `picks`*)
(* history of MC_MultiParse) instead of repeating calls with fresh hash    *)
(* seeds, and (2) record the events of every call; this module would get a *)
(* second kind of line {ev:"call", picks, log, status, res} judged by      *)
(*    FoldPicks(InitState(scn, "faithful") with trace = TRUE, picks)       *)
(* = the state reached by PickStep along `picks`: its .log (events "pick", *)
(* "fetch" with how = parsed/resolving/input/miss, "register" with how =   *)
(* new/overwrite) must equal the recorded log (coverage layer: the call is *)
(* a behaviour of MultiParse), and the verdict clauses above apply to every*)
(* pick order separately, which turns "order dependence missed with        *)
(* probability < 1e-8" into "no pick order missed".                        *)
(***************************************************************************)
EXTENDS MultiParse, AvroBinary, Json, IOUtils, Known

Rec == ndJsonDeserialize(IOEnv.TRACE)

VARIABLE l

If(c, name) == IF c THEN {} ELSE {name}

(* equality of schema terms, total on anything the harness can record *)
RECURSIVE TermEq(_, _)
TermEq(a, b) ==
  IF a.k # b.k THEN FALSE
  ELSE CASE a.k = "record" ->
              /\ a.name = b.name /\ Len(a.fields) = Len(b.fields)
              /\ \A i \in 1..Len(a.fields) :
                    a.fields[i].name = b.fields[i].name /\ TermEq(a.fields[i].type, b.fields[i].type)
         [] a.k = "enum"  -> a.name = b.name /\ a.symbols = b.symbols
         [] a.k = "fixed" -> a.name = b.name /\ a.size = b.size
         [] a.k = "ref"   -> a.name = b.name
         [] a.k = "array" -> TermEq(a.items, b.items)
         [] a.k = "union" -> /\ Len(a.branches) = Len(b.branches)
                             /\ \A i \in 1..Len(a.branches) : TermEq(a.branches[i], b.branches[i])
         [] a.k = "other" -> FALSE
         [] OTHER -> TRUE

PosIn(p, i) == CHOOSE j \in 1..Len(p) : p[j] = i

(* two observations (possibly of different permutations) agree on the outcome *)
SameOutcome(o1, o2) ==
  /\ o1.status = o2.status
  /\ o1.status = "ok" =>
       /\ Len(o1.res) = Len(o2.res) /\ Len(o1.res) = Len(o1.perm) /\ Len(o2.res) = Len(o2.perm)
       /\ \A i \in 1..Len(o1.perm) : TermEq(o1.res[PosIn(o1.perm, i)], o2.res[PosIn(o2.perm, i)])
       /\ TermEq(o1.main, o2.main)
       (* ... and on everything else the crate keeps in a schema (fingerprint of its Debug rendering) *)
       /\ Len(o1.dbg) = Len(o1.perm) /\ Len(o2.dbg) = Len(o2.perm)
       /\ \A i \in 1..Len(o1.perm) : o1.dbg[PosIn(o1.perm, i)] = o2.dbg[PosIn(o2.perm, i)]
       /\ o1.dbgmain = o2.dbgmain

(* the observation is the outcome r of the model (r.res is in canonical input order) *)
IsOutcome(o, r) ==
  /\ o.status = r.status
  /\ o.status = "ok" =>
       /\ Len(o.res) = Len(r.res) /\ Len(o.res) = Len(o.perm)
       /\ \A i \in 1..Len(o.perm) : TermEq(o.res[PosIn(o.perm, i)], r.res[i])
       /\ TermEq(o.main, r.main)

(* ResolvedSchema::new_with_schemata as documented: resolved in list order, a reference to a   *)
(* later schema is not supported, a second definition of a name is ambiguous                   *)
RECURSIVE InOrder(_, _), InOrderSeq(_, _, _), TypesOf(_, _)
TypesOf(fs, i) == IF i > Len(fs) THEN <<>> ELSE <<fs[i].type>> \o TypesOf(fs, i + 1)
InOrderSeq(ts, i, acc) == IF i > Len(ts) \/ ~acc[2] THEN acc ELSE InOrderSeq(ts, i + 1, InOrder(ts[i], acc))
InOrder(s, acc) ==
  CASE s.k = "record" -> IF s.name \in acc[1] THEN <<acc[1], FALSE>>
                         ELSE InOrderSeq(TypesOf(s.fields, 1), 1, <<acc[1] \cup {s.name}, TRUE>>)
    [] s.k \in {"enum", "fixed"} -> IF s.name \in acc[1] THEN <<acc[1], FALSE>> ELSE <<acc[1] \cup {s.name}, TRUE>>
    [] s.k = "array" -> InOrder(s.items, acc)
    [] s.k = "union" -> InOrderSeq(s.branches, 1, acc)
    [] s.k = "ref" -> <<acc[1], s.name \in acc[1]>>
    [] OTHER -> acc
ResolveModel(form, o) ==
  IF InOrderSeq(IF form = "with" THEN o.res \o <<o.main>> ELSE o.res, 1, <<{}, TRUE>>)[2] THEN "ok" ELSE "err"

(* the name environment of the whole set (only meaningful without duplicates) *)
EnvOf(scn) ==
  LET ds == SetDefs(scn) IN
  TLCEval([nm \in SeqRange(NamesOfSeq(ds)) |-> ds[CHOOSE k \in 1..Len(ds) : ds[k].name = nm]])

(* a null-namespace name written inside a namespaced definition (".N", or a nested "namespace":"") *)
RECURSIVE NullNsT(_, _), NullNsD(_, _)
NullNsT(t, encl) ==
  CASE t.k = "ref" -> t.form = "abs" /\ encl # ""
    [] t.k = "def" -> NullNsD(t.d, encl)
    [] t.k = "array" -> NullNsT(t.items, encl)
    [] t.k = "opt" -> NullNsT(t.t, encl)
    [] OTHER -> FALSE
NullNsD(d, encl) ==
  CASE d.k = "wrap" -> NullNsD(d.inner, encl)
    [] d.k = "record" -> \/ (encl # "" /\ NsOf(d.hdr, encl) = "")
                         \/ \E i \in 1..Len(d.fields) : NullNsT(d.fields[i], NsOf(d.hdr, encl))
    [] OTHER -> encl # "" /\ NsOf(d.hdr, encl) = ""
NullNsInsideNs(scn) ==
  \/ \E i \in 1..Len(scn.ins) : NullNsD(scn.ins[i], "")
  \/ scn.form = "with" /\ NullNsT(scn.main, "")

D1 == "C20-nested-ref-order"
D2 == "C20-nested-dup-overwrite"
D3 == "C20-wrapper-panic"

Judge(e) ==
  LET scn      == [form |-> e.form, ins |-> e.ins, main |-> e.main]
      n        == Len(e.ins)
      exp      == Expect(scn)
      want     == ExpectedResult(scn)
      wantMain == MainMeaning(scn)
      obs      == e.obs
      K        == 1..Len(obs)
      PermOk(o) == Len(o.perm) = n /\ {o.perm[j] : j \in 1..n} = 1..n
      sane     == Len(obs) > 0 /\ \A k \in K : PermOk(obs[k])
  IN
  IF ~sane THEN [fail |-> {"TOOL:malformed-event"}, known |-> {}, drift |-> {}]
  ELSE
  LET ResOk(o) == /\ Len(o.res) = n
                  /\ \A j \in 1..n : TermEq(o.res[j], want[o.perm[j]])
                  /\ TermEq(o.main, wantMain)
      StatusOk(o) == o.status # "panic" /\ (exp = "either" \/ o.status = exp)
      Conf(o) == StatusOk(o) /\ (o.status = "ok" => ResOk(o))
      Clause(o) == IF o.status = "panic" THEN "C20:panic"
                   ELSE IF ~StatusOk(o) THEN "C20:outcome-vs-declarative"
                   ELSE "C20:result-differs"
      (* ---- deviation predicates: shape of the input set + the exact deviant outcome ---- *)
      (* a reference to a type defined only nested inside another input: error where success is due *)
      Dev1(o) == /\ D1 \in KnownIds /\ NestedRefShape(scn)
                 /\ o.status = "err" /\ ShouldSucceed(scn)
      (* a nested definition shares its full name with another definition: accepted, and the entry of *)
      (* an input of that name may be ANY definition of that name in the set                         *)
      Dev2(o) == /\ D2 \in KnownIds /\ NestedDupShape(scn)
                 /\ o.status = "ok" /\ AllRefsResolvable(scn) /\ PrecheckOk(scn, "faithful")
                 /\ Len(o.res) = n
                 /\ \A j \in 1..n :
                       LET w == want[o.perm[j]]  ds == SetDefs(scn) IN
                       \/ TermEq(o.res[j], w)
                       \/ \E k \in 1..Len(ds) : ds[k].name = w.name /\ TermEq(o.res[j], ds[k])
                 /\ TermEq(o.main, wantMain)
      (* an input whose "type" is a definition with another name: panic *)
      (* ... or, when another input refers to the inner name, error although every name is defined *)
      Dev3(o) == /\ D3 \in KnownIds
                 /\ \/ WrapperShape(scn) /\ o.status = "panic"
                    \/ WrapperRefShape(scn) /\ o.status = "err" /\ ShouldSucceed(scn)
      Expl(o) == (IF Dev1(o) THEN {D1} ELSE {}) \cup (IF Dev2(o) THEN {D2} ELSE {}) \cup (IF Dev3(o) THEN {D3} ELSE {})
      bad == {k \in K : ~Conf(obs[k])}
      failObs  == UNION {IF Expl(obs[k]) = {} THEN {Clause(obs[k])} ELSE {} : k \in bad}
      knownObs == UNION {{id \o "|" \o Clause(obs[k]) : id \in Expl(obs[k])} : k \in bad}
      (* ---- determinism over permutations and runs ---- *)
      (* Any two observations must agree.  A difference is KNOWN only if one of the two is itself a       *)
      (* recognised deviant outcome (Expl # {}); two observations that are both free of deviations and    *)
      (* still differ are a violation on every shape of input set.                                        *)
      nondet == \E a \in K : ~SameOutcome(obs[1], obs[a])          \* SameOutcome is an equivalence
      plain  == {k \in K : Expl(obs[k]) = {}}
      failOrder == IF plain # {} /\ (LET c == CHOOSE k \in plain : TRUE IN
                                     \E k \in plain : ~SameOutcome(obs[c], obs[k]))
                   THEN {"C20:order-dependent"} ELSE {}
      knownOrder == IF nondet /\ failOrder = {}
                    THEN {id \o "|C20:order-dependent" : id \in UNION {Expl(obs[k]) : k \in K}} ELSE {}
      failResolve == If(\A k \in K : obs[k].resolved # "panic", "C20:panic")
      (* ---- datum exchange across orderings ---- *)
      allConf == bad = {}
      datFail ==
        IF ~ShouldSucceed(scn) THEN {}
        ELSE LET env == EnvOf(scn) IN
             UNION { LET d == e.dat[k]
                         s == IF d.i = 0 THEN wantMain ELSE want[d.i]
                     IN IF ~Conforms(d.v, s, env)
                        THEN (IF allConf THEN {"TOOL:value-not-conforming"} ELSE {})
                        ELSE If(~d.panic, "C20:panic")
                             \cup If(~d.enc_ok \/ (d.dec_ok /\ VEq(d.dec, d.v)), "C20:cross-order-decode")
                             \cup If(d.enc_ok, "C01:encode-failed")
                             \cup If(~d.enc_ok \/ d.wire = Enc(d.v, s, env), "C02:wire-differs-from-spec")
                   : k \in 1..Len(e.dat) }
      (* ---- coverage layer ---- *)
      reach == AllOutcomes(scn, "faithful")
      (* once the panic is repaired (finding no longer "known"), the faithful model's panic is an error *)
      Adj(r) == IF r.status = "panic" /\ D3 \notin KnownIds THEN OutcomeErr ELSE r
      drift == If(\A k \in K : \E r \in reach : IsOutcome(obs[k], Adj(r)), "outcome-not-in-faithful-model")
               \cup If(\A k \in K : obs[k].status # "ok" \/ obs[k].resolved = "panic"
                                    \/ obs[k].resolved = ResolveModel(e.form, obs[k]),
                       IF NullNsInsideNs(scn) THEN "resolve-requalifies-null-namespace-name"
                       ELSE "resolved-differs-from-in-order-model")
  IN [fail |-> failObs \cup failOrder \cup failResolve \cup datFail,
      known |-> knownObs \cup knownOrder,
      drift |-> drift]

Init == l = 1
Next == /\ l <= Len(Rec)
        /\ LET e == Rec[l]  r == Judge(e) IN
             IF r.fail = {} /\ r.known = {} /\ r.drift = {} THEN TRUE
             ELSE PrintT("VERDICT " \o ToJson([id |-> e.id, fail |-> r.fail, known |-> r.known, drift |-> r.drift]))
        /\ l' = l + 1

Consumed == IF TLCGet("stats").diameter = Len(Rec) + 1 THEN PrintT("CONSUMED " \o ToString(Len(Rec)))
            ELSE PrintT("UNCONSUMED " \o ToString(TLCGet("stats").diameter)) /\ FALSE
=============================================================================
