SPECIFICATION Spec
CONSTANT Mode = "intended"
CONSTANT K = 2
CONSTANT KW = 2
CONSTANT KB = 1
CONSTANT EmitScn = FALSE
INVARIANT MachineMatchesClosedForm
CHECK_DEADLOCK FALSE
