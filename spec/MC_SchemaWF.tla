---------------------------- MODULE MC_SchemaWF ----------------------------
(***************************************************************************)
(* The neighbourhood of valid schemas.  Init picks a seed (a schema that   *)
(* the specification makes well formed); every action is one kind of       *)
(* damage a schema text can suffer.  Each action states which rule it is   *)
(* meant to break (`rs`, may be empty when the verdict depends on where it *)
(* hits); TLC checks                                                       *)
(*   - every seed is WellFormed (verdict "ok", no grey zone touched),      *)
(*   - WF is defined (total) on every tree reachable with <= MaxMut steps, *)
(*   - after ONE targeted mutation the targeted rule is among the violated *)
(*     ones (the transcription detects what the mutation was built to      *)
(*     break),                                                             *)
(* and emits every distinct tree with the predicted verdict as a scenario. *)
(***************************************************************************)
EXTENDS SchemaWF, Json

CONSTANTS MaxMut,        \* mutations applied to ordinary seeds (1)
          Deep,          \* seed indices explored one step deeper
          Wide           \* TRUE: full Retype palette at every node; FALSE: reduced

VARIABLES seed, tree, muts
vars == <<seed, tree, muts>>

(* ---------------- seed constructors ---------------- *)
Fld(n, ty) == O(<< <<"name", S(n)>>, <<"type", ty>> >>)
FldD(n, ty, d) == O(<< <<"name", S(n)>>, <<"type", ty>>, <<"default", d>> >>)
Rec(n, fs) == O(<< <<"type", S("record")>>, <<"name", S(n)>>, <<"fields", JArr(fs)>> >>)
RecNs(n, ns, fs) == O(<< <<"type", S("record")>>, <<"name", S(n)>>, <<"namespace", S(ns)>>, <<"fields", JArr(fs)>> >>)
Fixed(n, z) == O(<< <<"type", S("fixed")>>, <<"name", S(n)>>, <<"size", JInt(z)>> >>)
FixedNs(n, ns, z) == O(<< <<"type", S("fixed")>>, <<"name", S(n)>>, <<"namespace", S(ns)>>, <<"size", JInt(z)>> >>)
Enum(n, ys) == O(<< <<"type", S("enum")>>, <<"name", S(n)>>, <<"symbols", JArr(ys)>> >>)
Arr(x) == O(<< <<"type", S("array")>>, <<"items", x>> >>)
Map(x) == O(<< <<"type", S("map")>>, <<"values", x>> >>)
Un(xs) == JArr(xs)
Ty(p) == O(<< <<"type", S(p)>> >>)
Logical(p, l) == O(<< <<"type", S(p)>>, <<"logicalType", S(l)>> >>)
HiStr == JStr("#c3bf", <<195, 191>>)              \* "ÿ"
WideStr == JStr("#c480", <<196, 128>>)            \* "Ā"

(* the specification's own examples *)
LongList == With(Rec("LongList", <<Fld("value", S("long")), Fld("next", Un(<<S("null"), S("LongList")>>))>>),
                 "aliases", JArr(<<S("LinkedLongs")>>))
Suit == Enum("Suit", <<S("SPADES"), S("HEARTS"), S("DIAMONDS"), S("CLUBS")>>)
Md5 == Fixed("md5", 16)
NamesExample ==
  Rec("Example", <<
    Fld("inheritNull", Enum("Simple", <<S("a"), S("b")>>)),
    Fld("explicitNamespace", FixedNs("Simple", "explicit", 12)),
    Fld("fullName", RecNs("a.full.Name", "ignored", <<
        Fld("inheritNamespace", Enum("Understanding", <<S("d"), S("e")>>))>>))>>)

Seeds == <<
  (* 1-8 primitives and their object form, logical types *)
  S("null"), S("string"), Ty("int"), Ty("bytes"),
  Logical("int", "date"), Logical("string", "uuid"), Logical("boolean", "date"), Logical("long", "no-such-logical-type"),
  (* 9-12 decimal: valid on bytes, valid on fixed, invalid (ignored) *)
  With(With(Logical("bytes", "decimal"), "precision", JInt(4)), "scale", JInt(2)),
  With(With(With(Fixed("D", 8), "logicalType", S("decimal")), "precision", JInt(9)), "scale", JInt(0)),
  With(With(Logical("bytes", "decimal"), "precision", JInt(0)), "scale", JInt(2)),
  With(Fixed("Dur", 12), "logicalType", S("duration")),
  (* 13-18 arrays, maps, unions *)
  Arr(S("long")), Map(S("string")), Arr(Map(Arr(S("int")))),
  Un(<<S("null"), S("string")>>), Un(<<S("int"), Arr(S("int")), Map(S("int")), Fixed("F", 2), Enum("E", <<S("A")>>)>>),
  Un(<<Fixed("F1", 1), Fixed("F2", 1), S("null")>>),
  (* 19-22 the specification's examples *)
  LongList, Suit, Md5, NamesExample,
  (* 23-26 enums and fixed *)
  With(Enum("E", <<S("A"), S("B"), S("_c1")>>), "default", S("B")),
  With(With(Enum("ns.E", <<S("A")>>), "doc", S("an enum")), "aliases", JArr(<<S("Old"), S("other.Old")>>)),
  Fixed("Z", 0), FixedNs("F", "a.b", 4),
  (* 27-30 records: empty, attributes, order, aliases *)
  Rec("R", <<>>),
  With(With(RecNs("R", "ns", <<With(With(With(Fld("a", S("int")), "order", S("descending")), "doc", S("d")), "aliases", JArr(<<S("b")>>))>>),
            "doc", S("a record")), "custom", O(<< <<"x", JArr(<<JInt(1), JNull>>)>> >>)),
  Rec("R", <<With(Fld("a", S("string")), "order", S("ignore")), With(Fld("b", S("long")), "order", S("ascending"))>>),
  With(Rec("R", <<Fld("type", S("int")), Fld("name", S("int"))>>), "aliases", JArr(<<S("Q")>>)),
  (* 31-38 defaults per type *)
  Rec("R", <<FldD("n", S("null"), JNull), FldD("b", S("boolean"), JBool(TRUE)), FldD("i", S("int"), JInt(-7)),
             FldD("l", S("long"), JNumU("9223372036854775807"))>>),
  Rec("R", <<FldD("f", S("float"), JNumU("1.5")), FldD("d", S("double"), JInt(1)), FldD("s", S("string"), S("x y")),
             FldD("y", S("bytes"), HiStr)>>),
  Rec("R", <<FldD("x", Fixed("F", 2), S("ab")), FldD("e", Enum("E", <<S("A"), S("B")>>), S("B"))>>),
  Rec("R", <<FldD("a", Arr(S("int")), JArr(<<JInt(1), JInt(2)>>)), FldD("m", Map(S("string")), O(<< <<"k", S("v")>> >>)),
             FldD("e", Arr(S("int")), JArr(<<>>)), FldD("o", Map(S("int")), O(<<>>))>>),
  Rec("R", <<FldD("u", Un(<<S("null"), S("int")>>), JNull), FldD("v", Un(<<S("string"), S("null")>>), S(""))>>),
  Rec("R", <<FldD("r", Rec("S", <<Fld("x", S("int")), FldD("y", S("string"), S("d"))>>), O(<< <<"x", JInt(1)>> >>))>>),
  Rec("R", <<Fld("f", Fixed("F", 1)), FldD("g", S("F"), HiStr), FldD("h", Arr(S("F")), JArr(<<S("a")>>))>>),
  Rec("R", <<FldD("d", Logical("int", "date"), JInt(0)), FldD("t", Logical("long", "timestamp-millis"), JInt(0)),
             FldD("u", Logical("string", "uuid"), S("x"))>>),
  (* 39-46 names, namespaces, references *)
  RecNs("R", "ns", <<Fld("a", Fixed("F", 1)), Fld("b", S("ns.F")), Fld("c", S("F")), Fld("d", S("ns.R")), Fld("e", Un(<<S("null"), S("R")>>))>>),
  RecNs("R", "ns", <<Fld("a", FixedNs("F", "", 1)), Fld("b", FixedNs("F", "other", 1)), Fld("c", S("other.F"))>>),
  Rec("a.b.R", <<Fld("x", Enum("E", <<S("A")>>)), Fld("y", S("a.b.E")), Fld("z", Rec("c.S", <<Fld("w", S("a.b.E")), Fld("v", Fixed("G", 1))>>)),
                 Fld("u", S("c.G"))>>),
  RecNs("R", "", <<Fld("a", Rec("S", <<Fld("b", Un(<<S("null"), S("R"), S("S")>>))>>))>>),
  Rec("_", <<Fld("_", S("int")), Fld("a1_", Enum("_E9", <<S("_"), S("a_1")>>))>>),
  Arr(Rec("R", <<Fld("a", Arr(S("R"))), Fld("m", Map(S("R")))>>)),
  Map(Un(<<S("null"), Rec("x.R", <<Fld("a", S("long"))>>), Fixed("x.F", 3)>>)),
  Rec("R", <<Fld("a", Rec("A", <<Fld("f", Fixed("F", 1))>>)), Fld("b", Rec("B", <<Fld("g", S("F")), Fld("h", S("A"))>>))>>),
  (* 47-49 a record explicitly in the NULL namespace nested in a namespaced one: its un-namespaced children and short
     references belong to the null namespace, so "Leaf" inside it and "x.Leaf" outside it are different names *)
  Rec("x.Outer", <<Fld("i", RecNs("Inner", "", <<Fld("l", Fixed("Leaf", 1)), Fld("r", S("Leaf"))>>)), Fld("o", Fixed("Leaf", 2)), Fld("p", S("x.Leaf"))>>),
  Rec("x.Outer", <<Fld("t", Fixed("T", 1)), Fld("i", RecNs("Inner", "", <<Fld("r", S("x.T")), Fld("l", Enum("Leaf", <<S("A")>>)), Fld("m", Arr(S("Leaf")))>>))>>),
  RecNs("Outer", "x.y", <<Fld("i", RecNs("Inner", "", <<Fld("j", Rec("Deep", <<Fld("k", Fixed("Leaf", 2))>>)), Fld("d", S("Deep"))>>)), Fld("q", Un(<<S("null"), S("Outer")>>))>>)
>>

SmallSeedIdx == {i \in 1..Len(Seeds) : i \in Deep}

(* ---------------- positions in a tree ---------------- *)
RECURSIVE Nodes(_, _, _, _, _, _)
Nodes(t, p, k, pk, ppk, indef) ==
  {[p |-> p, k |-> k, pk |-> pk, ppk |-> ppk, indef |-> indef, j |-> t.j]} \cup
  CASE t.j = "obj" -> UNION {Nodes(t.kv[i][2], Append(p, i), t.kv[i][1], k, pk, indef \/ t.kv[i][1] = "default") : i \in 1..Len(t.kv)}
    [] t.j = "arr" -> UNION {Nodes(t.items[i], Append(p, i), "[]", k, pk, indef) : i \in 1..Len(t.items)}
    [] OTHER -> {}
AllNodes(t) == Nodes(t, <<>>, "$", "$", "$", FALSE)

RECURSIVE SubAt(_, _), ReplaceAt(_, _, _)
SubAt(t, p) == IF Len(p) = 0 THEN t
               ELSE IF t.j = "obj" THEN SubAt(t.kv[p[1]][2], Tail(p)) ELSE SubAt(t.items[p[1]], Tail(p))
ReplaceAt(t, p, new) ==
  IF Len(p) = 0 THEN new
  ELSE IF t.j = "obj" THEN JObj([t.kv EXCEPT ![p[1]] = <<@[1], ReplaceAt(@[2], Tail(p), new)>>])
  ELSE JArr([t.items EXCEPT ![p[1]] = ReplaceAt(@, Tail(p), new)])
RemoveIdx(q, i) == SubSeq(q, 1, i - 1) \o SubSeq(q, i + 1, Len(q))
SetKey(o, k, v) == IF Has(o, k) THEN JObj([i \in 1..Len(o.kv) |-> IF o.kv[i][1] = k THEN <<k, v>> ELSE o.kv[i]]) ELSE With(o, k, v)

TypePos(n) == ~n.indef /\ (n.k \in {"type", "items", "values", "$"} \/ (n.k = "[]" /\ n.pk \in {"type", "items", "values", "$"}))
IsTypeName(n) == n.j = "str" /\ n.k = "name" /\ ~n.indef /\ ~(n.pk = "[]" /\ n.ppk = "fields")
IsFieldName(n) == n.j = "str" /\ n.k = "name" /\ ~n.indef /\ n.pk = "[]" /\ n.ppk = "fields"
IsField(n) == n.j = "obj" /\ n.k = "[]" /\ n.pk = "fields" /\ ~n.indef

Palette == <<JNull, JBool(TRUE), JInt(0), S("x"), JArr(<<>>), O(<<>>)>>
SmallPalette == <<JNull, JInt(0), S("x")>>
DefaultPalette == <<JNull, JBool(TRUE), JInt(7), JNumU("1.5"), JNumU("2147483648"), JNumU("9223372036854775808"),
                    S("abc"), S(""), WideStr, JArr(<<>>), JArr(<<JBool(TRUE)>>), O(<<>>), O(<< <<"k", JBool(TRUE)>> >>)>>

QuickDefaults == {1, 3, 4, 7, 9, 11, 13}      \* null, 7, 1.5, "abc", "Ā", [true], {"k":true}
(* a mutation = [t: new tree, a: action name, rs: rules of which at least one must be reported] *)
M(t, a, rs) == [t |-> t, a |-> a, rs |-> rs]

DropKeyMs(t) == UNION {{M(ReplaceAt(t, n.p, JObj(RemoveIdx(SubAt(t, n.p).kv, i))), "DropKey", {}) : i \in 1..Len(SubAt(t, n.p).kv)}
                          : n \in {x \in AllNodes(t) : x.j = "obj"}}
RetypeMs(t) == LET pal == IF Wide THEN Palette ELSE SmallPalette IN
               UNION {{M(ReplaceAt(t, n.p, pal[i]), "Retype", {}) : i \in {i \in 1..Len(pal) : pal[i].j # n.j}} : n \in AllNodes(t)}
DupKeyMs(t) == UNION {UNION {{M(ReplaceAt(t, n.p, With(SubAt(t, n.p), SubAt(t, n.p).kv[i][1], IF Wide THEN SubAt(t, n.p).kv[i][2] ELSE JNull)), "DupKey", {}),
                              M(ReplaceAt(t, n.p, With(SubAt(t, n.p), SubAt(t, n.p).kv[i][1], JNull)), "DupKey", {})}
                                : i \in 1..Len(SubAt(t, n.p).kv)} : n \in {x \in AllNodes(t) : x.j = "obj"}}
BadNameMs(t) ==
  UNION {{M(ReplaceAt(t, n.p, S(b)), "BadName", {"bad-name"}) : b \in {"1x", "a-b", "", "a..b", "x."}} : n \in {x \in AllNodes(t) : IsTypeName(x)}}
  \cup UNION {{M(ReplaceAt(t, n.p, S(b)), "BadName", {"bad-field-name"}) : b \in {"1x", "a-b", "", "a.b"}} : n \in {x \in AllNodes(t) : IsFieldName(x)}}
  \cup UNION {{M(ReplaceAt(t, n.p, S(b)), "BadName", {"bad-symbol"}) : b \in {"1a", "a-b", "", "a.b"}}
                : n \in {x \in AllNodes(t) : x.j = "str" /\ x.k = "[]" /\ x.pk = "symbols" /\ ~x.indef}}
  \cup UNION {{M(ReplaceAt(t, n.p, S(b)), "BadName", {}) : b \in {"9", "a..b", ".a"}}
                : n \in {x \in AllNodes(t) : x.j = "str" /\ x.k = "namespace" /\ ~x.indef}}
ExtremeNumberMs(t) ==
  UNION {{M(ReplaceAt(t, n.p, JInt(-1)), "ExtremeNumber", {"size-negative"}),
          M(ReplaceAt(t, n.p, JNumU("1.5")), "ExtremeNumber", {"size-not-integer"}),
          M(ReplaceAt(t, n.p, JNumU("-1.0")), "ExtremeNumber", {"size-negative"})}
         \cup {M(ReplaceAt(t, n.p, JNumU(x)), "ExtremeNumber", {})
                 : x \in {"2147483648", "9223372036854775807", "9223372036854775808", "18446744073709551615", "18446744073709551616", "1e400", "1.0"}}
           : n \in {x \in AllNodes(t) : x.k = "size" /\ ~x.indef}}
Unions(t) == {x \in AllNodes(t) : x.j = "arr" /\ TypePos(x)}
NestUnionMs(t) ==
  UNION {{M(ReplaceAt(t, n.p, JArr(Append(SubAt(t, n.p).items, JArr(<<S("null")>>)))), "NestUnion", {"nested-union"})}
         \cup (IF Len(SubAt(t, n.p).items) > 0
               THEN {M(ReplaceAt(t, Append(n.p, 1), JArr(<<SubAt(t, Append(n.p, 1))>>)), "NestUnion", {"nested-union"})} ELSE {})
           : n \in Unions(t)}
DupBranchMs(t) ==
  UNION {IF Len(SubAt(t, n.p).items) = 0 THEN {}
         ELSE {M(ReplaceAt(t, n.p, JArr(Append(SubAt(t, n.p).items, SubAt(t, n.p).items[1]))), "DupBranch",
                 {"duplicate-union-branch-kind", "duplicate-union-named-branch"})} : n \in Unions(t)}
DupFieldMs(t) ==
  UNION {LET fs == SubAt(t, n.p).items IN
         IF Len(fs) = 0 \/ fs[1].j # "obj" \/ ~Has(fs[1], "name") THEN {}
         ELSE {M(ReplaceAt(t, n.p, JArr(Append(fs, O(<< <<"name", Get(fs[1], "name")>>, <<"type", S("int")>> >>)))), "DupField", {"duplicate-field-name"})}
           : n \in {x \in AllNodes(t) : x.j = "arr" /\ x.k = "fields" /\ ~x.indef}}
DupSymbolMs(t) ==
  UNION {LET ys == SubAt(t, n.p).items IN
         IF Len(ys) = 0 THEN {} ELSE {M(ReplaceAt(t, n.p, JArr(Append(ys, ys[1]))), "DupSymbol", {"duplicate-symbol"})}
           : n \in {x \in AllNodes(t) : x.j = "arr" /\ x.k = "symbols" /\ ~x.indef}}
BadDefaultMs(t) ==
  UNION {LET f == SubAt(t, n.p) IN
         {M(ReplaceAt(t, n.p, SetKey(f, "default", DefaultPalette[i])), "BadDefault", {})
            : i \in {i \in 1..Len(DefaultPalette) : (Wide \/ i \in QuickDefaults) /\ ~(Has(f, "default") /\ Get(f, "default") = DefaultPalette[i])}}
           : n \in {x \in AllNodes(t) : IsField(x)}}
DanglingMs(t) ==
  UNION {{M(ReplaceAt(t, n.p, S(b)), "Dangling", {"dangling-reference"}) : b \in {"Undefined", "no.such.Name"}}
           : n \in {x \in AllNodes(t) : x.j = "str" /\ TypePos(x)}}
DupFullNameMs(t) ==
  LET names == WF(t).names IN
  UNION {UNION {LET nm == IF HasDot(F) THEN SubSeq(F, LastDot(F) + 1, Len(F)) ELSE F
                    ns == IF HasDot(F) THEN SubSeq(F, 1, LastDot(F) - 1) ELSE <<>>
                    fx == O(<< <<"type", S("fixed")>>, <<"name", S(StrOfU(nm))>>, <<"namespace", S(StrOfU(ns))>>, <<"size", JInt(2)>> >>)
                IN {M(ReplaceAt(t, n.p, JArr(Append(SubAt(t, n.p).items, Fld("zz9", fx)))), "DupFullName", {"duplicate-fullname"})}
                  : F \in names}
           : n \in {x \in AllNodes(t) : x.j = "arr" /\ x.k = "fields" /\ ~x.indef}}
BadEnumDefaultMs(t) ==
  UNION {{M(ReplaceAt(t, n.p, SetKey(SubAt(t, n.p), "default", S("Zzz"))), "BadEnumDefault", {"enum-default-not-symbol"}),
          M(ReplaceAt(t, n.p, SetKey(SubAt(t, n.p), "default", JInt(1))), "BadEnumDefault", {"enum-default-not-string"})}
           : n \in {x \in AllNodes(t) : x.j = "obj" /\ ~x.indef /\ Has(SubAt(t, x.p), "symbols")}}

(* ---------------- the state machine ---------------- *)
Budget == IF seed \in Deep THEN MaxMut + 1 ELSE MaxMut
Apply(ms) == /\ Len(muts) < Budget
             /\ \E m \in ms : m.t # tree /\ tree' = m.t /\ muts' = Append(muts, [a |-> m.a, rs |-> m.rs]) /\ UNCHANGED seed

Init == seed \in 1..Len(Seeds) /\ tree = Seeds[seed] /\ muts = <<>>

DropKey == Apply(DropKeyMs(tree))
Retype == Apply(RetypeMs(tree))
DupKey == Apply(DupKeyMs(tree))
BadName == Apply(BadNameMs(tree))
ExtremeNumber == Apply(ExtremeNumberMs(tree))
NestUnion == Apply(NestUnionMs(tree))
DupBranch == Apply(DupBranchMs(tree))
DupField == Apply(DupFieldMs(tree))
DupSymbol == Apply(DupSymbolMs(tree))
BadDefault == Apply(BadDefaultMs(tree))
Dangling == Apply(DanglingMs(tree))
DupFullName == Apply(DupFullNameMs(tree))
BadEnumDefault == Apply(BadEnumDefaultMs(tree))

Next == DropKey \/ Retype \/ DupKey \/ BadName \/ ExtremeNumber \/ NestUnion \/ DupBranch \/ DupField \/ DupSymbol
        \/ BadDefault \/ Dangling \/ DupFullName \/ BadEnumDefault
Spec == Init /\ [][Next]_vars
View == tree

(* ---------------- model sanity + scenario emission (one evaluation of WF per state) ---------------- *)
Sane ==
  LET W == WF(tree) IN
  /\ IF Len(muts) = 0 /\ ~(W.bad = {} /\ W.grey \subseteq {"default-under-logical-type"})
     THEN PrintT(<<"SANITY seed not well formed", seed, W.bad, W.grey>>) /\ FALSE ELSE TRUE
  /\ IF W.verdict \notin {"ok", "bad", "grey"} THEN PrintT(<<"SANITY verdict undefined", seed, muts>>) /\ FALSE ELSE TRUE
  /\ IF Len(muts) = 1 /\ muts[1].rs # {} /\ muts[1].rs \cap W.bad = {}
     THEN PrintT(<<"SANITY targeted rule not reported", seed, muts, W>>) /\ FALSE ELSE TRUE
  /\ IF Len(muts) = 1 /\ muts[1].a = "DupKey" /\ "duplicate-json-key" \notin W.grey
     THEN PrintT(<<"SANITY duplicate key not noticed", seed, muts, W>>) /\ FALSE ELSE TRUE
  /\ PrintT("SCN " \o ToJson([seed |-> seed, muts |-> [i \in 1..Len(muts) |-> muts[i].a], tree |-> tree,
                               pred |-> W.verdict, prule |-> W.bad, pgrey |-> W.grey]))

(* ---------------- the specification's literal examples ---------------- *)
NameSet(ss) == {U(x) : x \in ss}
ASSUME WF(LongList).verdict = "ok" /\ WF(Suit).verdict = "ok" /\ WF(Md5).verdict = "ok"
ASSUME WF(Un(<<S("null"), S("string")>>)).verdict = "ok"
ASSUME LET W == WF(NamesExample) IN
         W.verdict = "ok" /\ W.names = NameSet({"Example", "Simple", "explicit.Simple", "a.full.Name", "a.full.Understanding"})
\* "Unions may not contain more than one schema with the same type, except for the named types"
ASSUME "duplicate-union-branch-kind" \in WF(Un(<<S("int"), S("int")>>)).bad
ASSUME "duplicate-union-branch-kind" \in WF(Un(<<Arr(S("int")), Arr(S("long"))>>)).bad
ASSUME WF(Un(<<Fixed("A", 1), Fixed("B", 1)>>)).verdict = "ok"
\* "Unions may not immediately contain other unions"
ASSUME "nested-union" \in WF(Un(<<S("int"), Un(<<S("null")>>)>>)).bad
\* a name must be defined before it is used
ASSUME "dangling-reference" \in WF(Rec("R", <<Fld("a", S("F")), Fld("b", Fixed("F", 1))>>)).bad
ASSUME WF(Rec("R", <<Fld("b", Fixed("F", 1)), Fld("a", S("F"))>>)).verdict = "ok"
\* ["null","string"] default must match the first branch (<= 1.11) or the first matching one (1.12)
ASSUME WF(Rec("R", <<FldD("a", Un(<<S("null"), S("string")>>), JNull)>>)).verdict = "ok"
ASSUME WF(Rec("R", <<FldD("a", Un(<<S("null"), S("string")>>), S("x"))>>)).verdict = "grey"
ASSUME WF(Rec("R", <<FldD("a", Un(<<S("null"), S("string")>>), JInt(1))>>)).verdict = "bad"
\* "ÿ" is the default of a bytes / fixed field; code points above 255 are not bytes
ASSUME WF(Rec("R", <<FldD("a", S("bytes"), HiStr)>>)).verdict = "ok"
ASSUME "default-bytes-codepoint-above-255" \in WF(Rec("R", <<FldD("a", S("bytes"), WideStr)>>)).bad
ASSUME "default-fixed-wrong-length" \in WF(Rec("R", <<FldD("a", Fixed("F", 2), S("abc"))>>)).bad
\* number literals
ASSUME IntLitInRange(U("2147483647"), 32) /\ ~IntLitInRange(U("2147483648"), 32) /\ IntLitInRange(U("-2147483648"), 32)
ASSUME IntLitInRange(U("9223372036854775807"), 64) /\ ~IntLitInRange(U("9223372036854775808"), 64) /\ IntLitInRange(U("-9223372036854775808"), 64)
ASSUME NumFracNonZero(U("1.5")) /\ ~NumFracNonZero(U("1.0")) /\ NumExotic(U("1e400")) /\ ~NumExotic(U("1e10"))
\* names
ASSUME SimpleName(U("_a1")) /\ ~SimpleName(U("1a")) /\ ~SimpleName(U("")) /\ ~SimpleName(U("a-b"))
ASSUME DottedName(U("a.b.C")) /\ ~DottedName(U("a..C")) /\ ~DottedName(U(".C")) /\ ~DottedName(U("a."))
=============================================================================
