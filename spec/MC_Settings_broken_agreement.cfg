\* the named deviation check-then-set (SpecBroken): TLC must find the counterexample to Agreement
SPECIFICATION SpecBroken
CONSTANT Model = "mv"
CONSTANT Threads <- MCThreads
CONSTANT Cells <- MCCells
CONSTANT MaxOps = 1
CONSTANT KeepHistory = TRUE
CONSTANT OpsOf <- MCOpsOf
INVARIANT Agreement
CHECK_DEADLOCK FALSE
