--------------------------- MODULE MC_DeriveModel ---------------------------
(***************************************************************************)
(* A bounded universe of Rust type definitions (field types x container /  *)
(* variant / field attributes x small type graphs).  For each scenario TLC *)
(* checks that the documented derive is coherent with the documented serde *)
(* mapping - the expected schema is well formed as far as names go, a      *)
(* second walk gives the same schema, every value of the type (TermsOf of  *)
(* its serde representation) denotes a conforming Avro value under it -    *)
(* and emits the scenario (definitions, expected schema, values) for the   *)
(* glue to render as Rust and for the harness to execute.                  *)
(***************************************************************************)
EXTENDS DeriveModel, Json

CONSTANT Tier            \* "quick" | "thorough"

VARIABLES scn, phase
vars == <<scn, phase>>

S1(defs) == [defs |-> defs, root |-> defs[1].id]

W(x) == <<x>>
VTasty == <<"very", "tasty">>
MyField == <<"my", "field">>

(* ---- G1: field types ---- *)
ScalarFT == {FS(y) : y \in ScalarCalls \ {"bytes"}}
Wrapped(S) == {FOpt(t) : t \in S} \cup {FVec(t) : t \in S} \cup {FMap(t) : t \in S} \cup {FBox(t) : t \in S}
CoreFT == {FS("bool"), FS("i32"), FS("i64"), FS("str"), FS("f64"), FS("u64")}
FieldTypes1 ==
  ScalarFT \cup Wrapped(CoreFT) \cup {[f |-> "uuid"], FOpt([f |-> "uuid"]), FVec([f |-> "uuid"])}
  \cup {FOpt(FVec(FS("i32"))), FVec(FOpt(FS("str"))), FMap(FVec(FS("i64"))), FVec(FVec(FS("u8"))), FOpt(FBox(FS("i32"))),
        FBox(FOpt(FS("str"))), FVec(FMap(FS("bool"))), FOpt(FMap(FS("i32"))), FVec(FS("u64")), FMap(FS("u128"))}
  \cup {FArr(0, FS("i32")), FArr(1, FS("i32")), FArr(2, FS("i32")), FArr(3, FS("str")), FArr(2, FS("bool")), FArr(1, FOpt(FS("i64")))}
FDur == [f |-> "stdduration"]
(* std::time::Duration is a record that itself contains the named fixed u64: every order of first uses *)
DurShapes == { <<Fld0(W("a"), FDur), Fld0(W("b"), FS("i32"))>>,
               <<Fld0(W("a"), FS("u64")), Fld0(W("b"), FDur)>>,
               <<Fld0(W("a"), FDur), Fld0(W("b"), FS("u64"))>>,
               <<Fld0(W("a"), FDur), Fld0(W("b"), FOpt(FDur))>>,
               <<Fld0(W("a"), FVec(FS("u64"))), Fld0(W("b"), FOpt(FDur)), Fld0(W("c"), FS("u64"))>> }
G1 == {S1(<<StructD("Rec", <<Fld0(W("a"), ft), Fld0(MyField, FS("i32"))>>)>>) : ft \in FieldTypes1}
GD == {S1(<<StructD("Rec", fs)>>) : fs \in DurShapes}


(* ---- G2: container attributes on a struct ---- *)
Base2 == StructD("Rec", <<Fld0(VTasty, FS("i32")), Fld0(W("id"), FS("str")), Fld0(W("z42"), FOpt(FS("i64")))>>)
G2 == {S1(<<d>>) : d \in
        {[Base2 EXCEPT !.rename = "Other"], [Base2 EXCEPT !.ns = "ns.sub"], [Base2 EXCEPT !.doc = "A record."],
         [Base2 EXCEPT !.aliases = <<"OldRec">>], [Base2 EXCEPT !.rename = "Other", !.ns = "ns"],
         [Base2 EXCEPT !.doc = "Doc", !.aliases = <<"A1", "A2">>, !.ns = "x"]}
        \cup {[Base2 EXCEPT !.rename_all = r] : r \in Rules}
        \cup {[Base2 EXCEPT !.rename_all = r, !.ns = "ns"] : r \in {"camelCase", "SCREAMING_SNAKE_CASE"}}}

(* ---- G3: field attributes ---- *)
InnerD == StructD("Inner", <<Fld0(W("x"), FS("i32")), Fld0(<<"kind">>, FS("str"))>>)
FA3(fd) == StructD("Rec", <<fd, Fld0(W("z42"), FS("i32"))>>)
AttrFields ==
  LET a(t) == Fld0(VTasty, t) IN
  { [a(FS("i32")) EXCEPT !.rename = "renamed"], [a(FS("i32")) EXCEPT !.aliases = <<"old_name">>],
    [a(FS("i32")) EXCEPT !.doc = "A field."], [a(FS("i32")) EXCEPT !.default = "i42"],
    [a(FS("str")) EXCEPT !.default = "sdflt"], [a(FS("bool")) EXCEPT !.default = "btrue"],
    [a(FS("f64")) EXCEPT !.default = "d15"], [a(FS("i64")) EXCEPT !.default = "lm7"],
    [a(FOpt(FS("i32"))) EXCEPT !.default = "false"], [a(FOpt(FS("i32"))) EXCEPT !.default = "onull"],
    [a(FVec(FS("i32"))) EXCEPT !.default = "a12"], [a(FVec(FS("str"))) EXCEPT !.default = "aempty"],
    [a(FMap(FS("i32"))) EXCEPT !.default = "mempty"],
    [a(FS("i32")) EXCEPT !.skip = "skip"], [a(FOpt(FS("str"))) EXCEPT !.skip = "skip"],
    [a(FS("i32")) EXCEPT !.skip = "ser", !.default = "i42"], [a(FS("str")) EXCEPT !.skip = "ser", !.default = "sdflt"],
    [a(FOpt(FS("i32"))) EXCEPT !.skip = "ser"],
    [a(FOpt(FS("i32"))) EXCEPT !.skip = "ifnone"], [a(FOpt(FS("str"))) EXCEPT !.skip = "ifnone", !.default = "onull"],
    [a(FOpt(FVec(FS("i32")))) EXCEPT !.skip = "ifnone"],
    [a(FS("i32")) EXCEPT !.rename = "renamed", !.aliases = <<"old_name">>, !.doc = "Both."],
    [a(FS("i32")) EXCEPT !.rename = "type"] }
G3 == {S1(<<FA3(fd)>>) : fd \in AttrFields}
      \* two attributes per item: a field attribute under a container rename_all
      \cup {S1(<<[FA3(fd) EXCEPT !.rename_all = r]>>) :
              fd \in {[Fld0(VTasty, FS("i32")) EXCEPT !.rename = "renamed"], [Fld0(VTasty, FOpt(FS("i32"))) EXCEPT !.skip = "ifnone"],
                      [Fld0(VTasty, FS("i32")) EXCEPT !.skip = "skip"], [Fld0(VTasty, FS("i32")) EXCEPT !.aliases = <<"old_name">>]},
              r \in {"camelCase", "PascalCase", "SCREAMING_SNAKE_CASE"}}
      \* flatten
      \cup {S1(<<StructD("Rec", <<Fld0(W("a"), FS("i32")), [Fld0(W("rest"), FNamed("Inner")) EXCEPT !.flatten = TRUE]>>), InnerD>>),
            S1(<<StructD("Rec", <<[Fld0(W("rest"), FNamed("Inner")) EXCEPT !.flatten = TRUE], Fld0(W("z42"), FOpt(FS("i64")))>>), InnerD>>),
            S1(<<[StructD("Rec", <<Fld0(MyField, FS("i32")), [Fld0(W("rest"), FNamed("Inner")) EXCEPT !.flatten = TRUE]>>)
                    EXCEPT !.rename_all = "camelCase"], InnerD>>)}

(* ---- G4: enums ---- *)
PlainVs == <<Var0(W("red"), "unit", <<>>), Var0(<<"dark", "blue">>, "unit", <<>>), Var0(W("z42"), "unit", <<>>)>>
Plain == EnumD("Color", PlainVs)
MixedVs == <<Var0(W("one"), "unit", <<>>), Var0(<<"two">>, "newtype", <<Fld0(<<>>, FS("i32"))>>),
             Var0(<<"my", "item">>, "tuple", <<Fld0(<<>>, FS("i32")), Fld0(<<>>, FS("str"))>>),
             Var0(<<"dark", "blue">>, "struct", <<Fld0(VTasty, FS("i64")), Fld0(W("b"), FOpt(FS("str")))>>)>>
Mixed == EnumD("Shape", MixedVs)
BareVs == <<Var0(W("one"), "unit", <<>>), Var0(<<"two">>, "newtype", <<Fld0(<<>>, FS("i32"))>>),
            Var0(<<"item">>, "newtype", <<Fld0(<<>>, FS("str"))>>),
            Var0(<<"dark", "blue">>, "struct", <<Fld0(VTasty, FS("i64"))>>)>>
Bare == [EnumD("Bare", BareVs) EXCEPT !.repr = "bare_union"]
(* identifiers with adjacent capitals (XYItem, KindAB, ABKind): serde starts a new word at EVERY capital *)
AcrVs == <<Var0(W("one"), "unit", <<>>), Var0(<<"x", "y", "item">>, "unit", <<>>), Var0(<<"kind", "a", "b">>, "unit", <<>>)>>
Acr == EnumD("Proto", AcrVs)
AcrMixedVs == <<Var0(W("one"), "unit", <<>>),
                Var0(<<"a", "b", "kind">>, "struct", <<Fld0(VTasty, FS("i64"))>>),
                Var0(<<"x", "y">>, "newtype", <<Fld0(<<>>, FS("i32"))>>)>>
AcrMixed == EnumD("Frame", AcrMixedVs)
SkipAt(d, i) == [d EXCEPT !.variants[i].skip = TRUE]
G4 == {S1(<<d>>) : d \in
        {Plain, [Plain EXCEPT !.repr = "enum"], [Plain EXCEPT !.rename = "Colour", !.ns = "ns"],
         [Plain EXCEPT !.variants[2].rename = "navy"], SkipAt(Plain, 1), SkipAt(Plain, 2), SkipAt(Plain, 3),
         [Plain EXCEPT !.doc = "Colours.", !.aliases = <<"Hue">>]}
        \cup {[Plain EXCEPT !.rename_all = r] : r \in Rules}
        \cup {Mixed, [Mixed EXCEPT !.repr = "union_of_records"], [Plain EXCEPT !.repr = "union_of_records"],
              SkipAt(Mixed, 1), SkipAt(Mixed, 2), SkipAt(Mixed, 4),
              [Mixed EXCEPT !.variants[2].rename = "Second"], [Mixed EXCEPT !.variants[4].rename_all = "camelCase"],
              [Mixed EXCEPT !.ns = "ns"]}
        \cup {[Mixed EXCEPT !.rename_all = r] : r \in {"lowercase", "snake_case", "camelCase", "SCREAMING_SNAKE_CASE"}}
        \cup {[Mixed EXCEPT !.rename_all_fields = r] : r \in {"camelCase", "PascalCase", "UPPERCASE"}}
        \cup {Acr, AcrMixed} \cup {[Acr EXCEPT !.rename_all = r] : r \in Rules}
        \cup {[AcrMixed EXCEPT !.rename_all = r] : r \in {"snake_case", "SCREAMING_SNAKE_CASE", "camelCase"}}
        \cup {Bare, SkipAt(Bare, 1), [Bare EXCEPT !.rename_all = "snake_case"], [Bare EXCEPT !.rename_all_fields = "camelCase"]}}

(* ---- G5: nesting of derived types ---- *)
NestIn(ft, extra) == S1(<<StructD("Outer", <<Fld0(W("a"), ft), Fld0(W("id"), FS("i32"))>>)>> \o extra)
G5 == {NestIn(ft, <<InnerD>>) : ft \in {FNamed("Inner"), FOpt(FNamed("Inner")), FVec(FNamed("Inner")), FMap(FNamed("Inner")),
                                        FBox(FNamed("Inner")), FOpt(FBox(FNamed("Inner"))), FVec(FOpt(FNamed("Inner"))),
                                        FArr(1, FNamed("Inner"))}}
      \cup {NestIn(ft, <<Plain>>) : ft \in {FNamed("Color"), FOpt(FNamed("Color")), FVec(FNamed("Color")), FMap(FNamed("Color"))}}
      \cup {NestIn(ft, <<Mixed>>) : ft \in {FNamed("Shape"), FVec(FNamed("Shape")), FMap(FNamed("Shape"))}}
      \cup {NestIn(FNamed("Bare"), <<Bare>>), NestIn(FVec(FNamed("Bare")), <<Bare>>)}
      \* rename_all + skip + a nested enum inside an Option
      \cup {S1(<<[StructD("Outer", <<[Fld0(VTasty, FS("i32")) EXCEPT !.skip = "skip"], Fld0(MyField, FOpt(FNamed("Color"))),
                                     [Fld0(W("kind"), FOpt(FNamed("Inner"))) EXCEPT !.skip = "ifnone"]>>)
                    EXCEPT !.rename_all = r], [Plain EXCEPT !.rename_all = "SCREAMING_SNAKE_CASE"], InnerD>>)
              : r \in {"camelCase", "PascalCase"}}

(* ---- G6: type graphs (<= 4 named types): chains, diamonds, recursion, namespaces ---- *)
A1(fs) == StructD("A", fs)
B1(fs) == StructD("B", fs)
C1(fs) == StructD("C", fs)
Leaf == StructD("Leaf", <<Fld0(W("x"), FS("i32"))>>)
G6 ==
  { \* chain A -> B -> C -> Leaf
    S1(<<A1(<<Fld0(W("b"), FNamed("B"))>>), B1(<<Fld0(W("c"), FVec(FNamed("C")))>>),
         C1(<<Fld0(W("kids"), FOpt(FNamed("Leaf")))>>), Leaf>>),
    \* diamonds: the same type in two fields / through two paths
    S1(<<A1(<<Fld0(W("left"), FNamed("Leaf")), Fld0(W("right"), FNamed("Leaf"))>>), Leaf>>),
    S1(<<A1(<<Fld0(W("left"), FOpt(FNamed("Leaf"))), Fld0(W("right"), FVec(FNamed("Leaf"))), Fld0(W("rest"), FMap(FNamed("Leaf")))>>), Leaf>>),
    S1(<<A1(<<Fld0(W("b"), FNamed("B")), Fld0(W("c"), FNamed("C"))>>), B1(<<Fld0(W("x"), FNamed("Leaf"))>>),
         C1(<<Fld0(W("y"), FNamed("Leaf"))>>), Leaf>>),
    S1(<<A1(<<Fld0(W("a"), FS("u64")), Fld0(W("b"), FS("u64")), Fld0(W("c"), FOpt(FS("u64")))>>)>>),
    S1(<<A1(<<Fld0(W("a"), [f |-> "uuid"]), Fld0(W("b"), [f |-> "uuid"])>>)>>),
    S1(<<A1(<<Fld0(W("left"), FNamed("Color")), Fld0(W("right"), FNamed("Color"))>>), Plain>>),
    S1(<<A1(<<Fld0(W("left"), FNamed("Shape")), Fld0(W("right"), FNamed("Shape"))>>), Mixed>>),
    S1(<<A1(<<Fld0(W("left"), FNamed("Bare")), Fld0(W("right"), FNamed("Bare"))>>), Bare>>),
    S1(<<A1(<<Fld0(W("left"), FArr(2, FS("i32"))), Fld0(W("right"), FArr(2, FS("i32")))>>)>>),
    \* self recursion through Option<Box<_>>, Vec<_>, HashMap
    S1(<<A1(<<Fld0(W("x"), FS("i32")), Fld0(W("next"), FOpt(FBox(FNamed("A"))))>>)>>),
    S1(<<A1(<<Fld0(W("kids"), FVec(FNamed("A")))>>)>>),
    S1(<<A1(<<Fld0(W("kids"), FMap(FNamed("A"))), Fld0(W("next"), FOpt(FBox(FNamed("A"))))>>)>>),
    \* mutual recursion
    S1(<<A1(<<Fld0(W("b"), FOpt(FBox(FNamed("B"))))>>), B1(<<Fld0(W("kids"), FVec(FNamed("A")))>>)>>),
    \* flatten of a type that is also used as a field (after / before)
    S1(<<A1(<<[Fld0(W("rest"), FNamed("Leaf")) EXCEPT !.flatten = TRUE], Fld0(W("left"), FNamed("Leaf"))>>), Leaf>>),
    S1(<<A1(<<Fld0(W("left"), FNamed("Leaf")), [Fld0(W("rest"), FNamed("B")) EXCEPT !.flatten = TRUE]>>),
         B1(<<Fld0(W("y"), FNamed("Leaf"))>>), Leaf>>),
    S1(<<A1(<<[Fld0(W("rest"), FNamed("B")) EXCEPT !.flatten = TRUE], Fld0(W("left"), FNamed("Leaf"))>>),
         B1(<<Fld0(W("y"), FNamed("Leaf"))>>), Leaf>>),
    \* namespaces: inherited by nested types, overridden, same type under two namespaces
    S1(<<[A1(<<Fld0(W("b"), FNamed("B")), Fld0(W("c"), FNamed("Color"))>>) EXCEPT !.ns = "ns"],
         B1(<<Fld0(W("x"), FNamed("Leaf"))>>), Leaf, Plain>>),
    S1(<<[A1(<<Fld0(W("b"), FNamed("B")), Fld0(W("x"), FNamed("Leaf"))>>) EXCEPT !.ns = "ns"],
         [B1(<<Fld0(W("x"), FNamed("Leaf"))>>) EXCEPT !.ns = "other"], Leaf>>),
    S1(<<[A1(<<Fld0(W("b"), FNamed("Shape"))>>) EXCEPT !.ns = "ns"], Mixed>>),
    S1(<<A1(<<Fld0(W("b"), FNamed("B"))>>), [B1(<<Fld0(W("x"), FNamed("Leaf"))>>) EXCEPT !.ns = "deep.ns"], Leaf>>) }

(* ---- G7: other struct shapes ---- *)
G7 ==
  { S1(<<TupleD("Pair", <<FS("u16"), FS("str")>>)>>), S1(<<TupleD("Wrap", <<FS("i64")>>)>>),
    S1(<<TupleD("Three", <<FS("i32"), FOpt(FS("str")), FVec(FS("bool"))>>)>>), S1(<<UnitD("Nothing")>>),
    S1(<<StructD("Empty", <<>>)>>),
    S1(<<[TupleD("Pair", <<FS("u16"), FS("str")>>) EXCEPT !.ns = "ns", !.doc = "A pair."]>>),
    NestIn(FNamed("Pair"), <<TupleD("Pair", <<FS("u16"), FS("str")>>)>>),
    NestIn(FNamed("Wrap"), <<TupleD("Wrap", <<FS("i64")>>)>>), NestIn(FNamed("Nothing"), <<UnitD("Nothing")>>),
    \* transparent
    S1(<<[StructD("Trans", <<Fld0(W("inner"), FS("i32"))>>) EXCEPT !.transparent = TRUE]>>),
    NestIn(FNamed("Trans"), <<[StructD("Trans", <<Fld0(W("inner"), FOpt(FS("str")))>>) EXCEPT !.transparent = TRUE]>>),
    NestIn(FNamed("Trans"), <<[StructD("Trans", <<[Fld0(W("x"), FS("i32")) EXCEPT !.skip = "skip"], Fld0(W("inner"), FNamed("Inner"))>>)
                                  EXCEPT !.transparent = TRUE], InnerD>>),
    NestIn(FVec(FNamed("Trans")), <<[StructD("Trans", <<Fld0(W("inner"), FNamed("Color"))>>) EXCEPT !.transparent = TRUE], Plain>>) }

Tag(S, g) == {[defs |-> sc.defs, root |-> sc.root, grp |-> g] : sc \in S}
(* [T; N] whose element type reaches a named type only through a container: the fields after field_0 must refer *)
GA == {S1(<<StructD("Rec", <<Fld0(W("a"), FArr(2, ft))>>), InnerD>>)
         : ft \in {FNamed("Inner"), FMap(FNamed("Inner")), FVec(FNamed("Inner")), FOpt(FNamed("Inner"))}}
      \cup {S1(<<StructD("Rec", <<Fld0(W("a"), FArr(3, FMap(FNamed("Inner")))), Fld0(W("b"), FNamed("Inner"))>>), InnerD>>)}
Scenarios == Tag(GA, "GD") \cup Tag(GD, "GD") \cup Tag(G1, "G1") \cup Tag(G2, "G2") \cup Tag(G3, "G3") \cup Tag(G4, "G4") \cup Tag(G5, "G5")
             \cup Tag(G6, "G6") \cup Tag(G7, "G7")

(* ---- values ---- *)
RECURSIVE TakeSome(_, _)
TakeSome(S, n) == IF n = 0 \/ S = {} THEN <<>> ELSE LET x == CHOOSE y \in S : TRUE IN <<x>> \o TakeSome(S \ {x}, n - 1)

RootTy(sc) == TyOf(sc.defs, FNamed(sc.root), <<>>)
Exp(sc) == ExpectedSchema(sc.defs, sc.root)
ValsOf(sc) == TakeSome(TermsOf(RootTy(sc), Tier = "thorough"), IF Tier = "thorough" THEN 8 ELSE 4)

(* the default menu, for the renderer *)
ASSUME PrintT("MENU " \o ToJson(DefMenu))

Init == scn \in Scenarios /\ phase = "start"
Emit == /\ phase = "start"
        /\ PrintT("SCN " \o ToJson([defs |-> scn.defs, root |-> scn.root, grp |-> scn.grp, exp |-> Exp(scn), vals |-> ValsOf(scn)]))
        /\ phase' = "done" /\ UNCHANGED scn
Next == Emit
Spec == Init /\ [][Next]_vars

(* ---- properties of the documented derive ---- *)
ExpectedNamesWellFormed == NamesWellFormed(Exp(scn))
ExpectedUnionsWellFormed == UnionsWellFormed(Exp(scn))
(* a second walk (fresh `named`) gives the same schema; a walk inside another type refers back *)
Deterministic == SchemaCtx(scn.defs, FNamed(scn.root), {}, "") = SchemaCtx(scn.defs, FNamed(scn.root), {}, "")
SecondUseIsRef ==
  LET first == SchemaCtx(scn.defs, FNamed(scn.root), {}, "")
      again == SchemaCtx(scn.defs, FNamed(scn.root), first.named, "") IN
  first.s.k \in {"record", "enum"} => again.s = [k |-> "ref", name |-> first.s.name] /\ again.named = first.named
HasValues == ValsOf(scn) # <<>>
(* every value of the type's serde representation denotes a conforming value under the expected schema *)
(* ... except where the derive is incoherent with the mapping by construction: a union-shaped enum with a skipped
   variant in front of a live one - serde numbers ALL variants, the union only has the live ones, and "the index
   of the union variant must match the enum variant" *)
ShiftedUnionEnum(defs) ==
  \E k \in 1..Len(defs) : LET d == defs[k] IN
     d.kind = "enum" /\ EffRepr(d) # "enum"
     /\ \E i, j \in 1..Len(d.variants) : i < j /\ d.variants[i].skip /\ ~d.variants[j].skip
ValuesDenote ==
  ShiftedUnionEnum(scn.defs) \/
  LET s == Exp(scn)  env == Defs(s)  vs == ValsOf(scn) IN
  \A i \in 1..Len(vs) : LET av == ToAvro(vs[i], s, env) IN IsDef(av) /\ Conforms(av, s, env)
=============================================================================
