---------------------------- MODULE Trace_Serde ----------------------------
(***************************************************************************)
(* Judges recorded executions of the schema-aware serde writer / reader    *)
(* and of the generic-value route (harness command `serde-run`), property  *)
(* C16.  One ndjson line = one subject (a serde term, or a value of a real *)
(* Rust type projected to its term) under one schema, written with every   *)
(* target block size.                                                      *)
(*                                                                         *)
(* Verdict layer: literal consequences of the property statement.          *)
(* Drift: implementation shape (which layout the writer chose, ...).       *)
(* Known: failures explained exactly by a named deviation Dev_<id>.        *)
(***************************************************************************)
EXTENDS SerdeModel, Known, Json, IOUtils

Rec == ndJsonDeserialize(IOEnv.TRACE)

VARIABLE l

If(c, name) == IF c THEN {} ELSE {name}

(***************************************************************************)
(* Named deviations of the pinned tree (known_findings.json, known/C16).   *)
(***************************************************************************)
(* all nodes of a term, as a sequence *)
RECURSIVE NodeSeq(_)
RECURSIVE NodeSeqOf(_, _)
NodeSeqOf(q, i) == IF i > Len(q) THEN <<>> ELSE NodeSeq(q[i]) \o NodeSeqOf(q, i + 1)
NodeSeq(sv) ==
  <<sv>> \o
  CASE sv.c \in {"some", "newtype_struct", "newtype_variant"} -> NodeSeq(sv.v)
    [] sv.c \in {"seq", "tuple", "tuple_struct", "tuple_variant"} -> NodeSeqOf(sv.items, 1)
    [] sv.c = "map" -> NodeSeqOf([i \in 1..Len(sv.entries) |-> sv.entries[i][2]], 1)
    [] sv.c \in {"struct", "structmap", "struct_variant"} -> NodeSeqOf([i \in 1..Len(sv.fields) |-> sv.fields[i][2]], 1)
    [] OTHER -> <<>>
HasNode(sv, P(_)) == LET q == NodeSeq(sv) IN \E i \in 1..Len(q) : P(q[i])

(* C16-structmap-count: a record written map-style with an announced length n returns
   (bytes written + n): serialize_map passes the length hint as the initial byte count *)
IsHintedStructMap(x) == x.c = "structmap" /\ x.hint
HintOf(x) == IF IsHintedStructMap(x) THEN Len(SelectSeq(x.fields, LAMBDA f : f[2].c # "skip")) ELSE 0
HintSum(sv) == LET q == NodeSeq(sv)
                   RECURSIVE S(_) S(i) == IF i = 0 THEN 0 ELSE HintOf(q[i]) + S(i - 1)
               IN S(Len(q))
Dev_StructMapCount(e, r) ==
  "C16-structmap-count" \in KnownIds /\ r.ser.ok
  /\ HasNode(e.sv, IsHintedStructMap) /\ r.ser.n = Len(r.ser.wire) + HintSum(e.sv)

(* C16-struct-variant-skip: a struct variant with a field skipped (skip_serializing_if) announces fewer
   fields than the record has and is refused, although the record has a default for the field *)
IsShortStructVariant(x) == x.c = "struct_variant" /\ \E i \in 1..Len(x.fields) : x.fields[i][2].c = "skip"
Dev_StructVariantSkip(e, r) ==
  "C16-struct-variant-skip" \in KnownIds /\ ~r.ser.ok /\ ~r.ser.panic
  /\ HasNode(e.sv, IsShortStructVariant)

(* C16-one-tuple-of-option: a 1-tuple whose element is an Option (schema = the element's union) is refused:
   the element is handed to the union serializer, which rejects none/some as "nested union" *)
IsOneTupleOfOption(x) == x.c = "tuple" /\ Len(x.items) = 1 /\ x.items[1].c \in {"none", "some"}
Dev_OneTupleOption(e, r) ==
  "C16-one-tuple-of-option" \in KnownIds /\ ~r.ser.ok /\ ~r.ser.panic /\ HasNode(e.sv, IsOneTupleOfOption)

(* C16-bytes-default-utf8: the default of a skipped top-level bytes field holding code points above 127 is
   written as the UTF-8 text of the JSON string (one byte per code point is what the default denotes) *)
Utf8OfLatin1(b) == FlattenSeq([i \in 1..Len(b) |-> IF b[i] < 128 THEN <<b[i]>> ELSE <<192 + (b[i] \div 64), 128 + (b[i] % 64)>>])
HighDefaultFields(e) ==
  IF e.s.k # "record" \/ e.sv.c \notin {"struct", "structmap"} THEN {}
  ELSE {i \in 1..Len(e.s.fields) :
          /\ HasDef(e.s.fields[i]) /\ e.s.fields[i].type.k = "bytes"
          /\ \E j \in 1..Len(e.s.fields[i].def.b) : e.s.fields[i].def.b[j] >= 128
          /\ \A j \in 1..Len(e.sv.fields) : FieldPos(e.s, e.sv.fields[j][1]) = i => e.sv.fields[j][2].c = "skip"}
WithUtf8Defaults(e, av) ==
  [av EXCEPT !.fields = [i \in 1..Len(av.fields) |->
     IF i \in HighDefaultFields(e) THEN <<av.fields[i][1], [t |-> "bytes", b |-> Utf8OfLatin1(av.fields[i][2].b)]>>
     ELSE av.fields[i]]]
Dev_BytesDefaultUtf8(e, av, v) ==
  "C16-bytes-default-utf8" \in KnownIds /\ HighDefaultFields(e) # {} /\ v.t = "record" /\ VEq(v, WithUtf8Defaults(e, av))

(* C16-alias-generic-route: a struct key that is a field alias makes to_value -> resolve fail *)
UsesAlias(e) ==
  e.s.k = "record" /\ e.sv.c = "struct"
  /\ \E j \in 1..Len(e.sv.fields) : \A i \in 1..Len(e.s.fields) : e.s.fields[i].name # e.sv.fields[j][1]
Dev_AliasGenericRoute(e) == "C16-alias-generic-route" \in KnownIds /\ UsesAlias(e) /\ ~e.r2.ok /\ ~e.r2.panic

(* the block size setting only matters where the schema has an array or a map: only then all four are run *)
RECURSIVE SchemaHasBlocks(_)
SchemaHasBlocks(s) ==
  CASE s.k \in {"array", "map"} -> TRUE
    [] s.k = "union" -> \E i \in 1..Len(s.branches) : SchemaHasBlocks(s.branches[i])
    [] s.k = "record" -> \E i \in 1..Len(s.fields) : SchemaHasBlocks(s.fields[i].type)
    [] OTHER -> FALSE

(***************************************************************************)
(* One run = one target block size.                                        *)
(***************************************************************************)
JudgeRun(e, r, env, av, nsv, hinted) ==
  LET wire == r.ser.wire
      P    == ParseAll(wire, e.s, env)
      backdef == r.de.ok /\ IsDef(ToAvro(r.de.back, e.s, env))
      raw ==
        If(r.ser.ok, "C16:serialize-failed")
        \cup If(~(r.ser.panic \/ r.de.panic \/ r.gen.panic), "C16:panic")
        \cup (IF ~r.ser.ok THEN {} ELSE
              If(P.ok, "C16:bytes-not-one-datum")
              \cup If(~P.ok \/ Conforms(P.v, e.s, env), "C16:bytes-not-conforming")
              \cup If(~P.ok \/ VEq(P.v, av), "C16:bytes-denote-another-value")
              \cup If(r.ser.n = Len(wire), "C16:returned-count-differs")
              \cup If(r.de.ok, "C16:deserialize-failed")
              \cup If(~r.de.ok \/ (backdef /\ TermEq(Norm(r.de.back, e.s, env), nsv)),
                      "C16:deserialized-value-differs")
              \cup If(~r.de.ok \/ r.de.consumed = Len(wire), "C16:deserializer-consumed-differs")
              \cup If(r.gen.ok, "C16:generic-decoder-rejects")
              \cup If(~r.gen.ok \/ r.gen.consumed = Len(wire), "C16:generic-decoder-consumed-differs")
              \cup If(~r.gen.ok \/ Conforms(r.gen.v, e.s, env), "C16:generic-decoded-not-conforming")
              \cup If(~r.gen.ok \/ VEq(r.gen.v, av), "C02:generic-decoded-value-differs"))
      known ==
        (IF "C16:returned-count-differs" \in raw /\ Dev_StructMapCount(e, r)
         THEN {"C16-structmap-count|C16:returned-count-differs"} ELSE {})
        \cup (IF "C16:serialize-failed" \in raw /\ Dev_StructVariantSkip(e, r)
              THEN {"C16-struct-variant-skip|C16:serialize-failed"} ELSE {})
        \cup (IF "C16:serialize-failed" \in raw /\ Dev_OneTupleOption(e, r)
              THEN {"C16-one-tuple-of-option|C16:serialize-failed"} ELSE {})
        \cup (IF r.ser.ok /\ P.ok /\ "C16:bytes-denote-another-value" \in raw /\ Dev_BytesDefaultUtf8(e, av, P.v)
              THEN {"C16-bytes-default-utf8|C16:bytes-denote-another-value"}
                   \* the reader then faithfully returns what was written
                   \cup (IF r.de.ok /\ IsDef(ToAvro(r.de.back, e.s, env)) /\ VEq(ToAvro(r.de.back, e.s, env), P.v)
                         THEN {"C16-bytes-default-utf8|C16:deserialized-value-differs"} ELSE {})
                   \cup (IF r.gen.ok /\ VEq(r.gen.v, P.v)
                         THEN {"C16-bytes-default-utf8|C02:generic-decoded-value-differs"} ELSE {})
              ELSE {})
      explained == {c \in raw : \E k \in known : \E id \in KnownIds : k = id \o "|" \o c}
      drift ==
        IF r.ser.ok /\ P.ok /\ VEq(P.v, av)
        THEN If(wire = EncB(av, e.s, env, [t |-> r.t, hint |-> hinted]), "layout-not-as-modelled")
        ELSE {}
  IN [fail |-> raw \ explained, known |-> known, drift |-> drift]

(***************************************************************************)
(* The generic-value route, on the fragment where the two mappings         *)
(* coincide.                                                               *)
(***************************************************************************)
JudgeRoute2(e, env, av, nsv) ==
  IF ~(Coincides(e.sv) /\ CoincidesAt(e.sv, e.s, env)) THEN [fail |-> {}, known |-> {}, drift |-> {}]
  ELSE
  LET r1 == e.runs[1]
      Pa == ParseAll(r1.ser.wire, e.s, env)
      Pb == ParseAll(e.r2.wire, e.s, env)
      fvdef == e.fv.ok /\ IsDef(ToAvro(e.fv.back, e.s, env))
      raw ==
        If(~(e.r2.panic \/ e.fv.panic), "C16:panic")
        \cup If(e.r2.ok, "C16:generic-route-write-failed")
        \cup If(~(e.r2.ok /\ r1.ser.ok) \/ (Pa.ok /\ Pb.ok /\ VEq(Pa.v, Pb.v)), "C16:generic-route-bytes-differ")
        \cup If(~r1.ser.ok \/ e.fv.ok, "C16:from-value-failed")
        \cup If(~e.fv.ok \/ (fvdef /\ TermEq(Norm(e.fv.back, e.s, env), nsv)),
                "C16:from-value-differs")
      known ==
        (IF "C16:generic-route-write-failed" \in raw /\ Dev_AliasGenericRoute(e)
         THEN {"C16-alias-generic-route|C16:generic-route-write-failed"} ELSE {})
        \cup (IF "C16:from-value-differs" \in raw /\ Pa.ok /\ Dev_BytesDefaultUtf8(e, av, Pa.v)
                 /\ fvdef /\ VEq(ToAvro(e.fv.back, e.s, env), Pa.v)
              THEN {"C16-bytes-default-utf8|C16:from-value-differs"} ELSE {})
      explained == {c \in raw : \E k \in known : \E id \in KnownIds : k = id \o "|" \o c}
  IN [fail |-> raw \ explained, known |-> known, drift |-> {}]

Judge(e) ==
  IF ~e.parse_ok THEN [fail |-> {"TOOL:schema-not-accepted"}, known |-> {}, drift |-> {}]
  ELSE IF ~e.build_ok THEN [fail |-> {"TOOL:corpus-value-not-built"}, known |-> {}, drift |-> {}]
  ELSE
  LET env == Defs(e.s)
      av  == ToAvro(e.sv, e.s, env)
  IN
  IF ~IsDef(av)
  THEN \* outside the documented mapping: nothing is promised; only note what happened
       [fail |-> If(e.corpus = "", "TOOL:corpus-value-outside-mapping"), known |-> {},
        drift |-> UNION {If(~e.runs[i].ser.ok, "accepted-outside-the-mapping")
                         \cup If(~e.runs[i].ser.panic, "panic-outside-the-mapping") : i \in 1..Len(e.runs)}]
  ELSE
  LET hinted == Hinted(e.sv)
      nsv == TLCEval(Norm(e.sv, e.s, env))
      rs == [i \in 1..Len(e.runs) |-> JudgeRun(e, e.runs[i], env, av, nsv, hinted)]
      r2 == JudgeRoute2(e, env, av, nsv)
  IN [fail  |-> UNION {rs[i].fail : i \in 1..Len(rs)} \cup r2.fail
                \cup If(Len(e.runs) = (IF SchemaHasBlocks(e.s) THEN 4 ELSE 1), "TOOL:runs-missing"),
      known |-> UNION {rs[i].known : i \in 1..Len(rs)} \cup r2.known,
      drift |-> UNION {rs[i].drift : i \in 1..Len(rs)} \cup r2.drift
                \cup If(e.repr_same, "corpus-type-serializes-differently-from-the-model")]

Init == l = 1
Next == /\ l <= Len(Rec)
        /\ LET e == Rec[l]  r == Judge(e) IN
             IF r.fail = {} /\ r.drift = {} /\ r.known = {} THEN TRUE
             ELSE PrintT("VERDICT " \o ToJson([id |-> e.id, fail |-> r.fail, known |-> r.known, drift |-> r.drift]))
        /\ l' = l + 1

Consumed == IF TLCGet("stats").diameter = Len(Rec) + 1 THEN PrintT("CONSUMED " \o ToString(Len(Rec)))
            ELSE PrintT("UNCONSUMED " \o ToString(TLCGet("stats").diameter)) /\ FALSE
=============================================================================
