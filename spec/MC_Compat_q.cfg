SPECIFICATION Spec
CONSTANT EnumTier = "quick"
INVARIANT WellFormed
INVARIANT ValuesConform
INVARIANT ReadsItself
CHECK_DEADLOCK FALSE
