SPECIFICATION Spec
CONSTANTS
  MaxMut = 1
  Deep = {1, 2, 3, 5, 13, 14, 16, 20, 21, 25, 27}
  Wide = TRUE
INVARIANT Sane
VIEW View
CHECK_DEADLOCK FALSE
