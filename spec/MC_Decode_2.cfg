SPECIFICATION Spec
CONSTANT MaxLen = 2
INVARIANT DecodedConforms
INVARIANT ReencodeStable
INVARIANT PositionSane
CHECK_DEADLOCK FALSE
