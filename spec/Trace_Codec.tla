---------------------------- MODULE Trace_Codec ----------------------------
(***************************************************************************)
(* Judges recorded executions of the real codec layer (harness binary      *)
(* avh_c15 + reference readings added by bin/lib/refcodec.py).  One ndjson *)
(* line = one event.  Every event is turned into a run of the Codec        *)
(* machine (CompressStep / RefReadStep / damage steps / DecompressStep)    *)
(* whose `stored` and `res` are what the library really produced, and the  *)
(* machine's invariants -- the clauses of property C15 -- are evaluated on *)
(* it.  The oracle for snappy, raw deflate (when the bytes are recorded:   *)
(* `full`), CRC-32 and the metadata is the TLA+ transcription; for bzip2 / *)
(* xz (and large deflate blocks) it constrains the reading of the          *)
(* reference decompressor; zstandard has no reference on this image.       *)
(***************************************************************************)
EXTENDS Codec, Json, IOUtils, Known

Rec == ndJsonDeserialize(IOEnv.TRACE)

VARIABLE l

If(c, name) == IF c THEN {} ELSE {name}
Dat(full, bytes, len, sha) == [full |-> full, bytes |-> IF full THEN bytes ELSE <<>>, len |-> len, sha |-> sha]
Res(ok, out) == [ok |-> ok, out |-> out]

StreamClause(c) == CASE c = "deflate" -> "C15:deflate-not-raw-rfc1951-denoting-input"
                     [] c = "snappy" -> "C15:snappy-block-not-denoting-input"
                     [] OTHER -> "C15:null-codec-not-identity"

(* name of the coverage-layer mismatch when the library accepted bytes that do not denote its output *)
FormatDrift(s) ==
  IF s.codec = "deflate" /\ s.stored.full /\ s.res.out.full
     /\ (LET r == InflateFull(s.stored.bytes) IN r.ok /\ r.out = s.res.out.bytes /\ r.bytes < s.stored.len)
  THEN "deflate-bytes-after-the-final-block-ignored"
  ELSE "accepts-what-the-format-does-not-denote"

AllStored(y) == LET r == InflateFull(y) IN r.ok /\ \A i \in 1..Len(r.types) : r.types[i] = 0

(* ---- rt: Compress(x, c, level) then Decompress, reference decompressor reading the block ---- *)
JudgeRt(e) ==
  LET c == e.codec
      plain == Dat(e.full, e.input, e.in_len, e.in_sha)
      stored == Dat(e.full /\ e.c_ok, e.comp, e.comp_len, e.comp_sha)
      ref == [avail |-> e.ref_avail, ok |-> e.ref_ok, out |-> Dat(e.full /\ e.ref_ok, e.ref_out, e.ref_len, e.ref_sha)]
      s1 == RefReadStep(CompressStep(Fresh(e.limit), c, e.level, plain, stored, "library"), ref)
      s2 == DecompressStep(s1, Res(e.d_ok, Dat(e.full /\ e.d_ok, e.out, e.out_len, e.out_sha)))
      rt == RoundTripInv(s2)
      st == StreamInv(s1)
      tr == TrailerInv(s1)
      tool == If(c \in CodecNames /\ e.level \in Levels(c), "TOOL:codec-or-level-outside-the-model")
              \cup If(~e.full \/ (Len(e.input) = e.in_len /\ (e.c_ok => Len(e.comp) = e.comp_len)), "TOOL:recorded-lengths")
              \* there is no snappy reference: up to 120 000 bytes the bytes must be there for the TLA+ decoder
              \* (beyond, only the round trip is decided: the sequence-rebuilding decoder is quadratic in TLC)
              \cup If(c # "snappy" \/ e.full \/ e.in_len > 120000, "TOOL:snappy-event-without-bytes")
              \cup If(~e.c_ok \/ (e.ref_avail <=> c \in ReferenceCodecs), "TOOL:reference-reading-missing")
      fail == If(e.c_ok, "C15:compress-failed") \cup If(~(e.c_panic \/ e.d_panic), "C15:panic")
              \cup (IF ~e.c_ok THEN {} ELSE
                    If(rt, IF e.d_ok THEN "C15:roundtrip-differs" ELSE "C15:roundtrip-decompress-failed")
                    \cup If(st /\ NullInv(s1), StreamClause(c))
                    \cup If(tr, "C15:snappy-trailer-not-BE-CRC32-of-input")
                    \cup If(ReferenceInv(s1), IF e.ref_ok THEN "C15:reference-decoder-reads-other-data"
                                                          ELSE "C15:reference-decoder-rejects-library-stream")
                    \cup If(CapInv(s2), "C15:output-larger-than-limit")
                    \cup If((rt /\ tr) \/ ChecksumInv(s2), "C15:snappy-checksum-not-verified"))
      drift == If(~e.c_ok \/ (rt /\ st /\ tr) \/ AgreesWithFormat(s2), FormatDrift(s2))
               \cup If(~(c = "deflate" /\ e.level = 0 /\ e.full /\ e.c_ok) \/ AllStored(e.comp), "deflate-level-0-not-stored-blocks")
  IN [fail |-> tool \cup fail, drift |-> drift]

(* ---- foreign: a stream made by the spec's encoders or by a reference compressor ---- *)
JudgeForeign(e) ==
  LET c == e.codec
      plain == Dat(e.full, e.plain, e.plain_len, e.plain_sha)
      stored == Dat(e.full, e.stream, e.stream_len, "")
      s1 == CompressStep(Fresh(e.limit), c, 0, plain, stored, e.origin)
      s2 == DecompressStep(s1, Res(e.d_ok, Dat(e.full /\ e.d_ok, e.out, e.out_len, e.out_sha)))
      who == IF e.origin = "spec" THEN "spec-made" ELSE "reference-made"
      tool == If(e.origin \in {"spec", "reference"} /\ c \in CodecNames, "TOOL:foreign-origin")
              \cup If(~(e.full /\ c \in SpecifiedCodecs) \/ Denotes(c, e.stream) = SOk(e.plain),
                      "TOOL:foreign-stream-does-not-denote-its-plain-text")
              \cup If(e.full \/ e.origin = "reference" \/ c = "null", "TOOL:spec-made-stream-without-bytes")
      fail == If(~e.d_panic, "C15:panic")
              \cup If(RoundTripInv(s2), IF e.d_ok THEN "C15:" \o who \o "-stream-decoded-differently"
                                                  ELSE "C15:" \o who \o "-stream-rejected")
              \cup If(CapInv(s2), "C15:output-larger-than-limit")
  IN [fail |-> tool \cup fail, drift |-> {}]

(* ---- corrupt: Compress, damage, Decompress ---- *)
JudgeCorrupt(e) ==
  LET c == e.codec
      s1 == CompressStep(Fresh(e.limit), c, e.level, D(e.input), D(e.comp), "library")
      s2 == CASE e.kind = "flip" -> FlipTrailerBitStep(s1, e.k, e.bit)
              [] e.kind = "flipany" -> FlipAnyBitStep(s1, e.k, e.bit)
              [] e.kind = "trunc" -> TruncateStep(s1, e.n)
      s3 == DecompressStep(s2, Res(e.d_ok, D(e.out)))
      tool == If(e.kind \in {"flip", "flipany", "trunc"}, "TOOL:unknown-damage")
              \cup If(s2.stored.bytes = e.damaged, "TOOL:damage-differs-from-the-spec-step")
      fail == If(~e.d_panic, "C15:panic")
              \cup If(DamagedTrailerInv(s3), "C15:wrong-snappy-checksum-accepted")
              \cup If(ChecksumInv(s3), "C15:snappy-checksum-not-verified")
              \cup If(CapInv(s3), "C15:output-larger-than-limit")
      drift == If(AgreesWithFormat(s3), FormatDrift(s3))
               \* bzip2 and xz streams carry CRCs (raw deflate and the crate's zstandard frames do not)
               \cup If(c \notin {"bzip2", "xz"} \/ ~e.d_ok \/ e.out = e.input, "checksummed-stream-damaged-yet-decoded-to-other-data")
  IN \* a cut or flip position beyond the compressed length does not apply: nothing to judge
     IF ~e.applied THEN [fail |-> {}, drift |-> {}] ELSE [fail |-> tool \cup fail, drift |-> drift]

(* ---- hostile: arbitrary bytes / bombs under a low allocation limit ---- *)
JudgeHostile(e) ==
  LET c == e.codec
      stored == Dat(e.has_stream, e.stream, e.stream_len, "")
      s1 == CompressStep(Fresh(e.limit), c, 0, Digest(e.denotes_len, "?"), stored, "hostile")
      s2 == DecompressStep(s1, Res(e.d_ok, Dat(e.has_out, e.out, e.out_len, e.out_sha)))
      tool == If(e.made_ok, "TOOL:bomb-not-made")
      fail == If(~e.d_panic, "C15:panic")
              \cup If(CapInv(s2), "C15:output-larger-than-limit")
              \cup If(ChecksumInv(s2), "C15:snappy-checksum-not-verified")
      drift == If(AgreesWithFormat(s2), FormatDrift(s2))
               \cup If(~(e.d_ok /\ c # "null" /\ e.denotes_len > e.limit /\ e.out_len <= e.limit),
                       "over-limit-stream-accepted-with-short-output")
  IN [fail |-> tool \cup fail, drift |-> drift]

(* ---- file: Writer with codec + level -> container file -> splitter, Reader ---- *)
RECURSIVE RawBlock(_, _)
RawBlock(vals, i) == IF i > Len(vals) THEN <<>> ELSE LongOfNat(Len(vals[i])) \o vals[i] \o RawBlock(vals, i + 1)

JudgeFile(e) ==
  LET c == e.codec
      raw == RawBlock(e.values, 1)                         \* the block data: Avro `bytes` datums
      m == [has_codec |-> e.has_codec, codec |-> e.meta_codec,
            level |-> IF e.has_level /\ Len(e.meta_level) = 1 THEN e.meta_level[1] ELSE NoLevel]
      cm == CodecOfMeta(m)
      ref == [avail |-> e.ref_avail, ok |-> e.ref_ok, out |-> D(e.ref_out)]
      s1 == RefReadStep(CompressStep(Fresh(e.limit), c, e.level, D(raw), D(e.payload), "library"), ref)
      tool == If(c \in CodecNames /\ e.level \in Levels(c) /\ Len(e.values) > 0, "TOOL:codec-or-level-outside-the-model")
              \* the harness' own splitter must cope with every file the crate's Reader can read
              \cup If(~e.w_ok \/ (e.split_ok /\ e.sync_ok) \/ ~e.r_ok, "TOOL:container-splitter")
              \cup If(~e.w_ok \/ (e.ref_avail <=> c \in ReferenceCodecs), "TOOL:reference-reading-missing")
      one == e.w_ok /\ e.split_ok /\ e.nblocks = 1
      fail == If(e.w_ok, "C15:file-write-failed") \cup If(~e.r_panic, "C15:panic")
              \cup If(~e.w_ok \/ (e.r_ok /\ e.r_values = e.values), "C15:file-roundtrip")
              \cup (IF ~(e.w_ok /\ e.split_ok) THEN {} ELSE
                    If(cm.ok /\ cm.codec = c, "C15:header-codec-name")
                    \cup If(~one \/ StreamInv(s1), StreamClause(c))
                    \cup If(~one \/ TrailerInv(s1), "C15:snappy-trailer-not-BE-CRC32-of-input")
                    \cup If(~one \/ ReferenceInv(s1), IF e.ref_ok THEN "C15:reference-decoder-reads-other-data"
                                                                 ELSE "C15:reference-decoder-rejects-library-stream"))
      drift == If(~(e.w_ok /\ e.split_ok) \/ e.nblocks = 1, "file-not-one-block")
               \cup If(~(e.w_ok /\ e.split_ok /\ cm.ok) \/ ~LevelRecorded(c) \/ cm.level = e.level, "header-compression-level")
               \cup If(~(e.w_ok /\ e.split_ok) \/ m = MetaOf(c, e.level), "header-metadata-shape")
               \cup If(~one \/ e.count = Len(e.values), "block-count")
  IN [fail |-> tool \cup fail, drift |-> drift]

(* ---- ffile: a container file laid out by a foreign writer with a reference codec -> Reader ---- *)
JudgeFfile(e) ==
  [fail |-> If(~e.r_panic, "C15:panic")
            \cup If(e.r_ok /\ e.r_values = e.values, IF e.r_ok THEN "C15:reference-made-file-read-differently"
                                                               ELSE "C15:reference-made-file-rejected"),
   drift |-> {}]

Judge(e) ==
  CASE e.ev = "rt" -> JudgeRt(e)
    [] e.ev = "foreign" -> JudgeForeign(e)
    [] e.ev = "corrupt" -> JudgeCorrupt(e)
    [] e.ev = "hostile" -> JudgeHostile(e)
    [] e.ev = "file" -> JudgeFile(e)
    [] e.ev = "ffile" -> JudgeFfile(e)
    [] OTHER -> [fail |-> {"TOOL:unknown-event"}, drift |-> {}]

(* known deviations of the unchanged tree (ids from known_findings.json); none recorded for C15 *)
KnownOf(e, fail) == {}

Init == l = 1
Next == /\ l <= Len(Rec)
        /\ LET e == Rec[l]  r == Judge(e)  k == KnownOf(e, r.fail) IN
             IF r.fail = {} /\ r.drift = {} THEN TRUE
             ELSE PrintT("VERDICT " \o ToJson([id |-> e.id, fail |-> r.fail \ {x[2] : x \in k}, known |-> {x[1] \o "|" \o x[2] : x \in k},
                                               drift |-> r.drift]))
        /\ l' = l + 1

Consumed == IF TLCGet("stats").diameter = Len(Rec) + 1 THEN PrintT("CONSUMED " \o ToString(Len(Rec)))
            ELSE PrintT("UNCONSUMED " \o ToString(TLCGet("stats").diameter)) /\ FALSE
=============================================================================
