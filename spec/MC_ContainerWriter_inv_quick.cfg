SPECIFICATION MCSpec
CONSTANTS
  Ids <- MCIds
  Size <- MCSize
  Keys <- MCKeys
  BlockSizes = {0, 5, 12, 1000}
  MaxOps = 4
VIEW View
INVARIANT Prefix
INVARIANT PendingAccounted
INVARIANT ClosedReadBack
INVARIANT HeaderOnce
INVARIANT HeaderIffWritten
INVARIANT MetaFrozen
INVARIANT OneMarker
INVARIANT NoEmptyBlock
INVARIANT BufBytesConsistent
INVARIANT BlockSizeRespected
PROPERTY MCNoTrace
CHECK_DEADLOCK FALSE
