//! avh_c17 — executions of the generated corpus of derived types (C17).
//! The four `part*` crates are generated (bin/lib/c_derive.py); each defines `REGISTRY`.
fn main() {
    let mut all: Vec<(&str, avro_verif_harness::c17::Runner)> = vec![];
    all.extend_from_slice(avro_verif_corpus_c17_part0::REGISTRY);
    all.extend_from_slice(avro_verif_corpus_c17_part1::REGISTRY);
    all.extend_from_slice(avro_verif_corpus_c17_part2::REGISTRY);
    all.extend_from_slice(avro_verif_corpus_c17_part3::REGISTRY);
    std::process::exit(avro_verif_harness::c17::main_with(&all));
}
