//! One quarter of the generated corpus of C17.  `generated.rs` (next to Cargo.toml, git-ignored) is
//! rendered by bin/lib/c_derive.py on every check run from the definitions TLC emitted.
#![allow(dead_code, unused_imports, non_camel_case_types)]
include!(concat!(env!("CARGO_MANIFEST_DIR"), "/generated.rs"));
