//! A dynamic value of the Serde data model (`SV`), used by C16/C17.
//!
//! * `SV::from_term` / `to_term`: the TLA+ serde terms of spec/SerdeModel.tla.
//! * `impl Serialize for SV`: issues exactly the Serializer call sequence the term describes.
//! * `Seed` (`DeserializeSeed`): a type-directed read shaped by a term (the deserialize_* method
//!   a Rust type of that shape would call); what the visitor receives is rebuilt as a term.
//!   `Seed(None)` reads self-describingly (`deserialize_any`).
//! * `Capture` (`Serializer`): projects any `T: Serialize` to the term of the calls it makes.
//! * `SvDe` (`Deserializer`): builds any `T: Deserialize` from a term.
//!
//! Nothing here judges anything: terms go to the TLA+ trace specification.

use crate::term::{bytes_j, j_bytes, le8, j_i64, small};
use serde::de::{self, DeserializeSeed, Deserializer, EnumAccess, MapAccess, SeqAccess, VariantAccess, Visitor};
use serde::ser::{self, Serialize, SerializeMap, SerializeSeq, SerializeStruct, SerializeStructVariant,
                 SerializeTuple, SerializeTupleStruct, SerializeTupleVariant, Serializer};
use serde_json::{Value as J, json};
use std::collections::HashMap;
use std::fmt;
use std::sync::Mutex;

#[derive(Clone, Debug)]
pub enum SV {
    Bool(bool),
    I8(i8), I16(i16), I32(i32), I64(i64),
    U8(u8), U16(u16), U32(u32), U64(u64),
    I128(i128), U128(u128),
    F32(f32), F64(f64),
    Char(char), Str(String), Bytes(Vec<u8>),
    None, Some(Box<SV>), Unit,
    UnitStruct(&'static str),
    UnitVariant { name: &'static str, idx: u32, variant: &'static str },
    NewtypeStruct(&'static str, Box<SV>),
    NewtypeVariant { name: &'static str, idx: u32, variant: &'static str, v: Box<SV> },
    Seq { hint: bool, items: Vec<SV> },
    Tuple(Vec<SV>),
    TupleStruct(&'static str, Vec<SV>),
    TupleVariant { name: &'static str, idx: u32, variant: &'static str, items: Vec<SV> },
    Map { hint: bool, entries: Vec<(String, SV)> },
    Struct { name: &'static str, len: usize, fields: Vec<(&'static str, SV)> },
    StructMap { hint: bool, fields: Vec<(&'static str, SV)> },
    StructVariant { name: &'static str, idx: u32, variant: &'static str, len: usize, fields: Vec<(&'static str, SV)> },
    /// a `skip_field` call (only as a struct field value)
    Skip,
    Undef,
}

static INTERN: Mutex<Option<HashMap<String, &'static str>>> = Mutex::new(None);
pub fn intern(s: &str) -> &'static str {
    let mut g = INTERN.lock().unwrap();
    let m = g.get_or_insert_with(HashMap::new);
    if let Some(x) = m.get(s) {
        return x;
    }
    let l: &'static str = Box::leak(s.to_string().into_boxed_str());
    m.insert(s.to_string(), l);
    l
}
pub fn intern_list(xs: &[&'static str]) -> &'static [&'static str] {
    Box::leak(xs.to_vec().into_boxed_slice())
}

fn jstr(j: &J, k: &str) -> &'static str {
    intern(j[k].as_str().unwrap_or("?"))
}
fn jidx(j: &J) -> u32 {
    j["idx"].as_u64().unwrap_or(0) as u32
}
fn arr16(b: &[u8]) -> [u8; 16] {
    let mut a = [0u8; 16];
    a.copy_from_slice(&b[..16]);
    a
}

impl SV {
    pub fn from_term(j: &J) -> SV {
        let c = j["c"].as_str().unwrap_or("undef");
        let items = |k: &str| -> Vec<SV> { j[k].as_array().map(|a| a.iter().map(SV::from_term).collect()).unwrap_or_default() };
        let fields = || -> Vec<(&'static str, SV)> {
            j["fields"].as_array().map(|a| a.iter().map(|e| (intern(e[0].as_str().unwrap()), SV::from_term(&e[1]))).collect()).unwrap_or_default()
        };
        match c {
            "bool" => SV::Bool(j["bool"].as_bool().unwrap()),
            "i8" => SV::I8(j_i64(&j["n"]) as i8),
            "i16" => SV::I16(j_i64(&j["n"]) as i16),
            "i32" => SV::I32(j_i64(&j["n"]) as i32),
            "i64" => SV::I64(j_i64(&j["n"])),
            "u8" => SV::U8(j_i64(&j["n"]) as u8),
            "u16" => SV::U16(j_i64(&j["n"]) as u16),
            "u32" => SV::U32(j_i64(&j["n"]) as u32),
            "u64" => {
                let b = j_bytes(&j["b"]);
                let mut a = [0u8; 8];
                a.copy_from_slice(&b[..8]);
                SV::U64(u64::from_le_bytes(a))
            }
            "i128" => SV::I128(i128::from_le_bytes(arr16(&j_bytes(&j["b"])))),
            "u128" => SV::U128(u128::from_le_bytes(arr16(&j_bytes(&j["b"])))),
            "f32" => {
                let b = j_bytes(&j["bits"]);
                SV::F32(f32::from_le_bytes([b[0], b[1], b[2], b[3]]))
            }
            "f64" => {
                let b = j_bytes(&j["bits"]);
                let mut a = [0u8; 8];
                a.copy_from_slice(&b[..8]);
                SV::F64(f64::from_le_bytes(a))
            }
            "char" => SV::Char(String::from_utf8(j_bytes(&j["b"])).expect("utf8 char").chars().next().expect("one char")),
            "str" => SV::Str(String::from_utf8(j_bytes(&j["b"])).expect("utf8 str")),
            "bytes" => SV::Bytes(j_bytes(&j["b"])),
            "none" => SV::None,
            "some" => SV::Some(Box::new(SV::from_term(&j["v"]))),
            "unit" => SV::Unit,
            "unit_struct" => SV::UnitStruct(jstr(j, "name")),
            "unit_variant" => SV::UnitVariant { name: jstr(j, "name"), idx: jidx(j), variant: jstr(j, "variant") },
            "newtype_struct" => SV::NewtypeStruct(jstr(j, "name"), Box::new(SV::from_term(&j["v"]))),
            "newtype_variant" => SV::NewtypeVariant { name: jstr(j, "name"), idx: jidx(j), variant: jstr(j, "variant"), v: Box::new(SV::from_term(&j["v"])) },
            "seq" => SV::Seq { hint: j["hint"].as_bool().unwrap_or(true), items: items("items") },
            "tuple" => SV::Tuple(items("items")),
            "tuple_struct" => SV::TupleStruct(jstr(j, "name"), items("items")),
            "tuple_variant" => SV::TupleVariant { name: jstr(j, "name"), idx: jidx(j), variant: jstr(j, "variant"), items: items("items") },
            "map" => SV::Map {
                hint: j["hint"].as_bool().unwrap_or(true),
                entries: j["entries"].as_array().map(|a| a.iter().map(|e| (String::from_utf8(j_bytes(&e[0])).expect("utf8 key"), SV::from_term(&e[1]))).collect()).unwrap_or_default(),
            },
            "struct" => SV::Struct { name: jstr(j, "name"), len: j["len"].as_u64().unwrap_or(0) as usize, fields: fields() },
            "structmap" => SV::StructMap { hint: j["hint"].as_bool().unwrap_or(false), fields: fields() },
            "struct_variant" => SV::StructVariant { name: jstr(j, "name"), idx: jidx(j), variant: jstr(j, "variant"), len: j["len"].as_u64().unwrap_or(0) as usize, fields: fields() },
            "skip" => SV::Skip,
            _ => SV::Undef,
        }
    }

    pub fn to_term(&self) -> J {
        let its = |v: &Vec<SV>| -> Vec<J> { v.iter().map(|x| x.to_term()).collect() };
        let fls = |v: &Vec<(&'static str, SV)>| -> Vec<J> { v.iter().map(|(k, x)| json!([k, x.to_term()])).collect() };
        match self {
            SV::Bool(b) => json!({"c":"bool","bool":b}),
            SV::I8(n) => json!({"c":"i8","n":le8(*n as i64)}),
            SV::I16(n) => json!({"c":"i16","n":le8(*n as i64)}),
            SV::I32(n) => json!({"c":"i32","n":le8(*n as i64)}),
            SV::I64(n) => json!({"c":"i64","n":le8(*n)}),
            SV::U8(n) => json!({"c":"u8","n":le8(*n as i64)}),
            SV::U16(n) => json!({"c":"u16","n":le8(*n as i64)}),
            SV::U32(n) => json!({"c":"u32","n":le8(*n as i64)}),
            SV::U64(n) => json!({"c":"u64","b":bytes_j(&n.to_le_bytes())}),
            SV::I128(n) => json!({"c":"i128","b":bytes_j(&n.to_le_bytes())}),
            SV::U128(n) => json!({"c":"u128","b":bytes_j(&n.to_le_bytes())}),
            SV::F32(x) => json!({"c":"f32","bits":bytes_j(&x.to_bits().to_le_bytes())}),
            SV::F64(x) => json!({"c":"f64","bits":bytes_j(&x.to_bits().to_le_bytes())}),
            SV::Char(c) => json!({"c":"char","b":bytes_j(c.to_string().as_bytes())}),
            SV::Str(s) => json!({"c":"str","b":bytes_j(s.as_bytes())}),
            SV::Bytes(b) => json!({"c":"bytes","b":bytes_j(b)}),
            SV::None => json!({"c":"none"}),
            SV::Some(v) => json!({"c":"some","v":v.to_term()}),
            SV::Unit => json!({"c":"unit"}),
            SV::UnitStruct(n) => json!({"c":"unit_struct","name":n}),
            SV::UnitVariant { name, idx, variant } => json!({"c":"unit_variant","name":name,"idx":small(*idx as usize),"variant":variant}),
            SV::NewtypeStruct(n, v) => json!({"c":"newtype_struct","name":n,"v":v.to_term()}),
            SV::NewtypeVariant { name, idx, variant, v } => json!({"c":"newtype_variant","name":name,"idx":small(*idx as usize),"variant":variant,"v":v.to_term()}),
            SV::Seq { hint, items } => json!({"c":"seq","hint":hint,"items":its(items)}),
            SV::Tuple(items) => json!({"c":"tuple","items":its(items)}),
            SV::TupleStruct(n, items) => json!({"c":"tuple_struct","name":n,"items":its(items)}),
            SV::TupleVariant { name, idx, variant, items } => json!({"c":"tuple_variant","name":name,"idx":small(*idx as usize),"variant":variant,"items":its(items)}),
            SV::Map { hint, entries } => json!({"c":"map","hint":hint,"entries":entries.iter().map(|(k, v)| json!([bytes_j(k.as_bytes()), v.to_term()])).collect::<Vec<_>>()}),
            SV::Struct { name, len, fields } => json!({"c":"struct","name":name,"len":small(*len),"fields":fls(fields)}),
            SV::StructMap { hint, fields } => json!({"c":"structmap","hint":hint,"fields":fls(fields)}),
            SV::StructVariant { name, idx, variant, len, fields } => json!({"c":"struct_variant","name":name,"idx":small(*idx as usize),"variant":variant,"len":small(*len),"fields":fls(fields)}),
            SV::Skip => json!({"c":"skip"}),
            SV::Undef => json!({"c":"undef"}),
        }
    }
}

pub fn undef_term() -> J {
    json!({"c":"undef"})
}

// ---------------------------------------------------------------------------------------------
// Serialize: exactly the described call sequence
// ---------------------------------------------------------------------------------------------
impl Serialize for SV {
    fn serialize<S: Serializer>(&self, s: S) -> Result<S::Ok, S::Error> {
        match self {
            SV::Bool(v) => s.serialize_bool(*v),
            SV::I8(v) => s.serialize_i8(*v),
            SV::I16(v) => s.serialize_i16(*v),
            SV::I32(v) => s.serialize_i32(*v),
            SV::I64(v) => s.serialize_i64(*v),
            SV::U8(v) => s.serialize_u8(*v),
            SV::U16(v) => s.serialize_u16(*v),
            SV::U32(v) => s.serialize_u32(*v),
            SV::U64(v) => s.serialize_u64(*v),
            SV::I128(v) => s.serialize_i128(*v),
            SV::U128(v) => s.serialize_u128(*v),
            SV::F32(v) => s.serialize_f32(*v),
            SV::F64(v) => s.serialize_f64(*v),
            SV::Char(v) => s.serialize_char(*v),
            SV::Str(v) => s.serialize_str(v),
            SV::Bytes(v) => s.serialize_bytes(v),
            SV::None => s.serialize_none(),
            SV::Some(v) => s.serialize_some(&**v),
            SV::Unit => s.serialize_unit(),
            SV::UnitStruct(n) => s.serialize_unit_struct(n),
            SV::UnitVariant { name, idx, variant } => s.serialize_unit_variant(name, *idx, variant),
            SV::NewtypeStruct(n, v) => s.serialize_newtype_struct(n, &**v),
            SV::NewtypeVariant { name, idx, variant, v } => s.serialize_newtype_variant(name, *idx, variant, &**v),
            SV::Seq { hint, items } => {
                let mut q = s.serialize_seq(if *hint { Some(items.len()) } else { None })?;
                for x in items {
                    q.serialize_element(x)?;
                }
                q.end()
            }
            SV::Tuple(items) => {
                let mut q = s.serialize_tuple(items.len())?;
                for x in items {
                    q.serialize_element(x)?;
                }
                q.end()
            }
            SV::TupleStruct(n, items) => {
                let mut q = s.serialize_tuple_struct(n, items.len())?;
                for x in items {
                    q.serialize_field(x)?;
                }
                q.end()
            }
            SV::TupleVariant { name, idx, variant, items } => {
                let mut q = s.serialize_tuple_variant(name, *idx, variant, items.len())?;
                for x in items {
                    q.serialize_field(x)?;
                }
                q.end()
            }
            SV::Map { hint, entries } => {
                let mut m = s.serialize_map(if *hint { Some(entries.len()) } else { None })?;
                for (k, v) in entries {
                    if *hint {
                        m.serialize_entry(k, v)?;
                    } else {
                        m.serialize_key(k)?;
                        m.serialize_value(v)?;
                    }
                }
                m.end()
            }
            SV::Struct { name, len, fields } => {
                let mut st = s.serialize_struct(name, *len)?;
                for (k, v) in fields {
                    if matches!(v, SV::Skip) {
                        st.skip_field(k)?;
                    } else {
                        st.serialize_field(k, v)?;
                    }
                }
                st.end()
            }
            SV::StructMap { hint, fields } => {
                let n = fields.iter().filter(|(_, v)| !matches!(v, SV::Skip)).count();
                let mut m = s.serialize_map(if *hint { Some(n) } else { None })?;
                for (i, (k, v)) in fields.iter().enumerate() {
                    if matches!(v, SV::Skip) {
                        continue;
                    }
                    if i % 2 == 0 {
                        m.serialize_entry(k, v)?;
                    } else {
                        m.serialize_key(k)?;
                        m.serialize_value(v)?;
                    }
                }
                m.end()
            }
            SV::StructVariant { name, idx, variant, len, fields } => {
                let mut st = s.serialize_struct_variant(name, *idx, variant, *len)?;
                for (k, v) in fields {
                    if matches!(v, SV::Skip) {
                        st.skip_field(k)?;
                    } else {
                        st.serialize_field(k, v)?;
                    }
                }
                st.end()
            }
            SV::Skip | SV::Undef => Err(ser::Error::custom("SV::Skip/Undef is not a value")),
        }
    }
}

// ---------------------------------------------------------------------------------------------
// Shape-directed deserialization
// ---------------------------------------------------------------------------------------------

thread_local! {
    /// (alias, field name) pairs of the schema in force: a Rust field spelled by an alias is
    /// read back under the schema's field name.
    pub static ALIASES: std::cell::RefCell<Vec<(String, String)>> = const { std::cell::RefCell::new(Vec::new()) };
}

fn shape_of_field<'a>(fields: &'a [(&'static str, SV)], key: &str) -> Option<&'a SV> {
    if let Some((_, v)) = fields.iter().find(|(k, _)| *k == key) {
        return Some(v);
    }
    ALIASES.with(|a| {
        for (alias, name) in a.borrow().iter() {
            if name == key {
                if let Some((_, v)) = fields.iter().find(|(k, _)| *k == alias.as_str()) {
                    return Some(v);
                }
            }
        }
        None
    })
}

#[derive(Clone, Copy)]
pub struct Seed<'a>(pub Option<&'a SV>);

#[derive(Clone, Copy, PartialEq)]
enum Sc { Bool, I8, I16, I32, I64, U8, U16, U32, U64, I128, U128, F32, F64, Char, Str, Bytes }

struct ScalarV(Sc);

macro_rules! int_visit {
    ($name:ident, $t:ty) => {
        fn $name<E: de::Error>(self, v: $t) -> Result<SV, E> {
            let w = v as i128;
            let bad = || E::custom(format!("integer {w} out of range for requested type"));
            Ok(match self.0 {
                Sc::I8 => SV::I8(i8::try_from(v).map_err(|_| bad())?),
                Sc::I16 => SV::I16(i16::try_from(v).map_err(|_| bad())?),
                Sc::I32 => SV::I32(i32::try_from(v).map_err(|_| bad())?),
                Sc::I64 => SV::I64(i64::try_from(v).map_err(|_| bad())?),
                Sc::U8 => SV::U8(u8::try_from(v).map_err(|_| bad())?),
                Sc::U16 => SV::U16(u16::try_from(v).map_err(|_| bad())?),
                Sc::U32 => SV::U32(u32::try_from(v).map_err(|_| bad())?),
                Sc::U64 => SV::U64(u64::try_from(v).map_err(|_| bad())?),
                Sc::I128 => SV::I128(i128::try_from(v).map_err(|_| bad())?),
                Sc::U128 => SV::U128(u128::try_from(v).map_err(|_| bad())?),
                Sc::F32 => SV::F32(v as f32),
                Sc::F64 => SV::F64(v as f64),
                _ => return Err(E::custom("integer where a non-number was requested")),
            })
        }
    };
}

impl<'de> Visitor<'de> for ScalarV {
    type Value = SV;
    fn expecting(&self, f: &mut fmt::Formatter) -> fmt::Result {
        f.write_str("a scalar of the requested type")
    }
    fn visit_bool<E: de::Error>(self, v: bool) -> Result<SV, E> {
        if self.0 == Sc::Bool { Ok(SV::Bool(v)) } else { Err(E::custom("bool not requested")) }
    }
    int_visit!(visit_i8, i8);
    int_visit!(visit_i16, i16);
    int_visit!(visit_i32, i32);
    int_visit!(visit_i64, i64);
    int_visit!(visit_i128, i128);
    int_visit!(visit_u8, u8);
    int_visit!(visit_u16, u16);
    int_visit!(visit_u32, u32);
    int_visit!(visit_u64, u64);
    int_visit!(visit_u128, u128);
    fn visit_f32<E: de::Error>(self, v: f32) -> Result<SV, E> {
        match self.0 {
            Sc::F32 => Ok(SV::F32(v)),
            Sc::F64 => Ok(SV::F64(v as f64)),
            _ => Err(E::custom("float not requested")),
        }
    }
    fn visit_f64<E: de::Error>(self, v: f64) -> Result<SV, E> {
        match self.0 {
            Sc::F64 => Ok(SV::F64(v)),
            Sc::F32 => Ok(SV::F32(v as f32)),
            _ => Err(E::custom("float not requested")),
        }
    }
    fn visit_char<E: de::Error>(self, v: char) -> Result<SV, E> {
        match self.0 {
            Sc::Char => Ok(SV::Char(v)),
            Sc::Str => Ok(SV::Str(v.to_string())),
            _ => Err(E::custom("char not requested")),
        }
    }
    fn visit_str<E: de::Error>(self, v: &str) -> Result<SV, E> {
        match self.0 {
            Sc::Str => Ok(SV::Str(v.to_string())),
            Sc::Char => {
                let mut it = v.chars();
                match (it.next(), it.next()) {
                    (Some(c), None) => Ok(SV::Char(c)),
                    _ => Err(E::custom("not a single char")),
                }
            }
            _ => Err(E::custom("string not requested")),
        }
    }
    fn visit_bytes<E: de::Error>(self, v: &[u8]) -> Result<SV, E> {
        if self.0 == Sc::Bytes { Ok(SV::Bytes(v.to_vec())) } else { Err(E::custom("bytes not requested")) }
    }
    fn visit_byte_buf<E: de::Error>(self, v: Vec<u8>) -> Result<SV, E> {
        if self.0 == Sc::Bytes { Ok(SV::Bytes(v)) } else { Err(E::custom("bytes not requested")) }
    }
}

/// identifier read: a field name / enum symbol (string) or a union branch index
enum Ident { Str(String), Idx(u64) }
struct IdentSeed;
impl<'de> DeserializeSeed<'de> for IdentSeed {
    type Value = Ident;
    fn deserialize<D: Deserializer<'de>>(self, d: D) -> Result<Ident, D::Error> {
        struct V;
        impl<'de> Visitor<'de> for V {
            type Value = Ident;
            fn expecting(&self, f: &mut fmt::Formatter) -> fmt::Result {
                f.write_str("an identifier")
            }
            fn visit_str<E: de::Error>(self, v: &str) -> Result<Ident, E> {
                Ok(Ident::Str(v.to_string()))
            }
            fn visit_u64<E: de::Error>(self, v: u64) -> Result<Ident, E> {
                Ok(Ident::Idx(v))
            }
            fn visit_bytes<E: de::Error>(self, v: &[u8]) -> Result<Ident, E> {
                Ok(Ident::Str(String::from_utf8_lossy(v).to_string()))
            }
        }
        d.deserialize_identifier(V)
    }
}

/// map key read through `String::deserialize`
struct StringSeed;
impl<'de> DeserializeSeed<'de> for StringSeed {
    type Value = String;
    fn deserialize<D: Deserializer<'de>>(self, d: D) -> Result<String, D::Error> {
        struct V;
        impl<'de> Visitor<'de> for V {
            type Value = String;
            fn expecting(&self, f: &mut fmt::Formatter) -> fmt::Result {
                f.write_str("a string key")
            }
            fn visit_str<E: de::Error>(self, v: &str) -> Result<String, E> {
                Ok(v.to_string())
            }
        }
        d.deserialize_string(V)
    }
}

struct OptionV<'a>(Option<&'a SV>);
impl<'de, 'a> Visitor<'de> for OptionV<'a> {
    type Value = SV;
    fn expecting(&self, f: &mut fmt::Formatter) -> fmt::Result {
        f.write_str("an option")
    }
    fn visit_none<E: de::Error>(self) -> Result<SV, E> {
        Ok(SV::None)
    }
    fn visit_unit<E: de::Error>(self) -> Result<SV, E> {
        Ok(SV::None)
    }
    fn visit_some<D: Deserializer<'de>>(self, d: D) -> Result<SV, D::Error> {
        Ok(SV::Some(Box::new(Seed(self.0).deserialize(d)?)))
    }
}

struct UnitV(Option<&'static str>);
impl<'de> Visitor<'de> for UnitV {
    type Value = SV;
    fn expecting(&self, f: &mut fmt::Formatter) -> fmt::Result {
        f.write_str("unit")
    }
    fn visit_unit<E: de::Error>(self) -> Result<SV, E> {
        Ok(match self.0 {
            Some(n) => SV::UnitStruct(n),
            None => SV::Unit,
        })
    }
}

struct NewtypeV<'a>(&'static str, &'a SV);
impl<'de, 'a> Visitor<'de> for NewtypeV<'a> {
    type Value = SV;
    fn expecting(&self, f: &mut fmt::Formatter) -> fmt::Result {
        f.write_str("a newtype struct")
    }
    fn visit_newtype_struct<D: Deserializer<'de>>(self, d: D) -> Result<SV, D::Error> {
        Ok(SV::NewtypeStruct(self.0, Box::new(Seed(Some(self.1)).deserialize(d)?)))
    }
}

#[derive(Clone, Copy)]
enum SeqKind { Seq, Fixed }
struct SeqV<'a> { kind: SeqKind, shapes: &'a [SV] }
impl<'de, 'a> Visitor<'de> for SeqV<'a> {
    type Value = SV;
    fn expecting(&self, f: &mut fmt::Formatter) -> fmt::Result {
        f.write_str("a sequence")
    }
    fn visit_unit<E: de::Error>(self) -> Result<SV, E> {
        // a 0-tuple over null
        if self.shapes.is_empty() { Ok(SV::Tuple(vec![])) } else { Err(E::custom("unit for a non-empty tuple")) }
    }
    fn visit_seq<A: SeqAccess<'de>>(self, mut a: A) -> Result<SV, A::Error> {
        let mut out = vec![];
        match self.kind {
            SeqKind::Fixed => {
                // a tuple visitor asks for exactly its arity
                for sh in self.shapes {
                    match a.next_element_seed(Seed(Some(sh)))? {
                        Some(x) => out.push(x),
                        None => return Err(de::Error::custom("tuple ended early")),
                    }
                }
            }
            SeqKind::Seq => {
                let mut i = 0;
                loop {
                    let sh = self.shapes.get(i).or(self.shapes.first());
                    match a.next_element_seed(Seed(sh))? {
                        Some(x) => out.push(x),
                        None => break,
                    }
                    i += 1;
                }
            }
        }
        Ok(SV::Tuple(out)) // re-tagged by the caller
    }
}

struct MapV<'a>(&'a [(String, SV)]);
impl<'de, 'a> Visitor<'de> for MapV<'a> {
    type Value = SV;
    fn expecting(&self, f: &mut fmt::Formatter) -> fmt::Result {
        f.write_str("a map")
    }
    fn visit_map<A: MapAccess<'de>>(self, mut a: A) -> Result<SV, A::Error> {
        let mut out = vec![];
        while let Some(k) = a.next_key_seed(StringSeed)? {
            let sh = self.0.iter().find(|(kk, _)| *kk == k).map(|(_, v)| v).or(self.0.first().map(|(_, v)| v));
            let v = a.next_value_seed(Seed(sh))?;
            out.push((k, v));
        }
        Ok(SV::Map { hint: true, entries: out })
    }
}

struct StructV<'a>(&'a [(&'static str, SV)]);
impl<'de, 'a> Visitor<'de> for StructV<'a> {
    type Value = SV;
    fn expecting(&self, f: &mut fmt::Formatter) -> fmt::Result {
        f.write_str("a struct")
    }
    fn visit_map<A: MapAccess<'de>>(self, mut a: A) -> Result<SV, A::Error> {
        let mut out: Vec<(&'static str, SV)> = vec![];
        while let Some(k) = a.next_key_seed(IdentSeed)? {
            let k = match k {
                Ident::Str(s) => s,
                Ident::Idx(i) => format!("#{i}"),
            };
            let sh = shape_of_field(self.0, &k).filter(|s| !matches!(s, SV::Skip));
            let v = a.next_value_seed(Seed(sh))?;
            out.push((intern(&k), v));
        }
        Ok(SV::StructMap { hint: true, fields: out }) // re-tagged by the caller
    }
}

struct EnumV<'a>(&'a SV);
impl<'de, 'a> Visitor<'de> for EnumV<'a> {
    type Value = SV;
    fn expecting(&self, f: &mut fmt::Formatter) -> fmt::Result {
        f.write_str("an enum")
    }
    fn visit_enum<A: EnumAccess<'de>>(self, data: A) -> Result<SV, A::Error> {
        let (id, va) = data.variant_seed(IdentSeed)?;
        let (name, idx, variant) = match self.0 {
            SV::UnitVariant { name, idx, variant } | SV::NewtypeVariant { name, idx, variant, .. }
            | SV::TupleVariant { name, idx, variant, .. } | SV::StructVariant { name, idx, variant, .. } => (*name, *idx, *variant),
            _ => unreachable!(),
        };
        // what the derived variant visitor does: map the identifier to one of the type's variants
        match &id {
            Ident::Str(s) if s == variant => {}
            Ident::Idx(i) if *i == idx as u64 => {}
            Ident::Str(s) => return Err(de::Error::custom(format!("read variant {s:?} where {variant:?} was written"))),
            Ident::Idx(i) => return Err(de::Error::custom(format!("read variant index {i} where {idx} was written"))),
        }
        match self.0 {
            SV::UnitVariant { .. } => {
                va.unit_variant()?;
                Ok(SV::UnitVariant { name, idx, variant })
            }
            SV::NewtypeVariant { v, .. } => {
                let x = va.newtype_variant_seed(Seed(Some(v)))?;
                Ok(SV::NewtypeVariant { name, idx, variant, v: Box::new(x) })
            }
            SV::TupleVariant { items, .. } => match va.tuple_variant(items.len(), SeqV { kind: SeqKind::Fixed, shapes: items })? {
                SV::Tuple(xs) => Ok(SV::TupleVariant { name, idx, variant, items: xs }),
                _ => unreachable!(),
            },
            SV::StructVariant { fields, .. } => {
                let names: Vec<&'static str> = fields.iter().filter(|(_, v)| !matches!(v, SV::Skip)).map(|(k, _)| *k).collect();
                match va.struct_variant(intern_list(&names), StructV(fields))? {
                    SV::StructMap { fields: fs, .. } => Ok(SV::StructVariant { name, idx, variant, len: fs.len(), fields: fs }),
                    _ => unreachable!(),
                }
            }
            _ => unreachable!(),
        }
    }
}

/// self-describing read
struct AnyV;
impl<'de> Visitor<'de> for AnyV {
    type Value = SV;
    fn expecting(&self, f: &mut fmt::Formatter) -> fmt::Result {
        f.write_str("anything")
    }
    fn visit_bool<E: de::Error>(self, v: bool) -> Result<SV, E> { Ok(SV::Bool(v)) }
    fn visit_i8<E: de::Error>(self, v: i8) -> Result<SV, E> { Ok(SV::I8(v)) }
    fn visit_i16<E: de::Error>(self, v: i16) -> Result<SV, E> { Ok(SV::I16(v)) }
    fn visit_i32<E: de::Error>(self, v: i32) -> Result<SV, E> { Ok(SV::I32(v)) }
    fn visit_i64<E: de::Error>(self, v: i64) -> Result<SV, E> { Ok(SV::I64(v)) }
    fn visit_i128<E: de::Error>(self, v: i128) -> Result<SV, E> { Ok(SV::I128(v)) }
    fn visit_u8<E: de::Error>(self, v: u8) -> Result<SV, E> { Ok(SV::U8(v)) }
    fn visit_u16<E: de::Error>(self, v: u16) -> Result<SV, E> { Ok(SV::U16(v)) }
    fn visit_u32<E: de::Error>(self, v: u32) -> Result<SV, E> { Ok(SV::U32(v)) }
    fn visit_u64<E: de::Error>(self, v: u64) -> Result<SV, E> { Ok(SV::U64(v)) }
    fn visit_u128<E: de::Error>(self, v: u128) -> Result<SV, E> { Ok(SV::U128(v)) }
    fn visit_f32<E: de::Error>(self, v: f32) -> Result<SV, E> { Ok(SV::F32(v)) }
    fn visit_f64<E: de::Error>(self, v: f64) -> Result<SV, E> { Ok(SV::F64(v)) }
    fn visit_char<E: de::Error>(self, v: char) -> Result<SV, E> { Ok(SV::Char(v)) }
    fn visit_str<E: de::Error>(self, v: &str) -> Result<SV, E> { Ok(SV::Str(v.to_string())) }
    fn visit_bytes<E: de::Error>(self, v: &[u8]) -> Result<SV, E> { Ok(SV::Bytes(v.to_vec())) }
    fn visit_byte_buf<E: de::Error>(self, v: Vec<u8>) -> Result<SV, E> { Ok(SV::Bytes(v)) }
    fn visit_none<E: de::Error>(self) -> Result<SV, E> { Ok(SV::None) }
    fn visit_unit<E: de::Error>(self) -> Result<SV, E> { Ok(SV::Unit) }
    fn visit_some<D: Deserializer<'de>>(self, d: D) -> Result<SV, D::Error> {
        Ok(SV::Some(Box::new(Seed(None).deserialize(d)?)))
    }
    fn visit_newtype_struct<D: Deserializer<'de>>(self, d: D) -> Result<SV, D::Error> {
        Seed(None).deserialize(d)
    }
    fn visit_seq<A: SeqAccess<'de>>(self, mut a: A) -> Result<SV, A::Error> {
        // a record carrying the tuple attribute and an array both arrive as a sequence: the former
        // announces its exact length and never ends with a block header, but that is not observable
        // here; the caller (AnyTerm in the spec) distinguishes them by the schema, we by the hint
        let fixed = a.size_hint();
        let mut out = vec![];
        while let Some(x) = a.next_element_seed(Seed(None))? {
            out.push(x);
        }
        let _ = fixed;
        Ok(SV::Seq { hint: true, items: out })
    }
    fn visit_map<A: MapAccess<'de>>(self, mut a: A) -> Result<SV, A::Error> {
        // record fields arrive as borrowed identifiers (visit_str), map keys as owned strings
        struct K;
        impl<'de> DeserializeSeed<'de> for K {
            type Value = (String, bool);
            fn deserialize<D: Deserializer<'de>>(self, d: D) -> Result<(String, bool), D::Error> {
                struct V;
                impl<'de> Visitor<'de> for V {
                    type Value = (String, bool);
                    fn expecting(&self, f: &mut fmt::Formatter) -> fmt::Result {
                        f.write_str("a key")
                    }
                    fn visit_str<E: de::Error>(self, v: &str) -> Result<(String, bool), E> {
                        Ok((v.to_string(), true))
                    }
                    fn visit_string<E: de::Error>(self, v: String) -> Result<(String, bool), E> {
                        Ok((v, false))
                    }
                }
                d.deserialize_any(V)
            }
        }
        let empty_struct = a.size_hint() == Some(0);
        let mut out: Vec<(String, SV)> = vec![];
        let mut ident = empty_struct;
        while let Some((k, is_ident)) = a.next_key_seed(K)? {
            ident = is_ident;
            let v = a.next_value_seed(Seed(None))?;
            out.push((k, v));
        }
        if ident {
            let fields: Vec<(&'static str, SV)> = out.into_iter().map(|(k, v)| (intern(&k), v)).collect();
            Ok(SV::Struct { name: "?", len: fields.len(), fields })
        } else {
            Ok(SV::Map { hint: true, entries: out })
        }
    }
    fn visit_enum<A: EnumAccess<'de>>(self, data: A) -> Result<SV, A::Error> {
        let (id, va) = data.variant_seed(IdentSeed)?;
        va.unit_variant()?;
        Ok(match id {
            Ident::Str(s) => SV::UnitVariant { name: "?", idx: 65535, variant: intern(&s) },
            Ident::Idx(i) => SV::UnitVariant { name: "?", idx: i as u32, variant: "?" },
        })
    }
}

impl<'de, 'a> DeserializeSeed<'de> for Seed<'a> {
    type Value = SV;
    fn deserialize<D: Deserializer<'de>>(self, d: D) -> Result<SV, D::Error> {
        let Some(sh) = self.0 else { return d.deserialize_any(AnyV) };
        match sh {
            SV::Skip | SV::Undef => d.deserialize_any(AnyV),
            SV::Bool(_) => d.deserialize_bool(ScalarV(Sc::Bool)),
            SV::I8(_) => d.deserialize_i8(ScalarV(Sc::I8)),
            SV::I16(_) => d.deserialize_i16(ScalarV(Sc::I16)),
            SV::I32(_) => d.deserialize_i32(ScalarV(Sc::I32)),
            SV::I64(_) => d.deserialize_i64(ScalarV(Sc::I64)),
            SV::U8(_) => d.deserialize_u8(ScalarV(Sc::U8)),
            SV::U16(_) => d.deserialize_u16(ScalarV(Sc::U16)),
            SV::U32(_) => d.deserialize_u32(ScalarV(Sc::U32)),
            SV::U64(_) => d.deserialize_u64(ScalarV(Sc::U64)),
            SV::I128(_) => d.deserialize_i128(ScalarV(Sc::I128)),
            SV::U128(_) => d.deserialize_u128(ScalarV(Sc::U128)),
            SV::F32(_) => d.deserialize_f32(ScalarV(Sc::F32)),
            SV::F64(_) => d.deserialize_f64(ScalarV(Sc::F64)),
            SV::Char(_) => d.deserialize_char(ScalarV(Sc::Char)),
            SV::Str(_) => d.deserialize_string(ScalarV(Sc::Str)),
            SV::Bytes(_) => d.deserialize_byte_buf(ScalarV(Sc::Bytes)),
            SV::None => d.deserialize_option(OptionV(None)),
            SV::Some(v) => d.deserialize_option(OptionV(Some(v))),
            SV::Unit => d.deserialize_unit(UnitV(None)),
            SV::UnitStruct(n) => d.deserialize_unit_struct(n, UnitV(Some(n))),
            SV::NewtypeStruct(n, v) => d.deserialize_newtype_struct(n, NewtypeV(n, v)),
            SV::Seq { items, .. } => match d.deserialize_seq(SeqV { kind: SeqKind::Seq, shapes: items })? {
                SV::Tuple(xs) => Ok(SV::Seq { hint: true, items: xs }),
                other => Ok(other),
            },
            SV::Tuple(items) => d.deserialize_tuple(items.len(), SeqV { kind: SeqKind::Fixed, shapes: items }),
            SV::TupleStruct(n, items) => match d.deserialize_tuple_struct(n, items.len(), SeqV { kind: SeqKind::Fixed, shapes: items })? {
                SV::Tuple(xs) => Ok(SV::TupleStruct(n, xs)),
                other => Ok(other),
            },
            SV::Map { entries, .. } => d.deserialize_map(MapV(entries)),
            SV::Struct { name, fields, .. } => {
                let names: Vec<&'static str> = fields.iter().filter(|(_, v)| !matches!(v, SV::Skip)).map(|(k, _)| *k).collect();
                match d.deserialize_struct(name, intern_list(&names), StructV(fields))? {
                    SV::StructMap { fields: fs, .. } => Ok(SV::Struct { name, len: fs.len(), fields: fs }),
                    other => Ok(other),
                }
            }
            SV::StructMap { fields, .. } => d.deserialize_map(StructV(fields)),
            SV::UnitVariant { name, idx, variant } | SV::NewtypeVariant { name, idx, variant, .. }
            | SV::TupleVariant { name, idx, variant, .. } | SV::StructVariant { name, idx, variant, .. } => {
                // the type's variant list: only the written variant is known; pad the others
                let mut vs: Vec<&'static str> = (0..*idx).map(|i| intern(&format!("_v{i}"))).collect();
                vs.push(variant);
                d.deserialize_enum(name, intern_list(&vs), EnumV(sh))
            }
        }
    }
}

// ---------------------------------------------------------------------------------------------
// Capture: project any Serialize to the term of the calls it makes
// ---------------------------------------------------------------------------------------------
#[derive(Debug)]
pub struct CapErr(pub String);
impl fmt::Display for CapErr {
    fn fmt(&self, f: &mut fmt::Formatter) -> fmt::Result {
        f.write_str(&self.0)
    }
}
impl std::error::Error for CapErr {}
impl ser::Error for CapErr {
    fn custom<T: fmt::Display>(m: T) -> Self {
        CapErr(m.to_string())
    }
}
impl de::Error for CapErr {
    fn custom<T: fmt::Display>(m: T) -> Self {
        CapErr(m.to_string())
    }
}

pub struct Capture;
pub fn capture<T: Serialize + ?Sized>(v: &T) -> Result<SV, CapErr> {
    v.serialize(Capture)
}

pub struct CapSeq { kind: u8, name: &'static str, idx: u32, variant: &'static str, hint: bool, items: Vec<SV> }
pub struct CapMap { hint: bool, entries: Vec<(String, SV)>, key: Option<String> }
pub struct CapStruct { name: &'static str, idx: u32, variant: Option<&'static str>, len: usize, fields: Vec<(&'static str, SV)> }

impl Serializer for Capture {
    type Ok = SV;
    type Error = CapErr;
    type SerializeSeq = CapSeq;
    type SerializeTuple = CapSeq;
    type SerializeTupleStruct = CapSeq;
    type SerializeTupleVariant = CapSeq;
    type SerializeMap = CapMap;
    type SerializeStruct = CapStruct;
    type SerializeStructVariant = CapStruct;
    fn serialize_bool(self, v: bool) -> Result<SV, CapErr> { Ok(SV::Bool(v)) }
    fn serialize_i8(self, v: i8) -> Result<SV, CapErr> { Ok(SV::I8(v)) }
    fn serialize_i16(self, v: i16) -> Result<SV, CapErr> { Ok(SV::I16(v)) }
    fn serialize_i32(self, v: i32) -> Result<SV, CapErr> { Ok(SV::I32(v)) }
    fn serialize_i64(self, v: i64) -> Result<SV, CapErr> { Ok(SV::I64(v)) }
    fn serialize_i128(self, v: i128) -> Result<SV, CapErr> { Ok(SV::I128(v)) }
    fn serialize_u8(self, v: u8) -> Result<SV, CapErr> { Ok(SV::U8(v)) }
    fn serialize_u16(self, v: u16) -> Result<SV, CapErr> { Ok(SV::U16(v)) }
    fn serialize_u32(self, v: u32) -> Result<SV, CapErr> { Ok(SV::U32(v)) }
    fn serialize_u64(self, v: u64) -> Result<SV, CapErr> { Ok(SV::U64(v)) }
    fn serialize_u128(self, v: u128) -> Result<SV, CapErr> { Ok(SV::U128(v)) }
    fn serialize_f32(self, v: f32) -> Result<SV, CapErr> { Ok(SV::F32(v)) }
    fn serialize_f64(self, v: f64) -> Result<SV, CapErr> { Ok(SV::F64(v)) }
    fn serialize_char(self, v: char) -> Result<SV, CapErr> { Ok(SV::Char(v)) }
    fn serialize_str(self, v: &str) -> Result<SV, CapErr> { Ok(SV::Str(v.to_string())) }
    fn serialize_bytes(self, v: &[u8]) -> Result<SV, CapErr> { Ok(SV::Bytes(v.to_vec())) }
    fn serialize_none(self) -> Result<SV, CapErr> { Ok(SV::None) }
    fn serialize_some<T: ?Sized + Serialize>(self, v: &T) -> Result<SV, CapErr> { Ok(SV::Some(Box::new(capture(v)?))) }
    fn serialize_unit(self) -> Result<SV, CapErr> { Ok(SV::Unit) }
    fn serialize_unit_struct(self, n: &'static str) -> Result<SV, CapErr> { Ok(SV::UnitStruct(n)) }
    fn serialize_unit_variant(self, name: &'static str, idx: u32, variant: &'static str) -> Result<SV, CapErr> {
        Ok(SV::UnitVariant { name, idx, variant })
    }
    fn serialize_newtype_struct<T: ?Sized + Serialize>(self, n: &'static str, v: &T) -> Result<SV, CapErr> {
        Ok(SV::NewtypeStruct(n, Box::new(capture(v)?)))
    }
    fn serialize_newtype_variant<T: ?Sized + Serialize>(self, name: &'static str, idx: u32, variant: &'static str, v: &T) -> Result<SV, CapErr> {
        Ok(SV::NewtypeVariant { name, idx, variant, v: Box::new(capture(v)?) })
    }
    fn serialize_seq(self, len: Option<usize>) -> Result<CapSeq, CapErr> {
        Ok(CapSeq { kind: 0, name: "", idx: 0, variant: "", hint: len.is_some(), items: vec![] })
    }
    fn serialize_tuple(self, _len: usize) -> Result<CapSeq, CapErr> {
        Ok(CapSeq { kind: 1, name: "", idx: 0, variant: "", hint: true, items: vec![] })
    }
    fn serialize_tuple_struct(self, name: &'static str, _len: usize) -> Result<CapSeq, CapErr> {
        Ok(CapSeq { kind: 2, name, idx: 0, variant: "", hint: true, items: vec![] })
    }
    fn serialize_tuple_variant(self, name: &'static str, idx: u32, variant: &'static str, _len: usize) -> Result<CapSeq, CapErr> {
        Ok(CapSeq { kind: 3, name, idx, variant, hint: true, items: vec![] })
    }
    fn serialize_map(self, len: Option<usize>) -> Result<CapMap, CapErr> {
        Ok(CapMap { hint: len.is_some(), entries: vec![], key: None })
    }
    fn serialize_struct(self, name: &'static str, len: usize) -> Result<CapStruct, CapErr> {
        Ok(CapStruct { name, idx: 0, variant: None, len, fields: vec![] })
    }
    fn serialize_struct_variant(self, name: &'static str, idx: u32, variant: &'static str, len: usize) -> Result<CapStruct, CapErr> {
        Ok(CapStruct { name, idx, variant: Some(variant), len, fields: vec![] })
    }
    fn is_human_readable(&self) -> bool {
        false
    }
}

impl CapSeq {
    fn finish(self) -> SV {
        match self.kind {
            0 => SV::Seq { hint: self.hint, items: self.items },
            1 => SV::Tuple(self.items),
            2 => SV::TupleStruct(self.name, self.items),
            _ => SV::TupleVariant { name: self.name, idx: self.idx, variant: self.variant, items: self.items },
        }
    }
}
impl SerializeSeq for CapSeq {
    type Ok = SV;
    type Error = CapErr;
    fn serialize_element<T: ?Sized + Serialize>(&mut self, v: &T) -> Result<(), CapErr> {
        self.items.push(capture(v)?);
        Ok(())
    }
    fn end(self) -> Result<SV, CapErr> { Ok(self.finish()) }
}
impl SerializeTuple for CapSeq {
    type Ok = SV;
    type Error = CapErr;
    fn serialize_element<T: ?Sized + Serialize>(&mut self, v: &T) -> Result<(), CapErr> {
        self.items.push(capture(v)?);
        Ok(())
    }
    fn end(self) -> Result<SV, CapErr> { Ok(self.finish()) }
}
impl SerializeTupleStruct for CapSeq {
    type Ok = SV;
    type Error = CapErr;
    fn serialize_field<T: ?Sized + Serialize>(&mut self, v: &T) -> Result<(), CapErr> {
        self.items.push(capture(v)?);
        Ok(())
    }
    fn end(self) -> Result<SV, CapErr> { Ok(self.finish()) }
}
impl SerializeTupleVariant for CapSeq {
    type Ok = SV;
    type Error = CapErr;
    fn serialize_field<T: ?Sized + Serialize>(&mut self, v: &T) -> Result<(), CapErr> {
        self.items.push(capture(v)?);
        Ok(())
    }
    fn end(self) -> Result<SV, CapErr> { Ok(self.finish()) }
}
impl SerializeMap for CapMap {
    type Ok = SV;
    type Error = CapErr;
    fn serialize_key<T: ?Sized + Serialize>(&mut self, k: &T) -> Result<(), CapErr> {
        match capture(k)? {
            SV::Str(s) => self.key = Some(s),
            SV::Char(c) => self.key = Some(c.to_string()),
            other => return Err(CapErr(format!("non-string map key {other:?}"))),
        }
        Ok(())
    }
    fn serialize_value<T: ?Sized + Serialize>(&mut self, v: &T) -> Result<(), CapErr> {
        let k = self.key.take().ok_or_else(|| CapErr("value without key".into()))?;
        self.entries.push((k, capture(v)?));
        Ok(())
    }
    fn end(self) -> Result<SV, CapErr> {
        Ok(SV::Map { hint: self.hint, entries: self.entries })
    }
}
impl CapStruct {
    fn finish(self) -> SV {
        match self.variant {
            None => SV::Struct { name: self.name, len: self.len, fields: self.fields },
            Some(variant) => SV::StructVariant { name: self.name, idx: self.idx, variant, len: self.len, fields: self.fields },
        }
    }
}
impl SerializeStruct for CapStruct {
    type Ok = SV;
    type Error = CapErr;
    fn serialize_field<T: ?Sized + Serialize>(&mut self, k: &'static str, v: &T) -> Result<(), CapErr> {
        self.fields.push((k, capture(v)?));
        Ok(())
    }
    fn skip_field(&mut self, k: &'static str) -> Result<(), CapErr> {
        self.fields.push((k, SV::Skip));
        Ok(())
    }
    fn end(self) -> Result<SV, CapErr> { Ok(self.finish()) }
}
impl SerializeStructVariant for CapStruct {
    type Ok = SV;
    type Error = CapErr;
    fn serialize_field<T: ?Sized + Serialize>(&mut self, k: &'static str, v: &T) -> Result<(), CapErr> {
        self.fields.push((k, capture(v)?));
        Ok(())
    }
    fn skip_field(&mut self, k: &'static str) -> Result<(), CapErr> {
        self.fields.push((k, SV::Skip));
        Ok(())
    }
    fn end(self) -> Result<SV, CapErr> { Ok(self.finish()) }
}

// ---------------------------------------------------------------------------------------------
// SvDe: build any T: Deserialize from a term
// ---------------------------------------------------------------------------------------------
pub struct SvDe<'a>(pub &'a SV);
pub fn build<'a, T: de::Deserialize<'a>>(sv: &'a SV) -> Result<T, CapErr> {
    T::deserialize(SvDe(sv))
}

struct SeqAcc<'a>(std::slice::Iter<'a, SV>);
impl<'de, 'a> SeqAccess<'de> for SeqAcc<'a> {
    type Error = CapErr;
    fn next_element_seed<T: DeserializeSeed<'de>>(&mut self, seed: T) -> Result<Option<T::Value>, CapErr> {
        match self.0.next() {
            Some(x) => seed.deserialize(SvDe(x)).map(Some),
            None => Ok(None),
        }
    }
}
struct StrDe<'a>(&'a str);
impl<'de, 'a> Deserializer<'de> for StrDe<'a> {
    type Error = CapErr;
    fn deserialize_any<V: Visitor<'de>>(self, v: V) -> Result<V::Value, CapErr> {
        v.visit_str(self.0)
    }
    serde::forward_to_deserialize_any! { bool i8 i16 i32 i64 i128 u8 u16 u32 u64 u128 f32 f64 char str string bytes byte_buf option unit unit_struct newtype_struct seq tuple tuple_struct map struct enum identifier ignored_any }
}
struct MapAcc<'a> { it: std::vec::IntoIter<(&'a str, &'a SV)>, cur: Option<&'a SV> }
impl<'de, 'a> MapAccess<'de> for MapAcc<'a> {
    type Error = CapErr;
    fn next_key_seed<K: DeserializeSeed<'de>>(&mut self, seed: K) -> Result<Option<K::Value>, CapErr> {
        match self.it.next() {
            Some((k, v)) => {
                self.cur = Some(v);
                seed.deserialize(StrDe(k)).map(Some)
            }
            None => Ok(None),
        }
    }
    fn next_value_seed<V: DeserializeSeed<'de>>(&mut self, seed: V) -> Result<V::Value, CapErr> {
        seed.deserialize(SvDe(self.cur.take().expect("value after key")))
    }
}
struct EnumAcc<'a>(&'a SV);
impl<'de, 'a> EnumAccess<'de> for EnumAcc<'a> {
    type Error = CapErr;
    type Variant = Self;
    fn variant_seed<V: DeserializeSeed<'de>>(self, seed: V) -> Result<(V::Value, Self), CapErr> {
        // by NAME: serde numbers the variants differently for writing (all of them) and for reading
        // (the unskipped ones), the name is unambiguous
        let variant = match self.0 {
            SV::UnitVariant { variant, .. } | SV::NewtypeVariant { variant, .. } | SV::TupleVariant { variant, .. } | SV::StructVariant { variant, .. } => *variant,
            _ => return Err(CapErr("not an enum term".into())),
        };
        Ok((seed.deserialize(StrDe(variant))?, self))
    }
}
impl<'de, 'a> VariantAccess<'de> for EnumAcc<'a> {
    type Error = CapErr;
    fn unit_variant(self) -> Result<(), CapErr> {
        Ok(())
    }
    fn newtype_variant_seed<T: DeserializeSeed<'de>>(self, seed: T) -> Result<T::Value, CapErr> {
        match self.0 {
            SV::NewtypeVariant { v, .. } => seed.deserialize(SvDe(v)),
            _ => Err(CapErr("not a newtype variant".into())),
        }
    }
    fn tuple_variant<V: Visitor<'de>>(self, _len: usize, v: V) -> Result<V::Value, CapErr> {
        match self.0 {
            SV::TupleVariant { items, .. } => v.visit_seq(SeqAcc(items.iter())),
            _ => Err(CapErr("not a tuple variant".into())),
        }
    }
    fn struct_variant<V: Visitor<'de>>(self, _f: &'static [&'static str], v: V) -> Result<V::Value, CapErr> {
        match self.0 {
            SV::StructVariant { fields, .. } => v.visit_map(fields_acc(fields)),
            _ => Err(CapErr("not a struct variant".into())),
        }
    }
}
fn fields_acc<'a>(fields: &'a [(&'static str, SV)]) -> MapAcc<'a> {
    let v: Vec<(&'a str, &'a SV)> = fields.iter().filter(|(_, x)| !matches!(x, SV::Skip)).map(|(k, x)| (*k, x)).collect();
    MapAcc { it: v.into_iter(), cur: None }
}

impl<'de, 'a> Deserializer<'de> for SvDe<'a> {
    type Error = CapErr;
    fn deserialize_any<V: Visitor<'de>>(self, v: V) -> Result<V::Value, CapErr> {
        match self.0 {
            SV::Bool(x) => v.visit_bool(*x),
            SV::I8(x) => v.visit_i8(*x),
            SV::I16(x) => v.visit_i16(*x),
            SV::I32(x) => v.visit_i32(*x),
            SV::I64(x) => v.visit_i64(*x),
            SV::U8(x) => v.visit_u8(*x),
            SV::U16(x) => v.visit_u16(*x),
            SV::U32(x) => v.visit_u32(*x),
            SV::U64(x) => v.visit_u64(*x),
            SV::I128(x) => v.visit_i128(*x),
            SV::U128(x) => v.visit_u128(*x),
            SV::F32(x) => v.visit_f32(*x),
            SV::F64(x) => v.visit_f64(*x),
            SV::Char(x) => v.visit_char(*x),
            SV::Str(x) => v.visit_str(x),
            SV::Bytes(x) => v.visit_bytes(x),
            SV::None => v.visit_none(),
            SV::Some(x) => v.visit_some(SvDe(x)),
            SV::Unit | SV::UnitStruct(_) => v.visit_unit(),
            SV::NewtypeStruct(_, x) => v.visit_newtype_struct(SvDe(x)),
            SV::Seq { items, .. } | SV::Tuple(items) | SV::TupleStruct(_, items) => v.visit_seq(SeqAcc(items.iter())),
            SV::Map { entries, .. } => {
                let e: Vec<(&str, &SV)> = entries.iter().map(|(k, x)| (k.as_str(), x)).collect();
                v.visit_map(MapAcc { it: e.into_iter(), cur: None })
            }
            SV::Struct { fields, .. } | SV::StructMap { fields, .. } => v.visit_map(fields_acc(fields)),
            SV::UnitVariant { .. } | SV::NewtypeVariant { .. } | SV::TupleVariant { .. } | SV::StructVariant { .. } => v.visit_enum(EnumAcc(self.0)),
            SV::Skip | SV::Undef => Err(CapErr("no value".into())),
        }
    }
    fn deserialize_option<V: Visitor<'de>>(self, v: V) -> Result<V::Value, CapErr> {
        match self.0 {
            SV::None => v.visit_none(),
            SV::Some(x) => v.visit_some(SvDe(x)),
            _ => v.visit_some(self),
        }
    }
    fn deserialize_byte_buf<V: Visitor<'de>>(self, v: V) -> Result<V::Value, CapErr> {
        match self.0 {
            SV::Bytes(x) => v.visit_byte_buf(x.clone()),
            _ => self.deserialize_any(v),
        }
    }
    fn is_human_readable(&self) -> bool {
        false
    }
    serde::forward_to_deserialize_any! { bool i8 i16 i32 i64 i128 u8 u16 u32 u64 u128 f32 f64 char str string bytes unit unit_struct newtype_struct seq tuple tuple_struct map struct enum identifier ignored_any }
}

// ---------------------------------------------------------------------------------------------
// helpers on terms
// ---------------------------------------------------------------------------------------------

/// A captured `Map` standing where the schema has a record is the map-style struct that
/// `#[serde(flatten)]` generates: re-tag it (guided by the schema term; `env` resolves refs).
pub fn retag_structmaps(sv: SV, s: &J, env: &HashMap<String, J>) -> SV {
    let s = if s["k"] == "ref" { env.get(s["name"].as_str().unwrap_or("")).unwrap_or(s) } else { s };
    let k = s["k"].as_str().unwrap_or("");
    match sv {
        SV::Map { hint, entries } if k == "record" => {
            let fs = s["fields"].as_array().cloned().unwrap_or_default();
            let fields = entries
                .into_iter()
                .map(|(key, v)| {
                    let ft = fs.iter().find(|f| f["name"] == key.as_str() || f["aliases"].as_array().map(|a| a.iter().any(|x| x == key.as_str())).unwrap_or(false));
                    let v = match ft {
                        Some(f) => retag_structmaps(v, &f["type"], env),
                        None => v,
                    };
                    (intern(&key), v)
                })
                .collect();
            SV::StructMap { hint, fields }
        }
        SV::Struct { name, len, fields } if k == "record" => {
            let fs = s["fields"].as_array().cloned().unwrap_or_default();
            let fields = fields
                .into_iter()
                .map(|(key, v)| {
                    let ft = fs.iter().find(|f| f["name"] == key || f["aliases"].as_array().map(|a| a.iter().any(|x| x == key)).unwrap_or(false));
                    let v = match ft {
                        Some(f) => retag_structmaps(v, &f["type"], env),
                        None => v,
                    };
                    (key, v)
                })
                .collect();
            SV::Struct { name, len, fields }
        }
        SV::Seq { hint, items } if k == "array" => SV::Seq { hint, items: items.into_iter().map(|x| retag_structmaps(x, &s["items"], env)).collect() },
        SV::Some(v) if k == "union" => {
            let other = s["branches"].as_array().and_then(|b| b.iter().find(|x| x["k"] != "null")).cloned().unwrap_or(J::Null);
            SV::Some(Box::new(retag_structmaps(*v, &other, env)))
        }
        other => other,
    }
}

/// map entries sorted by key, recursively (for order-insensitive comparison of captured terms)
pub fn sort_maps(sv: &SV) -> SV {
    match sv {
        SV::Map { hint, entries } => {
            let mut e: Vec<(String, SV)> = entries.iter().map(|(k, v)| (k.clone(), sort_maps(v))).collect();
            e.sort_by(|a, b| a.0.cmp(&b.0));
            SV::Map { hint: *hint, entries: e }
        }
        SV::Some(v) => SV::Some(Box::new(sort_maps(v))),
        SV::NewtypeStruct(n, v) => SV::NewtypeStruct(n, Box::new(sort_maps(v))),
        SV::NewtypeVariant { name, idx, variant, v } => SV::NewtypeVariant { name, idx: *idx, variant, v: Box::new(sort_maps(v)) },
        SV::Seq { hint, items } => SV::Seq { hint: *hint, items: items.iter().map(sort_maps).collect() },
        SV::Tuple(items) => SV::Tuple(items.iter().map(sort_maps).collect()),
        SV::TupleStruct(n, items) => SV::TupleStruct(n, items.iter().map(sort_maps).collect()),
        SV::TupleVariant { name, idx, variant, items } => SV::TupleVariant { name, idx: *idx, variant, items: items.iter().map(sort_maps).collect() },
        SV::Struct { name, len, fields } => SV::Struct { name, len: *len, fields: fields.iter().map(|(k, v)| (*k, sort_maps(v))).collect() },
        SV::StructMap { hint, fields } => SV::StructMap { hint: *hint, fields: fields.iter().map(|(k, v)| (*k, sort_maps(v))).collect() },
        SV::StructVariant { name, idx, variant, len, fields } => SV::StructVariant { name, idx: *idx, variant, len: *len, fields: fields.iter().map(|(k, v)| (*k, sort_maps(v))).collect() },
        other => other.clone(),
    }
}
