//! Bridge encodings between the TLA+ terms (JSON) and the crate's types.
//!
//! Schema terms and value terms are plain `serde_json::Value`s with the shapes documented in
//! spec/AvroSchema.tla and spec/AvroValue.tla.  Everything wider than 31 bits travels as an array
//! of byte values; JSON `null` is never emitted.

use apache_avro::types::Value;
use apache_avro::{BigDecimal, Decimal, Duration, Uuid};
use serde_json::{Value as J, json};
use std::collections::HashMap;

pub fn bytes_j(b: &[u8]) -> J {
    J::Array(b.iter().map(|x| J::from(*x as u64)).collect())
}
pub fn j_bytes(j: &J) -> Vec<u8> {
    j.as_array()
        .map(|a| a.iter().map(|x| x.as_u64().unwrap_or(0) as u8).collect())
        .unwrap_or_default()
}
pub fn le8(n: i64) -> J {
    bytes_j(&n.to_le_bytes())
}
pub fn j_i64(j: &J) -> i64 {
    let b = j_bytes(j);
    let mut a = [0u8; 8];
    a.copy_from_slice(&b[..8]);
    i64::from_le_bytes(a)
}
pub fn small(n: usize) -> J {
    assert!(n < (1usize << 31), "JSON number too large for TLC: {n}");
    J::from(n as u64)
}

pub const INT_KINDS: [&str; 3] = ["int", "date", "time-millis"];
pub const LONG_KINDS: [&str; 8] = [
    "long",
    "time-micros",
    "timestamp-millis",
    "timestamp-micros",
    "timestamp-nanos",
    "local-timestamp-millis",
    "local-timestamp-micros",
    "local-timestamp-nanos",
];

pub fn sk(s: &J) -> &str {
    s.get("k").and_then(|k| k.as_str()).unwrap_or("?")
}
pub fn vt(v: &J) -> &str {
    v.get("t").and_then(|k| k.as_str()).unwrap_or("?")
}

/// value term -> crate Value (by tag; no schema needed)
pub fn vterm_to_value(v: &J) -> Value {
    let t = vt(v);
    match t {
        "null" => Value::Null,
        "boolean" => Value::Boolean(v["bool"].as_bool().unwrap()),
        "int" => Value::Int(j_i64(&v["n"]) as i32),
        "date" => Value::Date(j_i64(&v["n"]) as i32),
        "time-millis" => Value::TimeMillis(j_i64(&v["n"]) as i32),
        "long" => Value::Long(j_i64(&v["n"])),
        "time-micros" => Value::TimeMicros(j_i64(&v["n"])),
        "timestamp-millis" => Value::TimestampMillis(j_i64(&v["n"])),
        "timestamp-micros" => Value::TimestampMicros(j_i64(&v["n"])),
        "timestamp-nanos" => Value::TimestampNanos(j_i64(&v["n"])),
        "local-timestamp-millis" => Value::LocalTimestampMillis(j_i64(&v["n"])),
        "local-timestamp-micros" => Value::LocalTimestampMicros(j_i64(&v["n"])),
        "local-timestamp-nanos" => Value::LocalTimestampNanos(j_i64(&v["n"])),
        "float" => {
            let b = j_bytes(&v["bits"]);
            Value::Float(f32::from_le_bytes([b[0], b[1], b[2], b[3]]))
        }
        "double" => {
            let b = j_bytes(&v["bits"]);
            let mut a = [0u8; 8];
            a.copy_from_slice(&b[..8]);
            Value::Double(f64::from_le_bytes(a))
        }
        "bytes" => Value::Bytes(j_bytes(&v["b"])),
        "string" => Value::String(String::from_utf8(j_bytes(&v["b"])).expect("utf8 in term")),
        "fixed" => {
            let b = j_bytes(&v["b"]);
            Value::Fixed(b.len(), b)
        }
        "enum" => Value::Enum(
            v["i"].as_u64().unwrap() as u32,
            v["sym"].as_str().unwrap().to_string(),
        ),
        "union" => Value::Union(
            v["i"].as_u64().unwrap() as u32,
            Box::new(vterm_to_value(&v["v"])),
        ),
        "array" => Value::Array(v["items"].as_array().unwrap().iter().map(vterm_to_value).collect()),
        "map" => {
            let mut m = HashMap::new();
            for e in v["entries"].as_array().unwrap() {
                let k = String::from_utf8(j_bytes(&e[0])).expect("utf8 key");
                m.insert(k, vterm_to_value(&e[1]));
            }
            Value::Map(m)
        }
        "record" => Value::Record(
            v["fields"]
                .as_array()
                .unwrap()
                .iter()
                .map(|e| (e[0].as_str().unwrap().to_string(), vterm_to_value(&e[1])))
                .collect(),
        ),
        "decimal" => Value::Decimal(Decimal::from(j_bytes(&v["b"]))),
        "big-decimal" => {
            let u = num_bigint::BigInt::from_signed_bytes_be(&j_bytes(&v["unscaled"]));
            Value::BigDecimal(BigDecimal::new(u, j_i64(&v["scale"])))
        }
        "duration" => {
            let b = j_bytes(&v["b"]);
            let mut a = [0u8; 12];
            a.copy_from_slice(&b[..12]);
            Value::Duration(Duration::from(a))
        }
        "uuid" => {
            let b = j_bytes(&v["b"]);
            let mut a = [0u8; 16];
            a.copy_from_slice(&b[..16]);
            Value::Uuid(Uuid::from_bytes(a))
        }
        other => panic!("vterm_to_value: unknown tag {other}"),
    }
}

fn n_term(tag: &str, n: i64) -> J {
    json!({"t": tag, "n": le8(n)})
}

/// crate Value -> value term (projection; bit-exact for floats)
pub fn value_to_vterm(v: &Value) -> J {
    match v {
        Value::Null => json!({"t":"null"}),
        Value::Boolean(b) => json!({"t":"boolean","bool":*b}),
        Value::Int(i) => n_term("int", *i as i64),
        Value::Date(i) => n_term("date", *i as i64),
        Value::TimeMillis(i) => n_term("time-millis", *i as i64),
        Value::Long(i) => n_term("long", *i),
        Value::TimeMicros(i) => n_term("time-micros", *i),
        Value::TimestampMillis(i) => n_term("timestamp-millis", *i),
        Value::TimestampMicros(i) => n_term("timestamp-micros", *i),
        Value::TimestampNanos(i) => n_term("timestamp-nanos", *i),
        Value::LocalTimestampMillis(i) => n_term("local-timestamp-millis", *i),
        Value::LocalTimestampMicros(i) => n_term("local-timestamp-micros", *i),
        Value::LocalTimestampNanos(i) => n_term("local-timestamp-nanos", *i),
        Value::Float(x) => json!({"t":"float","bits":bytes_j(&x.to_bits().to_le_bytes())}),
        Value::Double(x) => json!({"t":"double","bits":bytes_j(&x.to_bits().to_le_bytes())}),
        Value::Bytes(b) => json!({"t":"bytes","b":bytes_j(b)}),
        Value::String(s) => json!({"t":"string","b":bytes_j(s.as_bytes())}),
        Value::Fixed(_, b) => json!({"t":"fixed","b":bytes_j(b)}),
        Value::Enum(i, s) => json!({"t":"enum","i":small(*i as usize),"sym":s}),
        Value::Union(i, b) => json!({"t":"union","i":small(*i as usize),"v":value_to_vterm(b)}),
        Value::Array(items) => json!({"t":"array","items": items.iter().map(value_to_vterm).collect::<Vec<_>>()}),
        Value::Map(m) => {
            let mut es: Vec<(&String, &Value)> = m.iter().collect();
            es.sort_by(|a, b| a.0.cmp(b.0));
            json!({"t":"map","entries": es.iter().map(|(k, v)| json!([bytes_j(k.as_bytes()), value_to_vterm(v)])).collect::<Vec<_>>()})
        }
        Value::Record(fs) => json!({"t":"record","fields": fs.iter().map(|(k, v)| json!([k, value_to_vterm(v)])).collect::<Vec<_>>()}),
        Value::Decimal(d) => {
            let b: Vec<u8> = <Vec<u8>>::try_from(d).unwrap_or_default();
            json!({"t":"decimal","b":bytes_j(&b)})
        }
        Value::BigDecimal(bd) => {
            let (u, e) = bd.as_bigint_and_exponent();
            json!({"t":"big-decimal","unscaled":bytes_j(&u.to_signed_bytes_be()),"scale":le8(e)})
        }
        Value::Duration(d) => {
            let a: [u8; 12] = (*d).into();
            json!({"t":"duration","b":bytes_j(&a)})
        }
        Value::Uuid(u) => json!({"t":"uuid","b":bytes_j(u.as_bytes())}),
    }
}

pub fn none_term() -> J {
    json!({"t":"none"})
}

// ---------------------------------------------------------------------------------------------
// Rendering a schema term as Avro schema JSON.
// ---------------------------------------------------------------------------------------------

fn split_name(full: &str) -> (Option<&str>, &str) {
    match full.rfind('.') {
        Some(i) => (Some(&full[..i]), &full[i + 1..]),
        None => (None, full),
    }
}

/// How names are spelled.  `style` bits: 0 = always dotted full names, 1 = name + namespace
/// attribute (omitted when inherited), 2 = name + namespace attribute always.
pub struct Render {
    pub style: u8,
    defined: std::collections::HashSet<String>,
}

impl Render {
    pub fn new(style: u8) -> Self {
        Render { style, defined: Default::default() }
    }

    fn name_keys(&self, obj: &mut serde_json::Map<String, J>, full: &str, enclosing: Option<&str>) {
        let (ns, short) = split_name(full);
        match self.style {
            0 => {
                // dotted full name; a null-namespace name inside a namespace needs an explicit ""
                if ns.is_none() && enclosing.is_some() {
                    obj.insert("name".into(), J::from(short));
                    obj.insert("namespace".into(), J::from(""));
                } else {
                    obj.insert("name".into(), J::from(full));
                }
            }
            1 => {
                obj.insert("name".into(), J::from(short));
                if ns != enclosing {
                    obj.insert("namespace".into(), J::from(ns.unwrap_or("")));
                }
            }
            _ => {
                obj.insert("name".into(), J::from(short));
                if ns.is_some() || enclosing.is_some() {
                    obj.insert("namespace".into(), J::from(ns.unwrap_or("")));
                }
            }
        }
    }

    fn ref_text(&self, full: &str, enclosing: Option<&str>) -> String {
        let (ns, short) = split_name(full);
        if self.style == 1 && ns == enclosing && ns.is_some() {
            short.to_string()
        } else if ns.is_none() && enclosing.is_some() {
            // a reference to a null-namespace name from inside a namespace cannot be spelled
            // by a bare short name (it would inherit); use the leading-dot-free full form only
            // when unambiguous -- callers avoid generating this case.
            short.to_string()
        } else {
            full.to_string()
        }
    }

    pub fn schema(&mut self, s: &J, enclosing: Option<&str>) -> J {
        let k = sk(s);
        match k {
            "null" | "boolean" | "int" | "long" | "float" | "double" | "bytes" | "string" => J::from(k),
            "date" | "time-millis" => json!({"type":"int","logicalType":k}),
            "time-micros" | "timestamp-millis" | "timestamp-micros" | "timestamp-nanos"
            | "local-timestamp-millis" | "local-timestamp-micros" | "local-timestamp-nanos" => {
                json!({"type":"long","logicalType":k})
            }
            "big-decimal" => json!({"type":"bytes","logicalType":"big-decimal"}),
            "array" => json!({"type":"array","items": self.schema(&s["items"], enclosing)}),
            "map" => json!({"type":"map","values": self.schema(&s["values"], enclosing)}),
            "union" => J::Array(
                s["branches"].as_array().unwrap().iter().map(|b| self.schema(b, enclosing)).collect(),
            ),
            "ref" => J::from(self.ref_text(s["name"].as_str().unwrap(), enclosing)),
            "record" | "enum" | "fixed" | "decimal" | "uuid" | "duration" => {
                let named = match k {
                    "decimal" | "uuid" => s["base"].as_str() == Some("fixed"),
                    _ => true,
                };
                let mut obj = serde_json::Map::new();
                let mut inner_ns = enclosing.map(|x| x.to_string());
                if named {
                    let full = s["name"].as_str().unwrap();
                    if self.defined.contains(full) {
                        return J::from(self.ref_text(full, enclosing));
                    }
                    self.defined.insert(full.to_string());
                    self.name_keys(&mut obj, full, enclosing);
                    inner_ns = split_name(full).0.map(|x| x.to_string());
                }
                match k {
                    "record" => {
                        obj.insert("type".into(), J::from("record"));
                        let mut fs = vec![];
                        for f in s["fields"].as_array().unwrap() {
                            let mut fo = serde_json::Map::new();
                            fo.insert("name".into(), f["name"].clone());
                            fo.insert("type".into(), self.schema(&f["type"], inner_ns.as_deref()));
                            if f.get("hasdef").and_then(|x| x.as_bool()) == Some(true) {
                                fo.insert("default".into(), f["defjson"].clone());
                            }
                            if let Some(al) = f.get("aliases").and_then(|x| x.as_array()) {
                                if !al.is_empty() {
                                    fo.insert("aliases".into(), J::Array(al.clone()));
                                }
                            }
                            fs.push(J::Object(fo));
                        }
                        obj.insert("fields".into(), J::Array(fs));
                    }
                    "enum" => {
                        obj.insert("type".into(), J::from("enum"));
                        obj.insert("symbols".into(), s["symbols"].clone());
                        if s.get("hasdef").and_then(|x| x.as_bool()) == Some(true) {
                            obj.insert("default".into(), s["def"].clone());
                        }
                    }
                    "fixed" => {
                        obj.insert("type".into(), J::from("fixed"));
                        obj.insert("size".into(), s["size"].clone());
                    }
                    "duration" => {
                        obj.insert("type".into(), J::from("fixed"));
                        obj.insert("size".into(), J::from(12));
                        obj.insert("logicalType".into(), J::from("duration"));
                    }
                    "decimal" => {
                        if named {
                            obj.insert("type".into(), J::from("fixed"));
                            obj.insert("size".into(), s["size"].clone());
                        } else {
                            obj.insert("type".into(), J::from("bytes"));
                        }
                        obj.insert("logicalType".into(), J::from("decimal"));
                        obj.insert("precision".into(), s["precision"].clone());
                        obj.insert("scale".into(), s["scale"].clone());
                    }
                    "uuid" => {
                        if named {
                            obj.insert("type".into(), J::from("fixed"));
                            obj.insert("size".into(), J::from(16));
                        } else {
                            obj.insert("type".into(), s["base"].clone());
                        }
                        obj.insert("logicalType".into(), J::from("uuid"));
                    }
                    _ => unreachable!(),
                }
                J::Object(obj)
            }
            other => panic!("render: unknown schema kind {other}"),
        }
    }
}

pub fn render_schema_text(s: &J, style: u8) -> String {
    let mut r = Render::new(style);
    serde_json::to_string(&r.schema(s, None)).unwrap()
}

/// In the TLA+ term, a named type that occurs a second time must be a `ref`.  Generators build
/// terms that way; this helper checks it (used as a sanity assertion).
pub fn collect_defs<'a>(s: &'a J, out: &mut HashMap<String, &'a J>) {
    match sk(s) {
        "array" => collect_defs(&s["items"], out),
        "map" => collect_defs(&s["values"], out),
        "union" => s["branches"].as_array().unwrap().iter().for_each(|b| collect_defs(b, out)),
        "record" => {
            out.insert(s["name"].as_str().unwrap().to_string(), s);
            for f in s["fields"].as_array().unwrap() {
                collect_defs(&f["type"], out);
            }
        }
        "enum" | "fixed" | "duration" => {
            out.insert(s["name"].as_str().unwrap().to_string(), s);
        }
        "decimal" | "uuid" => {
            if s["base"].as_str() == Some("fixed") {
                out.insert(s["name"].as_str().unwrap().to_string(), s);
            }
        }
        _ => {}
    }
}
