//! Seeded generators of schema terms and conforming value terms (beyond the TLC bounds).

use crate::term::*;
use serde_json::{Value as J, json};
use std::collections::HashMap;

pub struct Rng(pub u64);
impl Rng {
    pub fn new(seed: u64) -> Self {
        Rng(seed.wrapping_mul(0x9E3779B97F4A7C15) ^ 0xD1B54A32D192ED03)
    }
    pub fn next(&mut self) -> u64 {
        self.0 = self.0.wrapping_add(0x9E3779B97F4A7C15);
        let mut z = self.0;
        z = (z ^ (z >> 30)).wrapping_mul(0xBF58476D1CE4E5B9);
        z = (z ^ (z >> 27)).wrapping_mul(0x94D049BB133111EB);
        z ^ (z >> 31)
    }
    pub fn below(&mut self, n: usize) -> usize {
        if n == 0 { 0 } else { (self.next() % n as u64) as usize }
    }
    pub fn chance(&mut self, num: usize, den: usize) -> bool {
        self.below(den) < num
    }
    pub fn pick<'a, T>(&mut self, xs: &'a [T]) -> &'a T {
        &xs[self.below(xs.len())]
    }
}

pub struct SchemaGen<'r> {
    pub rng: &'r mut Rng,
    counter: usize,
    /// full names defined so far (in document order) with their kind
    pub defined: Vec<(String, J)>,
    /// records currently being defined (candidates for recursive references)
    open_records: Vec<String>,
    namespaces: Vec<Option<String>>,
}

const LEAVES: [&str; 27] = [
    "null", "boolean", "int", "long", "float", "double", "bytes", "string",
    "date", "time-millis", "time-micros", "timestamp-millis", "timestamp-micros", "timestamp-nanos",
    "local-timestamp-millis", "local-timestamp-micros", "local-timestamp-nanos",
    "big-decimal", "fixed", "enum", "decimal-bytes", "decimal-fixed", "uuid-string", "uuid-bytes",
    "uuid-fixed", "duration", "fixed0",
];

/// union-exclusion class of a schema term: two branches of the same class never share a union
pub fn union_class(s: &J) -> String {
    let k = sk(s);
    match k {
        "date" | "time-millis" | "int" => "int".into(),
        "long" | "time-micros" | "timestamp-millis" | "timestamp-micros" | "timestamp-nanos"
        | "local-timestamp-millis" | "local-timestamp-micros" | "local-timestamp-nanos" => "long".into(),
        "big-decimal" | "bytes" => "bytes".into(),
        "decimal" | "uuid" => match s["base"].as_str().unwrap() {
            "fixed" => format!("named:{}", s["name"].as_str().unwrap()),
            b => b.to_string(),
        },
        "record" | "enum" | "fixed" | "duration" | "ref" => format!("named:{}", s["name"].as_str().unwrap()),
        other => other.to_string(),
    }
}

impl<'r> SchemaGen<'r> {
    pub fn new(rng: &'r mut Rng) -> Self {
        let nss = match rng.below(4) {
            0 => vec![None],
            1 => vec![Some("ns".to_string())],
            2 => vec![Some("ns".to_string()), Some("ns.sub".to_string())],
            _ => vec![Some("a.b".to_string()), Some("c".to_string())],
        };
        SchemaGen { rng, counter: 0, defined: vec![], open_records: vec![], namespaces: nss }
    }

    fn fresh_name(&mut self, prefix: &str) -> String {
        self.counter += 1;
        let ns = self.namespaces[self.rng.below(self.namespaces.len())].clone();
        match ns {
            Some(ns) => format!("{ns}.{prefix}{}", self.counter),
            None => format!("{prefix}{}", self.counter),
        }
    }

    fn leaf(&mut self, which: &str) -> J {
        match which {
            "fixed" => {
                let n = self.fresh_name("F");
                let size = *self.rng.pick(&[1usize, 2, 3, 8, 16]);
                let s = json!({"k":"fixed","name":n,"size":size});
                self.defined.push((n, s.clone()));
                s
            }
            "fixed0" => {
                let n = self.fresh_name("Z");
                let s = json!({"k":"fixed","name":n,"size":0});
                self.defined.push((n, s.clone()));
                s
            }
            "enum" => {
                let n = self.fresh_name("E");
                let cnt = 1 + self.rng.below(4);
                let syms: Vec<String> = (0..cnt).map(|i| format!("S{i}")).collect();
                let s = json!({"k":"enum","name":n,"symbols":syms});
                self.defined.push((n, s.clone()));
                s
            }
            "decimal-bytes" => json!({"k":"decimal","base":"bytes","precision":20,"scale":2}),
            "decimal-fixed" => {
                let n = self.fresh_name("D");
                let size = *self.rng.pick(&[1usize, 2, 4, 9]);
                // precision must fit the size: floor(log10(2^(8n-1)-1))
                let prec = match size { 1 => 2, 2 => 4, 4 => 9, _ => 21 };
                let s = json!({"k":"decimal","base":"fixed","name":n,"size":size,"precision":prec,"scale":1});
                self.defined.push((n, s.clone()));
                s
            }
            "uuid-string" => json!({"k":"uuid","base":"string"}),
            "uuid-bytes" => json!({"k":"uuid","base":"bytes"}),
            "uuid-fixed" => {
                let n = self.fresh_name("U");
                let s = json!({"k":"uuid","base":"fixed","name":n,"size":16});
                self.defined.push((n, s.clone()));
                s
            }
            "duration" => {
                let n = self.fresh_name("Du");
                let s = json!({"k":"duration","name":n,"size":12});
                self.defined.push((n, s.clone()));
                s
            }
            other => json!({"k": other}),
        }
    }

    pub fn schema(&mut self, depth: usize) -> J {
        // occasionally refer to something already defined
        if !self.defined.is_empty() && self.rng.chance(1, 6) {
            let (n, _) = self.defined[self.rng.below(self.defined.len())].clone();
            if !self.open_records.contains(&n) {
                return json!({"k":"ref","name":n});
            }
        }
        let c = if depth == 0 { 0 } else { self.rng.below(10) };
        match c {
            0..=3 => {
                let l = *self.rng.pick(&LEAVES);
                self.leaf(l)
            }
            4 => json!({"k":"array","items": self.schema(depth - 1)}),
            5 => json!({"k":"map","values": self.schema(depth - 1)}),
            6 | 7 => self.union(depth - 1),
            _ => self.record(depth - 1),
        }
    }

    fn union(&mut self, depth: usize) -> J {
        let n = 1 + self.rng.below(4);
        let mut branches: Vec<J> = vec![];
        let mut classes: Vec<String> = vec![];
        let mut tries = 0;
        while branches.len() < n && tries < 20 {
            tries += 1;
            let mark = self.defined.len();
            let cnt = self.counter;
            let b = self.schema(depth);
            let cl = union_class(&b);
            if sk(&b) == "union" || classes.contains(&cl) {
                // roll back any definitions made by the discarded branch
                self.defined.truncate(mark);
                self.counter = cnt;
                continue;
            }
            classes.push(cl);
            branches.push(b);
        }
        if branches.is_empty() {
            branches.push(json!({"k":"null"}));
        }
        json!({"k":"union","branches":branches})
    }

    fn record(&mut self, depth: usize) -> J {
        let name = self.fresh_name("R");
        self.open_records.push(name.clone());
        // register before the fields so that fields may refer to it
        let nf = self.rng.below(4);
        let mut fields = vec![];
        for i in 0..nf {
            let ty = if self.rng.chance(1, 5) {
                // recursive reference through a nullable union / array / map
                let r = json!({"k":"ref","name": self.open_records[self.rng.below(self.open_records.len())]});
                match self.rng.below(3) {
                    0 => json!({"k":"union","branches":[{"k":"null"}, r]}),
                    1 => json!({"k":"array","items": r}),
                    _ => json!({"k":"map","values": r}),
                }
            } else {
                self.schema(depth)
            };
            fields.push(json!({"name": format!("f{i}"), "type": ty}));
        }
        self.open_records.pop();
        let s = json!({"k":"record","name":name,"fields":fields});
        self.defined.push((name, json!({"k":"record"})));
        s
    }
}

/// Boundary-biased 64-bit integers: every first/last value of each varint length, extremes, random.
pub fn boundary_i64(rng: &mut Rng) -> i64 {
    match rng.below(10) {
        0 => 0,
        1 => *rng.pick(&[1i64, -1, 2, -2]),
        2 | 3 | 4 => {
            // zig-zag varint length boundaries: |zz| = 2^(7k)
            let k = 1 + rng.below(9) as u32;
            let edge: i128 = 1i128 << (7 * k - 1); // values n with zz(n) = 2^(7k) is n = 2^(7k-1)
            let cands = [edge, edge - 1, -edge, -edge - 1];
            let c = *rng.pick(&cands);
            c.clamp(i64::MIN as i128, i64::MAX as i128) as i64
        }
        5 => *rng.pick(&[i64::MAX, i64::MIN, i64::MAX - 1, i64::MIN + 1, i32::MAX as i64, i32::MIN as i64, i32::MAX as i64 + 1, i32::MIN as i64 - 1]),
        6 => rng.next() as i64,
        7 => (rng.next() as i64) >> (rng.below(63) as u32),
        _ => rng.below(300) as i64 - 150,
    }
}
pub fn boundary_i32(rng: &mut Rng) -> i32 {
    match rng.below(8) {
        0 => 0,
        1 => *rng.pick(&[i32::MAX, i32::MIN, i32::MAX - 1, i32::MIN + 1]),
        2 | 3 | 4 => {
            let k = 1 + rng.below(4) as u32;
            let edge: i64 = 1i64 << (7 * k - 1);
            let c = *rng.pick(&[edge, edge - 1, -edge, -edge - 1]);
            c.clamp(i32::MIN as i64, i32::MAX as i64) as i32
        }
        5 => rng.next() as i32,
        _ => rng.below(300) as i32 - 150,
    }
}

/// lengths at which the length prefix (a zig-zag varint) changes its number of bytes
const VARINT_EDGE_LENS: [usize; 6] = [63, 64, 65, 127, 8191, 8192];

fn rand_bytes(rng: &mut Rng, maxlen: usize) -> Vec<u8> {
    let n = match rng.below(24) { 0..=4 => 0, 5..=9 => 1, 10 => *rng.pick(&VARINT_EDGE_LENS), _ => rng.below(maxlen + 1) };
    (0..n).map(|_| match rng.below(4) { 0 => 0, 1 => 255, 2 => 128, _ => rng.next() as u8 }).collect()
}

fn rand_string(rng: &mut Rng) -> String {
    let pool = ["", "a", "foo", "é", "€", "😀", "\u{0}", "\"q\\", "日本", "z\u{7f}", "\u{7ff}\u{800}\u{ffff}\u{10000}"];
    let n = rng.below(3);
    let mut s = String::new();
    for _ in 0..n {
        let p: &str = *rng.pick(&pool); s.push_str(p);
    }
    if rng.chance(1, 24) {
        // a string whose UTF-8 length sits on a varint boundary of the length prefix
        let target = *rng.pick(&VARINT_EDGE_LENS);
        while s.len() < target {
            let p: &str = *rng.pick(&["a", "é", "€", "😀"]);
            if s.len() + p.len() <= target { s.push_str(p); } else { s.push('x'); }
        }
    }
    s
}

fn f32_bits(rng: &mut Rng) -> u32 {
    *rng.pick(&[
        0u32, 0x8000_0000, 0x7f80_0000, 0xff80_0000, 0x7fc0_0000, 0x7fa0_0001, 0xffc0_1234, 0x0000_0001,
        0x3f80_0000, 0xc2f7_0000, 0x7f7f_ffff, 0x0080_0000,
    ]) ^ if rng.chance(1, 4) { rng.next() as u32 } else { 0 }
}
fn f64_bits(rng: &mut Rng) -> u64 {
    *rng.pick(&[
        0u64, 0x8000_0000_0000_0000, 0x7ff0_0000_0000_0000, 0xfff0_0000_0000_0000, 0x7ff8_0000_0000_0000,
        0x7ff4_0000_0000_0001, 0xfff8_0000_dead_beef, 1, 0x3ff0_0000_0000_0000, 0x7fef_ffff_ffff_ffff,
    ]) ^ if rng.chance(1, 4) { rng.next() } else { 0 }
}

fn be_decimal(rng: &mut Rng, maxlen: usize) -> Vec<u8> {
    // big-endian two's complement, possibly negative, possibly needing sign extension
    let n = 1 + rng.below(maxlen.max(1));
    let mut b: Vec<u8> = (0..n).map(|_| rng.next() as u8).collect();
    match rng.below(6) {
        0 => b = vec![0xff],              // -1
        1 => b[0] |= 0x80,                // negative
        2 => b[0] &= 0x7f,                // positive
        3 => { b = vec![0x80]; b.extend(std::iter::repeat(0).take(n - 1)); } // most negative of width
        4 => { b = vec![0x7f]; b.extend(std::iter::repeat(0xff).take(n - 1)); } // max of width
        _ => {}
    }
    b
}

/// A conforming (canonical) value term for schema term `s`.
pub fn value_for(rng: &mut Rng, s: &J, env: &HashMap<String, J>, depth: usize) -> J {
    value_fuel(rng, s, env, depth, 6)
}

/// `fuel` bounds how many references are followed (recursive schemas): when it is used up, unions take a
/// branch that is not a reference and arrays/maps of references are empty.
fn value_fuel(rng: &mut Rng, s: &J, env: &HashMap<String, J>, depth: usize, fuel: usize) -> J {
    let k = sk(s);
    if INT_KINDS.contains(&k) {
        return json!({"t":k,"n":le8(boundary_i32(rng) as i64)});
    }
    if LONG_KINDS.contains(&k) {
        return json!({"t":k,"n":le8(boundary_i64(rng))});
    }
    match k {
        "null" => json!({"t":"null"}),
        "boolean" => json!({"t":"boolean","bool":rng.chance(1,2)}),
        "float" => json!({"t":"float","bits":bytes_j(&f32_bits(rng).to_le_bytes())}),
        "double" => json!({"t":"double","bits":bytes_j(&f64_bits(rng).to_le_bytes())}),
        "bytes" => json!({"t":"bytes","b":bytes_j(&rand_bytes(rng, 12))}),
        "string" => json!({"t":"string","b":bytes_j(rand_string(rng).as_bytes())}),
        "fixed" => {
            let n = s["size"].as_u64().unwrap() as usize;
            let b: Vec<u8> = (0..n).map(|_| rng.next() as u8).collect();
            json!({"t":"fixed","b":bytes_j(&b)})
        }
        "enum" => {
            let syms = s["symbols"].as_array().unwrap();
            let i = rng.below(syms.len());
            json!({"t":"enum","i":i,"sym":syms[i]})
        }
        "union" => {
            let bs = s["branches"].as_array().unwrap();
            let mut i = rng.below(bs.len());
            if fuel == 0 && sk(&bs[i]) == "ref" {
                i = bs.iter().position(|b| sk(b) != "ref").unwrap_or(i);
            }
            json!({"t":"union","i":i,"v":value_fuel(rng, &bs[i], env, depth, fuel)})
        }
        "array" => {
            let leafish = !matches!(sk(&s["items"]), "array" | "map" | "record" | "union" | "ref");
            let n = if depth == 0 || (fuel == 0 && sk(&s["items"]) == "ref") { 0 }
                    else if leafish && rng.chance(1, 16) { *rng.pick(&[63usize, 64, 65, 130]) }   // count needs two varint bytes
                    else { *rng.pick(&[0usize, 1, 2, 3, 5]) };
            let items: Vec<J> = (0..n).map(|_| value_fuel(rng, &s["items"], env, depth - 1, fuel)).collect();
            json!({"t":"array","items":items})
        }
        "map" => {
            let n = if depth == 0 || (fuel == 0 && sk(&s["values"]) == "ref") { 0 } else { *rng.pick(&[0usize, 1, 2, 3]) };
            let keys = ["", "k", "key2", "é", "a b", "\u{1F600}"];
            let mut used = vec![];
            let mut entries = vec![];
            for _ in 0..n {
                let key = *rng.pick(&keys);
                if used.contains(&key) { continue; }
                used.push(key);
                entries.push(json!([bytes_j(key.as_bytes()), value_fuel(rng, &s["values"], env, depth - 1, fuel)]));
            }
            json!({"t":"map","entries":entries})
        }
        "record" => {
            let fs: Vec<J> = s["fields"].as_array().unwrap().iter()
                .map(|f| json!([f["name"], value_fuel(rng, &f["type"], env, depth.saturating_sub(1), fuel)]))
                .collect();
            json!({"t":"record","fields":fs})
        }
        "ref" => {
            let target = env.get(s["name"].as_str().unwrap()).expect("ref target").clone();
            value_fuel(rng, &target, env, depth.saturating_sub(1), fuel.saturating_sub(1))
        }
        "decimal" => {
            let maxlen = if s["base"].as_str() == Some("fixed") { s["size"].as_u64().unwrap() as usize } else { 10 };
            json!({"t":"decimal","b":bytes_j(&be_decimal(rng, maxlen))})
        }
        "big-decimal" => {
            let u = be_decimal(rng, 12);
            // canonical minimal form, as BigInt::to_signed_bytes_be would give
            let bi = num_bigint::BigInt::from_signed_bytes_be(&u);
            json!({"t":"big-decimal","unscaled":bytes_j(&bi.to_signed_bytes_be()),"scale":le8(*rng.pick(&[0i64,1,2,-3,17,64,-64]))})
        }
        "uuid" => {
            let b: Vec<u8> = (0..16).map(|_| rng.next() as u8).collect();
            json!({"t":"uuid","b":bytes_j(&b)})
        }
        "duration" => {
            let b: Vec<u8> = (0..12).map(|_| if rng.chance(1,3) { 255 } else { rng.next() as u8 }).collect();
            json!({"t":"duration","b":bytes_j(&b)})
        }
        other => panic!("value_for: {other}"),
    }
}

pub fn env_of(s: &J) -> HashMap<String, J> {
    let mut m = HashMap::new();
    collect_defs(s, &mut m);
    m.into_iter().map(|(k, v)| (k, v.clone())).collect()
}
