//! avh — the execution/recording half of the verification machinery.
//!
//! The harness never decides pass/fail.  It executes scenarios against the real crate and
//! records what happened as ndjson; the TLA+ trace specifications under /verif/spec judge it.

mod datum;
mod generate;
mod term;

use std::collections::HashMap;

pub struct Args {
    pub pos: Vec<String>,
    pub kv: HashMap<String, String>,
}
impl Args {
    pub fn get(&self, k: &str) -> Option<&str> {
        self.kv.get(k).map(|s| s.as_str())
    }
    pub fn usize(&self, k: &str, d: usize) -> usize {
        self.get(k).and_then(|s| s.parse().ok()).unwrap_or(d)
    }
    pub fn u64(&self, k: &str, d: u64) -> u64 {
        self.get(k).and_then(|s| s.parse().ok()).unwrap_or(d)
    }
    pub fn req(&self, k: &str) -> &str {
        self.get(k).unwrap_or_else(|| {
            eprintln!("missing --{k}");
            std::process::exit(2)
        })
    }
}

fn parse_args() -> (String, Args) {
    let mut it = std::env::args().skip(1);
    let cmd = it.next().unwrap_or_default();
    let mut a = Args { pos: vec![], kv: HashMap::new() };
    let rest: Vec<String> = it.collect();
    let mut i = 0;
    while i < rest.len() {
        if let Some(k) = rest[i].strip_prefix("--") {
            if i + 1 < rest.len() && !rest[i + 1].starts_with("--") {
                a.kv.insert(k.to_string(), rest[i + 1].clone());
                i += 2;
            } else {
                a.kv.insert(k.to_string(), "true".to_string());
                i += 1;
            }
        } else {
            a.pos.push(rest[i].clone());
            i += 1;
        }
    }
    (cmd, a)
}

/// Run `f` catching panics; the panic message is data.
pub fn guarded<T, F: FnOnce() -> T + std::panic::UnwindSafe>(f: F) -> Result<T, String> {
    std::panic::catch_unwind(f).map_err(|e| {
        if let Some(s) = e.downcast_ref::<&str>() {
            s.to_string()
        } else if let Some(s) = e.downcast_ref::<String>() {
            s.clone()
        } else {
            "panic".to_string()
        }
    })
}

fn main() {
    // panics of the code under test are data; keep stderr quiet
    std::panic::set_hook(Box::new(|_| {}));
    let (cmd, args) = parse_args();
    let rc = match cmd.as_str() {
        "datum-gen" => datum::cmd_gen(&args),
        "datum-run" => datum::cmd_run(&args),
        _ => {
            eprintln!("unknown command {cmd:?}");
            2
        }
    };
    std::process::exit(rc);
}
