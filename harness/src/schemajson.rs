//! C10 / C12: schema JSON documents as trees (spec/JsonTree.tla term shape).
//!
//! * text rendering of a tree in several whitespace / escaping styles (the `u` bytes of a string are
//!   authoritative, `s` is only the TLA+ atom),
//! * a seeded generator: an abstract schema (only what is relevant to parsing data) is rendered to a
//!   JSON tree with random *irrelevant* choices (key order, doc, aliases, defaults, custom attributes,
//!   `order`, namespace spelling, object form of primitives, logical types).  Two renderings of one
//!   abstract schema are an (base, variant) pair for C12; every rendering is a scenario for C10.
//!
//! Nothing here judges: whether two renderings really have the same canonical form is decided by
//! spec/SchemaJson.tla (`TOOL:edit-not-irrelevant` if this generator is wrong).

use crate::generate::Rng;
use crate::jsontree::str_term;
use crate::term::j_bytes;
use serde_json::{Value as J, json};

// ---------------------------------------------------------------------------------------------
// tree constructors
// ---------------------------------------------------------------------------------------------
pub fn t_obj(kv: Vec<(String, J)>) -> J {
    json!({"j":"obj","kv": kv.into_iter().map(|(k, v)| json!([k, v])).collect::<Vec<_>>()})
}
pub fn t_arr(items: Vec<J>) -> J {
    json!({"j":"arr","items":items})
}
pub fn t_str(s: &str) -> J {
    str_term(s)
}
pub fn t_int(n: i64) -> J {
    if n.abs() < (1i64 << 31) { json!({"j":"int","n":n}) } else { json!({"j":"num","text":n.to_string()}) }
}
pub fn t_num(text: &str) -> J {
    json!({"j":"num","text":text})
}
pub fn t_bool(b: bool) -> J {
    json!({"j":"bool","bv":b})
}
pub fn t_null() -> J {
    json!({"j":"null"})
}

/// the string a "str" tree denotes (from its bytes)
pub fn str_of(t: &J) -> String {
    String::from_utf8(j_bytes(&t["u"])).unwrap_or_else(|_| t["s"].as_str().unwrap_or("").to_string())
}

/// Re-derive `s` from `u` everywhere (TLC prints `s` through two layers of escaping; `u` is what counts).
pub fn normalise(t: &J) -> J {
    match t["j"].as_str().unwrap_or("?") {
        "obj" => json!({"j":"obj","kv": t["kv"].as_array().unwrap().iter().map(|p| json!([p[0], normalise(&p[1])])).collect::<Vec<_>>()}),
        "arr" => json!({"j":"arr","items": t["items"].as_array().unwrap().iter().map(normalise).collect::<Vec<_>>()}),
        "str" => str_term(&str_of(t)),
        _ => t.clone(),
    }
}

// ---------------------------------------------------------------------------------------------
// text rendering.  style 0: compact; 1: pretty-printed; 2: erratic whitespace; 3: the first
// character of every string and key written as a \uXXXX escape (the [STRINGS] rule).
// ---------------------------------------------------------------------------------------------
fn json_string(s: &str, style: u8) -> String {
    if style == 3 {
        let mut it = s.chars();
        if let Some(c) = it.next() {
            if (c as u32) < 0x10000 {
                let rest: String = it.collect();
                let tail = serde_json::to_string(&rest).unwrap();
                return format!("\"\\u{:04x}{}", c as u32, &tail[1..]);
            }
        }
    }
    serde_json::to_string(s).unwrap()
}

pub fn tree_text(t: &J, style: u8) -> String {
    let mut out = String::new();
    let mut n = 0usize;
    write_tree(t, style, 0, &mut out, &mut n);
    if style == 2 {
        out.push_str(" \n");
    }
    out
}

fn gap(style: u8, n: &mut usize) -> &'static str {
    if style != 2 {
        return "";
    }
    *n += 1;
    ["", " ", "\t", "\n ", "  ", "\r\n"][*n % 6]
}

fn write_tree(t: &J, style: u8, ind: usize, out: &mut String, n: &mut usize) {
    let pretty = style == 1;
    let nl = |out: &mut String, ind: usize| {
        if pretty {
            out.push('\n');
            for _ in 0..ind {
                out.push_str("  ");
            }
        }
    };
    match t["j"].as_str().unwrap_or("?") {
        "obj" => {
            let kv = t["kv"].as_array().unwrap();
            out.push('{');
            out.push_str(gap(style, n));
            for (i, p) in kv.iter().enumerate() {
                if i > 0 {
                    out.push(',');
                    out.push_str(gap(style, n));
                }
                nl(out, ind + 1);
                out.push_str(&json_string(p[0].as_str().unwrap(), style));
                out.push_str(gap(style, n));
                out.push(':');
                if pretty {
                    out.push(' ');
                }
                out.push_str(gap(style, n));
                write_tree(&p[1], style, ind + 1, out, n);
                out.push_str(gap(style, n));
            }
            if !kv.is_empty() {
                nl(out, ind);
            }
            out.push('}');
        }
        "arr" => {
            let items = t["items"].as_array().unwrap();
            out.push('[');
            out.push_str(gap(style, n));
            for (i, x) in items.iter().enumerate() {
                if i > 0 {
                    out.push(',');
                    out.push_str(gap(style, n));
                }
                nl(out, ind + 1);
                write_tree(x, style, ind + 1, out, n);
                out.push_str(gap(style, n));
            }
            if !items.is_empty() {
                nl(out, ind);
            }
            out.push(']');
        }
        "str" => out.push_str(&json_string(&str_of(t), style)),
        "int" => out.push_str(&t["n"].to_string()),
        "num" => out.push_str(t["text"].as_str().unwrap()),
        "bool" => out.push_str(&t["bv"].to_string()),
        "null" => out.push_str("null"),
        other => panic!("tree_text: bad tag {other}"),
    }
}

// ---------------------------------------------------------------------------------------------
// abstract schemas
// ---------------------------------------------------------------------------------------------
#[derive(Clone, Debug)]
pub enum Ty {
    Prim(&'static str),
    Ref(String),
    Fixed { full: String, size: usize },
    Enum { full: String, symbols: Vec<String> },
    Array(Box<Ty>),
    Map(Box<Ty>),
    Union(Vec<Ty>),
    Record { full: String, fields: Vec<(String, Ty)> },
}

pub const PRIMS: [&str; 8] = ["null", "boolean", "int", "long", "float", "double", "bytes", "string"];

fn split_full(full: &str) -> (Option<&str>, &str) {
    match full.rfind('.') {
        Some(i) => (Some(&full[..i]), &full[i + 1..]),
        None => (None, full),
    }
}

pub struct AstGen<'r> {
    pub rng: &'r mut Rng,
    counter: usize,
    /// (full name, definition) in document order
    pub defined: Vec<(String, Ty)>,
    open_records: Vec<String>,
    namespaces: Vec<Option<String>>,
}

fn class_of(t: &Ty) -> String {
    match t {
        Ty::Prim(p) => p.to_string(),
        Ty::Array(_) => "array".into(),
        Ty::Map(_) => "map".into(),
        Ty::Union(_) => "union".into(),
        Ty::Ref(n) | Ty::Fixed { full: n, .. } | Ty::Enum { full: n, .. } | Ty::Record { full: n, .. } => format!("named:{n}"),
    }
}

impl<'r> AstGen<'r> {
    pub fn new(rng: &'r mut Rng) -> Self {
        let nss = match rng.below(5) {
            0 => vec![None],
            1 => vec![Some("ns".to_string())],
            2 => vec![Some("ns".to_string()), Some("ns.sub".to_string())],
            3 => vec![Some("a.b".to_string()), Some("c".to_string()), Some("a".to_string())],
            // a null-namespace top level with namespaced types below it (never the other way round:
            // the canonical form cannot express a null-namespace name inside a namespace)
            _ => vec![None, Some("deep.er".to_string())],
        };
        AstGen { rng, counter: 0, defined: vec![], open_records: vec![], namespaces: nss }
    }

    fn fresh(&mut self, prefix: &str, enclosing: Option<&str>) -> String {
        self.counter += 1;
        let mut ns = self.namespaces[self.rng.below(self.namespaces.len())].clone();
        if ns.is_none() && enclosing.is_some() {
            ns = enclosing.map(|s| s.to_string());
        }
        match ns {
            Some(ns) => format!("{ns}.{prefix}{}", self.counter),
            None => format!("{prefix}{}", self.counter),
        }
    }

    pub fn ty(&mut self, depth: usize, enclosing: Option<&str>) -> Ty {
        if !self.defined.is_empty() && self.rng.chance(1, 5) {
            let (n, _) = self.defined[self.rng.below(self.defined.len())].clone();
            let null_from_ns = split_full(&n).0.is_none() && enclosing.is_some();
            if !self.open_records.contains(&n) && !null_from_ns {
                return Ty::Ref(n);
            }
        }
        let c = if depth == 0 { self.rng.below(5) } else { self.rng.below(11) };
        match c {
            0..=2 => Ty::Prim(PRIMS[self.rng.below(8)]),
            3 => {
                let full = self.fresh("F", enclosing);
                let size = *self.rng.pick(&[0usize, 1, 2, 4, 8, 12, 16]);
                let t = Ty::Fixed { full: full.clone(), size };
                self.defined.push((full, t.clone()));
                t
            }
            4 => {
                let full = self.fresh("E", enclosing);
                let cnt = 1 + self.rng.below(3);
                let t = Ty::Enum { full: full.clone(), symbols: (0..cnt).map(|i| format!("S{i}")).collect() };
                self.defined.push((full, t.clone()));
                t
            }
            5 => Ty::Array(Box::new(self.ty(depth - 1, enclosing))),
            6 => Ty::Map(Box::new(self.ty(depth - 1, enclosing))),
            7 | 8 => {
                let n = 1 + self.rng.below(4);
                let mut bs: Vec<Ty> = vec![];
                let mut tries = 0;
                while bs.len() < n && tries < 16 {
                    tries += 1;
                    let mark = self.defined.len();
                    let cnt = self.counter;
                    let b = self.ty(depth - 1, enclosing);
                    let cl = class_of(&b);
                    if cl == "union" || bs.iter().any(|x| class_of(x) == cl) {
                        self.defined.truncate(mark);
                        self.counter = cnt;
                        continue;
                    }
                    bs.push(b);
                }
                if bs.is_empty() {
                    bs.push(Ty::Prim("null"));
                }
                Ty::Union(bs)
            }
            _ => self.record(depth - 1, enclosing),
        }
    }

    pub fn record(&mut self, depth: usize, enclosing: Option<&str>) -> Ty {
        let full = self.fresh("R", enclosing);
        self.open_records.push(full.clone());
        let ns: Option<String> = split_full(&full).0.map(|s| s.to_string());
        let nf = self.rng.below(4);
        let mut fields = vec![];
        for i in 0..nf {
            let ty = if self.rng.chance(1, 6) {
                let cands: Vec<String> = self.open_records.iter().filter(|n| !(split_full(n).0.is_none() && ns.is_some())).cloned().collect();
                if cands.is_empty() {
                    Ty::Prim("int")
                } else {
                    let r = Ty::Ref(cands[self.rng.below(cands.len())].clone());
                    match self.rng.below(3) {
                        0 => Ty::Union(vec![Ty::Prim("null"), r]),
                        1 => Ty::Array(Box::new(r)),
                        _ => Ty::Map(Box::new(r)),
                    }
                }
            } else {
                self.ty(depth, ns.as_deref())
            };
            fields.push((format!("f{i}"), ty));
        }
        self.open_records.pop();
        let t = Ty::Record { full: full.clone(), fields };
        self.defined.push((full, t.clone()));
        t
    }
}

// ---------------------------------------------------------------------------------------------
// rendering an abstract schema to a JSON tree with random irrelevant choices
// ---------------------------------------------------------------------------------------------
const DOCS: [&str; 7] = [
    "plain doc",
    "quote \" and backslash \\ and slash /",
    "line\nbreak\ttab\r",
    "unicode \u{e9} \u{fc} \u{6f22} \u{1F600}",
    "control \u{1}\u{1f}",
    "",
    "{\"looks\":\"like json\"}",
];
const ATTR_KEYS: [&str; 6] = ["foo", "x-attr", "Custom.Key", "java-class", "connect.name", "\u{e9}cl"];

pub struct Render<'r> {
    pub rng: &'r mut Rng,
    /// 0 = plain (nothing irrelevant added), 1 = moderate, 2 = everything
    pub rich: u8,
    /// allow the attribute names the crate's canonical form is known to leak (order/precision/scale)
    pub risky: bool,
    /// while set, no logicalType is attached (used under a field that gets a default value)
    no_logical: bool,
    env: Vec<(String, Ty)>,
}

impl<'r> Render<'r> {
    pub fn new(rng: &'r mut Rng, rich: u8, risky: bool, env: Vec<(String, Ty)>) -> Self {
        Render { rng, rich, risky, no_logical: false, env }
    }

    fn on(&mut self, num: usize, den: usize) -> bool {
        self.rich > 0 && self.rng.chance(num * self.rich as usize, den * 2)
    }

    fn shuffle(&mut self, kv: &mut Vec<(String, J)>) {
        if self.rich == 0 {
            return;
        }
        for i in (1..kv.len()).rev() {
            let j = self.rng.below(i + 1);
            kv.swap(i, j);
        }
    }

    fn attr_value(&mut self, depth: usize) -> J {
        match self.rng.below(if depth == 0 { 6 } else { 8 }) {
            0 => t_int(self.rng.below(100) as i64 - 50),
            1 => t_str(DOCS[self.rng.below(DOCS.len())]),
            2 => t_bool(self.rng.chance(1, 2)),
            3 => t_null(),
            4 => t_num("2.5"),
            5 => t_int(4294967296 + self.rng.below(1000) as i64),
            6 => t_arr((0..self.rng.below(3)).map(|_| self.attr_value(depth - 1)).collect()),
            _ => {
                let n = self.rng.below(3);
                let mut kv = vec![];
                for i in 0..n {
                    // keys that are reserved words elsewhere must not disturb anything inside a value
                    let k = ["type", "name", "k", "doc", "fields"][(i + self.rng.below(5)) % 5].to_string();
                    if kv.iter().any(|(x, _): &(String, J)| *x == k) {
                        continue;
                    }
                    kv.push((k, self.attr_value(depth - 1)));
                }
                t_obj(kv)
            }
        }
    }

    fn add_attrs(&mut self, kv: &mut Vec<(String, J)>) {
        if self.on(1, 3) {
            let n = 1 + self.rng.below(2);
            for _ in 0..n {
                let k = ATTR_KEYS[self.rng.below(ATTR_KEYS.len())].to_string();
                if kv.iter().all(|(x, _)| *x != k) {
                    let v = self.attr_value(2);
                    kv.push((k, v));
                }
            }
        }
        if self.risky && self.rich > 0 && self.rng.chance(1, 12) {
            let k = ["order", "precision", "scale"][self.rng.below(3)].to_string();
            if kv.iter().all(|(x, _)| *x != k) {
                let v = match (k.as_str(), self.rng.below(4)) {
                    ("order", _) => t_str("ignore"),
                    (_, 0) => t_str("x"),
                    _ => t_int(self.rng.below(9) as i64),
                };
                kv.push((k, v));
            }
        }
    }

    fn name_keys(&mut self, kv: &mut Vec<(String, J)>, full: &str, enclosing: Option<&str>) {
        let (ns, short) = split_full(full);
        let mut opts: Vec<u8> = vec![1]; // 1: short + explicit namespace
        if ns == enclosing {
            opts.push(0); // 0: short, inherited
        }
        if ns.is_some() {
            opts.push(2); // 2: dotted full name
            opts.push(3); // 3: dotted full name + ignored namespace attribute
        }
        let c = if self.rich == 0 { *opts.last().unwrap().min(&2) } else { opts[self.rng.below(opts.len())] };
        match c {
            0 => kv.push(("name".into(), t_str(short))),
            1 => {
                kv.push(("name".into(), t_str(short)));
                kv.push(("namespace".into(), t_str(ns.unwrap_or(""))));
            }
            2 => kv.push(("name".into(), t_str(full))),
            _ => {
                kv.push(("name".into(), t_str(full)));
                kv.push(("namespace".into(), t_str("ignored.ns")));
            }
        }
    }

    fn aliases(&mut self, kv: &mut Vec<(String, J)>, named: bool) {
        if self.on(1, 4) {
            let mut v = vec![];
            for i in 0..self.rng.below(3) {
                v.push(t_str(&if named && self.rng.chance(1, 2) { format!("al.ias.Old{i}") } else { format!("old{i}") }));
            }
            kv.push(("aliases".into(), t_arr(v)));
        }
    }

    fn doc(&mut self, kv: &mut Vec<(String, J)>) {
        if self.on(1, 3) {
            kv.push(("doc".into(), t_str(DOCS[self.rng.below(DOCS.len())])));
        }
    }

    fn ref_text(&mut self, full: &str, enclosing: Option<&str>) -> String {
        let (ns, short) = split_full(full);
        if ns.is_some() && ns == enclosing && (self.rich == 0 || self.rng.chance(1, 2)) {
            short.to_string()
        } else if ns.is_none() && enclosing.is_some() {
            format!(".{short}") // avoided by the generator; kept total
        } else {
            full.to_string()
        }
    }

    fn lookup(&self, full: &str) -> Option<Ty> {
        self.env.iter().find(|(n, _)| n == full).map(|(_, t)| t.clone())
    }

    /// a JSON value that is a valid default for a field of type `t` (None: none offered)
    pub fn default_for(&mut self, t: &Ty, fuel: usize) -> Option<J> {
        Some(match t {
            Ty::Prim("null") => t_null(),
            Ty::Prim("boolean") => t_bool(self.rng.chance(1, 2)),
            Ty::Prim("int") => t_int(*self.rng.pick(&[0i64, 1, -1, 2147483647, -2147483648, 42])),
            Ty::Prim("long") => t_int(*self.rng.pick(&[0i64, -7, 2147483647, 4294967296, -9007199254740993])),
            Ty::Prim("float") | Ty::Prim("double") => match self.rng.below(4) {
                0 => t_num("1.5"),
                1 => t_num("-0.25"),
                2 => t_int(3),
                _ => t_num("1000.5"),
            },
            Ty::Prim("bytes") => t_str(*self.rng.pick(&["", "a", "\u{0}\u{ff}", "\u{7f}\u{80}"])),
            Ty::Prim("string") => t_str(DOCS[self.rng.below(DOCS.len())]),
            Ty::Prim(_) => return None,
            Ty::Fixed { size, .. } => t_str(&"a".repeat(*size)),
            Ty::Enum { symbols, .. } => t_str(&symbols[self.rng.below(symbols.len())]),
            Ty::Array(items) => {
                let n = self.rng.below(3);
                let mut v = vec![];
                for _ in 0..n {
                    v.push(self.default_for(items, fuel)?);
                }
                t_arr(v)
            }
            Ty::Map(values) => {
                let n = self.rng.below(3);
                let mut kv = vec![];
                for i in 0..n {
                    kv.push((format!("k{i}"), self.default_for(values, fuel)?));
                }
                t_obj(kv)
            }
            Ty::Union(bs) => self.default_for(&bs[0], fuel)?,
            Ty::Record { fields, .. } => {
                if fuel == 0 {
                    return None;
                }
                let mut kv = vec![];
                for (n, ft) in fields {
                    kv.push((n.clone(), self.default_for(ft, fuel - 1)?));
                }
                t_obj(kv)
            }
            Ty::Ref(n) => {
                if fuel == 0 {
                    return None;
                }
                let d = self.lookup(n)?;
                self.default_for(&d, fuel - 1)?
            }
        })
    }

    fn prim(&mut self, p: &'static str) -> J {
        if self.rich == 0 || !self.rng.chance(1, 3) {
            return t_str(p);
        }
        // object form, possibly with a logical type (in force or ignored) and attributes
        let mut kv: Vec<(String, J)> = vec![("type".into(), t_str(p))];
        if !self.no_logical && self.rng.chance(2, 3) {
            let lt: Option<(&str, Vec<(&str, J)>)> = match (p, self.rng.below(6)) {
                ("int", 0) => Some(("date", vec![])),
                ("int", 1) => Some(("time-millis", vec![])),
                ("int", 2) => Some(("timestamp-millis", vec![])), // wrong base: ignored
                ("long", 0) => Some(("time-micros", vec![])),
                ("long", 1) => Some(("timestamp-millis", vec![])),
                ("long", 2) => Some(("timestamp-micros", vec![])),
                ("long", 3) => Some(("local-timestamp-nanos", vec![])),
                ("long", 4) => Some(("timestamp-nanos", vec![])),
                ("long", 5) => Some(("date", vec![])), // ignored
                ("bytes", 0) => Some(("decimal", vec![("precision", t_int(9)), ("scale", t_int(2))])),
                ("bytes", 1) => Some(("decimal", vec![("precision", t_int(4))])),
                ("bytes", 2) => Some(("big-decimal", vec![])),
                ("bytes", 3) => Some(("decimal", vec![("precision", t_int(2)), ("scale", t_int(5))])), // invalid: ignored
                ("bytes", 4) => Some(("decimal", vec![("precision", t_int(0))])),                    // invalid: ignored
                ("string", 0) => Some(("uuid", vec![])),
                ("string", 1) => Some(("date", vec![])),       // ignored
                ("string", 2) => Some(("no-such-type", vec![])), // unknown: ignored
                ("float", 0) | ("double", 0) | ("boolean", 0) => Some(("decimal", vec![("precision", t_int(3))])), // ignored
                _ => None,
            };
            if let Some((name, extra)) = lt {
                kv.push(("logicalType".into(), t_str(name)));
                for (k, v) in extra {
                    kv.push((k.into(), v));
                }
            }
        }
        self.shuffle(&mut kv);
        t_obj(kv)
    }

    pub fn ty(&mut self, t: &Ty, enclosing: Option<&str>) -> J {
        match t {
            Ty::Prim(p) => self.prim(p),
            Ty::Ref(n) => t_str(&self.ref_text(n, enclosing)),
            Ty::Fixed { full, size } => {
                let mut kv: Vec<(String, J)> = vec![("type".into(), t_str("fixed"))];
                self.name_keys(&mut kv, full, enclosing);
                kv.push(("size".into(), t_int(*size as i64)));
                if !self.no_logical && self.on(1, 3) {
                    match (*size, self.rng.below(3)) {
                        (12, _) => kv.push(("logicalType".into(), t_str("duration"))),
                        (16, _) => kv.push(("logicalType".into(), t_str("uuid"))),
                        (s, 0) if s > 0 && s <= 8 => {
                            kv.push(("logicalType".into(), t_str("decimal")));
                            kv.push(("precision".into(), t_int([0i64, 2, 4, 6, 9, 11, 14, 16, 18][s])));
                            if self.rng.chance(1, 2) {
                                kv.push(("scale".into(), t_int(1)));
                            }
                        }
                        (_, 1) => kv.push(("logicalType".into(), t_str("duration"))), // wrong size: ignored
                        _ => {}
                    }
                }
                self.doc(&mut kv);
                self.aliases(&mut kv, true);
                self.add_attrs(&mut kv);
                self.shuffle(&mut kv);
                t_obj(kv)
            }
            Ty::Enum { full, symbols } => {
                let mut kv: Vec<(String, J)> = vec![("type".into(), t_str("enum"))];
                self.name_keys(&mut kv, full, enclosing);
                kv.push(("symbols".into(), t_arr(symbols.iter().map(|s| t_str(s)).collect())));
                if self.on(1, 4) {
                    kv.push(("default".into(), t_str(&symbols[self.rng.below(symbols.len())])));
                }
                self.doc(&mut kv);
                self.aliases(&mut kv, true);
                self.add_attrs(&mut kv);
                self.shuffle(&mut kv);
                t_obj(kv)
            }
            Ty::Array(items) => {
                let mut kv: Vec<(String, J)> = vec![("type".into(), t_str("array")), ("items".into(), self.ty(items, enclosing))];
                self.add_attrs(&mut kv);
                self.shuffle(&mut kv);
                t_obj(kv)
            }
            Ty::Map(values) => {
                let mut kv: Vec<(String, J)> = vec![("type".into(), t_str("map")), ("values".into(), self.ty(values, enclosing))];
                self.add_attrs(&mut kv);
                self.shuffle(&mut kv);
                t_obj(kv)
            }
            Ty::Union(bs) => t_arr(bs.iter().map(|b| self.ty(b, enclosing)).collect()),
            Ty::Record { full, fields } => {
                let mut kv: Vec<(String, J)> = vec![("type".into(), t_str("record"))];
                self.name_keys(&mut kv, full, enclosing);
                let ns: Option<String> = split_full(full).0.map(|s| s.to_string());
                let mut fs = vec![];
                for (fname, ft) in fields {
                    let dflt = if self.on(1, 2) { self.default_for(ft, 2) } else { None };
                    let saved = self.no_logical;
                    self.no_logical = saved || dflt.is_some();
                    let ftree = self.ty(ft, ns.as_deref());
                    self.no_logical = saved;
                    let mut fkv: Vec<(String, J)> = vec![("name".into(), t_str(fname)), ("type".into(), ftree)];
                    if let Some(d) = dflt {
                        fkv.push(("default".into(), d));
                    }
                    self.doc(&mut fkv);
                    self.aliases(&mut fkv, false);
                    if self.risky && self.on(1, 6) {
                        fkv.push(("order".into(), t_str(*self.rng.pick(&["ascending", "descending", "ignore"]))));
                    }
                    self.add_attrs(&mut fkv);
                    self.shuffle(&mut fkv);
                    fs.push(t_obj(fkv));
                }
                kv.push(("fields".into(), t_arr(fs)));
                self.doc(&mut kv);
                self.aliases(&mut kv, true);
                self.add_attrs(&mut kv);
                self.shuffle(&mut kv);
                t_obj(kv)
            }
        }
    }
}

/// One random abstract schema and `nvar` renderings of it: the first is plain, the rest are rich.
pub fn random_family(rng: &mut Rng, depth: usize, nvar: usize, risky: bool) -> Vec<J> {
    let (ast, env) = {
        let mut g = AstGen::new(rng);
        let a = if g.rng.chance(2, 3) { g.record(depth.saturating_sub(1), None) } else { g.ty(depth, None) };
        (a, g.defined.clone())
    };
    let mut out = vec![];
    for i in 0..nvar {
        let rich = if i == 0 { 0 } else { 1 + (i % 2) as u8 };
        let mut r = Render::new(rng, rich, risky, env.clone());
        out.push(r.ty(&ast, None));
    }
    out
}
