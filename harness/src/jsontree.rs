//! A JSON scanner that keeps object key order and duplicate keys, producing the term shape of
//! spec/JsonTree.tla (as serde_json::Value).  serde_json::Value cannot represent duplicates.

use crate::term::{bytes_j, small};
use serde_json::{Value as J, json};

pub struct Scanner<'a> {
    s: &'a [u8],
    i: usize,
}

pub fn scan(text: &str) -> Result<J, String> {
    let mut sc = Scanner { s: text.as_bytes(), i: 0 };
    sc.ws();
    let v = sc.value()?;
    sc.ws();
    if sc.i != sc.s.len() {
        return Err(format!("trailing characters at {}", sc.i));
    }
    Ok(v)
}

impl<'a> Scanner<'a> {
    fn ws(&mut self) {
        while self.i < self.s.len() && matches!(self.s[self.i], b' ' | b'\n' | b'\r' | b'\t') {
            self.i += 1;
        }
    }
    fn peek(&self) -> Option<u8> {
        self.s.get(self.i).copied()
    }
    fn lit(&mut self, w: &str) -> Result<(), String> {
        if self.s[self.i..].starts_with(w.as_bytes()) {
            self.i += w.len();
            Ok(())
        } else {
            Err(format!("expected {w} at {}", self.i))
        }
    }
    fn value(&mut self) -> Result<J, String> {
        match self.peek() {
            None => Err("eof".into()),
            Some(b'{') => {
                self.i += 1;
                let mut kv = vec![];
                self.ws();
                if self.peek() == Some(b'}') {
                    self.i += 1;
                    return Ok(json!({"j":"obj","kv":kv}));
                }
                loop {
                    self.ws();
                    let k = self.string()?;
                    self.ws();
                    if self.peek() != Some(b':') {
                        return Err(format!("expected : at {}", self.i));
                    }
                    self.i += 1;
                    self.ws();
                    let v = self.value()?;
                    kv.push(json!([k, v]));
                    self.ws();
                    match self.peek() {
                        Some(b',') => self.i += 1,
                        Some(b'}') => {
                            self.i += 1;
                            break;
                        }
                        _ => return Err(format!("expected , or }} at {}", self.i)),
                    }
                }
                Ok(json!({"j":"obj","kv":kv}))
            }
            Some(b'[') => {
                self.i += 1;
                let mut items = vec![];
                self.ws();
                if self.peek() == Some(b']') {
                    self.i += 1;
                    return Ok(json!({"j":"arr","items":items}));
                }
                loop {
                    self.ws();
                    items.push(self.value()?);
                    self.ws();
                    match self.peek() {
                        Some(b',') => self.i += 1,
                        Some(b']') => {
                            self.i += 1;
                            break;
                        }
                        _ => return Err(format!("expected , or ] at {}", self.i)),
                    }
                }
                Ok(json!({"j":"arr","items":items}))
            }
            Some(b'"') => {
                let s = self.string()?;
                Ok(str_term(&s))
            }
            Some(b't') => self.lit("true").map(|_| json!({"j":"bool","bv":true})),
            Some(b'f') => self.lit("false").map(|_| json!({"j":"bool","bv":false})),
            Some(b'n') => self.lit("null").map(|_| json!({"j":"null"})),
            Some(_) => {
                let st = self.i;
                while self.i < self.s.len() && matches!(self.s[self.i], b'-' | b'+' | b'.' | b'e' | b'E' | b'0'..=b'9') {
                    self.i += 1;
                }
                let t = std::str::from_utf8(&self.s[st..self.i]).unwrap();
                if t.is_empty() {
                    return Err(format!("unexpected byte at {st}"));
                }
                match t.parse::<i64>() {
                    Ok(n) if n.abs() < (1i64 << 31) && !t.contains(['.', 'e', 'E']) => Ok(json!({"j":"int","n":n})),
                    _ => Ok(json!({"j":"num","text":t})),
                }
            }
        }
    }
    fn string(&mut self) -> Result<String, String> {
        if self.peek() != Some(b'"') {
            return Err(format!("expected string at {}", self.i));
        }
        let st = self.i;
        self.i += 1;
        while self.i < self.s.len() {
            match self.s[self.i] {
                b'\\' => self.i += 2,
                b'"' => {
                    self.i += 1;
                    let raw = std::str::from_utf8(&self.s[st..self.i]).map_err(|e| e.to_string())?;
                    return serde_json::from_str::<String>(raw).map_err(|e| e.to_string());
                }
                _ => self.i += 1,
            }
        }
        Err("unterminated string".into())
    }
}

pub fn str_term(s: &str) -> J {
    json!({"j":"str","s":s,"u":bytes_j(s.as_bytes())})
}

/// serde_json::Value -> tree term (object keys in serde_json's order; no duplicates possible)
pub fn from_value(v: &J) -> J {
    match v {
        J::Null => json!({"j":"null"}),
        J::Bool(b) => json!({"j":"bool","bv":*b}),
        J::Number(n) => match n.as_i64() {
            Some(i) if i.abs() < (1i64 << 31) => json!({"j":"int","n":i}),
            _ => json!({"j":"num","text":n.to_string()}),
        },
        J::String(s) => str_term(s),
        J::Array(a) => json!({"j":"arr","items":a.iter().map(from_value).collect::<Vec<_>>()}),
        J::Object(o) => json!({"j":"obj","kv":o.iter().map(|(k, v)| json!([k, from_value(v)])).collect::<Vec<_>>()}),
    }
}

/// tree term -> JSON text (compact; duplicates and order preserved)
pub fn render(t: &J) -> String {
    match t["j"].as_str().unwrap_or("?") {
        "obj" => {
            let parts: Vec<String> = t["kv"].as_array().unwrap().iter()
                .map(|p| format!("{}:{}", serde_json::to_string(p[0].as_str().unwrap()).unwrap(), render(&p[1])))
                .collect();
            format!("{{{}}}", parts.join(","))
        }
        "arr" => {
            let parts: Vec<String> = t["items"].as_array().unwrap().iter().map(render).collect();
            format!("[{}]", parts.join(","))
        }
        "str" => serde_json::to_string(t["s"].as_str().unwrap()).unwrap(),
        "int" => t["n"].to_string(),
        "num" => t["text"].as_str().unwrap().to_string(),
        "bool" => t["bv"].to_string(),
        "null" => "null".to_string(),
        other => panic!("render: bad tree tag {other}"),
    }
}

#[allow(dead_code)]
fn _unused() {
    let _ = small(0);
}
