//! C01 / C02: datum encode/decode executions.

use crate::generate::*;
use crate::term::*;
use crate::{Args, guarded, open_out, read_lines};
use apache_avro::Schema;
use apache_avro::reader::datum::GenericDatumReader;
use apache_avro::writer::datum::GenericDatumWriter;
use serde_json::{Value as J, json};
use std::io::Write;

/// `datum-gen --seed S --count N --depth D --out FILE`: random (schema, value) scenarios.
pub fn cmd_gen(a: &Args) -> i32 {
    let seed = a.u64("seed", 1);
    let count = a.usize("count", 100);
    let depth = a.usize("depth", 3);
    let mut out = open_out(a.req("out"));
    let mut rng = Rng::new(seed);
    for i in 0..count {
        let s = {
            let mut g = SchemaGen::new(&mut rng);
            g.schema(1 + i % depth.max(1))
        };
        let env = env_of(&s);
        let nvals = 1 + rng.below(3);
        for _ in 0..nvals {
            let v = value_for(&mut rng, &s, &env, 3);
            writeln!(out, "{}", json!({"s": s, "v": v, "layouts": []})).unwrap();
        }
    }
    0
}

fn enc_result(r: Result<Result<(usize, Vec<u8>), String>, String>) -> J {
    match r {
        Ok(Ok((n, w))) => json!({"ok":true,"panic":false,"wire":bytes_j(&w),"n":small(n),"err":""}),
        Ok(Err(e)) => json!({"ok":false,"panic":false,"wire":[],"n":0,"err":e}),
        Err(p) => json!({"ok":false,"panic":true,"wire":[],"n":0,"err":p}),
    }
}

fn dec_result(r: Result<Result<(apache_avro::types::Value, usize), String>, String>) -> J {
    match r {
        Ok(Ok((v, c))) => json!({"ok":true,"panic":false,"v":value_to_vterm(&v),"consumed":small(c),"err":""}),
        Ok(Err(e)) => json!({"ok":false,"panic":false,"v":none_term(),"consumed":0,"err":e}),
        Err(p) => json!({"ok":false,"panic":true,"v":none_term(),"consumed":0,"err":p}),
    }
}

pub fn encode_with(schema: &Schema, v: &apache_avro::types::Value, validate: bool) -> J {
    enc_result(guarded(std::panic::AssertUnwindSafe(|| {
        let w = GenericDatumWriter::builder(schema).validate(validate).build().map_err(|e| e.to_string())?;
        let mut buf = Vec::new();
        let n = w.write_value_ref(&mut buf, v).map_err(|e| e.to_string())?;
        Ok((n, buf))
    })))
}

const SENTINEL: [u8; 3] = [0xAA, 0xBB, 0xCC];

/// decode the `nth` (0-based) datum from bytes ∘ sentinel; report the value and total consumed
pub fn decode_nth(schema: &Schema, bytes: &[u8], nth: usize) -> J {
    let mut all = bytes.to_vec();
    all.extend_from_slice(&SENTINEL);
    dec_result(guarded(std::panic::AssertUnwindSafe(|| {
        let r = GenericDatumReader::builder(schema).build().map_err(|e| e.to_string())?;
        let mut slice: &[u8] = &all;
        let mut last = None;
        for _ in 0..=nth {
            last = Some(r.read_value(&mut slice).map_err(|e| e.to_string())?);
        }
        Ok((last.unwrap(), all.len() - slice.len()))
    })))
}

/// `datum-run --scn FILE --out FILE`
pub fn cmd_run(a: &Args) -> i32 {
    let lines = read_lines(a.req("scn"));
    let mut out = open_out(a.req("out"));
    for (idx, line) in lines.iter().enumerate() {
        let scn: J = match serde_json::from_str(line) {
            Ok(j) => j,
            Err(e) => {
                eprintln!("bad scenario line {idx}: {e}");
                return 2;
            }
        };
        let s = &scn["s"];
        let v = &scn["v"];
        let style = (idx % 3) as u8;
        let text = render_schema_text(s, style);
        let parsed = guarded(|| Schema::parse_str(&text));
        let mut ev = json!({"ev":"datum","id":small(idx),"s":s,"v":v,"style":style,"text":text});
        let schema = match parsed {
            Ok(Ok(sc)) => sc,
            other => {
                ev["parse_ok"] = J::from(false);
                ev["parse_err"] = J::from(match other { Ok(Err(e)) => e.to_string(), Err(p) => format!("panic: {p}"), _ => String::new() });
                writeln!(out, "{ev}").unwrap();
                continue;
            }
        };
        ev["parse_ok"] = J::from(true);
        ev["parse_err"] = J::from("");
        let val = vterm_to_value(v);
        let enc_v = encode_with(&schema, &val, true);
        let enc_u = encode_with(&schema, &val, false);
        let wire = j_bytes(&enc_v["wire"]);
        ev["dec"] = decode_nth(&schema, &wire, 0);
        let mut two = wire.clone();
        two.extend_from_slice(&wire);
        ev["dec2"] = decode_nth(&schema, &two, 1);
        ev["enc_v"] = enc_v;
        ev["enc_u"] = enc_u;
        // the schema-aware serde writer on the crate's own Decimal type (a top-level decimal): whatever it writes
        // must be the same number in the underlying type's layout; refusing is not writing
        ev["enc_s"] = match &val {
            apache_avro::types::Value::Decimal(d) => enc_result(guarded(std::panic::AssertUnwindSafe(|| {
                let w = GenericDatumWriter::builder(&schema).build().map_err(|e| e.to_string())?;
                let mut buf = Vec::new();
                let n = w.write_ser(&mut buf, d).map_err(|e| e.to_string())?;
                Ok((n, buf))
            }))),
            _ => json!({"ok":false,"panic":false,"wire":[],"n":0,"err":"not applicable"}),
        };
        let mut lay = vec![];
        if let Some(ls) = scn.get("layouts").and_then(|l| l.as_array()) {
            for l in ls {
                let b = j_bytes(l);
                let mut r = decode_nth(&schema, &b, 0);
                r["bytes"] = l.clone();
                lay.push(r);
            }
        }
        ev["lay"] = J::Array(lay);
        writeln!(out, "{ev}").unwrap();
    }
    out.flush().unwrap();
    0
}
