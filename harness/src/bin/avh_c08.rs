//! avh_c08 — schema resolution executions (property C08).
//!   run --scn FILE --out FILE     execute (W, R, hist, vals) scenarios on the three reader entry points
//!   gen --seed S --count N --maxlen L --out FILE
//!                                 seeded random (W, R, hist, vals) scenarios from random step sequences
//! The harness records; spec/Trace_Resolve.tla judges.
#[path = "../resolve_common.rs"]
mod resolve_common;

use avro_verif_harness::generate::{Rng, env_of, value_for};
use avro_verif_harness::term::*;
use avro_verif_harness::{Args, open_out, parse_args, quiet_panics, read_lines};
use resolve_common::*;
use serde_json::{Value as J, json};
use std::io::Write;

fn cmd_gen(a: &Args) -> i32 {
    let seed = a.u64("seed", 1);
    let count = a.usize("count", 100);
    let maxlen = a.usize("maxlen", 5);
    let mut out = open_out(a.req("out"));
    let mut rng = Rng::new(seed ^ 0xC08);
    let mut made = 0;
    let mut tries = 0;
    while made < count && tries < count * 20 {
        tries += 1;
        let mut ctr = 0;
        let d = 1 + rng.below(3);
        let w = random_seed(&mut rng, d, &mut ctr);
        if !well_formed_r(&w) {
            continue;
        }
        let len = 1 + rng.below(maxlen.max(1));
        let (r, hist) = random_evolution(&mut rng, &w, len);
        if hist.is_empty() {
            continue;
        }
        let env = env_of(&w);
        let nv = 2 + rng.below(4);
        let mut vals: Vec<J> = vec![];
        for _ in 0..nv {
            let v = value_for(&mut rng, &w, &env, 3);
            // keep replayed values small: judging cost grows with the size of tree-shaped recursive values
            if json_depth(&v) <= 30 && v.to_string().len() <= 1500 && !vals.contains(&v) {
                vals.push(v);
            }
        }
        if vals.is_empty() || json_depth(&r) > 60 {
            continue;
        }
        writeln!(out, "{}", json!({"W": w, "R": r, "hist": hist, "vals": vals})).unwrap();
        made += 1;
    }
    out.flush().unwrap();
    0
}

fn cmd_run(a: &Args) -> i32 {
    let lines = read_lines(a.req("scn"));
    let mut out = open_out(a.req("out"));
    for (idx, line) in lines.iter().enumerate() {
        let scn: J = match serde_json::from_str(line) {
            Ok(j) => j,
            Err(e) => {
                eprintln!("bad scenario line {idx}: {e}");
                return 2;
            }
        };
        let (wt, ws) = parse_term(&scn["W"]);
        let (rt, rs) = parse_term(&scn["R"]);
        let mut ev = json!({"ev":"resolve","id":small(idx),"W":scn["W"],"R":scn["R"],"hist":scn["hist"],
                            "wtext":wt,"rtext":rt});
        match (ws, rs) {
            (Ok(w), Ok(r)) => {
                ev["parse_ok"] = J::Bool(true);
                ev["parse_err"] = J::from("");
                let cases: Vec<J> = scn["vals"].as_array().unwrap().iter().map(|v| exec_case(&w, &r, v)).collect();
                ev["cases"] = J::Array(cases);
            }
            (a, b) => {
                ev["parse_ok"] = J::Bool(false);
                ev["parse_err"] = J::from(format!("W: {} / R: {}", a.err().unwrap_or_default(), b.err().unwrap_or_default()));
                ev["cases"] = json!([]);
            }
        }
        writeln!(out, "{ev}").unwrap();
    }
    out.flush().unwrap();
    0
}

fn main() {
    quiet_panics();
    let args = parse_args();
    let rc = match args.cmd.as_str() {
        "gen" => cmd_gen(&args),
        "run" => cmd_run(&args),
        other => {
            eprintln!("unknown command {other:?}");
            2
        }
    };
    std::process::exit(rc);
}
