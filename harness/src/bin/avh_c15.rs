//! avh_c15 — codec executions for property C15 (executes and records; never judges).
//!
//! `avh_c15 run --scn FILE --out FILE --blobs DIR [--limit N]`
//!
//! One scenario per input line, one event per output line (same `id`).  `--limit N` installs
//! `apache_avro::util::max_allocation_bytes(N)` before anything else: the limit is a process-wide
//! once-cell, so the glue starts one harness process per limit value.
//!
//! Scenario kinds (`k`):
//!   rt       {codec, level, payload: FILE, cls, full}            compress then decompress
//!   foreign  {codec, origin, maker, stream|stream_file, plain|plain_file, full}   decompress a stream made elsewhere
//!   corrupt  {codec, level, payload: FILE, kind: "flip"|"trunc"|"flipany", idx, bit, n}   compress, damage, decompress
//!   hostile  {codec, what, stream|stream_file | bomb: {codec, level, byte, n}}    decompress under the low limit
//!   file     {codec, level, values: [[bytes]..]}                 Writer -> container file -> own splitter + Reader
//!   ffile    {codec, what, file: FILE, values}                   a container file made elsewhere -> Reader
//!
//! Byte strings are arrays of byte values when the TLA+ trace spec has to look inside (`full`), and
//! length + SHA-256 otherwise.  The compressed bytes of every rt/file event are also written to
//! `DIR/<id>.comp` so that the reference decompressors (bin/lib/refcodec.py) can read them.

use apache_avro::types::Value;
use apache_avro::{Bzip2Settings, Codec, DeflateSettings, Reader, Schema, Writer, XzSettings, ZstandardSettings};
use avro_verif_harness::term::{bytes_j, j_bytes, small};
use avro_verif_harness::{guarded, open_out, parse_args, quiet_panics, read_lines};
use miniz_oxide::deflate::CompressionLevel;
use serde_json::{Value as J, json};
use sha2::{Digest, Sha256};
use std::io::Write;
use std::panic::AssertUnwindSafe;

fn sha(b: &[u8]) -> String {
    let d = Sha256::digest(b);
    d.iter().map(|x| format!("{x:02x}")).collect()
}

/// the settings the crate exposes; deflate levels are miniz_oxide's enum (as u8, 255 = DefaultCompression)
fn mk_codec(name: &str, level: u64) -> Option<Codec> {
    Some(match name {
        "null" => Codec::Null,
        "deflate" => Codec::Deflate(DeflateSettings::new(match level {
            0 => CompressionLevel::NoCompression,
            1 => CompressionLevel::BestSpeed,
            6 => CompressionLevel::DefaultLevel,
            9 => CompressionLevel::BestCompression,
            10 => CompressionLevel::UberCompression,
            255 => CompressionLevel::DefaultCompression,
            _ => return None,
        })),
        "deflate-default" => Codec::Deflate(DeflateSettings::default()),
        "snappy" => Codec::Snappy,
        "bzip2" => Codec::Bzip2(Bzip2Settings::new(level as u8)),
        "xz" => Codec::Xz(XzSettings::new(level as u8)),
        "zstandard" => Codec::Zstandard(ZstandardSettings::new(level as u8)),
        _ => return None,
    })
}

/// (ok, panic, err text, bytes)
fn call(codec: Codec, data: &[u8], compress: bool) -> (bool, bool, String, Vec<u8>) {
    let mut buf = data.to_vec();
    let r = guarded(AssertUnwindSafe(|| {
        let r = if compress { codec.compress(&mut buf) } else { codec.decompress(&mut buf) };
        r.map(|_| std::mem::take(&mut buf)).map_err(|e| e.to_string())
    }));
    match r {
        Ok(Ok(v)) => (true, false, String::new(), v),
        Ok(Err(e)) => (false, false, e, vec![]),
        Err(p) => (false, true, p, vec![]),
    }
}

fn arr_if(cond: bool, b: &[u8]) -> J {
    if cond { bytes_j(b) } else { json!([]) }
}

fn read_file(p: &str) -> Vec<u8> {
    std::fs::read(p).unwrap_or_else(|e| {
        eprintln!("cannot read {p}: {e}");
        std::process::exit(2)
    })
}

/// `stream` inline or `stream_file`
fn bytes_of(scn: &J, key: &str) -> Vec<u8> {
    if let Some(f) = scn.get(format!("{key}_file")).and_then(|f| f.as_str()) {
        read_file(f)
    } else {
        j_bytes(&scn[key])
    }
}

fn put_dec(ev: &mut J, full: bool, r: &(bool, bool, String, Vec<u8>)) {
    ev["d_ok"] = J::from(r.0);
    ev["d_panic"] = J::from(r.1);
    ev["d_err"] = J::from(r.2.chars().take(160).collect::<String>());
    ev["out_len"] = small(r.3.len());
    ev["out_sha"] = J::from(sha(&r.3));
    ev["out"] = arr_if(full && r.0, &r.3);
}

fn trailer_of(b: &[u8]) -> J {
    if b.len() >= 4 { bytes_j(&b[b.len() - 4..]) } else { json!([]) }
}

// ------------------------------------------------------------------------------------------
// container splitter (own code: independent of the crate's reader)
// ------------------------------------------------------------------------------------------
fn read_long(b: &[u8], pos: &mut usize) -> Option<i64> {
    let mut n: u64 = 0;
    let mut shift = 0;
    loop {
        let x = *b.get(*pos)?;
        *pos += 1;
        n |= ((x & 0x7f) as u64) << shift;
        if x < 0x80 {
            break;
        }
        shift += 7;
        if shift > 63 {
            return None;
        }
    }
    Some(((n >> 1) as i64) ^ -((n & 1) as i64))
}

struct Split {
    meta: Vec<(Vec<u8>, Vec<u8>)>,
    blocks: Vec<(i64, Vec<u8>)>,
    sync_ok: bool,
}

fn split_container(b: &[u8]) -> Option<Split> {
    if b.len() < 4 || &b[..4] != b"Obj\x01" {
        return None;
    }
    let mut pos = 4;
    let mut meta = vec![];
    loop {
        let mut n = read_long(b, &mut pos)?;
        if n == 0 {
            break;
        }
        if n < 0 {
            n = -n;
            read_long(b, &mut pos)?;
        }
        for _ in 0..n {
            let kl = read_long(b, &mut pos)? as usize;
            let k = b.get(pos..pos + kl)?.to_vec();
            pos += kl;
            let vl = read_long(b, &mut pos)? as usize;
            let v = b.get(pos..pos + vl)?.to_vec();
            pos += vl;
            meta.push((k, v));
        }
    }
    let sync = b.get(pos..pos + 16)?.to_vec();
    pos += 16;
    let mut blocks = vec![];
    let mut sync_ok = true;
    while pos < b.len() {
        let count = read_long(b, &mut pos)?;
        let size = read_long(b, &mut pos)? as usize;
        let payload = b.get(pos..pos + size)?.to_vec();
        pos += size;
        if b.get(pos..pos + 16)? != &sync[..] {
            sync_ok = false;
        }
        pos += 16;
        blocks.push((count, payload));
    }
    Some(Split { meta, blocks, sync_ok })
}

// ------------------------------------------------------------------------------------------
fn run_rt(scn: &J, ev: &mut J, blobs: &str, id: usize) {
    let name = scn["codec"].as_str().unwrap_or("");
    let level = scn["level"].as_u64().unwrap_or(0);
    let full = scn["full"].as_bool().unwrap_or(false);
    let input = read_file(scn["payload"].as_str().unwrap_or(""));
    ev["cls"] = scn["cls"].clone();
    ev["full"] = J::from(full);
    ev["in_len"] = small(input.len());
    ev["in_sha"] = J::from(sha(&input));
    ev["input"] = arr_if(full, &input);
    let codec = mk_codec(name, level).expect("codec/level");
    let c = call(codec, &input, true);
    ev["c_ok"] = J::from(c.0);
    ev["c_panic"] = J::from(c.1);
    ev["c_err"] = J::from(c.2.clone());
    ev["comp_len"] = small(c.3.len());
    ev["comp_sha"] = J::from(sha(&c.3));
    ev["comp"] = arr_if(full && c.0, &c.3);
    ev["trailer"] = if name == "snappy" { trailer_of(&c.3) } else { json!([]) };
    if c.0 {
        std::fs::write(format!("{blobs}/{id}.comp"), &c.3).expect("write blob");
        // a second codec value with another level decompresses: the level plays no role on the read side
        let d = call(codec, &c.3, false);
        put_dec(ev, full, &d);
    } else {
        put_dec(ev, full, &(false, false, "not compressed".into(), vec![]));
    }
}

fn run_foreign(scn: &J, ev: &mut J) {
    let name = scn["codec"].as_str().unwrap_or("");
    let full = scn["full"].as_bool().unwrap_or(false);
    let stream = bytes_of(scn, "stream");
    let plain = bytes_of(scn, "plain");
    ev["origin"] = scn["origin"].clone();
    ev["maker"] = scn["maker"].clone();
    ev["full"] = J::from(full);
    ev["stream"] = arr_if(full, &stream);
    ev["stream_len"] = small(stream.len());
    ev["plain"] = arr_if(full, &plain);
    ev["plain_len"] = small(plain.len());
    ev["plain_sha"] = J::from(sha(&plain));
    ev["trailer"] = if name == "snappy" { trailer_of(&stream) } else { json!([]) };
    // foreign streams carry no level: read with the default settings of the codec, as the file reader would
    let level = match name { "bzip2" | "xz" => 9, "deflate" => 255, _ => 0 };
    let codec = mk_codec(name, level).expect("codec");
    let d = call(codec, &stream, false);
    put_dec(ev, full, &d);
}

fn run_corrupt(scn: &J, ev: &mut J) {
    let name = scn["codec"].as_str().unwrap_or("");
    let level = scn["level"].as_u64().unwrap_or(0);
    let input = read_file(scn["payload"].as_str().unwrap_or(""));
    let codec = mk_codec(name, level).expect("codec/level");
    let c = call(codec, &input, true);
    let kind = scn["kind"].as_str().unwrap_or("");
    let k = scn["idx"].as_u64().unwrap_or(0) as usize;
    let bit = scn["bit"].as_u64().unwrap_or(0) as usize;
    let n = scn["n"].as_u64().unwrap_or(0) as usize;
    let mut damaged = c.3.clone();
    let mut applied = c.0;
    match kind {
        // bit `bit` of the k-th (1..4) of the last four bytes
        "flip" if damaged.len() >= 4 => {
            let i = damaged.len() - 4 + (k - 1);
            damaged[i] ^= 1 << bit;
        }
        // bit `bit` of byte k (1-based) anywhere
        "flipany" if k >= 1 && k <= damaged.len() => damaged[k - 1] ^= 1 << bit,
        "trunc" if n <= damaged.len() => damaged.truncate(n),
        _ => applied = false,
    }
    ev["kind"] = J::from(kind);
    ev["k"] = small(k);
    ev["bit"] = small(bit);
    ev["n"] = small(n);
    ev["applied"] = J::from(applied);
    ev["input"] = bytes_j(&input);
    ev["comp"] = bytes_j(&c.3);
    ev["damaged"] = bytes_j(&damaged);
    let d = call(codec, &damaged, false);
    put_dec(ev, true, &d);
}

fn run_hostile(scn: &J, ev: &mut J) {
    let name = scn["codec"].as_str().unwrap_or("");
    let codec = mk_codec(name, match name { "bzip2" | "xz" => 9, "deflate" => 255, _ => 0 }).expect("codec");
    let (stream, made_ok) = if let Some(b) = scn.get("bomb").filter(|b| b.is_object()) {
        // the library's own compression of n equal bytes (compress is not subject to the limit)
        let n = b["n"].as_u64().unwrap_or(0) as usize;
        let byte = b["byte"].as_u64().unwrap_or(0) as u8;
        let c = mk_codec(name, b["level"].as_u64().unwrap_or(0)).expect("bomb codec");
        let r = call(c, &vec![byte; n], true);
        (r.3, r.0)
    } else {
        (bytes_of(scn, "stream"), true)
    };
    let small_stream = stream.len() <= 4096;
    ev["what"] = scn["what"].clone();
    ev["made_ok"] = J::from(made_ok);
    ev["denotes_len"] = scn.get("denotes_len").cloned().unwrap_or(json!(0));
    ev["stream_len"] = small(stream.len());
    ev["has_stream"] = J::from(small_stream);
    ev["stream"] = arr_if(small_stream, &stream);
    ev["trailer"] = trailer_of(&stream);
    let d = call(codec, &stream, false);
    let small_out = d.3.len() <= 4096;
    ev["has_out"] = J::from(small_out && d.0);
    put_dec(ev, small_out, &d);
}

fn run_file(scn: &J, ev: &mut J, blobs: &str, id: usize) {
    let name = scn["codec"].as_str().unwrap_or("");
    let level = scn["level"].as_u64().unwrap_or(0);
    let codec = mk_codec(name, level).expect("codec/level");
    let values: Vec<Vec<u8>> = scn["values"].as_array().map(|a| a.iter().map(j_bytes).collect()).unwrap_or_default();
    ev["values"] = scn["values"].clone();
    let schema = Schema::parse_str("\"bytes\"").expect("schema");
    let w = guarded(AssertUnwindSafe(|| -> Result<Vec<u8>, String> {
        let mut w = Writer::with_codec(&schema, Vec::new(), codec).map_err(|e| e.to_string())?;
        for v in &values {
            w.append_value(Value::Bytes(v.clone())).map_err(|e| e.to_string())?;
        }
        w.into_inner().map_err(|e| e.to_string())
    }));
    let file = match w {
        Ok(Ok(f)) => f,
        other => {
            ev["w_ok"] = J::from(false);
            ev["w_err"] = J::from(match other { Ok(Err(e)) => e, Err(p) => format!("panic: {p}"), _ => String::new() });
            for k in ["split_ok", "sync_ok", "has_codec", "has_level", "r_ok", "r_panic"] {
                ev[k] = J::from(false);
            }
            ev["meta_codec"] = json!([]);
            ev["meta_level"] = json!([]);
            ev["nblocks"] = small(0);
            ev["count"] = small(0);
            ev["payload"] = json!([]);
            ev["trailer"] = json!([]);
            ev["r_values"] = json!([]);
            ev["r_err"] = J::from("");
            return;
        }
    };
    ev["w_ok"] = J::from(true);
    ev["w_err"] = J::from("");
    let sp = split_container(&file);
    ev["split_ok"] = J::from(sp.is_some());
    let sp = sp.unwrap_or(Split { meta: vec![], blocks: vec![], sync_ok: false });
    ev["sync_ok"] = J::from(sp.sync_ok);
    let get = |k: &str| sp.meta.iter().find(|(kk, _)| kk == k.as_bytes()).map(|(_, v)| v.clone());
    let mc = get("avro.codec");
    let ml = get("avro.codec.compression_level");
    ev["has_codec"] = J::from(mc.is_some());
    ev["meta_codec"] = bytes_j(&mc.unwrap_or_default());
    ev["has_level"] = J::from(ml.is_some());
    ev["meta_level"] = bytes_j(&ml.unwrap_or_default());
    ev["nblocks"] = small(sp.blocks.len());
    let (count, payload) = sp.blocks.first().cloned().unwrap_or((0, vec![]));
    ev["count"] = small(count.max(0) as usize);
    ev["payload"] = bytes_j(&payload);
    ev["trailer"] = if name == "snappy" { trailer_of(&payload) } else { json!([]) };
    std::fs::write(format!("{blobs}/{id}.comp"), &payload).expect("write blob");
    let r = guarded(AssertUnwindSafe(|| -> Result<Vec<Vec<u8>>, String> {
        let rd = Reader::new(&file[..]).map_err(|e| e.to_string())?;
        let mut out = vec![];
        for v in rd {
            match v.map_err(|e| e.to_string())? {
                Value::Bytes(b) => out.push(b),
                other => return Err(format!("not bytes: {other:?}")),
            }
        }
        Ok(out)
    }));
    match r {
        Ok(Ok(vs)) => {
            ev["r_ok"] = J::from(true);
            ev["r_panic"] = J::from(false);
            ev["r_err"] = J::from("");
            ev["r_values"] = J::Array(vs.iter().map(|v| bytes_j(v)).collect());
        }
        Ok(Err(e)) => {
            ev["r_ok"] = J::from(false);
            ev["r_panic"] = J::from(false);
            ev["r_err"] = J::from(e);
            ev["r_values"] = json!([]);
        }
        Err(p) => {
            ev["r_ok"] = J::from(false);
            ev["r_panic"] = J::from(true);
            ev["r_err"] = J::from(p);
            ev["r_values"] = json!([]);
        }
    }
}

/// a container file made elsewhere (reference codecs + a few lines of Python): what does the Reader return?
fn run_ffile(scn: &J, ev: &mut J) {
    let file = read_file(scn["file"].as_str().unwrap_or(""));
    ev["what"] = scn["what"].clone();
    ev["values"] = scn["values"].clone();
    ev["file_len"] = small(file.len());
    let r = guarded(AssertUnwindSafe(|| -> Result<Vec<Vec<u8>>, String> {
        let rd = Reader::new(&file[..]).map_err(|e| e.to_string())?;
        let mut out = vec![];
        for v in rd {
            match v.map_err(|e| e.to_string())? {
                Value::Bytes(b) => out.push(b),
                other => return Err(format!("not bytes: {other:?}")),
            }
        }
        Ok(out)
    }));
    let (ok, panic, err, vals) = match r {
        Ok(Ok(vs)) => (true, false, String::new(), vs),
        Ok(Err(e)) => (false, false, e, vec![]),
        Err(p) => (false, true, p, vec![]),
    };
    ev["r_ok"] = J::from(ok);
    ev["r_panic"] = J::from(panic);
    ev["r_err"] = J::from(err.chars().take(160).collect::<String>());
    ev["r_values"] = J::Array(vals.iter().map(|v| bytes_j(v)).collect());
}

fn main() {
    quiet_panics();
    let args = parse_args();
    if args.cmd != "run" {
        eprintln!("usage: avh_c15 run --scn FILE --out FILE --blobs DIR [--limit N]");
        std::process::exit(2);
    }
    let limit = match args.get("limit") {
        Some(l) => apache_avro::util::max_allocation_bytes(l.parse().expect("limit")),
        None => apache_avro::util::max_allocation_bytes(apache_avro::util::DEFAULT_MAX_ALLOCATION_BYTES),
    };
    let blobs = args.req("blobs").to_string();
    std::fs::create_dir_all(&blobs).expect("blob dir");
    let lines = read_lines(args.req("scn"));
    let mut out = open_out(args.req("out"));
    for (idx, line) in lines.iter().enumerate() {
        let scn: J = match serde_json::from_str(line) {
            Ok(j) => j,
            Err(e) => {
                eprintln!("bad scenario line {idx}: {e}");
                std::process::exit(2);
            }
        };
        let id = scn["id"].as_u64().unwrap_or(idx as u64) as usize;
        let k = scn["k"].as_str().unwrap_or("");
        let mut ev = json!({"ev": k, "id": small(id), "codec": scn["codec"], "level": scn.get("level").cloned().unwrap_or(json!(0)),
                            "limit": small(limit)});
        match k {
            "rt" => run_rt(&scn, &mut ev, &blobs, id),
            "foreign" => run_foreign(&scn, &mut ev),
            "corrupt" => run_corrupt(&scn, &mut ev),
            "hostile" => run_hostile(&scn, &mut ev),
            "file" => run_file(&scn, &mut ev, &blobs, id),
            "ffile" => run_ffile(&scn, &mut ev),
            other => {
                eprintln!("unknown scenario kind {other:?} on line {idx}");
                std::process::exit(2);
            }
        }
        writeln!(out, "{ev}").unwrap();
    }
    out.flush().unwrap();
}
