//! avh_c19 — process-wide settings under threads (property C19).
//!
//! The harness only executes and records; spec/Trace_Settings.tla judges.
//!
//!   gen     --seed S --count N [--max-threads 8] [--max-ops 4] --out FILE     seeded random programs
//!   trials  --progs FILE --out FILE [--reps R] [--jobs J]     one FRESH CHILD PROCESS per program (settings are once per process)
//!   trial   --prog JSON                             (child) run one program, print call/ret events
//!   touch   --out FILE                              which cells does each kind of call initialise? (fresh child each)
//!   touch1  --prog JSON                             (child)
//!   limits  --out FILE [--big]                      decoders at limit-1, limit, limit+1 (fresh child per limit and mode)
//!   limit1  --limit L|max --mode setfirst|usefirst [--big]     (child)
//!
//! Program: {"id":n,"pre":[op..],"threads":[[op..]..],"sync":bool}, op = {"op":"set"|"use","c":cell,"arg":n}.
//! Thread i of the list has id i+1; id 0 is the main thread (pre-ops before the threads start, epilogue after the join).
//! Every call is logged as `call` and `ret`, each stamped from ONE AtomicU64 (never a clock).
//!
//! Marker protocol (mirrored by Obeys in spec/Settings.tla): custom validator k accepts only marker k
//! (names "vt<k>", namespaces "ns<k>", symbols "sy<k>", field names "fd<k>") plus the fixed auxiliary name "x";
//! custom comparator k calls exactly marker pair k (array^k(null), array^k(boolean)) equal.

use apache_avro::error::Details;
use apache_avro::reader::datum::GenericDatumReader;
use apache_avro::schema::Name;
use apache_avro::schema_equality::{SchemataEq, set_schemata_equality_comparator};
use apache_avro::types::Value;
use apache_avro::util::{max_allocation_bytes, set_serde_human_readable};
use apache_avro::validator::{
    EnumSymbolNameValidator, RecordFieldNameValidator, SchemaNameValidator, SchemaNamespaceValidator,
    set_enum_symbol_name_validator, set_record_field_name_validator, set_schema_name_validator,
    set_schema_namespace_validator,
};
use apache_avro::{AvroResult, Codec, Error, Reader, Schema};
use avro_verif_harness::generate::Rng;
use avro_verif_harness::{guarded, open_out, parse_args, quiet_panics, read_lines};
use serde_json::{Value as J, json};
use std::io::Write;
use std::process::{Command, Stdio};
use std::sync::atomic::{AtomicU64, AtomicUsize, Ordering};
use std::sync::{Arc, Barrier};
use std::time::{Duration, Instant};

const CELLS: [&str; 7] = [
    "maxAlloc",
    "humanReadable",
    "nameValidator",
    "namespaceValidator",
    "enumSymbolValidator",
    "fieldNameValidator",
    "comparator",
];
const BIG: i64 = 2147483647; // stands for "a number that does not fit TLC's integers"

// ------------------------------------------------------------------------------------------------
// candidate objects
// ------------------------------------------------------------------------------------------------
struct CandName(usize);
impl SchemaNameValidator for CandName {
    fn validate(&self, schema_name: &str) -> AvroResult<usize> {
        if schema_name == "x" || schema_name == format!("vt{}", self.0) {
            Ok(0)
        } else {
            Err(Error::new(Details::InvalidSchemaName(schema_name.to_string(), "verif candidate")))
        }
    }
}
struct CandNs(usize);
impl SchemaNamespaceValidator for CandNs {
    fn validate(&self, namespace: &str) -> AvroResult<()> {
        if namespace == format!("ns{}", self.0) {
            Ok(())
        } else {
            Err(Error::new(Details::InvalidNamespace(namespace.to_string(), "verif candidate")))
        }
    }
}
struct CandSym(usize);
impl EnumSymbolNameValidator for CandSym {
    fn validate(&self, symbol: &str) -> AvroResult<()> {
        if symbol == format!("sy{}", self.0) {
            Ok(())
        } else {
            Err(Error::new(Details::EnumSymbolName(symbol.to_string())))
        }
    }
}
struct CandField(usize);
impl RecordFieldNameValidator for CandField {
    fn validate(&self, field_name: &str) -> AvroResult<()> {
        if field_name == format!("fd{}", self.0) {
            Ok(())
        } else {
            Err(Error::new(Details::FieldName(field_name.to_string())))
        }
    }
}
#[derive(Debug)]
struct CandCmp(usize);
fn depth_of(s: &Schema, leaf_null: bool) -> Option<usize> {
    match s {
        Schema::Null if leaf_null => Some(0),
        Schema::Boolean if !leaf_null => Some(0),
        Schema::Array(a) => depth_of(&a.items, leaf_null).map(|d| d + 1),
        Schema::Map(m) => depth_of(&m.types, leaf_null).map(|d| d + 1),
        _ => None,
    }
}
impl SchemataEq for CandCmp {
    fn compare(&self, one: &Schema, two: &Schema) -> bool {
        depth_of(one, true) == Some(self.0) && depth_of(two, false) == Some(self.0)
    }
}
fn nest(leaf: Schema, depth: usize) -> Schema {
    let mut s = leaf;
    for _ in 0..depth {
        s = Schema::array(s).build();
    }
    s
}

struct HrProbe;
impl serde::Serialize for HrProbe {
    fn serialize<S: serde::Serializer>(&self, s: S) -> Result<S::Ok, S::Error> {
        let hr = s.is_human_readable();
        s.serialize_bool(hr)
    }
}

struct HrDeProbe(bool);
impl<'de> serde::Deserialize<'de> for HrDeProbe {
    fn deserialize<D: serde::Deserializer<'de>>(d: D) -> Result<Self, D::Error> {
        let hr = d.is_human_readable();
        let _ = <bool as serde::Deserialize>::deserialize(d)?;
        Ok(HrDeProbe(hr))
    }
}

// ------------------------------------------------------------------------------------------------
// one API call
// ------------------------------------------------------------------------------------------------
#[derive(Clone, Debug)]
struct Op {
    set: bool,
    c: usize, // index into CELLS
    arg: usize,
}
fn op_of(j: &J) -> Op {
    let c = j["c"].as_str().expect("c");
    Op {
        set: j["op"].as_str().expect("op") == "set",
        c: CELLS.iter().position(|x| *x == c).unwrap_or_else(|| panic!("unknown cell {c}")),
        arg: j["arg"].as_u64().expect("arg") as usize,
    }
}
fn op_json(o: &Op) -> J {
    json!({"op": if o.set {"set"} else {"use"}, "c": CELLS[o.c], "arg": o.arg})
}

fn zigzag_varint(n: u64, out: &mut Vec<u8>) {
    // n is a non-negative long < 2^62
    let mut z = n << 1;
    loop {
        if z <= 0x7f {
            out.push(z as u8);
            break;
        }
        out.push(0x80 | (z & 0x7f) as u8);
        z >>= 7;
    }
}

/// header of an array/map block: `count`, or (sized layout) `-count` followed by the byte size of the items
fn block_header(count: u64, sized: bool, payload: u64, out: &mut Vec<u8>) {
    if sized && count > 0 {
        // zig-zag of the negative long -count
        let mut z = (count << 1) - 1;
        loop {
            if z <= 0x7f {
                out.push(z as u8);
                break;
            }
            out.push(0x80 | (z & 0x7f) as u8);
            z >>= 7;
        }
        zigzag_varint(payload, out);
    } else {
        zigzag_varint(count, out);
    }
}

/// Everything that can be prepared before the call is prepared here, so that the recorded call
/// interval is as tight as possible around the library call.
enum Prepared {
    SetMax(usize),
    Decode(Vec<u8>),
    SetHr(bool),
    UseHr,
    UseHrDe,
    SetName(Box<dyn SchemaNameValidator + Send + Sync>),
    SetNs(Box<dyn SchemaNamespaceValidator + Send + Sync>),
    SetSym(Box<dyn EnumSymbolNameValidator + Send + Sync>),
    SetField(Box<dyn RecordFieldNameValidator + Send + Sync>),
    SetCmp(Box<dyn SchemataEq>),
    UseName(String),
    UseNs(String),
    Parse(String),
    UseCmp(Schema, Schema),
}
fn prepare(o: &Op) -> Prepared {
    let k = o.arg;
    match (o.set, CELLS[o.c]) {
        (true, "maxAlloc") => Prepared::SetMax(k),
        (false, "maxAlloc") => {
            let mut d = Vec::with_capacity(k + 5);
            zigzag_varint(k as u64, &mut d);
            d.resize(d.len() + k, 0x61);
            Prepared::Decode(d)
        }
        (true, "humanReadable") => Prepared::SetHr(k == 1),
        // the flag is consulted by the serializer (arg 0) and by the deserializer (arg 1)
        (false, "humanReadable") if k == 1 => Prepared::UseHrDe,
        (false, "humanReadable") => Prepared::UseHr,
        (true, "nameValidator") => Prepared::SetName(Box::new(CandName(k))),
        (true, "namespaceValidator") => Prepared::SetNs(Box::new(CandNs(k))),
        (true, "enumSymbolValidator") => Prepared::SetSym(Box::new(CandSym(k))),
        (true, "fieldNameValidator") => Prepared::SetField(Box::new(CandField(k))),
        (true, "comparator") => Prepared::SetCmp(Box::new(CandCmp(k))),
        (false, "nameValidator") => Prepared::UseName(format!("vt{k}")),
        (false, "namespaceValidator") => Prepared::UseNs(format!("ns{k}")),
        (false, "enumSymbolValidator") => {
            Prepared::Parse(format!(r#"{{"type":"enum","name":"x","symbols":["sy{k}"]}}"#))
        }
        (false, "fieldNameValidator") => Prepared::Parse(format!(
            r#"{{"type":"record","name":"x","fields":[{{"name":"fd{k}","type":"int"}}]}}"#
        )),
        // the two schemas of a marker pair are of DIFFERENT kinds at the top (array vs map): whether they are
        // "equal" is for the comparator in force to say, whatever their kinds
        (false, "comparator") => Prepared::UseCmp(nest(Schema::Null, k), if k == 0 { Schema::Boolean } else { Schema::map(nest(Schema::Boolean, k - 1)).build() }),
        _ => unreachable!(),
    }
}
fn clamp(n: usize) -> i64 {
    if (n as u64) < BIG as u64 { n as i64 } else { BIG }
}
/// The library call itself.  The value returned is what the caller of the API sees.
#[allow(deprecated)]
fn execute(p: Prepared, alias: bool) -> i64 {
    match p {
        // the crate root still exports the deprecated aliases of the two value setters: same cells
        Prepared::SetMax(n) if alias => clamp(apache_avro::max_allocation_bytes(n)),
        Prepared::SetHr(b) if alias => apache_avro::set_serde_human_readable(b) as i64,
        Prepared::SetMax(n) => clamp(max_allocation_bytes(n)),
        Prepared::Decode(d) => {
            // human_readable is given explicitly: the builder's default would read the humanReadable cell
            let r = GenericDatumReader::builder(&Schema::Bytes).human_readable(false).build();
            match r {
                Ok(r) => r.read_value(&mut &d[..]).is_ok() as i64,
                Err(_) => -2,
            }
        }
        Prepared::SetHr(b) => set_serde_human_readable(b) as i64,
        Prepared::UseHr => match apache_avro::to_value(HrProbe) {
            Ok(Value::Boolean(b)) => b as i64,
            _ => -2,
        },
        Prepared::UseHrDe => match apache_avro::from_value::<HrDeProbe>(&Value::Boolean(true)) {
            Ok(p) => p.0 as i64,
            Err(_) => -2,
        },
        Prepared::SetName(b) => set_schema_name_validator(b).is_ok() as i64,
        Prepared::SetNs(b) => set_schema_namespace_validator(b).is_ok() as i64,
        Prepared::SetSym(b) => set_enum_symbol_name_validator(b).is_ok() as i64,
        Prepared::SetField(b) => set_record_field_name_validator(b).is_ok() as i64,
        Prepared::SetCmp(b) => set_schemata_equality_comparator(b).is_ok() as i64,
        Prepared::UseName(n) => Name::new(n).is_ok() as i64,
        Prepared::UseNs(ns) => Name::new_with_enclosing_namespace("x", Some(&ns)).is_ok() as i64,
        Prepared::Parse(s) => Schema::parse_str(&s).is_ok() as i64,
        Prepared::UseCmp(a, b) => (a == b) as i64,
    }
}

// ------------------------------------------------------------------------------------------------
// trial (child): threads, barrier, sequence numbers
// ------------------------------------------------------------------------------------------------
static SEQ: AtomicU64 = AtomicU64::new(1);
fn stamp() -> u64 {
    SEQ.fetch_add(1, Ordering::SeqCst)
}

struct Logged {
    seq: u64,
    line: J,
}
fn run_op(t: usize, o: &Op, log: &mut Vec<Logged>) {
    let p = prepare(o);
    let s1 = stamp();
    let val = guarded(std::panic::AssertUnwindSafe(|| execute(p, t % 2 == 1))).unwrap_or(-9);
    let s2 = stamp();
    log.push(Logged { seq: s1, line: json!({"ev":"call","t":t,"op": if o.set {"set"} else {"use"},"c":CELLS[o.c],"arg":o.arg,"seq":s1}) });
    log.push(Logged { seq: s2, line: json!({"ev":"ret","t":t,"val":val,"seq":s2}) });
}

fn spin_barrier(ctr: &AtomicUsize, target: usize) {
    ctr.fetch_add(1, Ordering::SeqCst);
    let t0 = Instant::now();
    let mut i = 0u32;
    while ctr.load(Ordering::SeqCst) < target {
        i = i.wrapping_add(1);
        if i < 20_000 {
            std::hint::spin_loop();
        } else {
            // the box may be oversubscribed: let a descheduled peer run, and never hang the trial on it
            std::thread::yield_now();
            if i % 64 == 0 && t0.elapsed() > Duration::from_millis(40) {
                break;
            }
        }
    }
}

fn cmd_trial(prog: &J) -> i32 {
    // watchdog: a call that never returns is data, reported by the parent as `crash`
    std::thread::spawn(|| {
        std::thread::sleep(Duration::from_secs(20));
        std::process::exit(3);
    });
    let threads: Vec<Vec<Op>> = prog["threads"]
        .as_array()
        .expect("threads")
        .iter()
        .map(|t| t.as_array().expect("ops").iter().map(op_of).collect())
        .collect();
    let pre: Vec<Op> = prog["pre"].as_array().map(|a| a.iter().map(op_of).collect()).unwrap_or_default();
    let sync = prog["sync"].as_bool().unwrap_or(false);
    let n = threads.len();
    let mut in_play = [false; 7];
    for o in threads.iter().flatten().chain(pre.iter()) {
        in_play[o.c] = true;
    }
    let mut log: Vec<Logged> = Vec::new();
    for o in &pre {
        run_op(0, o, &mut log);
    }
    let barrier = Arc::new(Barrier::new(n));
    let rounds = threads.iter().map(|t| t.len()).max().unwrap_or(0);
    let ctrs: Arc<Vec<AtomicUsize>> = Arc::new((0..rounds + 1).map(|_| AtomicUsize::new(0)).collect());
    let mut handles = Vec::new();
    for (i, ops) in threads.into_iter().enumerate() {
        let barrier = barrier.clone();
        let ctrs = ctrs.clone();
        handles.push(std::thread::spawn(move || {
            let mut log: Vec<Logged> = Vec::with_capacity(2 * ops.len());
            barrier.wait();
            spin_barrier(&ctrs[0], n);
            for (k, o) in ops.iter().enumerate() {
                if sync && k > 0 {
                    // align round k of all threads that have a round k
                    spin_barrier(&ctrs[k], n);
                }
                run_op(i + 1, o, &mut log);
            }
            if sync {
                // release peers waiting in later rounds
                for k in ops.len().max(1)..ctrs.len() {
                    ctrs[k].fetch_add(1, Ordering::SeqCst);
                }
            }
            log
        }));
    }
    for h in handles {
        match h.join() {
            Ok(l) => log.extend(l),
            Err(_) => return 4,
        }
    }
    // epilogue: what is in force now, as seen through the public API by the main thread
    let mut epi = vec![Op { set: true, c: 0, arg: 999_983 }, Op { set: true, c: 1, arg: 1 }];
    for c in 2..7 {
        // registry cells the program addressed (and the name validator, which named-schema uses touch too)
        if !(in_play[c] || (c == 2 && (in_play[3] || in_play[4] || in_play[5]))) {
            continue;
        }
        for m in 0..=n + 1 {
            epi.push(Op { set: false, c, arg: m });
        }
    }
    for o in &epi {
        run_op(0, o, &mut log);
    }
    log.sort_by_key(|l| l.seq);
    let out = std::io::stdout();
    let mut out = out.lock();
    for l in log {
        writeln!(out, "{}", l.line).unwrap();
    }
    0
}

// ------------------------------------------------------------------------------------------------
// parent side: fresh child per trial
// ------------------------------------------------------------------------------------------------
fn run_child(args: &[String], timeout: Duration) -> (Option<i32>, String) {
    let exe = std::env::current_exe().expect("current_exe");
    let mut child = Command::new(exe)
        .args(args)
        .stdin(Stdio::null())
        .stdout(Stdio::piped())
        .stderr(Stdio::null())
        .spawn()
        .expect("spawn child");
    let mut stdout = child.stdout.take().unwrap();
    let reader = std::thread::spawn(move || {
        let mut s = String::new();
        let _ = std::io::Read::read_to_string(&mut stdout, &mut s);
        s
    });
    let t0 = Instant::now();
    let code = loop {
        match child.try_wait() {
            Ok(Some(st)) => break st.code(),
            Ok(None) => {
                if t0.elapsed() > timeout {
                    let _ = child.kill();
                    let _ = child.wait();
                    break None;
                }
                std::thread::sleep(Duration::from_micros(300));
            }
            Err(_) => break None,
        }
    };
    let out = reader.join().unwrap_or_default();
    (code, out)
}

fn cmd_trials(progs: &str, out: &str, reps: usize, jobs: usize) -> i32 {
    let mut w = open_out(out);
    let mut work: Vec<(String, u64)> = Vec::new();
    for line in read_lines(progs) {
        let prog: J = serde_json::from_str(&line).expect("program json");
        for _ in 0..reps {
            work.push((line.clone(), prog["id"].as_u64().unwrap_or(0)));
        }
    }
    let mut id = 0usize;
    for batch in work.chunks(jobs.max(1)) {
        // `jobs` fresh children at a time; results are written in program order
        let handles: Vec<_> = batch
            .iter()
            .map(|(line, _)| {
                let line = line.clone();
                std::thread::spawn(move || run_child(&["trial".into(), "--prog".into(), line], Duration::from_secs(30)))
            })
            .collect();
        for (h, (_, scn)) in handles.into_iter().zip(batch.iter()) {
            let (code, text) = h.join().expect("child runner");
            writeln!(w, "{}", json!({"ev":"reset","id":id,"scn":scn})).unwrap();
            if code == Some(0) {
                w.write_all(text.as_bytes()).unwrap();
            } else {
                // crash / hang / abort of the code under test: data, the trace spec has no action for it
                writeln!(w, "{}", json!({"ev":"crash","id":id,"code":code.unwrap_or(-1)})).unwrap();
            }
            id += 1;
        }
    }
    w.flush().unwrap();
    0
}

// ------------------------------------------------------------------------------------------------
// seeded random programs
// ------------------------------------------------------------------------------------------------
fn gen_op(rng: &mut Rng, t: usize, n: usize, cells: &[usize], maxcands: &[usize]) -> Op {
    let c = *rng.pick(cells);
    let set = rng.chance(1, 2);
    let arg = match (set, CELLS[c]) {
        (true, "maxAlloc") => maxcands[t - 1],
        (false, "maxAlloc") => {
            // a declared length next to some thread's candidate limit
            let base = *rng.pick(maxcands);
            (base + rng.below(3)).saturating_sub(1)
        }
        (true, "humanReadable") => rng.below(2),
        (false, "humanReadable") => rng.below(2),
        (true, _) => t,
        (false, _) => rng.below(n + 1), // marker 0..n
    };
    Op { set, c, arg }
}
fn cmd_gen(seed: u64, count: usize, max_threads: usize, max_ops: usize, out: &str) -> i32 {
    let mut rng = Rng::new(seed ^ 0xC19);
    let mut w = open_out(out);
    for id in 0..count {
        let n = 2 + rng.below(max_threads - 1);
        // contention needs few cells: 1, 2, 3 or all 7 cells in play
        let ncells = *rng.pick(&[1usize, 1, 2, 2, 3, 7]);
        let mut cells: Vec<usize> = (0..7).collect();
        while cells.len() > ncells {
            let i = rng.below(cells.len());
            cells.remove(i);
        }
        let maxcands: Vec<usize> = (0..n)
            .map(|_| if rng.chance(1, 6) { rng.below(3) } else { 3 + rng.below(3000) })
            .collect();
        let mut threads = Vec::new();
        for t in 1..=n {
            let k = 1 + rng.below(max_ops);
            let ops: Vec<J> = (0..k).map(|_| op_json(&gen_op(&mut rng, t, n, &cells, &maxcands))).collect();
            threads.push(J::Array(ops));
        }
        let pre: Vec<J> = if rng.chance(1, 5) {
            let who = 1 + rng.below(n);
            vec![op_json(&gen_op(&mut rng, who, n, &cells, &maxcands))]
        } else {
            vec![]
        };
        // pre-ops are issued by the main thread (id 0); a main-thread setter uses candidate id n+1
        let pre: Vec<J> = pre
            .into_iter()
            .map(|mut o| {
                if o["op"] == "set" && !matches!(o["c"].as_str(), Some("maxAlloc") | Some("humanReadable")) {
                    o["arg"] = json!(n + 1);
                }
                o
            })
            .collect();
        writeln!(w, "{}", json!({"id": id, "pre": pre, "threads": threads, "sync": rng.chance(1, 2)})).unwrap();
    }
    w.flush().unwrap();
    0
}

// ------------------------------------------------------------------------------------------------
// touch: which cells does a call initialise?
// ------------------------------------------------------------------------------------------------
fn cmd_touch1(prog: &J) -> i32 {
    let o = op_of(prog);
    let _ = guarded(std::panic::AssertUnwindSafe(|| execute(prepare(&o), o.arg % 2 == 1)));
    let mut touched: Vec<&str> = Vec::new();
    if max_allocation_bytes(777_777) != 777_777 {
        touched.push(CELLS[0]);
    }
    let probe = !(o.set && o.c == 1 && o.arg == 1);
    if set_serde_human_readable(probe) != probe {
        touched.push(CELLS[1]);
    }
    if set_schema_name_validator(Box::new(CandName(99))).is_err() {
        touched.push(CELLS[2]);
    }
    if set_schema_namespace_validator(Box::new(CandNs(99))).is_err() {
        touched.push(CELLS[3]);
    }
    if set_enum_symbol_name_validator(Box::new(CandSym(99))).is_err() {
        touched.push(CELLS[4]);
    }
    if set_record_field_name_validator(Box::new(CandField(99))).is_err() {
        touched.push(CELLS[5]);
    }
    if set_schemata_equality_comparator(Box::new(CandCmp(99))).is_err() {
        touched.push(CELLS[6]);
    }
    // (set maxAlloc 777777 itself would look untouched: the op generator never uses that value)
    println!("{}", json!({"ev":"touch","op": if o.set {"set"} else {"use"},"c":CELLS[o.c],"arg":o.arg,"touched":touched}));
    0
}
fn cmd_touch(out: &str) -> i32 {
    let mut w = open_out(out);
    let mut id = 0;
    for c in 0..7 {
        for set in [true, false] {
            for arg in [0usize, 1, 2] {
                if set && c >= 2 && arg == 0 {
                    continue;
                }
                if c == 1 && arg == 2 {
                    continue;
                }
                let o = Op { set, c, arg: if c == 0 { 40 + arg } else { arg } };
                let (code, text) = run_child(&["touch1".into(), "--prog".into(), op_json(&o).to_string()], Duration::from_secs(30));
                if code == Some(0) {
                    let mut j: J = serde_json::from_str(text.trim()).expect("touch json");
                    j["id"] = json!(id);
                    writeln!(w, "{j}").unwrap();
                } else {
                    writeln!(w, "{}", json!({"ev":"childcrash","id":id,"code":code.unwrap_or(-1)})).unwrap();
                }
                id += 1;
            }
        }
    }
    w.flush().unwrap();
    0
}

// ------------------------------------------------------------------------------------------------
// limits: the decoders at limit-1, limit, limit+1
// ------------------------------------------------------------------------------------------------
fn le8(n: u64) -> J {
    J::Array(n.to_le_bytes().iter().map(|b| json!(*b)).collect())
}
fn classify<T>(r: Result<AvroResult<T>, String>, good: impl FnOnce(&T) -> bool) -> &'static str {
    match r {
        Err(_) => "panic",
        Ok(Ok(v)) => {
            if good(&v) {
                "ok"
            } else {
                "wrong"
            }
        }
        Ok(Err(e)) => {
            if is_limit_error(e.details()) {
                "limit"
            } else {
                "other"
            }
        }
    }
}
fn is_limit_error(d: &Details) -> bool {
    match d {
        Details::MemoryAllocation { .. } => true,
        Details::BigDecimalLen(inner) => is_limit_error(inner.details()),
        _ => false,
    }
}

const SUPPLY_MAX: u64 = 4 * 1024 * 1024;

fn container_header(schema: &str) -> Vec<u8> {
    let mut f = b"Obj\x01".to_vec();
    zigzag_varint(2, &mut f);
    for (k, v) in [("avro.schema", schema), ("avro.codec", "null")] {
        zigzag_varint(k.len() as u64, &mut f);
        f.extend_from_slice(k.as_bytes());
        zigzag_varint(v.len() as u64, &mut f);
        f.extend_from_slice(v.as_bytes());
    }
    zigzag_varint(0, &mut f);
    f.extend_from_slice(&[7u8; 16]);
    f
}
/// one `bytes` datum whose encoding is exactly b bytes long (b >= 1)
fn bytes_datum_of_size(b: u64) -> Vec<u8> {
    for p in 1..=10u64 {
        if b < p {
            break;
        }
        let mut d = Vec::new();
        zigzag_varint(b - p, &mut d);
        if d.len() as u64 == p {
            d.resize(b as usize, 0x62);
            return d;
        }
    }
    panic!("no bytes datum of size {b}")
}

struct Probe {
    kind: &'static str,
    len: u64,     // declared length / decompressed size / block size in bytes (for array, map: count)
    isz: u64,     // array, map: bytes per item as the crate accounts them (size_of), else 1
    supplied: bool,
    out: &'static str,
}

fn probe_datum(schema: &Schema, kind: &'static str, len: u64, isz: u64, per_item: &[u8], terminator: bool) -> Probe {
    let supplied = len <= SUPPLY_MAX;
    let mut d = Vec::new();
    if kind.ends_with("-sized") {
        // the block layout with a negative count and a byte size (spec-legal; the crate's own writer never emits it)
        block_header(len, true, if supplied { len * per_item.len() as u64 } else { 0 }, &mut d);
    } else {
        zigzag_varint(len, &mut d);
    }
    if supplied {
        for _ in 0..len {
            d.extend_from_slice(per_item);
        }
        if terminator && len > 0 {
            d.push(0);
        }
    }
    let out = match kind {
        "deser-string" => {
            let r = guarded(std::panic::AssertUnwindSafe(|| {
                GenericDatumReader::builder(schema).human_readable(false).build().and_then(|r| r.read_deser::<String>(&mut &d[..]))
            }));
            classify(r, |s| s.len() as u64 == len)
        }
        "deser-bytes" => {
            let r = guarded(std::panic::AssertUnwindSafe(|| {
                GenericDatumReader::builder(schema)
                    .human_readable(false)
                    .build()
                    .and_then(|r| r.read_deser::<serde_bytes::ByteBuf>(&mut &d[..]))
            }));
            classify(r, |s| s.len() as u64 == len)
        }
        _ => {
            let r = guarded(std::panic::AssertUnwindSafe(|| {
                GenericDatumReader::builder(schema).human_readable(false).build().and_then(|r| r.read_value(&mut &d[..]))
            }));
            classify(r, |v| match v {
                Value::Bytes(b) => b.len() as u64 == len,
                Value::String(s) => s.len() as u64 == len,
                Value::Array(a) => a.len() as u64 == len,
                Value::Map(m) => (len == 0 && m.is_empty()) || (len > 0 && m.len() == 1),
                _ => false,
            })
        }
    };
    Probe { kind, len, isz, supplied, out }
}

/// a `fixed` of size n: the size comes from the schema, the datum is exactly n bytes
fn probe_fixed(kind: &'static str, n: u64) -> Probe {
    let supplied = n <= SUPPLY_MAX;
    let d: Vec<u8> = if supplied { vec![0x64; n as usize] } else { vec![] };
    // "decimal-fixed": the same fixed carrying a decimal (another decoder arm; precision 1 fits every size >= 1)
    let logical = if kind == "decimal-fixed" && n >= 1 { r#","logicalType":"decimal","precision":1"# } else { "" };
    let schema = match Schema::parse_str(&format!(r#"{{"type":"fixed","name":"f","size":{n}{logical}}}"#)) {
        Ok(s) => s,
        Err(_) => return Probe { kind, len: n, isz: 1, supplied, out: "wrong" },
    };
    let out = if kind == "deser-fixed" {
        let r = guarded(std::panic::AssertUnwindSafe(|| {
            GenericDatumReader::builder(&schema)
                .human_readable(false)
                .build()
                .and_then(|r| r.read_deser::<serde_bytes::ByteBuf>(&mut &d[..]))
        }));
        classify(r, |b| b.len() as u64 == n)
    } else {
        let r = guarded(std::panic::AssertUnwindSafe(|| {
            GenericDatumReader::builder(&schema).human_readable(false).build().and_then(|r| r.read_value(&mut &d[..]))
        }));
        classify(r, |v| match v {
            Value::Fixed(sz, b) => *sz as u64 == n && b.len() as u64 == n,
            Value::Decimal(d) => <Vec<u8>>::try_from(d.clone()).map(|b| b.len() as u64 == n).unwrap_or(false),
            _ => false,
        })
    };
    Probe { kind, len: n, isz: 1, supplied, out }
}

/// the schema-aware deserializer bounds the declared block COUNT of arrays and maps by the limit (items may be
/// zero bytes wide): array<null> -> Vec<()>, array<int> -> Vec<i32>, map<int> -> HashMap<String, i32>
fn probe_deser_coll(kind: &'static str, count: u64) -> Probe {
    let sized = kind.ends_with("-sized");
    let kind_full = kind;
    let kind = kind.trim_end_matches("-sized");
    let supplied = kind == "deser-array-null" || count <= SUPPLY_MAX;
    let per: &[u8] = match kind {
        "deser-array-null" => &[],
        "deser-array" => &[0],
        _ => &[0, 0],
    };
    let mut d = Vec::new();
    block_header(count, sized, if supplied { count * per.len() as u64 } else { 0 }, &mut d);
    if supplied {
        for _ in 0..count {
            d.extend_from_slice(per);
        }
        if count > 0 {
            d.push(0);
        }
    }
    let out = match kind {
        "deser-array-null" => {
            let schema = Schema::array(Schema::Null).build();
            let r = guarded(std::panic::AssertUnwindSafe(|| {
                GenericDatumReader::builder(&schema).human_readable(false).build().and_then(|r| r.read_deser::<Vec<()>>(&mut &d[..]))
            }));
            classify(r, |v| v.len() as u64 == count)
        }
        "deser-array" => {
            let schema = Schema::array(Schema::Int).build();
            let r = guarded(std::panic::AssertUnwindSafe(|| {
                GenericDatumReader::builder(&schema).human_readable(false).build().and_then(|r| r.read_deser::<Vec<i32>>(&mut &d[..]))
            }));
            classify(r, |v| v.len() as u64 == count)
        }
        _ => {
            let schema = Schema::map(Schema::Int).build();
            let r = guarded(std::panic::AssertUnwindSafe(|| {
                GenericDatumReader::builder(&schema)
                    .human_readable(false)
                    .build()
                    .and_then(|r| r.read_deser::<std::collections::HashMap<String, i32>>(&mut &d[..]))
            }));
            classify(r, |m| (count == 0 && m.is_empty()) || (count > 0 && m.len() == 1))
        }
    };
    Probe { kind: kind_full, len: count, isz: 1, supplied, out }
}

fn probe_block(b: u64) -> Probe {
    let supplied = b <= SUPPLY_MAX;
    let (schema, datum) = if b == 0 { ("\"null\"", vec![]) } else { ("\"bytes\"", if supplied { bytes_datum_of_size(b) } else { vec![] }) };
    let mut f = container_header(schema);
    zigzag_varint(1, &mut f);
    zigzag_varint(b, &mut f);
    if supplied {
        f.extend_from_slice(&datum);
        f.extend_from_slice(&[7u8; 16]);
    }
    let r = guarded(std::panic::AssertUnwindSafe(|| -> AvroResult<Option<Value>> {
        let mut rd = Reader::new(&f[..])?;
        match rd.next() {
            Some(Ok(v)) => Ok(Some(v)),
            Some(Err(e)) => Err(e),
            None => Ok(None),
        }
    }));
    // the one item of the block comes back with the length that was put in
    let want: Option<usize> = if b == 0 || !supplied {
        None
    } else {
        let mut pfx = Vec::new();
        for p in 1..=10u64 {
            pfx.clear();
            zigzag_varint(b - p.min(b), &mut pfx);
            if pfx.len() as u64 == p {
                break;
            }
        }
        Some(datum.len() - pfx.len())
    };
    let out = classify(r, |v| match v {
        Some(Value::Null) => b == 0,
        Some(Value::Bytes(x)) => Some(x.len()) == want,
        _ => false,
    });
    Probe { kind: "block", len: b, isz: 1, supplied, out }
}

fn probe_codec(kind: &'static str, codec: Codec, d: u64) -> Probe {
    let mut v = vec![0x63u8; d as usize];
    let r = guarded(std::panic::AssertUnwindSafe(|| -> AvroResult<Vec<u8>> {
        codec.compress(&mut v)?;
        codec.decompress(&mut v)?;
        Ok(v)
    }));
    let out = classify(r, |v| v.len() as u64 == d && v.iter().all(|b| *b == 0x63));
    Probe { kind, len: d, isz: 1, supplied: true, out }
}
/// snappy block whose header DECLARES an uncompressed length, without the data (the cap is applied to the declaration)
fn probe_snappy_declared(d: u64) -> Probe {
    let mut v = Vec::new();
    let mut z = d;
    loop {
        if z <= 0x7f {
            v.push(z as u8);
            break;
        }
        v.push(0x80 | (z & 0x7f) as u8);
        z >>= 7;
    }
    v.extend_from_slice(&[0, 0, 0, 0]);
    let r = guarded(std::panic::AssertUnwindSafe(|| -> AvroResult<Vec<u8>> {
        Codec::Snappy.decompress(&mut v)?;
        Ok(v)
    }));
    let out = classify(r, |_| true);
    Probe { kind: "snappy-declared", len: d, isz: 1, supplied: false, out }
}

fn cmd_limit1(limit: u64, mode: &str, big: bool) -> i32 {
    std::thread::spawn(|| {
        std::thread::sleep(Duration::from_secs(120));
        std::process::exit(3);
    });
    let mut events: Vec<J> = Vec::new();
    if mode == "usefirst" {
        // a decode before the setter: the documented default is installed by the first use
        let p = probe_datum(&Schema::Bytes, "bytes", 3, 1, &[0x61], false);
        events.push(json!({"ev":"firstuse","out":p.out}));
    }
    let reported = max_allocation_bytes(limit as usize) as u64;
    let again = max_allocation_bytes(12_345) as u64;
    events.push(json!({"ev":"setlimit","mode":mode,"asked":le8(limit),"reported":le8(reported),"again":le8(again)}));
    // the limit the probes are placed around: the value that must be in force by the contract
    let l: u64 = if mode == "usefirst" { apache_avro::util::DEFAULT_MAX_ALLOCATION_BYTES as u64 } else { limit };
    let vsz = std::mem::size_of::<Value>() as u64;
    let msz = std::mem::size_of::<(String, Value)>() as u64;
    let mut lens: Vec<u64> = Vec::new();
    if l > 0 {
        lens.push(l - 1);
    }
    lens.push(l);
    if l < u64::MAX {
        lens.push(l + 1);
    }
    let huge = l > SUPPLY_MAX;
    let mut probes: Vec<Probe> = Vec::new();
    if l == u64::MAX {
        // accept side only: real data at 1 MiB, and a declared length above the DEFAULT limit without data
        // (shows that the configured value, not the default, is consulted; allocation is lazily zeroed memory)
        let above_default = apache_avro::util::DEFAULT_MAX_ALLOCATION_BYTES as u64 + 1;
        for len in [1u64 << 20, above_default] {
            probes.push(probe_datum(&Schema::Bytes, "bytes", len, 1, &[0x61], false));
            probes.push(probe_datum(&Schema::String, "string", len, 1, &[0x61], false));
        }
        for len in [1u64 << 20, above_default] {
            probes.push(probe_fixed("fixed", len));
            probes.push(probe_fixed("deser-fixed", len));
            probes.push(probe_deser_coll("deser-array", len));
            probes.push(probe_deser_coll("deser-map", len));
        }
        probes.push(probe_deser_coll("deser-array-null", 1 << 20));
        probes.push(probe_datum(&Schema::array(Schema::Int).build(), "array", (1 << 20) / vsz, vsz, &[0], true));
        probes.push(probe_block(1 << 20));
        probes.push(probe_codec("deflate", Codec::Deflate(Default::default()), 1 << 20));
        probes.push(probe_snappy_declared(above_default));
    } else {
        for &len in &lens {
            probes.push(probe_datum(&Schema::Bytes, "bytes", len, 1, &[0x61], false));
            probes.push(probe_datum(&Schema::String, "string", len, 1, &[0x61], false));
            probes.push(probe_datum(&Schema::String, "deser-string", len, 1, &[0x61], false));
            probes.push(probe_datum(&Schema::Bytes, "deser-bytes", len, 1, &[0x61], false));
            probes.push(probe_snappy_declared(len));
            probes.push(probe_fixed("fixed", len));
            probes.push(probe_fixed("decimal-fixed", len));
            probes.push(probe_fixed("deser-fixed", len));
            probes.push(probe_deser_coll("deser-array", len));
            probes.push(probe_deser_coll("deser-map", len));
            probes.push(probe_deser_coll("deser-array-sized", len));
            probes.push(probe_deser_coll("deser-map-sized", len));
            if !huge {
                // count iterations of a zero-width item: only where the count is small enough to iterate
                probes.push(probe_deser_coll("deser-array-null", len));
                probes.push(probe_deser_coll("deser-array-null-sized", len));
            }
            // a container header declares lengths ("avro.schema" is 11 bytes, two map entries) above tiny limits
            if (!huge || big) && l >= 4096 {
                probes.push(probe_block(len));
            }
            if !huge {
                probes.push(probe_codec("deflate", Codec::Deflate(Default::default()), len));
                probes.push(probe_codec("snappy", Codec::Snappy, len));
                probes.push(probe_codec("zstandard", Codec::Zstandard(Default::default()), len));
                probes.push(probe_codec("bzip2", Codec::Bzip2(Default::default()), len));
                probes.push(probe_codec("xz", Codec::Xz(apache_avro::XzSettings::new(1)), len));
            }
        }
        // collections: counts whose accounted size (count * bytes-per-item) straddles the limit,
        // and the count equal to the limit itself (+1)
        for (kind, schema, isz, item) in [
            ("array", Schema::array(Schema::Int).build(), vsz, &[0u8][..]),
            ("map", Schema::map(Schema::Int).build(), msz, &[0u8, 0u8][..]),
        ] {
            let n = l / isz;
            let mut counts = vec![n, n + 1];
            if n > 0 {
                counts.push(n - 1);
            }
            if !huge {
                counts.push(l);
                counts.push(l + 1);
            }
            counts.sort();
            counts.dedup();
            for c in counts {
                // beyond the supply bound the items are not supplied (the first missing item ends the read)
                probes.push(probe_datum(&schema, kind, c, isz, item, true));
                probes.push(probe_datum(&schema, if kind == "array" { "array-sized" } else { "map-sized" }, c, isz, item, true));
            }
        }
    }
    for p in probes {
        events.push(json!({"ev":"probe","mode":mode,"asked":le8(limit),"kind":p.kind,"len":le8(p.len),"isz":p.isz,
                           "supplied":p.supplied,"out":p.out}));
    }
    let out = std::io::stdout();
    let mut out = out.lock();
    for e in events {
        writeln!(out, "{e}").unwrap();
    }
    0
}

fn cmd_limits(out: &str, big: bool) -> i32 {
    let mut w = open_out(out);
    let mut id = 0usize;
    // "coll": a limit that is a multiple of both collection item sizes, so that count * size == limit exactly is probed
    let limits: [(&str, u64); 7] = [
        ("coll", 0),
        ("0", 0),
        ("1", 1),
        ("4096", 4096),
        ("1048576", 1 << 20),
        ("536870912", 512 << 20),
        ("max", u64::MAX),
    ];
    for (name, _) in limits {
        for mode in ["setfirst", "usefirst"] {
            if mode == "usefirst" && !(name == "4096" || name == "max") {
                continue;
            }
            let mut args: Vec<String> = vec!["limit1".into(), "--limit".into(), name.into(), "--mode".into(), mode.into()];
            if big {
                args.push("--big".into());
            }
            let (code, text) = run_child(&args, Duration::from_secs(150));
            if code == Some(0) {
                for l in text.lines().filter(|l| !l.trim().is_empty()) {
                    let mut j: J = serde_json::from_str(l).expect("limit event json");
                    j["id"] = json!(id);
                    writeln!(w, "{j}").unwrap();
                    id += 1;
                }
            } else {
                writeln!(w, "{}", json!({"ev":"childcrash","id":id,"code":code.unwrap_or(-1)})).unwrap();
                id += 1;
            }
        }
    }
    w.flush().unwrap();
    0
}

fn main() {
    quiet_panics();
    let args = parse_args();
    let rc = match args.cmd.as_str() {
        "gen" => cmd_gen(args.u64("seed", 1), args.usize("count", 100), args.usize("max-threads", 8), args.usize("max-ops", 4), args.req("out")),
        "trials" => cmd_trials(args.req("progs"), args.req("out"), args.usize("reps", 1), args.usize("jobs", 1)),
        "trial" => cmd_trial(&serde_json::from_str(args.req("prog")).expect("prog json")),
        "touch" => cmd_touch(args.req("out")),
        "touch1" => cmd_touch1(&serde_json::from_str(args.req("prog")).expect("prog json")),
        "limits" => cmd_limits(args.req("out"), args.get("big").is_some()),
        "limit1" => {
            let l = args.req("limit");
            let limit = if l == "max" {
                u64::MAX
            } else if l == "coll" {
                (std::mem::size_of::<Value>() * std::mem::size_of::<(String, Value)>()) as u64
            } else {
                l.parse().expect("limit")
            };
            cmd_limit1(limit, args.get("mode").unwrap_or("setfirst"), args.get("big").is_some())
        }
        other => {
            eprintln!("unknown command {other:?}");
            2
        }
    };
    std::process::exit(rc);
}
