//! avh_c11 — schema-parser executions for C11 (total parser; accepts exactly well-formed schemas).
//!
//! The harness only executes and records.  For every scenario it renders the JSON tree (or takes
//! the raw text / bytes), runs `Schema::parse_str`, `Schema::parse` and `Schema::parse_reader`
//! and — on an accepted schema — the post-operations, each under `catch_unwind`, all inside a worker
//! thread watched by a watchdog; scenarios run in a child process so that a hang or an abort
//! (stack overflow, allocation failure) can be attributed to one scenario.
//! The event carries the tree *re-scanned from the text that was actually given to the parser*;
//! spec/Trace_SchemaWF.tla evaluates WellFormed on it and judges.
//!
//!   avh_c11 run   --scn F --out E [--timeout-ms 10000]
//!   avh_c11 child --scn F --from I --out E [--timeout-ms ..]
//!   avh_c11 gen   --seed S --count N --out F          seeded extra inputs
//!   avh_c11 probe                                     texts on stdin (one per line) -> outcomes on stdout

use apache_avro::Schema;
use apache_avro::rabin::Rabin;
use apache_avro::schema::{InnerDecimalSchema, ResolvedSchema, UuidSchema};
use avro_verif_harness::generate::Rng;
use avro_verif_harness::term::{bytes_j, j_bytes};
use avro_verif_harness::{Args, jsontree, open_out, parse_args, quiet_panics, read_lines};
use serde_json::{Value as J, json};
use std::io::Write;
use std::panic::{AssertUnwindSafe, catch_unwind};
use std::sync::mpsc;
use std::time::Duration;

const PARSE_OPS: [&str; 3] = ["parse_str", "parse_value", "parse_reader"];
const POST_OPS: [&str; 9] = [
    "walk",
    "canonical_form",
    "fingerprint_rabin",
    "fingerprint_md5",
    "fingerprint_sum",
    "to_string",
    "resolved_new",
    "resolved_try_from",
    "debug",
];

// ---------------------------------------------------------------------------------------------
// a trivial digest (the fingerprint API is generic over `Digest`)
// ---------------------------------------------------------------------------------------------
mod sumdigest {
    use digest::{FixedOutput, HashMarker, Output, OutputSizeUser, Update, typenum::U8};
    #[derive(Default, Clone)]
    pub struct Sum8 {
        acc: u64,
        n: u64,
    }
    impl HashMarker for Sum8 {}
    impl OutputSizeUser for Sum8 {
        type OutputSize = U8;
    }
    impl Update for Sum8 {
        fn update(&mut self, data: &[u8]) {
            for b in data {
                self.acc = self.acc.rotate_left(5) ^ (*b as u64);
                self.n += 1;
            }
        }
    }
    impl FixedOutput for Sum8 {
        fn finalize_into(self, out: &mut Output<Self>) {
            out.copy_from_slice(&(self.acc ^ self.n).to_le_bytes());
        }
    }
}

// ---------------------------------------------------------------------------------------------
// trees for the event: num nodes get their source characters, strings outside plain ASCII get an
// injective ASCII atom (the code units `u` carry the content)
// ---------------------------------------------------------------------------------------------
fn atom(s: &str) -> String {
    if s.bytes().all(|b| (0x20..0x7f).contains(&b) && b != b'"' && b != b'\\' && b != b'#') {
        s.to_string()
    } else {
        let mut o = String::from("#");
        for b in s.bytes() {
            o.push_str(&format!("{b:02x}"));
        }
        o
    }
}

fn event_tree(t: &J) -> J {
    match t["j"].as_str().unwrap_or("?") {
        "obj" => {
            let kv: Vec<J> = t["kv"]
                .as_array()
                .unwrap()
                .iter()
                .map(|p| json!([atom(p[0].as_str().unwrap()), event_tree(&p[1])]))
                .collect();
            json!({"j":"obj","kv":kv})
        }
        "arr" => json!({"j":"arr","items":t["items"].as_array().unwrap().iter().map(event_tree).collect::<Vec<_>>()}),
        "str" => {
            let s = t["s"].as_str().unwrap();
            json!({"j":"str","s":atom(s),"u":bytes_j(s.as_bytes())})
        }
        "num" => {
            let s = t["text"].as_str().unwrap();
            json!({"j":"num","text":s,"u":bytes_j(s.as_bytes())})
        }
        _ => t.clone(),
    }
}

/// like jsontree::render, but string content comes from the code units `u` when present
/// (TLC-made trees carry an ASCII atom in `s` for strings outside plain ASCII)
fn render_u(t: &J) -> String {
    match t["j"].as_str().unwrap_or("?") {
        "obj" => {
            let parts: Vec<String> = t["kv"].as_array().unwrap().iter()
                .map(|p| format!("{}:{}", serde_json::to_string(p[0].as_str().unwrap()).unwrap(), render_u(&p[1])))
                .collect();
            format!("{{{}}}", parts.join(","))
        }
        "arr" => format!("[{}]", t["items"].as_array().unwrap().iter().map(render_u).collect::<Vec<_>>().join(",")),
        "str" if t.get("u").is_some() => {
            let s = String::from_utf8(j_bytes(&t["u"])).expect("utf-8 code units");
            serde_json::to_string(&s).unwrap()
        }
        _ => jsontree::render(t),
    }
}

fn tree_size(t: &J) -> usize {
    match t["j"].as_str().unwrap_or("?") {
        "obj" => 1 + t["kv"].as_array().unwrap().iter().map(|p| tree_size(&p[1])).sum::<usize>(),
        "arr" => 1 + t["items"].as_array().unwrap().iter().map(tree_size).sum::<usize>(),
        _ => 1,
    }
}
fn tree_depth(t: &J) -> usize {
    match t["j"].as_str().unwrap_or("?") {
        "obj" => 1 + t["kv"].as_array().unwrap().iter().map(|p| tree_depth(&p[1])).max().unwrap_or(0),
        "arr" => 1 + t["items"].as_array().unwrap().iter().map(tree_depth).max().unwrap_or(0),
        _ => 1,
    }
}

// ---------------------------------------------------------------------------------------------
// the worker: everything that touches the crate, reporting after each operation
// ---------------------------------------------------------------------------------------------
enum Msg {
    Op(&'static str, String, String), // op, outcome, detail (error kind / panic message)
    Names(Vec<String>, Vec<String>),
    Same(bool),
    Done,
}

fn panic_text(e: Box<dyn std::any::Any + Send>) -> String {
    let m = if let Some(s) = e.downcast_ref::<&str>() {
        s.to_string()
    } else if let Some(s) = e.downcast_ref::<String>() {
        s.clone()
    } else {
        "panic".to_string()
    };
    first_words(&m, 5)
}

/// first words of a message, digits-only words dropped (they are data, not the rule)
fn first_words(d: &str, n: usize) -> String {
    let words: Vec<String> = d
        .split(|c: char| !c.is_ascii_alphanumeric())
        .filter(|w| !w.is_empty() && !w.bytes().all(|b| b.is_ascii_digit()))
        .take(n)
        .map(|w| w.to_ascii_lowercase())
        .collect();
    let mut k = words.join("-");
    k.truncate(60);
    k
}

fn err_kind(e: &apache_avro::Error) -> String {
    // Details has no variant names in its Debug output: the first words of the message name the rule applied
    first_words(&format!("{:?}", e.details()), 4)
}

fn walk(s: &Schema, names: &mut Vec<String>, refs: &mut Vec<String>, n: &mut usize) {
    *n += 1;
    match s {
        Schema::Array(a) => walk(&a.items, names, refs, n),
        Schema::Map(m) => walk(&m.types, names, refs, n),
        Schema::Union(u) => {
            for v in u.variants() {
                walk(v, names, refs, n)
            }
        }
        Schema::Record(r) => {
            names.push(r.name.fullname(None));
            for f in &r.fields {
                let _ = (&f.name, &f.doc, &f.default, &f.aliases, f.custom_attributes.len());
                walk(&f.schema, names, refs, n);
            }
            let _ = r.lookup.len();
        }
        Schema::Enum(e) => {
            names.push(e.name.fullname(None));
            let _ = (e.symbols.len(), &e.default);
        }
        Schema::Fixed(f) | Schema::Duration(f) => names.push(f.name.fullname(None)),
        Schema::Decimal(d) => {
            if let InnerDecimalSchema::Fixed(f) = &d.inner {
                names.push(f.name.fullname(None))
            }
        }
        Schema::Uuid(UuidSchema::Fixed(f)) => names.push(f.name.fullname(None)),
        Schema::Ref { name } => refs.push(name.fullname(None)),
        _ => {}
    }
}

fn worker(bytes: Vec<u8>, tx: mpsc::Sender<Msg>) {
    let text: Option<String> = String::from_utf8(bytes.clone()).ok();
    let mut accepted: Vec<Schema> = vec![];
    let report = |op: &'static str, r: std::thread::Result<Result<Schema, apache_avro::Error>>, acc: &mut Vec<Schema>| {
        match r {
            Ok(Ok(s)) => {
                acc.push(s);
                let _ = tx.send(Msg::Op(op, "ok".into(), String::new()));
            }
            Ok(Err(e)) => {
                let _ = tx.send(Msg::Op(op, "err".into(), err_kind(&e)));
            }
            Err(p) => {
                let _ = tx.send(Msg::Op(op, "panic".into(), panic_text(p)));
            }
        }
    };
    // parse_str
    match &text {
        Some(t) => report("parse_str", catch_unwind(AssertUnwindSafe(|| Schema::parse_str(t))), &mut accepted),
        None => {
            let _ = tx.send(Msg::Op("parse_str", "skip".into(), "not-utf8".into()));
        }
    }
    // parse(&Value)
    match text.as_deref().map(serde_json::from_str::<serde_json::Value>) {
        Some(Ok(v)) => report("parse_value", catch_unwind(AssertUnwindSafe(|| Schema::parse(&v))), &mut accepted),
        _ => {
            let _ = tx.send(Msg::Op("parse_value", "skip".into(), "not-json".into()));
        }
    }
    // parse_reader
    report(
        "parse_reader",
        catch_unwind(AssertUnwindSafe(|| {
            let mut rd: &[u8] = &bytes;
            Schema::parse_reader(&mut rd)
        })),
        &mut accepted,
    );
    let same = accepted.windows(2).all(|w| catch_unwind(AssertUnwindSafe(|| w[0] == w[1])).unwrap_or(false));
    let _ = tx.send(Msg::Same(same));
    if let Some(s) = accepted.first() {
        let post = |op: &'static str, f: &dyn Fn() -> Result<(), String>| {
            let m = match catch_unwind(AssertUnwindSafe(f)) {
                Ok(Ok(())) => Msg::Op(op, "ok".into(), String::new()),
                Ok(Err(k)) => Msg::Op(op, "err".into(), k),
                Err(p) => Msg::Op(op, "panic".into(), panic_text(p)),
            };
            let _ = tx.send(m);
        };
        post("walk", &|| {
            let (mut names, mut refs, mut n) = (vec![], vec![], 0usize);
            walk(s, &mut names, &mut refs, &mut n);
            let _ = tx.send(Msg::Names(names, refs));
            Ok(())
        });
        post("canonical_form", &|| {
            let c = s.canonical_form();
            std::hint::black_box(c.len());
            Ok(())
        });
        post("fingerprint_rabin", &|| {
            let f = s.fingerprint::<Rabin>();
            std::hint::black_box(f.bytes.len());
            Ok(())
        });
        post("fingerprint_md5", &|| {
            let f = s.fingerprint::<md5::Md5>();
            std::hint::black_box(f.bytes.len());
            Ok(())
        });
        post("fingerprint_sum", &|| {
            let f = s.fingerprint::<sumdigest::Sum8>();
            std::hint::black_box(f.bytes.len());
            Ok(())
        });
        post("to_string", &|| serde_json::to_string(s).map(|_| ()).map_err(|_| "serde".to_string()));
        post("resolved_new", &|| ResolvedSchema::new(s).map(|_| ()).map_err(|e| err_kind(&e)));
        post("resolved_try_from", &|| ResolvedSchema::try_from(s).map(|_| ()).map_err(|e| err_kind(&e)));
        post("debug", &|| {
            let d = format!("{s:?}");
            std::hint::black_box(d.len());
            Ok(())
        });
    }
    let _ = tx.send(Msg::Done);
}

/// Runs one input; returns (event fields, hung?)
fn observe(bytes: &[u8], timeout: Duration) -> (J, bool) {
    let (tx, rx) = mpsc::channel();
    let b = bytes.to_vec();
    let h = std::thread::Builder::new()
        .name("c11-worker".into())
        .stack_size(8 << 20)
        .spawn(move || worker(b, tx))
        .expect("spawn worker");
    let mut ops: Vec<(String, String, String)> = vec![];
    let (mut names, mut refs): (Vec<String>, Vec<String>) = (vec![], vec![]);
    let mut same = true;
    let mut hung = false;
    loop {
        match rx.recv_timeout(timeout) {
            Ok(Msg::Op(op, out, d)) => ops.push((op.to_string(), out, d)),
            Ok(Msg::Names(n, r)) => {
                names = n;
                refs = r;
            }
            Ok(Msg::Same(s)) => same = s,
            Ok(Msg::Done) => break,
            Err(mpsc::RecvTimeoutError::Timeout) => {
                hung = true;
                break;
            }
            Err(mpsc::RecvTimeoutError::Disconnected) => break, // worker died without Done: recorded as missing ops
        }
    }
    if !hung {
        let _ = h.join();
    }
    // fixed key set: every op present; the first op without a report is the one that hung (or died)
    let accepted = ops.iter().any(|(o, r, _)| PARSE_OPS.contains(&o.as_str()) && r == "ok");
    let mut blame_given = false;
    let mut get = |name: &str, applicable: bool| -> J {
        if let Some((_, out, d)) = ops.iter().find(|(o, _, _)| o == name) {
            return json!({"out": out, "kind": d.chars().take(120).collect::<String>()});
        }
        if !applicable {
            return json!({"out":"skip","kind":"not-accepted"});
        }
        if !blame_given {
            blame_given = true;
            json!({"out": if hung {"hang"} else {"died"}, "kind": ""})
        } else {
            json!({"out":"skip","kind":"after-hang"})
        }
    };
    let mut parse = serde_json::Map::new();
    for op in PARSE_OPS {
        parse.insert(op.to_string(), get(op, true));
    }
    let mut post = vec![];
    for op in POST_OPS {
        let mut o = get(op, accepted);
        o["op"] = J::from(op);
        post.push(o);
    }
    names.truncate(64);
    refs.truncate(64);
    let ev = json!({
        "parse": parse, "post": post, "same": same,
        "names": names.iter().map(|s| bytes_j(s.as_bytes())).collect::<Vec<_>>(),
        "refs": refs.iter().map(|s| bytes_j(s.as_bytes())).collect::<Vec<_>>(),
    });
    (ev, hung)
}

// ---------------------------------------------------------------------------------------------
// scenarios
// ---------------------------------------------------------------------------------------------
/// scenario -> the bytes handed to the parser
fn scenario_bytes(scn: &J) -> Vec<u8> {
    if let Some(t) = scn.get("tree") {
        render_u(t).into_bytes()
    } else if let Some(t) = scn.get("text").and_then(|t| t.as_str()) {
        t.as_bytes().to_vec()
    } else {
        j_bytes(&scn["bytes"])
    }
}

const MAX_TREE_NODES: usize = 4000;
const MAX_TREE_DEPTH: usize = 60;

fn event_for(id: usize, scn: &J, bytes: &[u8], obs: J) -> J {
    // the tree TLC judges is re-scanned from the very text the parser saw
    let scanned = std::str::from_utf8(bytes).ok().and_then(|t| jsontree::scan(t).ok());
    // documents too large/deep for the recursive TLA+ walk are judged for totality only
    let (json_, tree) = match scanned {
        Some(t) if tree_size(&t) <= MAX_TREE_NODES && tree_depth(&t) <= MAX_TREE_DEPTH => (true, event_tree(&t)),
        _ => (false, json!({"j":"null"})),
    };
    let mut ev = obs;
    ev["ev"] = J::from("c11");
    ev["id"] = J::from(id as u64);
    ev["src"] = scn.get("src").cloned().unwrap_or(J::from("mc"));
    ev["json"] = J::from(json_);
    ev["tree"] = tree;
    ev["pred"] = scn.get("pred").cloned().unwrap_or(J::from("none"));
    ev["prule"] = scn.get("prule").cloned().unwrap_or(json!([]));
    ev["len"] = J::from(bytes.len().min(1 << 30) as u64);
    ev
}

fn aborted_event(id: usize, scn: &J, bytes: &[u8], how: &str) -> J {
    let mut parse = serde_json::Map::new();
    for (i, op) in PARSE_OPS.iter().enumerate() {
        parse.insert(op.to_string(), json!({"out": if i == 0 { how } else { "skip" }, "kind": "process"}));
    }
    let post: Vec<J> = POST_OPS.iter().map(|op| json!({"op": op, "out": "skip", "kind": "process"})).collect();
    event_for(id, scn, bytes, json!({"parse": parse, "post": post, "same": true, "names": [], "refs": []}))
}

fn cmd_child(args: &Args) -> i32 {
    let scns = read_lines(args.req("scn"));
    let from = args.usize("from", 0);
    let timeout = Duration::from_millis(args.u64("timeout-ms", 10_000));
    let mut out = std::fs::OpenOptions::new().append(true).create(true).open(args.req("out")).expect("open out");
    for (i, line) in scns.iter().enumerate().skip(from) {
        let scn: J = serde_json::from_str(line).expect("scenario json");
        let bytes = scenario_bytes(&scn);
        let (obs, hung) = observe(&bytes, timeout);
        let ev = event_for(i, &scn, &bytes, obs);
        writeln!(out, "{ev}").unwrap();
        out.flush().unwrap();
        if hung {
            return 3; // the hung worker thread cannot be cancelled: fresh process for the rest
        }
    }
    0
}

fn cmd_run(args: &Args) -> i32 {
    let scn_path = args.req("scn").to_string();
    let out_path = args.req("out").to_string();
    let scns = read_lines(&scn_path);
    let _ = std::fs::remove_file(&out_path);
    std::fs::File::create(&out_path).expect("create out");
    let exe = std::env::current_exe().expect("exe");
    let mut next = 0usize;
    let mut restarts = 0usize;
    while next < scns.len() {
        let st = std::process::Command::new(&exe)
            .args(["child", "--scn", &scn_path, "--from", &next.to_string(), "--out", &out_path])
            .args(["--timeout-ms", &args.u64("timeout-ms", 10_000).to_string()])
            .status()
            .expect("spawn child");
        let done = read_lines(&out_path).len();
        if done >= scns.len() {
            break;
        }
        if st.code() == Some(3) || st.code() == Some(0) {
            if done == next {
                eprintln!("child made no progress at {next}");
                return 2;
            }
            next = done;
        } else {
            // the child died (abort / stack overflow / kill) while working on scenario `done`
            let scn: J = serde_json::from_str(&scns[done]).expect("scenario json");
            let bytes = scenario_bytes(&scn);
            let ev = aborted_event(done, &scn, &bytes, "abort");
            let mut f = std::fs::OpenOptions::new().append(true).open(&out_path).unwrap();
            writeln!(f, "{ev}").unwrap();
            next = done + 1;
        }
        restarts += 1;
        if restarts > 200 {
            eprintln!("too many child restarts");
            return 2;
        }
    }
    0
}

// ---------------------------------------------------------------------------------------------
// seeded extra inputs: raw bytes, arbitrary JSON, near-schemas, deep nestings
// ---------------------------------------------------------------------------------------------
// (the Avro name grammar is ASCII-only: letters of other scripts and non-ASCII digits are not name characters)
const NAMES: [&str; 20] = ["A", "B", "R", "ns.A", "ns.B", "x.y.Z", "a_1", "_", "int", "1x", "a-b", "", ".A", "ns..A",
                           "Stra\u{df}e", "\u{3c0}", "gr\u{f6}\u{df}e.A", "ns.\u{dc}nit", "a.b\u{663}.C", "A\u{301}"];
const PRIMS: [&str; 8] = ["null", "boolean", "int", "long", "float", "double", "bytes", "string"];
const LOGICALS: [&str; 8] = ["date", "decimal", "uuid", "duration", "time-millis", "timestamp-micros", "big-decimal", "bogus"];

fn rand_json(r: &mut Rng, depth: usize) -> J {
    let k = if depth == 0 { r.below(6) } else { r.below(8) };
    match k {
        0 => J::Null,
        1 => J::Bool(r.chance(1, 2)),
        2 => match r.below(6) {
            0 => json!(0),
            1 => json!(-1),
            2 => json!(2147483648u64),
            3 => json!(1.5),
            4 => json!(u64::MAX),
            _ => json!(r.below(100)),
        },
        3 | 4 => J::from(match r.below(8) {
            0 => r.pick(&PRIMS).to_string(),
            1 => r.pick(&NAMES).to_string(),
            2 => "record".into(),
            3 => "\u{e9}\u{ff}".into(),
            4 => "\u{100}\"\\\n".into(),
            5 => "A".into(),
            6 => "ascending".into(),
            _ => String::new(),
        }),
        5 => json!([]),
        6 => J::Array((0..r.below(4)).map(|_| rand_json(r, depth - 1)).collect()),
        _ => {
            let mut m = serde_json::Map::new();
            for _ in 0..r.below(5) {
                let key = *r.pick(&["type", "name", "fields", "symbols", "items", "values", "size", "default", "namespace", "aliases", "doc", "order", "logicalType", "x"]);
                m.insert(key.to_string(), rand_json(r, depth - 1));
            }
            J::Object(m)
        }
    }
}

/// a schema-shaped JSON document with (usually few) faults; names from a small pool so that duplicates,
/// dangling and forward references occur
fn near_schema(r: &mut Rng, depth: usize, fault: usize) -> J {
    let mut s = near_schema0(r, depth, fault);
    // stray attribute whose key means something elsewhere (kept as a custom attribute when the schema is accepted)
    if let Some(o) = s.as_object_mut() {
        if r.chance(1, 8) {
            let k = *r.pick(&["items", "values", "symbols", "size", "precision", "scale", "order", "fields", "default", "namespace", "doc", "x"]);
            if !o.contains_key(k) {
                let v = rand_json(r, 1);
                o.insert(k.to_string(), v);
            }
        }
    }
    s
}

fn near_schema0(r: &mut Rng, depth: usize, fault: usize) -> J {
    if r.below(1000) < fault {
        return rand_json(r, 2);
    }
    let leaf = depth == 0;
    match if leaf { r.below(3) } else { r.below(10) } {
        0 => J::from(*r.pick(&PRIMS)),
        1 => J::from(*r.pick(&NAMES)),
        2 => {
            let mut o = json!({"type": *r.pick(&PRIMS)});
            if r.chance(1, 2) {
                o["logicalType"] = J::from(*r.pick(&LOGICALS));
                if r.chance(1, 2) {
                    o["precision"] = json!(r.below(6));
                    o["scale"] = json!(r.below(6));
                }
            }
            o
        }
        3 => json!({"type":"array","items": near_schema(r, depth - 1, fault)}),
        4 => json!({"type":"map","values": near_schema(r, depth - 1, fault)}),
        5 => J::Array((0..r.below(4)).map(|_| near_schema(r, depth - 1, fault)).collect()),
        6 => {
            let mut o = json!({"type":"fixed","name": *r.pick(&NAMES), "size": r.below(5)});
            if r.chance(1, 4) {
                o["namespace"] = J::from(*r.pick(&["ns", "", "x.y", "9"]));
            }
            if r.chance(1, 5) {
                o["logicalType"] = J::from(*r.pick(&LOGICALS));
            }
            o
        }
        7 => {
            let syms: Vec<J> = (0..r.below(4)).map(|_| J::from(*r.pick(&["A", "B", "C", "a1", "1a"]))).collect();
            let mut o = json!({"type":"enum","name": *r.pick(&NAMES), "symbols": syms});
            if r.chance(1, 3) {
                o["default"] = J::from(*r.pick(&["A", "B", "Z"]));
            }
            o
        }
        _ => {
            let fields: Vec<J> = (0..r.below(4))
                .map(|_| {
                    let mut f = json!({"name": *r.pick(&["a", "b", "c", "a1", "1a"]), "type": near_schema(r, depth - 1, fault)});
                    if r.chance(1, 2) {
                        f["default"] = match r.below(8) {
                            0 => J::Null,
                            1 => json!(0),
                            2 => json!("A"),
                            3 => json!([]),
                            4 => json!({}),
                            5 => json!("\u{e9}\u{ff}"),
                            6 => json!(1.5),
                            _ => rand_json(r, 1),
                        };
                    }
                    if r.chance(1, 6) {
                        f["order"] = J::from(*r.pick(&["ascending", "descending", "ignore", "sideways"]));
                    }
                    f
                })
                .collect();
            let mut o = json!({"type":"record","name": *r.pick(&NAMES), "fields": fields});
            if r.chance(1, 4) {
                o["namespace"] = J::from(*r.pick(&["ns", "", "x.y", "9"]));
            }
            if r.chance(1, 6) {
                o["aliases"] = json!([*r.pick(&NAMES)]);
            }
            o
        }
    }
}

fn nest(kind: usize, depth: usize) -> String {
    let (open, close, core) = match kind {
        0 => ("[", "]", "\"int\""),
        1 => ("{\"type\":", "}", "\"int\""),
        2 => ("{\"type\":\"array\",\"items\":", "}", "\"int\""),
        3 => ("{\"type\":\"map\",\"values\":", "}", "\"int\""),
        _ => ("[\"null\",", "]", "\"int\""),
    };
    format!("{}{}{}", open.repeat(depth), core, close.repeat(depth))
}

fn cmd_gen(args: &Args) -> i32 {
    let seed = args.u64("seed", 1);
    let count = args.usize("count", 300);
    let mut r = Rng::new(seed ^ 0xC11);
    let mut out = open_out(args.req("out"));
    // deep nestings up to a stack-safe depth (unbounded depth is a stated non-goal)
    for kind in 0..5 {
        for depth in [1usize, 2, 10, 50, 100] {
            writeln!(out, "{}", json!({"src":"deep","text": nest(kind, depth)})).unwrap();
        }
    }
    for i in 0..count {
        let scn = match i % 4 {
            0 => {
                // raw bytes: arbitrary, or a JSON-ish alphabet, or a damaged schema text
                let n = r.below(40);
                let b: Vec<u8> = match r.below(3) {
                    0 => (0..n).map(|_| r.below(256) as u8).collect(),
                    1 => (0..n).map(|_| *r.pick(b"{}[]\",:0123456789.eE-+ntf\\ulsra ")).collect(),
                    _ => {
                        let mut t = near_schema(&mut r, 2, 0).to_string().into_bytes();
                        if !t.is_empty() {
                            match r.below(3) {
                                0 => t.truncate(r.below(t.len())),
                                1 => {
                                    let p = r.below(t.len());
                                    t[p] = r.below(256) as u8
                                }
                                _ => {
                                    let p = r.below(t.len());
                                    t.insert(p, *r.pick(b"{}[]\",:"))
                                }
                            }
                        }
                        t
                    }
                };
                json!({"src":"raw","bytes": bytes_j(&b)})
            }
            1 => json!({"src":"json","text": rand_json(&mut r, 3).to_string()}),
            2 => json!({"src":"near","text": near_schema(&mut r, 3, 30).to_string()}),
            _ => json!({"src":"near0","text": near_schema(&mut r, 3, 0).to_string()}),
        };
        writeln!(out, "{scn}").unwrap();
    }
    0
}

fn cmd_probe(args: &Args) -> i32 {
    let timeout = Duration::from_millis(args.u64("timeout-ms", 10_000));
    let stdin = std::io::stdin();
    let mut line = String::new();
    while {
        line.clear();
        stdin.read_line(&mut line).unwrap_or(0) > 0
    } {
        let t = line.trim_end_matches('\n');
        if t.is_empty() {
            continue;
        }
        let (obs, _) = observe(t.as_bytes(), timeout);
        let ops: Vec<String> = obs["parse"]
            .as_object()
            .unwrap()
            .iter()
            .map(|(k, v)| format!("{k}={}({})", v["out"].as_str().unwrap(), v["kind"].as_str().unwrap()))
            .chain(obs["post"].as_array().unwrap().iter().filter(|p| p["out"] != "ok" && p["out"] != "skip").map(|p| {
                format!("{}={}({})", p["op"].as_str().unwrap(), p["out"].as_str().unwrap(), p["kind"].as_str().unwrap())
            }))
            .collect();
        println!("{t}\n    {}", ops.join(" "));
    }
    0
}

fn main() {
    quiet_panics();
    let args = parse_args();
    let rc = match args.cmd.as_str() {
        "run" => cmd_run(&args),
        "child" => cmd_child(&args),
        "gen" => cmd_gen(&args),
        "probe" => cmd_probe(&args),
        other => {
            eprintln!("unknown command {other:?}");
            2
        }
    };
    std::process::exit(rc);
}
